// Package c04: the SEV-SNP golden measurement equals the AMD launch-digest definition.
//
// Differential check of sev.LaunchDigest / sev.UnsignedSnp against the independent model in
// props/c04/snpref over generated firmware images (own byte-level builder, image.go).
package c04

import (
	"bytes"
	"encoding/hex"
	"fmt"
	"math/rand/v2"
	"strings"
	"testing"

	"github.com/google/gce-tcb-verifier/sev"
	"github.com/google/gce-tcb-verifier/testing/fakeovmf"
	sgpb "github.com/google/go-sev-guest/proto/sevsnp"

	"verifharness/core"
	"verifharness/props/c04/snpref"
)

func init() {
	core.Register(&core.Info{
		ID: "C04", Level: "exploration",
		Rule: "case = one firmware image written byte by byte (size 4 KiB..4 MiB, random filler, GUIDed table with reset-block and metadata-offset entries in either order between 0..3 foreign entries, metadata header at the start / right before the table / anywhere, reset address from a boundary table) x 2-3 (vCPU count from {1,2,3, the 15 GCE counts, 255, 1000}, product Milan|Genoa) through sev.LaunchDigest (first combination twice) and, for a share of the images, sev.UnsignedSnp (one count or all 15). " +
			"Section lists: (a) directed enumeration, independent of the seed: malformed operator x variant x boundary position x kind pair x list order (overlap shapes at 0x1000, 0x801000, 0x7ffff000, 0x80000000, 0xff003000, 0xffffe000 and the last page below 4 GiB incl. ranges that end at or beyond 2^32; misaligned address; empty / non-page-multiple length; duplicate CPUID / secrets; missing kind; unknown kind) with well-formed controls (adjacent, gap, last page, address 0, range crossing 4 GiB); (b) random well-formed lists of 3..12 disjoint ranges anywhere in 32 bits; (c) a random well-formed list with one perturbation. Also the repository's 2 MiB example with all 15 counts on both products. (d) concurrent histories: 4|8|16 goroutines released on a barrier, each running 3-6 rounds of pre-drawn calls (both entry points, both products, all vCPU classes) on its own well-formed images, on two images shared by all goroutines and on shared malformed images; every call was also made alone beforehand. " +
			"(e) second directed enumeration, independent of the seed: one range of 9..65537 pages whose page count is not a power of two (and of 2^16, 2^18+1, 2^19, 2^19+1, 2^20-1 pages), low or ending exactly at 4 GiB, first or last in the list, per kind; lists of 13..1000 pairwise-disjoint ranges in non-monotonic address order with the mandatory kinds on the first or the last three entries; lists of 33..300 ranges with exactly one defect that involves only the last entries (identical / second-page overlap of the last two, last with fifth, duplicate CPUID / secrets, unknown kind, zero length, bad length, misaligned address). " +
			"(f) sequences: one caller makes 28-44 calls (both entry points, vCPU counts 1..300 and the table, both products) on sibling images (base; one filler byte / the reset address / the order of two ranges / the place of one range changed; one defect added; unrelated images of the same and of another size; ranges stretched to 1..300 pages) that are copied into ONE arena refilled in place or passed in buffers of their own, with ONE LaunchOptions and ONE SnpEndorsementRequest value kept for the whole history (only the fields that change are written) or fresh ones, refused calls (vCPU count < 1, malformed sibling) before good ones; results are kept as returned and compared again after every later call, a quarter of them is overwritten by the caller and the identical call made again. " +
			"(g) contents: a well-formed image of 5..40 pages in which 1..6 pages that hold neither the table nor the metadata are overwritten with the pages A and B of one pair, in a drawn pattern over neighbouring or scattered pages: A and B identical; constant (0x00, 0xff, ...) and one bit / one byte / another constant apart; one bit apart (first / last byte, word and half-page boundaries, anywhere); same byte histogram (two words swapped, rotated by one byte); different but with equal CRC-32 (IEEE, Castagnoli, Koopman), CRC-64 (ISO, ECMA) and XOR fold at once (difference from the common kernel, confined to 64 / 256 / 4096 bytes); with equal Adler-32, byte sum and 16/32/64-bit word sums; with equal FNV-1a-32, FNV-1-32, x31 and x33 string hash (equal first 4088 bytes, birthday search over the last 8); for a third of the cases A is the page that holds the GUIDed table or the metadata header and B shares its fingerprint. The arrangements mixed, all-A, letters swapped, all-B and mixed again are measured one after the other with one vCPU count and product (the first twice and with a second combination, a quarter also through sev.UnsignedSnp). " +
			"(h) cold start: the worker re-executes itself 6 times per case; in each fresh process the FIRST calls into the repository are made by 2..64 goroutines released on a barrier (a quarter of the processes: one call alone first), on one image shared by all, on own images of one size or of mixed sizes, with one drawn combination for everybody's first call or one per goroutine, both entry points, a malformed image among them; each goroutine then makes 0..2 more calls; the fresh process only reports what was returned, the parent judges. " +
			"Oracle: the image is re-parsed by the model (must equal the generator's spec); accepted (err==nil) => the parsed section list is in none of C04's malformed classes (64-bit arithmetic) and the digest equals the model's PAGE_INFO/SHA-384 chain; both calls agree; image and options unchanged; a concurrent call returns the model's digest, refuses malformed images and equals the same call made alone; in a sequence every call is judged by the same rules against what the caller last wrote into its options / request, and a result the caller kept still reads as returned after every later call; a call made in a fresh process returns the model's digest, refuses malformed images and equals the same call made in the warm worker. Rejections are counted, never judged. " +
			"non-trivial cell = (entry point, generator class, vCPU class, product, outcome) in which the tool accepted (digest compared) or the image was model-malformed (acceptance decided)",
		Assumptions: []string{
			"mandatory kinds are unmeasured (1), secrets (2) and CPUID (3), as the repository's own error texts name them; SVSM-CAA (4) is optional and measured as ZERO pages",
			"a declared range is [address, address+length) in 64-bit guest-physical space: a range that ends beyond 4 GiB is not by itself one of C04's malformed classes; overlap with the ROM range is not a named class either",
			"supported products are Milan (48 address bits) and Genoa (52); other product values and vCPU counts <= 0 are exercised and counted but not judged",
			"the VMSA reset state (segment attributes, EFER/CR0/CR4/DR6/DR7/G_PAT/RDX/XCR0/SEV_FEATURES, BSP rip 0xfff0 / cs.base 0xffff0000) is the GCE state documented in sev/ld_from_ovmf.go; the model lays it out with its own AMD APM offset table and is checked against the digest the repository's test suite pins",
			"images whose GUIDed table or metadata header is structurally broken are C08's subject and are not generated here",
		},
		ShardsQuick: 8, ShardsThor: 16, TimeoutS: 600, TimeoutThor: 3000, Run: run,
	})
}

// digest pinned by /repo/sev/sev_test.go TestLaunchDigest for fakeovmf.CleanExample(t, 0x1000), 1 vCPU, Milan.
const pinned4K = "301a56e0014065ed60a3c848ea0d3d0b2aa46f4bfea9ddeadbc602146d4c087851ab2c15d573f8b2a42ecc82d74c9db8"

type tbShim struct{ testing.TB }

func (tbShim) Helper()                   {}
func (tbShim) Fatalf(f string, a ...any) { panic(fmt.Sprintf(f, a...)) }

type combo struct {
	vcpus int
	prod  sgpb.SevProduct_SevProductName
	pname string
}

var gceCounts = []int{1, 2, 4, 8, 16, 24, 32, 48, 64, 80, 96, 112, 128, 224, 240}

func vcpuClass(n int) string {
	switch {
	case n <= 0:
		return "<=0"
	case n == 1:
		return "1"
	case n <= 3:
		return "2-3"
	case n >= 255:
		return ">=255"
	}
	return "gce"
}

func pickCombo(r *rand.Rand) combo {
	var v int
	switch x := r.IntN(20); {
	case x < 4:
		v = 1
	case x < 7:
		v = 2
	case x < 9:
		v = 3
	case x < 18:
		v = gceCounts[r.IntN(len(gceCounts))]
	case x < 19:
		v = 255
	default:
		v = 1000
	}
	if r.IntN(2) == 0 {
		return combo{v, sgpb.SevProduct_SEV_PRODUCT_MILAN, "Milan"}
	}
	return combo{v, sgpb.SevProduct_SEV_PRODUCT_GENOA, "Genoa"}
}

var resetTable = []uint32{0, 0xffffffff, 0xff0000ff, 0x0000ffff, 0xffff0000, 0x00010000, 0x8000fff0, 0x00000001, 0x12345678}

func pickReset(r *rand.Rand) uint32 {
	if r.IntN(3) == 0 {
		return r.Uint32()
	}
	return resetTable[r.IntN(len(resetTable))]
}

func pickPages(r *rand.Rand, small bool) int {
	if small {
		return 1 + r.IntN(4)
	}
	switch x := r.IntN(20); {
	case x < 5:
		return 1
	case x < 9:
		return 2
	case x < 15:
		return 3 + r.IntN(14)
	case x < 18:
		return 17 + r.IntN(112)
	default:
		return 129 + r.IntN(896) // up to 4 MiB
	}
}

type wl struct {
	c *core.Ctx

	acceptedImages  int
	selfcheckFailed int
	layouts         map[uint32]map[[2]uint32]struct{}
	classDecided    map[string]int
	multiVcpu       int
	genoa           int
	multiPageRom    int
	apSplit         int // accepted with >1 vCPUs and a reset address whose halves differ

	concCalls, concEqual, concRefused int

	seqEqual, seqSameSlot, seqAfterFailure, seqRepeat, seqSharedOpts, seqSharedReq, seqOddRange int
	longRangeEqual, manyRangesEqual, deepDecided                                                int

	contEqual                       map[string]int // per fingerprint family: accepted-equal with both pages of the pair in one image
	contStructEqual, contLaterEqual int

	coldChildren, coldCalls, coldEqual, coldFirstEqual, coldRefused int
}

func run(c *core.Ctx) {
	w := &wl{c: c, layouts: map[uint32]map[[2]uint32]struct{}{}, classDecided: map[string]int{}, contEqual: map[string]int{}}
	dir := buildDirected()
	nDir := len(dir)
	nEx := 2
	nWf := c.N(900, 14000)
	nMal := c.N(400, 5400)
	nConc := c.N(8, 64)
	// families added later are appended, so that the cases above keep their numbers and PRNG streams
	dir2 := buildDirected2()
	nDir2 := len(dir2)
	nSeq := c.N(64, 640)
	first2 := nDir + nEx + nWf + nMal + nConc
	nCont := c.N(300, 3000)
	first3 := first2 + nDir2 + nSeq
	nCold := c.N(24, 160)
	first4 := first3 + nCont
	n := first4 + nCold
	for i := 0; i < n; i++ {
		if !c.Mine(i) {
			continue
		}
		r := c.Rand(i)
		switch {
		case i < nDir:
			d := dir[i]
			sp := &spec{Size: 4096 * pickPages(r, true), Entries: randomTable(r), MetaPos: []string{"start", "before-table", "random", "page-straddle"}[r.IntN(4)],
				Version: 1, Reset: pickReset(r), Secs: d.secs}
			w.image(i, r, "directed:"+d.name, "directed:"+d.class, sp, 2, i%6 == 0)
			c.Count("cases/directed", 1)
		case i < nDir+nEx:
			w.example(i, i-nDir)
		case i < nDir+nEx+nWf:
			secs := wfLayout(r)
			sp := &spec{Size: 4096 * pickPages(r, false), Entries: randomTable(r), MetaPos: []string{"start", "before-table", "random", "random", "page-straddle"}[r.IntN(5)],
				Version: 1, Reset: pickReset(r), Secs: secs}
			if r.IntN(10) == 0 {
				sp.Version = []uint32{0, 2, 0xffffffff}[r.IntN(3)]
			}
			cls := "wellformed:" + layoutClass(secs)
			if r.IntN(50) == 0 {
				sp.Size += 8 * (1 + r.IntN(511)) // ROM that is not a whole number of pages: counted only
				cls = "rom-not-page-multiple"
			}
			w.image(i, r, fmt.Sprintf("wellformed#%d %s", i, layoutClass(secs)), cls, sp, 3, i%4 == 0)
			c.Count("cases/wellformed", 1)
		case i >= first4:
			w.cold(i, r)
		case i >= first3:
			w.contents(i, r, i-first3)
		case i >= first2+nDir2:
			w.sequence(i, r)
		case i >= first2:
			d := dir2[i-first2]
			pages := pickPages(r, true)
			if r.IntN(3) == 0 {
				pages = 8 + r.IntN(26)
			}
			if pages < d.minPages {
				pages = d.minPages
			}
			sp := &spec{Size: 4096 * pages, Entries: randomTable(r), MetaPos: []string{"start", "before-table", "random", "page-straddle"}[r.IntN(4)],
				Version: 1, Reset: pickReset(r), Secs: d.secs}
			ncombos := 2
			if d.huge {
				ncombos = 1
			}
			w.image(i, r, "directed2:"+d.name, "directed2:"+d.class, sp, ncombos, !d.huge && (i-first2)%5 == 0)
			c.Count("cases/directed2", 1)
		case i >= nDir+nEx+nWf+nMal:
			w.concurrent(i, r)
		default:
			op := randomOps[r.IntN(len(randomOps))]
			secs := perturb(r, wfLayout(r), op)
			sp := &spec{Size: 4096 * pickPages(r, true), Entries: randomTable(r), MetaPos: []string{"start", "before-table", "random"}[r.IntN(3)],
				Version: 1, Reset: pickReset(r), Secs: secs}
			w.image(i, r, fmt.Sprintf("perturbed#%d %s", i, op), "perturbed:"+op, sp, 2, i%8 == 0)
			c.Count("cases/perturbed", 1)
		}
	}
	if c.Only >= 0 {
		return // a replay decides by its violations only
	}
	// floors (OR-ed over shards: each shard must see its share)
	share := func(total int) int { return (total + c.NShards - 1) / c.NShards }
	c.Floor("model-reproduces-the-digest-pinned-by-the-repository-test-suite", w.pinnedOK())
	c.Floor("image-builder-selfcheck(model-parse==spec)", w.selfcheckFailed == 0)
	c.Floor("accepted-images>=100", w.acceptedImages >= share(100))
	two := true
	for k := uint32(1); k <= 4; k++ {
		if len(w.layouts[k]) < 2 {
			two = false
		}
	}
	c.Floor("accepted:>=2-distinct-ranges-per-kind", two)
	for _, cl := range []string{snpref.ClsUnknownKind, snpref.ClsEmpty, snpref.ClsMisaligned, snpref.ClsDuplicate, snpref.ClsMissing, snpref.ClsOverlap} {
		c.Floor("malformed-class-decided/"+cl, w.classDecided[cl] > 0)
	}
	c.Floor("accepted-with->1-vcpus-and-asymmetric-reset-address", w.apSplit > 0)
	c.Floor("concurrent-family-ran(accepted-equal-and-refusals-observed)", w.concCalls > 0 && w.concEqual > 0 && w.concRefused > 0)
	c.Floor("directed2:accepted-equal-with-a-range-of->=8-pages-not-a-power-of-two", w.longRangeEqual > 0)
	c.Floor("directed2:accepted-equal-with->=32-ranges", w.manyRangesEqual > 0)
	c.Floor("directed2:defect-in-the-tail-of-a-long-list-decided", w.deepDecided > 0)
	c.Floor("sequence:accepted-equal-on-an-arena-refilled-in-place", w.seqSameSlot > 0)
	c.Floor("sequence:accepted-equal-with-kept-options(same-count>1,other-reset-address)", w.seqSharedOpts > 0)
	c.Floor("sequence:accepted-equal-with-kept-request(other-image)", w.seqSharedReq > 0)
	c.Floor("sequence:accepted-equal-right-after-a-refused-call", w.seqAfterFailure > 0)
	c.Floor("sequence:accepted-equal-on-the-same-call-after-the-caller-overwrote-its-result", w.seqRepeat > 0)
	c.Floor("sequence:accepted-equal-with-a-range-of->=8-pages-not-a-power-of-two", w.seqOddRange > 0)
	for _, f := range contentFams {
		c.Floor("contents:accepted-equal-with-both-pages-of-a-pair-in-one-rom/"+f.name, w.contEqual[f.name] > 0)
	}
	c.Floor("contents:accepted-equal-with-a-page-that-shares-the-fingerprint-of-the-table-or-metadata-page", w.contStructEqual > 0)
	c.Floor("contents:accepted-equal-on-a-later-arrangement-of-the-same-pair", w.contLaterEqual > 0)
	c.Floor("cold-start:fresh-processes-ran-and-first-calls-released-together-were-accepted-equal(refusals-observed)", w.coldChildren > 0 && w.coldFirstEqual > 0 && w.coldRefused > 0)
	c.Floor("accepted-on-genoa", w.genoa > 0)
	c.Floor("accepted-rom-of->1-page", w.multiPageRom > 0)
}

func (w *wl) pinnedOK() bool {
	defer func() { recover() }()
	img := fakeovmf.CleanExample(tbShim{}, 0x1000)
	p, err := snpref.Parse(img)
	if err != nil || len(snpref.Classify(p.Secs)) != 0 {
		return false
	}
	return hex.EncodeToString(snpref.Digest(img, p.Secs, p.Reset, 1, snpref.ProductBits("Milan"))) == pinned4K
}

func sameSecs(a, b []sec) bool {
	if len(a) != len(b) {
		return false
	}
	for i := range a {
		if a[i] != b[i] {
			return false
		}
	}
	return true
}

type witness struct {
	Spec    *spec    `json:"image_spec"`
	Classes []string `json:"model_classes"`
	Vcpus   int      `json:"vcpus"`
	Product string   `json:"product"`
	Got     string   `json:"got,omitempty"`
	Want    string   `json:"want,omitempty"`
}

// image builds one image from its spec and runs the combinations on it.
func (w *wl) image(i int, r *rand.Rand, gen, gclass string, sp *spec, ncombos int, unsigned bool) {
	c := w.c
	if err := sp.place(r); err != nil {
		w.selfcheckFailed++
		c.Note("builder: %v", err)
		return
	}
	// decoys wherever there is room for them
	if dl := wfLayout(r); 16+12*len(dl) <= sp.MetaOff {
		sp.DecoySecs = dl
	} else if 16+12*3 <= sp.MetaOff {
		sp.DecoySecs = []sec{{Addr: 0x00a00000, Len: pg, Kind: 3}, {Addr: 0x00a10000, Len: 2 * pg, Kind: 1}, {Addr: 0x00a20000, Len: pg, Kind: 2}}
	}
	if sp.MetaOff+sp.metaLen() <= sp.Size-tableEndOffset-sp.tableSize()-22 {
		d := ^sp.Reset ^ 0x00010001&r.Uint32()
		sp.DecoyReset = &d
	}
	if len(sp.DecoySecs) > 0 {
		c.Count("images-with-decoy-metadata", 1)
	}
	if sp.DecoyReset != nil {
		c.Count("images-with-decoy-reset-block", 1)
	}
	img, err := sp.build(rand.New(rand.NewPCG(r.Uint64(), 4)))
	if err != nil {
		w.selfcheckFailed++
		c.Note("builder: %v", err)
		return
	}
	var input []byte
	if len(img) <= 32<<10 {
		input = img
	}
	c.Begin(i, gen, "sev.LaunchDigest", input)
	defer c.End(i)
	aligned := len(img)%4096 == 0
	parsed, perr := snpref.Parse(img)
	if perr != nil || parsed.Reset != sp.Reset || parsed.MetaOff != sp.MetaOff || parsed.Version != sp.Version || !sameSecs(parsed.Secs, sp.Secs) {
		w.selfcheckFailed++
		c.Note("selfcheck: model parse of case %d disagrees with its spec: %v", i, perr)
		return
	}
	classes := snpref.Classify(parsed.Secs)
	if i%97 == 0 {
		c.Sample(map[string]any{"case": i, "gen": gen, "size": len(img), "meta_off": sp.MetaOff, "table_bottom_up": sp.Entries, "reset": fmt.Sprintf("0x%x", sp.Reset),
			"sections": fmt.Sprint(sp.Secs), "model_classes": classes})
	}
	var prefix []byte
	want := func(co combo) []byte {
		if prefix == nil {
			prefix = snpref.Prefix(img, parsed.Secs)
		}
		return snpref.Finish(append([]byte(nil), prefix...), parsed.Reset, co.vcpus, snpref.ProductBits(co.pname))
	}
	before := append([]byte(nil), img...)
	accepted := false
	for k := 0; k < ncombos; k++ {
		co := pickCombo(r)
		got, err, ok := w.launch(i, gen, img, co)
		if !ok {
			continue
		}
		if k == 0 { // determinism
			got2, err2, ok2 := w.launch(i, gen, img, co)
			if ok2 && ((err == nil) != (err2 == nil) || !bytes.Equal(got, got2)) {
				c.Violate(core.Violation{Kind: "oracle", Entry: "sev.LaunchDigest", Site: "two-calls-differ", Gen: gen, Case: i,
					Detail:  fmt.Sprintf("first call: %x / %v; second call: %x / %v", got, err, got2, err2),
					Witness: witness{Spec: sp, Classes: classes, Vcpus: co.vcpus, Product: co.pname}})
			}
		}
		if !bytes.Equal(before, img) {
			c.Violate(core.Violation{Kind: "oracle", Entry: "sev.LaunchDigest", Site: "image-bytes-changed", Gen: gen, Case: i,
				Detail: "the firmware slice differs after the call", Witness: witness{Spec: sp, Classes: classes, Vcpus: co.vcpus, Product: co.pname}})
			copy(img, before)
		}
		if !aligned {
			c.Count(fmt.Sprintf("rom-not-page-multiple/accepted=%v", err == nil), 1)
			continue
		}
		if w.judge(i, "sev.LaunchDigest", gen, gclass, sp, classes, co, got, err, want) {
			accepted = true
		}
	}
	if accepted {
		w.acceptedImages++
		c.Count("accepted-images", 1)
		for _, s := range parsed.Secs {
			if w.layouts[s.Kind] == nil {
				w.layouts[s.Kind] = map[[2]uint32]struct{}{}
			}
			w.layouts[s.Kind][[2]uint32{s.Addr, s.Len}] = struct{}{}
		}
		if len(img) > 4096 {
			w.multiPageRom++
		}
	}
	if !aligned {
		return
	}
	// vCPU counts below one and an unsupported product: observed, not judged
	if i%10 == 0 {
		for _, v := range []int{0, -1, -1000} {
			_, err, ok := w.launch(i, gen, img, combo{v, sgpb.SevProduct_SEV_PRODUCT_MILAN, "Milan"})
			if ok {
				c.Count(fmt.Sprintf("vcpus<=0/accepted=%v", err == nil), 1)
				if err == nil {
					c.Note("LaunchDigest accepted vcpus=%d (not judged: C04 speaks about counts >= 1)", v)
				}
			}
		}
		_, err, ok := w.launch(i, gen, img, combo{1, sgpb.SevProduct_SEV_PRODUCT_UNKNOWN, "Unknown"})
		if ok {
			c.Count(fmt.Sprintf("unsupported-product/accepted=%v", err == nil), 1)
		}
	}
	if unsigned {
		co := pickCombo(r)
		if r.IntN(4) == 0 && len(img) <= 64<<10 {
			co.vcpus = 0 // all GCE counts
		}
		w.unsigned(i, gen, gclass, sp, img, before, classes, co, want)
	}
}

func (w *wl) launch(i int, gen string, img []byte, co combo) (got []byte, err error, ok bool) {
	c := w.c
	opts := &sev.LaunchOptions{Vcpus: co.vcpus, Product: co.prod}
	m := c.Guard(i, "sev.LaunchDigest", gen, core.Budget{}, func() {
		got, err = sev.LaunchDigest(opts, img)
	})
	if m.Panicked {
		return nil, nil, false
	}
	got = append([]byte(nil), got...) // the result may alias state a later call overwrites
	if opts.Vcpus != co.vcpus || opts.Product != co.prod {
		c.Oracle(i, "sev.LaunchDigest", "options-changed", gen, "options after the call: %+v, before: vcpus=%d product=%v", opts, co.vcpus, co.prod)
	}
	return got, err, true
}

// judge applies the oracle to one (image, combination) result. It returns whether the tool accepted.
func (w *wl) judge(i int, entry, gen, gclass string, sp *spec, classes []string, co combo, got []byte, err error, want func(combo) []byte) bool {
	c := w.c
	vc := vcpuClass(co.vcpus)
	if err != nil {
		if len(classes) == 0 {
			c.Count("rejected-model-valid/"+entry, 1)
			c.Note("rejected although model-valid (counted, not judged): %s: %.160s", gclass, err.Error())
			c.Cell("%s|%s|%s|%s|rejected-model-valid", entry, gclass, vc, co.pname)
		} else {
			for _, cl := range classes {
				w.classDecided[cl]++
			}
			if strings.HasPrefix(gclass, "directed2:deep/") {
				w.deepDecided++
			}
			c.Count("rejected-malformed/"+classes[0]+"/"+entry, 1)
			c.Cell("%s|%s|%s|%s|rejected:%s", entry, gclass, vc, co.pname, classes[0])
		}
		return false
	}
	if len(classes) > 0 {
		for _, cl := range classes {
			w.classDecided[cl]++
		}
		if strings.HasPrefix(gclass, "directed2:deep/") {
			w.deepDecided++
		}
		c.Violate(core.Violation{Kind: "oracle", Entry: entry, Site: "accepted-malformed:" + classes[0], Gen: gen, Case: i,
			Detail:  fmt.Sprintf("digest %x returned for an image whose SNP metadata is malformed (%v): sections %v (vcpus=%d %s)", got, classes, sp.Secs, co.vcpus, co.pname),
			Witness: witness{Spec: sp, Classes: classes, Vcpus: co.vcpus, Product: co.pname, Got: hex.EncodeToString(got)}})
		c.Count("ACCEPTED-MALFORMED/"+classes[0]+"/"+entry, 1)
		c.Cell("%s|%s|%s|%s|ACCEPTED-MALFORMED:%s", entry, gclass, vc, co.pname, classes[0])
		return true
	}
	exp := want(co)
	if !bytes.Equal(got, exp) {
		c.Violate(core.Violation{Kind: "oracle", Entry: entry, Site: "digest-differs-from-reference", Gen: gen, Case: i,
			Detail:  fmt.Sprintf("vcpus=%d %s rom=%d bytes reset=0x%x sections=%v: got %x, AMD definition gives %x", co.vcpus, co.pname, sp.Size, sp.Reset, sp.Secs, got, exp),
			Witness: witness{Spec: sp, Vcpus: co.vcpus, Product: co.pname, Got: hex.EncodeToString(got), Want: hex.EncodeToString(exp)}})
		c.Cell("%s|%s|%s|%s|DIGEST-DIFFERS", entry, gclass, vc, co.pname)
		return true
	}
	c.Count(fmt.Sprintf("accepted-equal/%s/vcpus=%d", entry, co.vcpus), 1)
	c.Count(fmt.Sprintf("accepted-equal/%s/%s", entry, co.pname), 1)
	c.Cell("%s|%s|%s|%s|accepted-equal", entry, gclass, vc, co.pname)
	c.Max("rom-pages-accepted", int64(sp.Size/4096))
	c.Max("sections-accepted", int64(len(sp.Secs)))
	if strings.HasPrefix(gclass, "directed2:") {
		if len(sp.Secs) >= 32 {
			w.manyRangesEqual++
			c.Count("directed2/accepted-equal/>=32-ranges", 1)
		}
		for _, s := range sp.Secs {
			c.Max("pages-in-one-range-accepted", int64(s.Len/pg))
			if p := s.Len / pg; p >= 8 && p&(p-1) != 0 {
				w.longRangeEqual++
				c.Count("directed2/accepted-equal/range-of->=8-pages-not-a-power-of-two", 1)
				break
			}
		}
	}
	if co.vcpus > 1 {
		w.multiVcpu++
		if sp.Reset&0xffff != 0 && sp.Reset>>16 != 0 && sp.Reset&0xffff != sp.Reset>>16 {
			w.apSplit++
		}
	}
	if co.pname == "Genoa" {
		w.genoa++
	}
	return true
}

// unsigned runs sev.UnsignedSnp (co.vcpus == 0: all GCE counts) and judges every returned measurement.
func (w *wl) unsigned(i int, gen, gclass string, sp *spec, img, before []byte, classes []string, co combo, want func(combo) []byte) {
	c := w.c
	req := &sev.SnpEndorsementRequest{Svn: 1, ImageID: "00000000-0000-4000-8000-000000000001", LaunchVmsas: uint32(co.vcpus), Product: co.prod}
	var ms map[uint32][]byte
	var err error
	m := c.Guard(i, "sev.UnsignedSnp", gen, core.Budget{}, func() {
		r, e := sev.UnsignedSnp(img, req)
		err = e
		if e == nil {
			ms = r.GetMeasurements()
		}
	})
	if m.Panicked {
		return
	}
	if !bytes.Equal(before, img) {
		c.Oracle(i, "sev.UnsignedSnp", "image-bytes-changed", gen, "the firmware slice differs after the call")
		copy(img, before)
	}
	w.judgeTable(i, gen, gclass, sp, classes, co, ms, err, want)
}

// judgeTable judges the measurement table (or the error) of one sev.UnsignedSnp call made for
// co.vcpus launch VMSAs (0: all GCE counts) on co's product.
func (w *wl) judgeTable(i int, gen, gclass string, sp *spec, classes []string, co combo, ms map[uint32][]byte, err error, want func(combo) []byte) (acceptedEqual bool) {
	c := w.c
	counts := []int{co.vcpus}
	if co.vcpus == 0 {
		counts = gceCounts
	}
	if err != nil {
		w.judge(i, "sev.UnsignedSnp", gen, gclass, sp, classes, combo{counts[0], co.prod, co.pname}, nil, err, want)
		return false
	}
	acceptedEqual = len(classes) == 0
	if len(ms) != len(counts) {
		c.Oracle(i, "sev.UnsignedSnp", "measurement-table-keys", gen, "requested launch_vmsas=%d, got %d measurements (want %d)", co.vcpus, len(ms), len(counts))
		acceptedEqual = false
	}
	for _, n := range counts {
		got, ok := ms[uint32(n)]
		if !ok {
			c.Oracle(i, "sev.UnsignedSnp", "measurement-table-keys", gen, "no measurement for %d VMSAs (requested launch_vmsas=%d)", n, co.vcpus)
			acceptedEqual = false
			continue
		}
		w.judge(i, "sev.UnsignedSnp", gen, gclass, sp, classes, combo{n, co.prod, co.pname}, got, nil, want)
		if len(classes) == 0 && !bytes.Equal(got, want(combo{n, co.prod, co.pname})) {
			acceptedEqual = false
		}
	}
	c.Eval(len(counts) - 1) // LaunchDigest runs once per count inside
	return acceptedEqual
}

// example runs the repository's own 2 MiB example image with all 15 GCE counts (UnsignedSnp) and a
// few extra counts (LaunchDigest) on one product.
func (w *wl) example(i int, which int) {
	c := w.c
	co := combo{0, sgpb.SevProduct_SEV_PRODUCT_MILAN, "Milan"}
	if which == 1 {
		co = combo{0, sgpb.SevProduct_SEV_PRODUCT_GENOA, "Genoa"}
	}
	gen := "repository-example-2MiB/" + co.pname
	c.Begin(i, gen, "sev.UnsignedSnp", nil)
	defer c.End(i)
	var img []byte
	func() {
		defer func() {
			if r := recover(); r != nil {
				c.Note("fakeovmf.CleanExample: %v", r)
			}
		}()
		img = fakeovmf.CleanExample(tbShim{}, 2<<20)
	}()
	if img == nil {
		w.selfcheckFailed++
		return
	}
	parsed, err := snpref.Parse(img)
	if err != nil {
		w.selfcheckFailed++
		c.Note("model cannot parse the repository example: %v", err)
		return
	}
	classes := snpref.Classify(parsed.Secs)
	sp := &spec{Size: len(img), Reset: parsed.Reset, Secs: parsed.Secs, MetaOff: parsed.MetaOff, MetaPos: "fakeovmf", Version: parsed.Version}
	var prefix []byte
	want := func(co combo) []byte {
		if prefix == nil {
			prefix = snpref.Prefix(img, parsed.Secs)
		}
		return snpref.Finish(append([]byte(nil), prefix...), parsed.Reset, co.vcpus, snpref.ProductBits(co.pname))
	}
	before := append([]byte(nil), img...)
	w.unsigned(i, gen, "repository-example", sp, img, before, classes, co, want)
	for _, v := range []int{1, 3, 7, 255, 1000} {
		cv := combo{v, co.prod, co.pname}
		got, err, ok := w.launch(i, gen, img, cv)
		if ok {
			w.judge(i, "sev.LaunchDigest", gen, "repository-example", sp, classes, cv, got, err, want)
		}
	}
	c.Sample(map[string]any{"case": i, "gen": gen, "sections": fmt.Sprint(parsed.Secs), "reset": fmt.Sprintf("0x%x", parsed.Reset)})
}
