package c04

import (
	"bytes"
	"context"
	"encoding/hex"
	"encoding/json"
	"fmt"
	"math/rand/v2"
	"os"
	"os/exec"
	"regexp"
	"runtime/debug"
	"sync"
	"time"

	"github.com/google/gce-tcb-verifier/sev"
	sgpb "github.com/google/go-sev-guest/proto/sevsnp"

	"verifharness/core"
	"verifharness/props/c04/snpref"
)

// Cold-start family (appended after the contents family). "The computation is deterministic" and the
// digest definition hold for every call, also for the FIRST measurements a process makes. Every
// other family runs in a worker process that has long been warmed up by earlier cases (and the
// concurrent family makes each call alone before it makes it concurrently), so nothing the
// repository sets up lazily on first use (a parsed template, a table, a cache, a pool) was ever
// observed while it was being set up. A service that endorses several images in parallel right
// after start-up does exactly that.
//
// One case: the parent draws images (own / shared / same-size / malformed) and a plan, and runs it
// in K FRESH child processes (the worker re-executes itself; the child branch is taken in init()
// before anything of the repository has been called). In a child the very first calls into the
// repository are made by G goroutines released together on a barrier (plan "burst"), or by one
// caller alone and then by the G goroutines ("single-then-burst"); each goroutine then makes its
// remaining calls. The child only reports what the calls returned; the parent judges every
// result against the model by the rules of the other families, and against the same call made in
// the (warm) parent process.

const coldEnv = "VERIF_C04_COLD_CHILD"

type coldJob struct {
	Img      int  `json:"img"`
	Vcpus    int  `json:"vcpus"`
	Prod     int  `json:"prod"`
	Unsigned bool `json:"unsigned"`
}

type coldPlan struct {
	Images [][]byte    `json:"images"`
	Single []coldJob   `json:"single"` // made alone before the burst
	Burst  [][]coldJob `json:"burst"`  // one list per goroutine
}

type coldRes struct {
	M     map[uint32][]byte `json:"m,omitempty"`
	Err   string            `json:"err,omitempty"`
	Panic string            `json:"panic,omitempty"`
	Site  string            `json:"site,omitempty"`
}

type coldOut struct {
	Single  []coldRes   `json:"single"`
	Burst   [][]coldRes `json:"burst"`
	Changed []int       `json:"changed"` // images whose bytes differ after all calls
}

func init() {
	if os.Getenv(coldEnv) == "1" {
		coldChild()
		os.Exit(0)
	}
}

func coldExec(j coldJob, img []byte) (res coldRes) {
	defer func() {
		if p := recover(); p != nil {
			res = coldRes{Panic: fmt.Sprint(p), Site: core.PanicSite(debug.Stack())}
		}
	}()
	if j.Unsigned {
		r, err := sev.UnsignedSnp(img, &sev.SnpEndorsementRequest{Svn: 1, ImageID: "00000000-0000-4000-8000-000000000001",
			LaunchVmsas: uint32(j.Vcpus), Product: sgpb.SevProduct_SevProductName(j.Prod)})
		if err != nil {
			return coldRes{Err: err.Error()}
		}
		out := map[uint32][]byte{}
		for k, v := range r.GetMeasurements() {
			out[k] = append([]byte(nil), v...)
		}
		return coldRes{M: out}
	}
	d, err := sev.LaunchDigest(&sev.LaunchOptions{Vcpus: j.Vcpus, Product: sgpb.SevProduct_SevProductName(j.Prod)}, img)
	if err != nil {
		return coldRes{Err: err.Error()}
	}
	return coldRes{M: map[uint32][]byte{uint32(j.Vcpus): append([]byte(nil), d...)}}
}

// coldChild is the whole life of a child process: read the plan, make the calls, report.
func coldChild() {
	var plan coldPlan
	if err := json.NewDecoder(os.Stdin).Decode(&plan); err != nil {
		fmt.Fprintln(os.Stderr, "cold child: plan:", err)
		os.Exit(2)
	}
	before := make([][]byte, len(plan.Images))
	for k, im := range plan.Images {
		before[k] = append([]byte(nil), im...)
	}
	out := coldOut{Burst: make([][]coldRes, len(plan.Burst))}
	for _, j := range plan.Single {
		out.Single = append(out.Single, coldExec(j, plan.Images[j.Img]))
	}
	var ready, done sync.WaitGroup
	start := make(chan struct{})
	for t := range plan.Burst {
		out.Burst[t] = make([]coldRes, len(plan.Burst[t]))
		ready.Add(1)
		done.Add(1)
		go func(t int) {
			defer done.Done()
			ready.Done()
			<-start
			for k, j := range plan.Burst[t] {
				out.Burst[t][k] = coldExec(j, plan.Images[j.Img])
			}
		}(t)
	}
	ready.Wait()
	close(start)
	done.Wait()
	for k := range plan.Images {
		if !bytes.Equal(before[k], plan.Images[k]) {
			out.Changed = append(out.Changed, k)
		}
	}
	if err := json.NewEncoder(os.Stdout).Encode(&out); err != nil {
		fmt.Fprintln(os.Stderr, "cold child: report:", err)
		os.Exit(2)
	}
}

var coldFatalRE = regexp.MustCompile(`(?m)^(fatal error: concurrent map [^\n]*|panic: [^\n]*)$`)

// coldSpawn runs one plan in a fresh process. ok=false: the child could not be run to its report
// (not judged, counted), unless it died of a Go panic / concurrent map access (fatal != "").
func coldSpawn(plan *coldPlan) (out *coldOut, fatal, stderr string, ok bool) {
	exe, err := os.Executable()
	if err != nil {
		return nil, "", err.Error(), false
	}
	in, err := json.Marshal(plan)
	if err != nil {
		return nil, "", err.Error(), false
	}
	ctx, cancel := context.WithTimeout(context.Background(), 120*time.Second) // only bounds a hung child; such a child is not judged
	defer cancel()
	cmd := exec.CommandContext(ctx, exe)
	cmd.Env = append(os.Environ(), coldEnv+"=1")
	cmd.Stdin = bytes.NewReader(in)
	var so, se bytes.Buffer
	cmd.Stdout, cmd.Stderr = &so, &se
	if err := cmd.Run(); err != nil {
		if m := coldFatalRE.FindString(se.String()); m != "" {
			return nil, m, se.String(), false
		}
		return nil, "", fmt.Sprintf("%v: %.300s", err, se.String()), false
	}
	out = &coldOut{}
	if err := json.Unmarshal(so.Bytes(), out); err != nil {
		return nil, "", "report: " + err.Error(), false
	}
	if len(out.Single) != len(plan.Single) || len(out.Burst) != len(plan.Burst) {
		return nil, "", "report: shape", false
	}
	for t := range plan.Burst {
		if len(out.Burst[t]) != len(plan.Burst[t]) {
			return nil, "", "report: shape", false
		}
	}
	return out, "", "", true
}

func coldCounts(j coldJob) []int {
	if j.Unsigned && j.Vcpus == 0 {
		return gceCounts
	}
	return []int{j.Vcpus}
}

func prodName(p int) string {
	if sgpb.SevProduct_SevProductName(p) == sgpb.SevProduct_SEV_PRODUCT_GENOA {
		return "Genoa"
	}
	return "Milan"
}

func (w *wl) cold(i int, r *rand.Rand) {
	c := w.c
	g := []int{2, 4, 8, 16, 16, 32, 64}[r.IntN(7)]
	arrangement := []string{"one-image", "one-image", "same-size", "mixed"}[r.IntN(4)]
	children := 6
	gen := fmt.Sprintf("cold-start#%d goroutines=%d images=%s", i, g, arrangement)
	c.Begin(i, gen, "sev.LaunchDigest+sev.UnsignedSnp (first calls of a fresh process)", nil)
	defer c.End(i)

	// images
	var ims []*cimage
	add := func(im *cimage) int {
		if im == nil {
			return -1
		}
		ims = append(ims, im)
		return len(ims) - 1
	}
	pages := 1 + r.IntN(4)
	shared := add(w.cimage(r, "shared", wfLayout(r), pages))
	op := randomOps[r.IntN(len(randomOps))]
	bad := -1
	if im := w.cimage(r, "malformed:"+op, perturb(r, wfLayout(r), op), 1+r.IntN(4)); im != nil && len(im.classes) > 0 {
		bad = add(im)
	}
	if shared < 0 {
		return
	}
	own := make([]int, g)
	for t := range own {
		switch arrangement {
		case "one-image":
			own[t] = shared
		case "same-size":
			own[t] = add(w.cimage(r, fmt.Sprintf("own%d", t), wfLayout(r), pages))
		default:
			own[t] = add(w.cimage(r, fmt.Sprintf("own%d", t), wfLayout(r), 1+r.IntN(16)))
		}
		if own[t] < 0 {
			own[t] = shared
		}
	}
	plan := &coldPlan{}
	for _, im := range ims {
		plan.Images = append(plan.Images, im.img)
	}
	job := func(img int, first bool) coldJob {
		co := pickCombo(r)
		if first && r.IntN(2) == 0 {
			co.vcpus = 1 + r.IntN(2) // the cheapest calls arrive together
		}
		j := coldJob{Img: img, Vcpus: co.vcpus, Prod: int(co.prod)}
		if r.IntN(5) == 0 {
			j.Unsigned = true
			if r.IntN(3) == 0 {
				j.Vcpus = 0
			}
		}
		return j
	}
	// one combination for everybody's first call in half of the cases (all goroutines reach every
	// stage of the computation at the same moment), drawn per goroutine otherwise
	common := job(shared, true)
	sameFirst := r.IntN(2) == 0
	plan.Burst = make([][]coldJob, g)
	for t := 0; t < g; t++ {
		f := job(own[t], true)
		if sameFirst {
			f = common
			f.Img = own[t]
		}
		if bad >= 0 && r.IntN(12) == 0 {
			f.Img = bad // a refusal among the first calls
		}
		plan.Burst[t] = append(plan.Burst[t], f)
		for k := r.IntN(3); k > 0; k-- {
			img := own[t]
			switch x := r.IntN(6); {
			case x == 0:
				img = shared
			case x == 1 && bad >= 0:
				img = bad
			}
			plan.Burst[t] = append(plan.Burst[t], job(img, false))
		}
	}
	// per child: burst right away, or one call alone first (drawn now, so that the case is a
	// function of c.Rand(i) only)
	type variant struct{ single []coldJob }
	vars := make([]variant, children)
	for k := range vars {
		if r.IntN(4) == 0 {
			img := shared
			if bad >= 0 && r.IntN(4) == 0 {
				img = bad
			}
			vars[k].single = []coldJob{job(img, true)}
		}
	}

	// the same calls in this (warm) process
	warm := map[coldJob]coldRes{}
	warmOf := func(j coldJob) (coldRes, bool) {
		if v, ok := warm[j]; ok {
			return v, true
		}
		var v coldRes
		m := c.Guard(i, entryOf(j), gen, core.Budget{}, func() { v = coldExec(j, ims[j.Img].img) })
		if m.Panicked || v.Panic != "" {
			if v.Panic != "" {
				c.Violate(core.Violation{Kind: "panic", Entry: entryOf(j), Site: v.Site, Gen: gen, Case: i, Detail: v.Panic})
			}
			return v, false
		}
		if !bytes.Equal(ims[j.Img].img, ims[j.Img].before) {
			c.Oracle(i, entryOf(j), "image-bytes-changed", gen, "image %s differs after the call", ims[j.Img].id)
			copy(ims[j.Img].img, ims[j.Img].before)
		}
		warm[j] = v
		return v, true
	}

	judge := func(child int, where string, t int, first bool, j coldJob, res coldRes) {
		en, im := entryOf(j), ims[j.Img]
		pname := prodName(j.Prod)
		wit := witness{Spec: im.sp, Classes: im.classes, Vcpus: j.Vcpus, Product: pname}
		w.coldCalls++
		if res.Panic != "" {
			c.Violate(core.Violation{Kind: "panic", Entry: en + " (cold start)", Site: res.Site, Gen: gen, Case: i, Detail: res.Panic, Witness: wit})
			return
		}
		pos := "later"
		if first {
			pos = "first"
		}
		malformed := len(im.classes) > 0
		vc := vcpuClass(j.Vcpus)
		if j.Unsigned && j.Vcpus == 0 {
			vc = "all-gce"
		}
		switch {
		case res.Err == "" && malformed:
			c.Violate(core.Violation{Kind: "oracle", Entry: en, Site: "cold-start-accepted-malformed", Gen: gen, Case: i,
				Detail:  fmt.Sprintf("fresh process %d, %s, goroutine %d: %s accepted image %s whose SNP metadata is malformed (%v): %v", child, where, t, en, im.id, im.classes, im.sp.Secs),
				Witness: wit})
		case res.Err == "":
			ok := len(res.M) == len(coldCounts(j))
			var got, want []byte
			bn := 0
			for _, n := range coldCounts(j) {
				bn = n
				want = snpref.Finish(append([]byte(nil), im.prefix...), im.parsed.Reset, n, snpref.ProductBits(pname))
				got = res.M[uint32(n)]
				if !bytes.Equal(got, want) {
					ok = false
					break
				}
			}
			if !ok {
				wit.Got, wit.Want = hex.EncodeToString(got), hex.EncodeToString(want)
				c.Violate(core.Violation{Kind: "oracle", Entry: en, Site: "cold-start-call-differs-from-reference", Gen: gen, Case: i,
					Detail: fmt.Sprintf("fresh process %d, %s, goroutine %d of %d (%s call of the goroutine), image %s (%d pages), vcpus=%d %s: got %x, AMD definition gives %x",
						child, where, t, g, pos, im.id, im.sp.Size/4096, bn, pname, got, want),
					Witness: wit})
				c.Cell("%s|cold-start/%s/%s|%s|%s|DIGEST-DIFFERS", en, where, pos, vc, pname)
			} else {
				w.coldEqual++
				if first && where == "burst" {
					w.coldFirstEqual++
				}
				c.Count("cold-start/accepted-equal/"+where+"/"+pos+"/"+en, 1)
				c.Cell("%s|cold-start/%s/%s/%s/g=%d|%s|%s|accepted-equal", en, where, pos, arrangement, g, vc, pname)
			}
		case malformed:
			w.coldRefused++
			c.Count("cold-start/rejected-malformed/"+im.classes[0], 1)
			c.Cell("%s|cold-start/%s/%s|%s|%s|rejected:%s", en, where, pos, vc, pname, im.classes[0])
		default:
			c.Count("cold-start/rejected-model-valid/"+en, 1)
		}
		if wv, ok := warmOf(j); ok {
			same := (wv.Err == "") == (res.Err == "") && len(wv.M) == len(res.M)
			for k, v := range wv.M {
				if !bytes.Equal(v, res.M[k]) {
					same = false
				}
			}
			if !same {
				c.Violate(core.Violation{Kind: "oracle", Entry: en, Site: "cold-start-call-differs-from-the-same-call-in-a-warm-process", Gen: gen, Case: i,
					Detail: fmt.Sprintf("fresh process %d, %s, goroutine %d of %d, image %s, launch_vmsas=%d %s: fresh process %s; warm process %s", child, where, t, g, im.id, j.Vcpus, pname,
						fmtColdRes(res), fmtColdRes(wv)),
					Witness: wit})
			}
		}
	}

	for k := 0; k < children; k++ {
		plan.Single = vars[k].single
		out, fatal, errText, ok := coldSpawn(plan)
		if fatal != "" {
			c.Violate(core.Violation{Kind: "panic", Entry: "sev.LaunchDigest+sev.UnsignedSnp (cold start)", Site: core.PanicSite([]byte(errText)), Gen: gen, Case: i,
				Detail: fmt.Sprintf("fresh process %d died: %s", k, fatal)})
			continue
		}
		if !ok {
			c.Count("cold-start/child-not-run-to-its-report(not judged)", 1)
			c.Note("cold-start child not judged: %.200s", errText)
			continue
		}
		w.coldChildren++
		c.Count("cold-start/fresh-processes", 1)
		where := "burst"
		if len(plan.Single) > 0 {
			where = "burst-after-one-call"
			c.Count("cold-start/fresh-processes/one-call-alone-first", 1)
		}
		n := 0
		for q, j := range plan.Single {
			judge(k, "alone", 0, q == 0, j, out.Single[q])
			n += len(coldCounts(j))
		}
		for t := range plan.Burst {
			for q, j := range plan.Burst[t] {
				judge(k, where, t, q == 0, j, out.Burst[t][q])
				n += len(coldCounts(j))
			}
		}
		c.Eval(n)
		for _, x := range out.Changed {
			if x >= 0 && x < len(ims) {
				c.Oracle(i, "sev.LaunchDigest", "image-bytes-changed", gen, "fresh process %d: image %s differs after the calls", k, ims[x].id)
			}
		}
	}
	c.Max("cold-start/goroutines", int64(g))
	c.Count("cold-start/cases", 1)
}

func entryOf(j coldJob) string {
	if j.Unsigned {
		return "sev.UnsignedSnp"
	}
	return "sev.LaunchDigest"
}

func fmtColdRes(r coldRes) string {
	if r.Err != "" {
		return "error: " + r.Err
	}
	return fmtRes(r.M, nil)
}
