package c04

import (
	"bytes"
	"fmt"
	"math/rand/v2"
	"sort"

	"github.com/google/gce-tcb-verifier/sev"
	sgpb "github.com/google/go-sev-guest/proto/sevsnp"

	"verifharness/core"
	"verifharness/props/c04/snpref"
)

// Sequence family: one case is a history of 28..44 calls made by ONE caller the way a long-lived
// service would make them:
//
//   - the firmware lives in one arena that is refilled in place (same address, same length, other
//     contents) — next to calls on images in buffers of their own;
//   - one sev.LaunchOptions and one sev.SnpEndorsementRequest value are kept for the whole history and
//     only the fields that change are written before a call — next to calls with fresh values;
//   - the images of a history are siblings: a base image, copies of it that differ in one filler byte,
//     in the reset-block address only, in the order of two ranges, in the place of one range, in one
//     defect (malformed sibling), and unrelated images of the same and of another size;
//   - calls that fail early (vCPU count below one) or part-way (malformed sibling) precede good calls;
//   - results are kept as returned (never copied); some are overwritten by the caller, after which the
//     identical call is made again; every kept result is compared again after every later call.
//
// Every call is judged by the rules of the other families (model digest / malformed classes); what
// the caller asked for is what the caller last wrote into the options / request.

type simage struct {
	kind     string
	sp       *spec
	pristine []byte
	own      []byte
	parsed   *snpref.Parsed
	classes  []string
	prefix   []byte
}

func (im *simage) want(co combo) []byte {
	if im.prefix == nil {
		im.prefix = snpref.Prefix(im.pristine, im.parsed.Secs)
	}
	return snpref.Finish(append([]byte(nil), im.prefix...), im.parsed.Reset, co.vcpus, snpref.ProductBits(co.pname))
}

// stretch gives some ranges of a well-formed list an arbitrary page count (1..300) where that keeps
// the list pairwise disjoint.
func stretch(r *rand.Rand, secs []sec) []sec {
	out := append([]sec(nil), secs...)
	for j := range out {
		if r.IntN(3) != 0 {
			continue
		}
		l := uint64(1+r.IntN(300)) * pg
		others := append(append([]sec(nil), out[:j]...), out[j+1:]...)
		if disjoint(others, uint64(out[j].Addr), l) {
			out[j].Len = uint32(l)
		}
	}
	return out
}

// seqImage builds the image of a placed spec with the given filler seed; flip >= 0 inverts that byte afterwards.
func (w *wl) seqImage(kind string, sp *spec, fill uint64, flip int) *simage {
	img, err := sp.build(rand.New(rand.NewPCG(fill, 6)))
	if err != nil {
		return nil
	}
	if flip >= 0 {
		img[flip] ^= 0xff
	}
	p, perr := snpref.Parse(img)
	if perr != nil || p.Reset != sp.Reset || p.MetaOff != sp.MetaOff || !sameSecs(p.Secs, sp.Secs) {
		w.selfcheckFailed++
		w.c.Note("selfcheck: model parse of a sequence image (%s) disagrees with its spec: %v", kind, perr)
		return nil
	}
	return &simage{kind: kind, sp: sp, pristine: img, own: append([]byte(nil), img...), parsed: p, classes: snpref.Classify(p.Secs)}
}

func cloneSpec(sp *spec) *spec {
	n := *sp
	n.Secs = append([]sec(nil), sp.Secs...)
	n.Entries = append([]entry(nil), sp.Entries...)
	return &n
}

// sibling derives an image that differs from base in one respect only (same size, same table
// arrangement, same filler).
func (w *wl) sibling(r *rand.Rand, base *simage, fill uint64, how string) *simage {
	sp := cloneSpec(base.sp)
	flip := -1
	switch how {
	case "sib-filler":
		tableStart := sp.Size - tableEndOffset - sp.tableSize()
		for try := 0; try < 40 && flip < 0; try++ {
			o := r.IntN(tableStart)
			if o < sp.MetaOff || o >= sp.MetaOff+sp.metaLen() {
				flip = o
			}
		}
		if flip < 0 {
			return nil
		}
	case "sib-reset":
		sp.Reset ^= 1<<uint(r.IntN(16)) | 1<<uint(16+r.IntN(16))
	case "sib-order":
		a := r.IntN(len(sp.Secs))
		b := (a + 1 + r.IntN(len(sp.Secs)-1)) % len(sp.Secs)
		sp.Secs[a], sp.Secs[b] = sp.Secs[b], sp.Secs[a]
	case "sib-moved":
		j := r.IntN(len(sp.Secs))
		sp.Secs[j].Addr, sp.Secs[j].Len = freePage(r, sp.Secs), pg
	case "malformed":
		op := randomOps[r.IntN(len(randomOps))]
		sp.Secs = perturb(r, sp.Secs, op)
		how = "malformed:" + op
		if sp.MetaOff+sp.metaLen() > sp.Size-tableEndOffset-sp.tableSize() {
			sp.MetaOff = 0 // the list grew by one entry and no longer fits where it was
		}
	}
	im := w.seqImage(how, sp, fill, flip)
	if im != nil && how[0] == 'm' && len(im.classes) == 0 {
		return nil
	}
	return im
}

type keptDigest struct {
	step  int
	entry string
	desc  string
	got   []byte // as returned: never copied
	want  []byte
}

type keptTable struct {
	step int
	desc string
	m    map[uint32][]byte
	n    int
}

func (w *wl) sequence(i int, r *rand.Rand) {
	c := w.c
	steps := 28 + r.IntN(17)
	gen := fmt.Sprintf("sequence#%d steps=%d", i, steps)
	c.Begin(i, gen, "sev.LaunchDigest+sev.UnsignedSnp (one caller, reused arena / options / request)", nil)
	defer c.End(i)

	// ----- the images of this history
	pages := 1 + r.IntN(6)
	if r.IntN(3) == 0 {
		pages = 9 + r.IntN(32)
	}
	mk := func(kind string, pages int, secs []sec) *simage {
		sp := &spec{Size: 4096 * pages, Entries: randomTable(r), MetaPos: []string{"start", "before-table", "random"}[r.IntN(3)],
			Version: 1, Reset: pickReset(r), Secs: secs}
		if sp.Reset>>16 == sp.Reset&0xffff || sp.Reset&0xffff == 0 || sp.Reset>>16 == 0 {
			sp.Reset = 0x1000fff0 + r.Uint32()&0x0fff0000
		}
		if err := sp.place(r); err != nil {
			w.selfcheckFailed++
			return nil
		}
		return w.seqImage(kind, sp, r.Uint64(), -1)
	}
	fill := r.Uint64()
	var base *simage
	{
		sp := &spec{Size: 4096 * pages, Entries: randomTable(r), MetaPos: []string{"start", "before-table", "random"}[r.IntN(3)],
			Version: 1, Reset: pickReset(r), Secs: stretch(r, wfLayout(r))}
		if err := sp.place(r); err != nil {
			w.selfcheckFailed++
			return
		}
		base = w.seqImage("base", sp, fill, -1)
	}
	if base == nil {
		return
	}
	pool := []*simage{base}
	for _, how := range []string{"sib-filler", "sib-reset", "sib-order", "sib-moved", "malformed", "malformed"} {
		if im := w.sibling(r, base, fill, how); im != nil {
			pool = append(pool, im)
		}
	}
	if im := mk("other-same-size", pages, stretch(r, wfLayout(r))); im != nil {
		pool = append(pool, im)
	}
	if im := mk("other", 1+r.IntN(48), wfLayout(r)); im != nil {
		pool = append(pool, im)
	}
	maxSize := 0
	for _, im := range pool {
		if len(im.pristine) > maxSize {
			maxSize = len(im.pristine)
		}
	}
	arenaOff := []int{0, 0, 0, 1, 8, 13, 64, 4096}[r.IntN(8)]
	arena := make([]byte, arenaOff+maxSize+64)
	for k := range arena {
		arena[k] = 0xcc
	}

	// ----- the caller's long-lived values and what the caller last wrote into them
	opts := &sev.LaunchOptions{}
	optsVcpus, optsProd := 0, sgpb.SevProduct_SEV_PRODUCT_UNKNOWN
	req := &sev.SnpEndorsementRequest{Svn: r.Uint32(), FamilyID: []string{"", sev.GCEUefiFamilyID, "6b0c5f4e-1d2a-4c3b-9e8f-7a6b5c4d3e2f"}[r.IntN(3)],
		ImageID: []string{"", "00000000-0000-4000-8000-000000000001"}[r.IntN(2)]}
	reqVmsas, reqProd := uint32(0), sgpb.SevProduct_SEV_PRODUCT_UNKNOWN
	prods := []combo{{0, sgpb.SevProduct_SEV_PRODUCT_MILAN, "Milan"}, {0, sgpb.SevProduct_SEV_PRODUCT_GENOA, "Genoa"}}

	var keptD []keptDigest
	var keptT []keptTable
	var history []string
	recheck := func(step int, desc string) {
		for k := 0; k < len(keptD); k++ {
			if !bytes.Equal(keptD[k].got, keptD[k].want) {
				c.Violate(core.Violation{Kind: "oracle", Entry: keptD[k].entry, Site: "earlier-result-changed-by-a-later-call", Gen: gen, Case: i,
					Detail: fmt.Sprintf("the digest returned by step %d (%s) was %x and reads %x after step %d (%s); the caller wrote to no result it kept",
						keptD[k].step, keptD[k].desc, keptD[k].want, keptD[k].got, step, desc), Witness: history})
				keptD = append(keptD[:k], keptD[k+1:]...)
				k--
			}
		}
		for k := 0; k < len(keptT); k++ {
			if len(keptT[k].m) != keptT[k].n {
				c.Violate(core.Violation{Kind: "oracle", Entry: "sev.UnsignedSnp", Site: "earlier-result-changed-by-a-later-call", Gen: gen, Case: i,
					Detail: fmt.Sprintf("the measurement table returned by step %d (%s) had %d entries and has %d after step %d (%s); the caller wrote to no result it kept",
						keptT[k].step, keptT[k].desc, keptT[k].n, len(keptT[k].m), step, desc), Witness: history})
				keptT = append(keptT[:k], keptT[k+1:]...)
				k--
			}
		}
		c.Count("sequence/kept-results-compared-again", len(keptD)+len(keptT))
	}

	type call struct {
		im       *simage
		unsigned bool
		vcpus    int // UnsignedSnp: 0 = all GCE counts
		prod     combo
		arena    bool
		shared   bool
	}
	var prev *call
	var prevPtr *byte
	var prevLen int
	var prevIm *simage
	prevFailed := false
	var prevSharedOpts, prevSharedReq *call
	repeat := false
	for s := 0; s < steps; s++ {
		var cl call
		if repeat && prev != nil {
			cl = *prev
		} else {
			cl.im = pool[r.IntN(len(pool))]
			if prevIm != nil && r.IntN(3) == 0 { // go back and forth between two images
				cl.im = prevIm
			}
			cl.unsigned = r.IntN(10) < 3
			cl.arena = r.IntN(10) < 7
			cl.shared = r.IntN(4) != 0
			cl.prod = prods[r.IntN(2)]
			switch x := r.IntN(20); {
			case x < 8 && cl.shared && !cl.unsigned && optsVcpus >= 1:
				cl.vcpus = optsVcpus // the caller leaves the count as it is and only changes the image
			case x < 8 && cl.shared && cl.unsigned:
				cl.vcpus = int(reqVmsas)
			case x < 12:
				cl.vcpus = pickCombo(r).vcpus
			case x < 13 && cl.unsigned:
				cl.vcpus = 0
			case x < 14 && !cl.unsigned:
				cl.vcpus = []int{0, -1}[r.IntN(2)] // refused before the image is looked at
			default:
				cl.vcpus = 1 + r.IntN(300)
			}
			if cl.unsigned && cl.vcpus < 0 {
				cl.vcpus = 0
			}
		}
		wasRepeat := repeat
		repeat = false
		im := cl.im

		// the firmware slice
		fw := im.own
		bufName := "own"
		if cl.arena {
			fw = arena[arenaOff : arenaOff+len(im.pristine)]
			copy(fw, im.pristine)
			bufName = "arena"
		}
		optName := "fresh"
		if cl.shared {
			optName = "shared"
		}
		entry := "sev.LaunchDigest"
		if cl.unsigned {
			entry = "sev.UnsignedSnp"
		}
		co := combo{cl.vcpus, cl.prod.prod, cl.prod.pname}
		desc := fmt.Sprintf("%s image=%s(%dp) buffer=%s values=%s vcpus=%d %s", entry, im.kind, len(im.pristine)/4096, bufName, optName, cl.vcpus, co.pname)
		if wasRepeat {
			desc += " [the previous call again, after the caller overwrote its result]"
		}
		history = append(history, fmt.Sprintf("%d: %s", s, desc))
		gclass := "sequence:" + im.kind + "/" + bufName + "/" + optName
		sameSlot := cl.arena && prevPtr == &fw[0] && prevLen == len(fw) && prevIm != im
		afterFailure := prevFailed

		var got []byte
		var ms map[uint32][]byte
		var err error
		var o *sev.LaunchOptions
		var q *sev.SnpEndorsementRequest
		if !cl.unsigned {
			if cl.shared {
				o = opts
				if optsVcpus != cl.vcpus {
					o.Vcpus, optsVcpus = cl.vcpus, cl.vcpus
				}
				if optsProd != co.prod {
					o.Product, optsProd = co.prod, co.prod
				}
			} else {
				o = &sev.LaunchOptions{Vcpus: cl.vcpus, Product: co.prod}
			}
			m := c.Guard(i, entry, gen, core.Budget{}, func() { got, err = sev.LaunchDigest(o, fw) })
			if m.Panicked {
				return
			}
			if o.Vcpus != cl.vcpus || o.Product != co.prod {
				c.Oracle(i, entry, "options-changed", gen, "step %d (%s): options after the call: vcpus=%d product=%v", s, desc, o.Vcpus, o.Product)
				o.Vcpus, o.Product = cl.vcpus, co.prod
			}
		} else {
			if cl.shared {
				q = req
				if reqVmsas != uint32(cl.vcpus) {
					q.LaunchVmsas, reqVmsas = uint32(cl.vcpus), uint32(cl.vcpus)
				}
				if reqProd != co.prod {
					q.Product, reqProd = co.prod, co.prod
				}
				if r.IntN(8) == 0 {
					q.Svn = r.Uint32()
				}
			} else {
				q = &sev.SnpEndorsementRequest{Svn: r.Uint32(), LaunchVmsas: uint32(cl.vcpus), Product: co.prod}
				if r.IntN(2) == 0 {
					q.ImageID = "00000000-0000-4000-8000-000000000002"
				}
			}
			m := c.Guard(i, entry, gen, core.Budget{}, func() {
				res, e := sev.UnsignedSnp(fw, q)
				err = e
				if e == nil {
					ms = res.GetMeasurements()
				}
			})
			if m.Panicked {
				return
			}
			if q.LaunchVmsas != uint32(cl.vcpus) || q.Product != co.prod {
				c.Count("sequence/request-fields-differ-after-the-call(observed,judged-by-its-consequences)", 1)
			}
		}
		if !bytes.Equal(fw, im.pristine) {
			c.Oracle(i, entry, "image-bytes-changed", gen, "step %d (%s): the firmware slice differs after the call", s, desc)
			copy(fw, im.pristine)
		}
		c.Count("sequence/calls", 1)

		// judge
		equal := false
		stepGen := fmt.Sprintf("%s, step %d: %s", gen, s, desc)
		switch {
		case !cl.unsigned && cl.vcpus < 1:
			c.Count(fmt.Sprintf("sequence/vcpus<=0/accepted=%v", err == nil), 1)
		case !cl.unsigned:
			w.judge(i, entry, stepGen, gclass, im.sp, im.classes, co, got, err, im.want)
			equal = err == nil && len(im.classes) == 0 && bytes.Equal(got, im.want(co))
		default:
			equal = w.judgeTable(i, stepGen, gclass, im.sp, im.classes, co, ms, err, im.want)
		}
		if equal {
			c.Count("sequence/accepted-equal", 1)
			w.seqEqual++
			if sameSlot {
				w.seqSameSlot++
				c.Count("sequence/accepted-equal/arena-refilled-in-place(same-address,same-length,other-image)", 1)
			}
			if afterFailure {
				w.seqAfterFailure++
				c.Count("sequence/accepted-equal/right-after-a-refused-call", 1)
			}
			if wasRepeat {
				w.seqRepeat++
				c.Count("sequence/accepted-equal/same-call-again-after-the-caller-overwrote-its-result", 1)
			}
			if cl.shared && !cl.unsigned && prevSharedOpts != nil && prevSharedOpts.vcpus == cl.vcpus && cl.vcpus > 1 && prevSharedOpts.im.parsed.Reset != im.parsed.Reset {
				w.seqSharedOpts++
				c.Count("sequence/accepted-equal/kept-options-same-count>1-other-reset-address", 1)
			}
			if cl.shared && cl.unsigned && prevSharedReq != nil && prevSharedReq.im != im {
				w.seqSharedReq++
				c.Count("sequence/accepted-equal/kept-request-other-image", 1)
			}
			if prevIm != nil && prevIm != im && len(prevIm.pristine) == len(im.pristine) && len(prevIm.classes) == 0 {
				c.Count("sequence/accepted-equal/right-after-a-sibling-of-the-same-size", 1)
			}
			for _, sc := range im.parsed.Secs {
				if p := sc.Len / pg; p >= 8 && p&(p-1) != 0 {
					w.seqOddRange++
					c.Count("sequence/accepted-equal/with-a-range-of->=8-pages-not-a-power-of-two", 1)
					break
				}
			}
			if cl.vcpus > 3 && cl.vcpus != 255 && cl.vcpus != 1000 && !isGCE(cl.vcpus) {
				c.Count("sequence/accepted-equal/vcpu-count-outside-the-fixed-table", 1)
			}
		}
		// keep the result as returned, or overwrite it and make the same call again
		if equal {
			scribble := !wasRepeat && r.IntN(4) == 0
			if !cl.unsigned {
				if scribble {
					for k := range got {
						got[k] ^= 0xa5
					}
				} else {
					keptD = append(keptD, keptDigest{step: s, entry: entry, desc: desc, got: got, want: append([]byte(nil), got...)})
				}
			} else {
				if scribble {
					var keys []uint32
					for k := range ms {
						keys = append(keys, k)
					}
					sort.Slice(keys, func(a, b int) bool { return keys[a] < keys[b] })
					for x := range ms[keys[0]] {
						ms[keys[0]][x] = 0x5a
					}
					if len(keys) > 2 {
						delete(ms, keys[len(keys)-1])
					}
				} else {
					for _, v := range ms {
						keptD = append(keptD, keptDigest{step: s, entry: entry, desc: desc, got: v, want: append([]byte(nil), v...)})
					}
					keptT = append(keptT, keptTable{step: s, desc: desc, m: ms, n: len(ms)})
				}
			}
			repeat = scribble
		}
		recheck(s, desc)

		prevFailed = err != nil
		cp := cl
		prev = &cp
		if cl.shared && !cl.unsigned {
			prevSharedOpts = &cp
		}
		if cl.shared && cl.unsigned {
			prevSharedReq = &cp
		}
		prevPtr, prevLen, prevIm = &fw[0], len(fw), im
	}
	c.Max("sequence/kept-results-at-the-end", int64(len(keptD)+len(keptT)))
	c.Count("sequence/histories", 1)
	if i%7 == 0 {
		c.Sample(map[string]any{"case": i, "gen": gen, "history": history})
	}
}

func isGCE(n int) bool {
	for _, g := range gceCounts {
		if g == n {
			return true
		}
	}
	return false
}
