package c04

import (
	"bytes"
	"encoding/binary"
	"fmt"
	"hash/adler32"
	"hash/crc32"
	"hash/crc64"
	"hash/fnv"
	"math/bits"
	"math/rand/v2"
	"sort"

	"verifharness/core"
	"verifharness/props/c04/snpref"
)

// Contents family (appended after the sequence family). C04 quantifies over "all firmware sizes and
// CONTENTS": every ROM page enters the chain with the SHA-384 of its own 4 KiB. The other families
// fill the ROM with uniformly random bytes, so no image ever held
//
//   - two pages that are equal (padding), constant (all 0x00 / 0xff) or equal but for one bit,
//   - two DIFFERENT pages that agree in everything a cheap fingerprint looks at: a CRC (32 or 64 bit,
//     any polynomial of the standard library), an XOR fold, a byte / word sum, Adler-32, a 32-bit
//     streaming hash (FNV-1, FNV-1a, the 31 and 33 multiplier string hashes), the byte histogram,
//     the first or the last bytes,
//   - a page elsewhere in the ROM that shares such a fingerprint with the page that holds the GUIDed
//     table or the metadata.
//
// Anything that decides from less than all 4096 bytes whether a page "was seen before" (in the same
// call or in an earlier one), "is padding" or "is empty" leaves random images intact and gives such
// images a measurement the AMD-SP does not compute.
//
// One case: one well-formed image spec; a pair of pages (A, B) of one fingerprint family; 1..6 free
// ROM pages overwritten with A or B in a drawn pattern (A may be the page that holds the table or the
// metadata header, which then stays where it is); the arrangements "mixed", "all A", "letters swapped",
// "all B" and "mixed" once more are measured one after the other with the same vCPU count and product,
// each judged against the model by the rules of every other family.

var (
	crcTabC    = crc32.MakeTable(crc32.Castagnoli)
	crcTabK    = crc32.MakeTable(crc32.Koopman)
	crcTabISO  = crc64.MakeTable(crc64.ISO)
	crcTabECMA = crc64.MakeTable(crc64.ECMA)
)

// gvec: the checksums that are affine over GF(2) for a fixed message length, side by side.
type gvec [5]uint64

func gf2Sums(p []byte) gvec {
	var x uint64
	for o := 0; o+8 <= len(p); o += 8 {
		x ^= binary.LittleEndian.Uint64(p[o:])
	}
	return gvec{uint64(crc32.ChecksumIEEE(p)) | uint64(crc32.Checksum(p, crcTabC))<<32, uint64(crc32.Checksum(p, crcTabK)),
		crc64.Checksum(p, crcTabISO), crc64.Checksum(p, crcTabECMA), x}
}

func (v *gvec) xor(o *gvec) {
	for k := range v {
		v[k] ^= o[k]
	}
}

func (v *gvec) pivot() int {
	for k, x := range v {
		if x != 0 {
			return 64*k + bits.TrailingZeros64(x)
		}
	}
	return -1
}

func (v *gvec) bit(p int) bool { return v[p/64]>>(uint(p)%64)&1 != 0 }

// gf2Delta returns a non-zero 4 KiB difference d, confined to a window of 64, 256 or 4096 bytes, such
// that every checksum of gf2Sums is the same for p and p XOR d, whatever p is: a linear dependency
// among the checksum differences of 300 random differences (288 checksum bits), by elimination.
func gf2Delta(r *rand.Rand) []byte {
	win := []int{64, 256, pg}[r.IntN(3)]
	off := 8 * r.IntN((pg-win)/8+1)
	zero := gf2Sums(make([]byte, pg))
	type row struct {
		v, c  gvec
		pivot int
	}
	var basis []row
	var deltas [][]byte
	for k := 0; k < 300; k++ {
		d := make([]byte, pg)
		for o := off; o < off+win; o += 8 {
			binary.LittleEndian.PutUint64(d[o:], r.Uint64())
		}
		deltas = append(deltas, d)
		v := gf2Sums(d)
		v.xor(&zero)
		var c gvec
		c[k/64] |= 1 << (uint(k) % 64)
		for b := range basis {
			if v.bit(basis[b].pivot) {
				v.xor(&basis[b].v)
				c.xor(&basis[b].c)
			}
		}
		p := v.pivot()
		if p >= 0 {
			basis = append(basis, row{v, c, p})
			continue
		}
		out := make([]byte, pg)
		for j := 0; j <= k; j++ {
			if c.bit(j) {
				for o := off; o < off+win; o++ {
					out[o] ^= deltas[j][o]
				}
			}
		}
		return out
	}
	return nil
}

type addSums struct {
	adler         uint32
	b, w16, w32   uint64
	w64, weighted uint64
}

func additiveSums(p []byte) addSums {
	s := addSums{adler: adler32.Checksum(p)}
	for o, x := range p {
		s.b += uint64(x)
		s.weighted += uint64(len(p)-o) * uint64(x)
	}
	for o := 0; o+8 <= len(p); o += 8 {
		s.w64 += binary.LittleEndian.Uint64(p[o:])
		s.w32 += uint64(binary.LittleEndian.Uint32(p[o:])) + uint64(binary.LittleEndian.Uint32(p[o+4:]))
		for q := 0; q < 8; q += 2 {
			s.w16 += uint64(binary.LittleEndian.Uint16(p[o+q:]))
		}
	}
	return s
}

// additivePair: +1, -2, +1 (or the negative) on the low bytes of three consecutive 64-bit words, without
// a carry: the byte sum, every little-endian word sum and every position-weighted sum (Adler-32,
// Fletcher) stay what they were.
func additivePair(r *rand.Rand, a []byte) ([]byte, bool) {
	for try := 0; try < 200; try++ {
		o := 8 * r.IntN(pg/8-2)
		b := append([]byte(nil), a...)
		switch {
		case a[o] < 255 && a[o+8] >= 2 && a[o+16] < 255:
			b[o]++
			b[o+8] -= 2
			b[o+16]++
		case a[o] >= 1 && a[o+8] <= 253 && a[o+16] >= 1:
			b[o]--
			b[o+8] += 2
			b[o+16]--
		default:
			continue
		}
		return b, true
	}
	return nil, false
}

// streaming 32-bit hashes: state after a page = fold of step over its bytes.
type stream struct {
	init uint32
	step func(h uint32, b byte) uint32
}

var streams = map[string]stream{
	"fnv1a-32": {2166136261, func(h uint32, b byte) uint32 { return (h ^ uint32(b)) * 16777619 }},
	"fnv1-32":  {2166136261, func(h uint32, b byte) uint32 { return h*16777619 ^ uint32(b) }},
	"poly31":   {0, func(h uint32, b byte) uint32 { return h*31 + uint32(b) }},
	"djb2-33":  {5381, func(h uint32, b byte) uint32 { return h*33 + uint32(b) }},
}

func (s stream) sum(p []byte) uint32 {
	h := s.init
	for _, b := range p {
		h = s.step(h, b)
	}
	return h
}

// tailPair: two pages with a's first 4088 bytes and two different 8-byte tails that bring the
// streaming hash to the same 32-bit state (birthday search, about 2^16 tails).
func tailPair(r *rand.Rand, s stream, a []byte) (na, nb []byte, ok bool) {
	h0 := s.init
	for _, b := range a[:pg-8] {
		h0 = s.step(h0, b)
	}
	seen := make(map[uint32]uint64, 1<<17)
	for try := 0; try < 1<<21; try++ {
		t := r.Uint64()
		h := h0
		for k := 0; k < 8; k++ {
			h = s.step(h, byte(t>>(8*uint(k))))
		}
		if u, hit := seen[h]; hit && u != t {
			na, nb = append([]byte(nil), a...), append([]byte(nil), a...)
			binary.LittleEndian.PutUint64(na[pg-8:], u)
			binary.LittleEndian.PutUint64(nb[pg-8:], t)
			return na, nb, true
		}
		seen[h] = t
	}
	return nil, nil, false
}

// contentFam: one kind of relation between the pages A and B of a case.
type contentFam struct {
	name   string
	keepsA bool // B is derived from any given A, so A may be a page that holds the table or the metadata
	// mk returns the pair made from the page a (na == a when keepsA) and whether the relation the
	// family is named after was verified on it.
	mk func(r *rand.Rand, a []byte) (na, nb []byte, ok bool)
}

var bitPositions = []int{0, 1, 7, 8, 63, 64, 2047, 2048, 4032, 4088, 4094, 4095}

var contentFams = []contentFam{
	{"equal-crc32(ieee,castagnoli,koopman)+crc64(iso,ecma)+xor-fold", true, func(r *rand.Rand, a []byte) ([]byte, []byte, bool) {
		d := gf2Delta(r)
		if d == nil {
			return nil, nil, false
		}
		b := append([]byte(nil), a...)
		for o := range b {
			b[o] ^= d[o]
		}
		return a, b, gf2Sums(a) == gf2Sums(b)
	}},
	{"equal-adler32+byte-sum+word-sums", true, func(r *rand.Rand, a []byte) ([]byte, []byte, bool) {
		b, ok := additivePair(r, a)
		return a, b, ok && additiveSums(a) == additiveSums(b)
	}},
	{"equal-fnv1a-32", false, func(r *rand.Rand, a []byte) ([]byte, []byte, bool) {
		na, nb, ok := tailPair(r, streams["fnv1a-32"], a)
		if !ok {
			return nil, nil, false
		}
		ha, hb := fnv.New32a(), fnv.New32a()
		ha.Write(na)
		hb.Write(nb)
		return na, nb, ha.Sum32() == hb.Sum32()
	}},
	{"equal-fnv1-32", false, func(r *rand.Rand, a []byte) ([]byte, []byte, bool) {
		na, nb, ok := tailPair(r, streams["fnv1-32"], a)
		if !ok {
			return nil, nil, false
		}
		ha, hb := fnv.New32(), fnv.New32()
		ha.Write(na)
		hb.Write(nb)
		return na, nb, ha.Sum32() == hb.Sum32()
	}},
	{"equal-string-hash(x31)", false, func(r *rand.Rand, a []byte) ([]byte, []byte, bool) {
		na, nb, ok := tailPair(r, streams["poly31"], a)
		return na, nb, ok && streams["poly31"].sum(na) == streams["poly31"].sum(nb)
	}},
	{"equal-string-hash(x33)", false, func(r *rand.Rand, a []byte) ([]byte, []byte, bool) {
		na, nb, ok := tailPair(r, streams["djb2-33"], a)
		return na, nb, ok && streams["djb2-33"].sum(na) == streams["djb2-33"].sum(nb)
	}},
	{"one-bit-apart", true, func(r *rand.Rand, a []byte) ([]byte, []byte, bool) {
		b := append([]byte(nil), a...)
		o := bitPositions[r.IntN(len(bitPositions))]
		if r.IntN(3) == 0 {
			o = r.IntN(pg)
		}
		b[o] ^= 1 << uint(r.IntN(8))
		return a, b, true
	}},
	{"equal-byte-histogram(words-swapped|rotated)", true, func(r *rand.Rand, a []byte) ([]byte, []byte, bool) {
		b := append([]byte(nil), a...)
		if r.IntN(2) == 0 {
			copy(b, a[1:])
			b[pg-1] = a[0]
		} else {
			x := 8 * r.IntN(pg/8)
			y := 8 * r.IntN(pg/8)
			copy(b[x:x+8], a[y:y+8])
			copy(b[y:y+8], a[x:x+8])
		}
		var ha, hb [256]int
		for o := range a {
			ha[a[o]]++
			hb[b[o]]++
		}
		return a, b, ha == hb && !bytes.Equal(a, b)
	}},
	{"identical-pages", true, func(r *rand.Rand, a []byte) ([]byte, []byte, bool) {
		return a, append([]byte(nil), a...), true
	}},
	{"constant-pages", false, func(r *rand.Rand, a []byte) ([]byte, []byte, bool) {
		c1 := []byte{0, 0, 0xff, 0xcc, byte(r.IntN(256))}[r.IntN(5)]
		na := bytes.Repeat([]byte{c1}, pg)
		nb := bytes.Repeat([]byte{c1}, pg)
		switch r.IntN(3) {
		case 0:
			c2 := []byte{0xff, 0, 0x90, ^c1}[r.IntN(4)]
			if c2 == c1 {
				c2 = c1 ^ 1
			}
			nb = bytes.Repeat([]byte{c2}, pg)
		case 1:
			nb[bitPositions[r.IntN(len(bitPositions))]] ^= 1 << uint(r.IntN(8))
		default:
			nb[r.IntN(pg)] ^= byte(1 + r.IntN(255))
		}
		return na, nb, true
	}},
}

func (w *wl) contents(i int, r *rand.Rand, k int) {
	c := w.c
	fam := contentFams[k%len(contentFams)]
	pages := 5 + r.IntN(8)
	if r.IntN(4) == 0 {
		pages = 17 + r.IntN(24)
	}
	sp := &spec{Size: pg * pages, Entries: randomTable(r), MetaPos: []string{"start", "before-table", "random", "page-straddle"}[r.IntN(4)],
		Version: 1, Reset: pickReset(r), Secs: wfLayout(r)}
	if err := sp.place(r); err != nil {
		w.selfcheckFailed++
		c.Note("builder: %v", err)
		return
	}
	base, err := sp.build(rand.New(rand.NewPCG(r.Uint64(), 8)))
	if err != nil {
		w.selfcheckFailed++
		c.Note("builder: %v", err)
		return
	}
	// pages that hold neither the metadata nor the table
	tableStart := sp.Size - tableEndOffset - sp.tableSize()
	metaFirst, metaLast, tablePage := sp.MetaOff/pg, (sp.MetaOff+sp.metaLen()-1)/pg, tableStart/pg
	var free []int
	for p := 0; p < pages; p++ {
		if (p < metaFirst || p > metaLast) && p < tablePage {
			free = append(free, p)
		}
	}
	if len(free) < 2 {
		w.selfcheckFailed++
		c.Note("contents: %d free pages in a ROM of %d pages", len(free), pages)
		return
	}
	// the pair
	aName := "filler"
	aPage := -1
	src := base[free[0]*pg : (free[0]+1)*pg]
	if fam.keepsA && r.IntN(3) == 0 {
		aPage, aName = pages-1, "the-last-page(table)"
		if r.IntN(2) == 0 {
			aPage, aName = metaFirst, "the-page-of-the-metadata-header"
		}
		src = base[aPage*pg : (aPage+1)*pg]
	}
	na, nb, ok := fam.mk(r, append([]byte(nil), src...))
	if !ok || len(na) != pg || len(nb) != pg || (bytes.Equal(na, nb) != (fam.name == "identical-pages")) || (aPage >= 0 && !bytes.Equal(na, src)) {
		w.selfcheckFailed++
		c.Note("contents: the page pair of family %s could not be made or failed its own check", fam.name)
		return
	}
	// the slots and the letters
	lo, hi := 2, 6
	if aPage >= 0 {
		lo = 1
		hi = 5
	}
	if hi > len(free) {
		hi = len(free)
	}
	m := lo + r.IntN(hi-lo+1)
	var slots []int
	if r.IntN(2) == 0 { // neighbouring pages
		s := r.IntN(len(free) - m + 1)
		slots = append(slots, free[s:s+m]...)
	} else {
		perm := r.Perm(len(free))
		for _, x := range perm[:m] {
			slots = append(slots, free[x])
		}
		sort.Ints(slots)
	}
	letters := make([]byte, m)
	for {
		hasA, hasB := aPage >= 0, false
		for j := range letters {
			letters[j] = "AB"[r.IntN(2)]
			hasA = hasA || letters[j] == 'A'
			hasB = hasB || letters[j] == 'B'
		}
		if hasA && hasB {
			break
		}
	}
	type arrangement struct {
		name    string
		letters []byte
	}
	inv := func(f func(byte) byte) []byte {
		out := make([]byte, m)
		for j := range out {
			out[j] = f(letters[j])
		}
		return out
	}
	arrs := []arrangement{
		{"mixed", letters},
		{"all-A", inv(func(byte) byte { return 'A' })},
		{"swapped", inv(func(l byte) byte { return 'A' + 'B' - l })},
		{"all-B", inv(func(byte) byte { return 'B' })},
		{"mixed-again", letters},
	}
	co := pickCombo(r)
	co2 := pickCombo(r)
	withUnsigned := (k/len(contentFams))%3 == 0
	describe := func(a arrangement) string {
		s := fmt.Sprintf("contents#%d %s rom=%dp A=%s", i, fam.name, pages, aName)
		if aPage >= 0 {
			s += fmt.Sprintf("@page%d", aPage)
		}
		return s + fmt.Sprintf(" pages%v=%s (%s)", slots, a.letters, a.name)
	}
	mkImage := func(a arrangement) []byte {
		img := append([]byte(nil), base...)
		for j, p := range slots {
			if a.letters[j] == 'A' {
				copy(img[p*pg:], na)
			} else {
				copy(img[p*pg:], nb)
			}
		}
		return img
	}
	var input []byte
	if first := mkImage(arrs[0]); len(first) <= 32<<10 {
		input = first
	}
	c.Begin(i, describe(arrs[0]), "sev.LaunchDigest", input)
	defer c.End(i)
	c.Count("cases/contents", 1)
	if k%23 == 0 {
		c.Sample(map[string]any{"case": i, "gen": describe(arrs[0]), "sections": fmt.Sprint(sp.Secs), "vcpus": co.vcpus, "product": co.pname})
	}
	for n, a := range arrs {
		gen := describe(a)
		img := mkImage(a)
		parsed, perr := snpref.Parse(img)
		if perr != nil || parsed.Reset != sp.Reset || parsed.MetaOff != sp.MetaOff || parsed.Version != sp.Version || !sameSecs(parsed.Secs, sp.Secs) {
			w.selfcheckFailed++
			c.Note("selfcheck: model parse of a contents image (%s) disagrees with its spec: %v", fam.name, perr)
			return
		}
		classes := snpref.Classify(parsed.Secs)
		var prefix []byte
		want := func(co combo) []byte {
			if prefix == nil {
				prefix = snpref.Prefix(img, parsed.Secs)
			}
			return snpref.Finish(append([]byte(nil), prefix...), parsed.Reset, co.vcpus, snpref.ProductBits(co.pname))
		}
		before := append([]byte(nil), img...)
		gclass := "contents:" + fam.name + "/" + a.name
		both := bytes.IndexByte(a.letters, 'B') >= 0 && (aPage >= 0 || bytes.IndexByte(a.letters, 'A') >= 0)
		combos := []combo{co}
		if n == 0 {
			combos = append(combos, co2)
		}
		for q, cq := range combos {
			got, err, ok := w.launch(i, gen, img, cq)
			if !ok {
				continue
			}
			if n == 0 && q == 0 {
				got2, err2, ok2 := w.launch(i, gen, img, cq)
				if ok2 && ((err == nil) != (err2 == nil) || !bytes.Equal(got, got2)) {
					c.Violate(core.Violation{Kind: "oracle", Entry: "sev.LaunchDigest", Site: "two-calls-differ", Gen: gen, Case: i,
						Detail:  fmt.Sprintf("first call: %x / %v; second call: %x / %v", got, err, got2, err2),
						Witness: witness{Spec: sp, Classes: classes, Vcpus: cq.vcpus, Product: cq.pname}})
				}
			}
			if !bytes.Equal(before, img) {
				c.Violate(core.Violation{Kind: "oracle", Entry: "sev.LaunchDigest", Site: "image-bytes-changed", Gen: gen, Case: i,
					Detail: "the firmware slice differs after the call", Witness: witness{Spec: sp, Classes: classes, Vcpus: cq.vcpus, Product: cq.pname}})
				copy(img, before)
			}
			if w.judge(i, "sev.LaunchDigest", gen, gclass, sp, classes, cq, got, err, want) && len(classes) == 0 && bytes.Equal(got, want(cq)) {
				c.Count("contents/accepted-equal/"+fam.name+"/"+a.name, 1)
				if both {
					w.contEqual[fam.name]++
					if aPage >= 0 {
						w.contStructEqual++
						c.Count("contents/accepted-equal/B-shares-the-fingerprint-of-"+aName, 1)
					}
					if n > 0 {
						w.contLaterEqual++
					}
				}
			}
		}
		if withUnsigned && (n == 0 || n == 2) {
			cu := co2
			if n == 2 {
				cu = co
			}
			w.unsigned(i, gen, gclass, sp, img, before, classes, cu, want)
		}
	}
}
