package c04

import (
	"encoding/binary"
	"fmt"
	"math/rand/v2"

	"verifharness/props/c04/snpref"
)

// Byte-level firmware image builder (own writers; nothing from ovmf/abi or fakeovmf).
//
// Image layout (edk2 reset vector):
//
//	[ filler ... SEV metadata header + sections (anywhere) ... filler ]
//	[ GUIDed table: entries bottom-up, each = payload | u16 size | 16-byte EFI GUID ]
//	[ footer entry: u16 total size | footer GUID ]            ends 0x20 bytes before the end
//	[ 0x20 bytes reset vector ]

type entry struct {
	What    string `json:"what"` // "reset" | "meta" | "other"
	GUID    string `json:"guid,omitempty"`
	Payload int    `json:"payload,omitempty"` // bytes of payload of an "other" entry
}

type spec struct {
	Size    int              `json:"size"`
	Entries []entry          `json:"table_bottom_up"` // Entries[0] sits right above the footer
	MetaOff int              `json:"meta_off"`        // file offset of the metadata header; -1 = choose by MetaPos
	MetaPos string           `json:"meta_pos"`        // "start" | "before-table" | "random" | "page-straddle"
	Version uint32           `json:"version"`
	Reset   uint32           `json:"reset"`
	Secs    []snpref.Section `json:"sections"`
	// Decoys: structures a correct reader never looks at. A complete, well-formed but different
	// metadata blob at file offset 0 (when the real one lives elsewhere) and a reset-block-shaped
	// entry with another address right below the table (outside the size the footer declares).
	// A reader that takes either produces a digest the model does not.
	DecoySecs  []snpref.Section `json:"decoy_sections_at_offset_0,omitempty"`
	DecoyReset *uint32          `json:"decoy_reset_below_table,omitempty"`
}

const tableEndOffset = 0x20
const entryHdr = 18

func (s *spec) tableSize() int {
	t := entryHdr
	for _, e := range s.Entries {
		switch e.What {
		case "reset", "meta":
			t += 4 + entryHdr
		default:
			t += e.Payload + entryHdr
		}
	}
	return t
}

func (s *spec) metaLen() int { return 16 + 12*len(s.Secs) }

// place resolves MetaPos into MetaOff.
func (s *spec) place(r *rand.Rand) error {
	tableStart := s.Size - tableEndOffset - s.tableSize()
	room := tableStart - s.metaLen()
	if room < 0 {
		return fmt.Errorf("metadata (%d bytes) and table (%d bytes) do not fit in %d bytes", s.metaLen(), s.tableSize(), s.Size)
	}
	switch s.MetaPos {
	case "start":
		s.MetaOff = 0
	case "before-table":
		s.MetaOff = room
	case "page-straddle":
		s.MetaOff = 4096 - 8
		if s.MetaOff > room {
			s.MetaOff = room
		}
	default:
		s.MetaOff = r.IntN(room + 1)
	}
	return nil
}

// build writes the image. fill seeds the filler bytes.
func (s *spec) build(fill *rand.Rand) ([]byte, error) {
	if s.Size%8 != 0 {
		return nil, fmt.Errorf("size %d", s.Size)
	}
	tsz := s.tableSize()
	if tsz > 0xffff {
		return nil, fmt.Errorf("table too large: %d", tsz)
	}
	tableStart := s.Size - tableEndOffset - tsz
	if s.MetaOff < 0 || s.MetaOff+s.metaLen() > tableStart {
		return nil, fmt.Errorf("metadata at %d (+%d) collides with table at %d", s.MetaOff, s.metaLen(), tableStart)
	}
	fw := make([]byte, s.Size)
	for i := 0; i+8 <= len(fw); i += 8 {
		binary.LittleEndian.PutUint64(fw[i:], fill.Uint64())
	}
	// decoys first, so that the real structures win any overlap
	if len(s.DecoySecs) > 0 {
		if 16+12*len(s.DecoySecs) > s.MetaOff {
			return nil, fmt.Errorf("decoy metadata does not fit below the metadata at %d", s.MetaOff)
		}
		copy(fw, "ASEV")
		binary.LittleEndian.PutUint32(fw[4:], uint32(16+12*len(s.DecoySecs)))
		binary.LittleEndian.PutUint32(fw[8:], 1)
		binary.LittleEndian.PutUint32(fw[12:], uint32(len(s.DecoySecs)))
		for i, sec := range s.DecoySecs {
			b := fw[16+12*i:]
			binary.LittleEndian.PutUint32(b, sec.Addr)
			binary.LittleEndian.PutUint32(b[4:], sec.Len)
			binary.LittleEndian.PutUint32(b[8:], sec.Kind)
		}
	}
	if s.DecoyReset != nil {
		if s.MetaOff+s.metaLen() > tableStart-22 {
			return nil, fmt.Errorf("decoy reset block collides with the metadata")
		}
		binary.LittleEndian.PutUint32(fw[tableStart-22:], *s.DecoyReset)
		binary.LittleEndian.PutUint16(fw[tableStart-18:], 22)
		g := snpref.EFIGUID(snpref.ResetGUID)
		copy(fw[tableStart-16:], g[:])
	}
	// metadata
	m := fw[s.MetaOff:]
	copy(m, "ASEV")
	binary.LittleEndian.PutUint32(m[4:], uint32(s.metaLen()))
	binary.LittleEndian.PutUint32(m[8:], s.Version)
	binary.LittleEndian.PutUint32(m[12:], uint32(len(s.Secs)))
	for i, sec := range s.Secs {
		b := m[16+12*i:]
		binary.LittleEndian.PutUint32(b, sec.Addr)
		binary.LittleEndian.PutUint32(b[4:], sec.Len)
		binary.LittleEndian.PutUint32(b[8:], sec.Kind)
	}
	// footer
	end := s.Size - tableEndOffset
	putHdr := func(at int, size int, guid string) {
		binary.LittleEndian.PutUint16(fw[at:], uint16(size))
		g := snpref.EFIGUID(guid)
		copy(fw[at+2:], g[:])
	}
	putHdr(end-entryHdr, tsz, snpref.FooterGUID)
	pos := end - entryHdr // entries end here, growing downwards
	for _, e := range s.Entries {
		switch e.What {
		case "reset":
			putHdr(pos-entryHdr, 22, snpref.ResetGUID)
			binary.LittleEndian.PutUint32(fw[pos-22:], s.Reset)
			pos -= 22
		case "meta":
			putHdr(pos-entryHdr, 22, snpref.MetadataGUID)
			binary.LittleEndian.PutUint32(fw[pos-22:], uint32(s.Size-s.MetaOff))
			pos -= 22
		default:
			putHdr(pos-entryHdr, e.Payload+entryHdr, e.GUID)
			pos -= e.Payload + entryHdr // payload stays filler
		}
	}
	if pos != tableStart {
		return nil, fmt.Errorf("table accounting: %d != %d", pos, tableStart)
	}
	return fw, nil
}

// GUIDs of other blocks real OVMF images carry in the table (and a few made-up ones).
var otherGUIDs = []string{
	"e47a6535-984a-4798-865e-4685a7bf8ec2", // TDX metadata offset
	"4c2eb361-7d9b-4cc3-8081-127c90d3d294", // SEV secret block
	"7255371f-3a3b-4b04-927b-1da6efa8d454", // SEV hash table block
	"11111111-2222-3333-4444-555555555555",
	"00000000-0000-0000-0000-000000000000",
	"ffffffff-ffff-ffff-ffff-ffffffffffff",
}

// randomTable chooses the GUIDed-table arrangement: reset and metadata entries in either
// order, with 0..3 foreign entries below, between and above them.
func randomTable(r *rand.Rand) []entry {
	var es []entry
	guids := append([]string(nil), otherGUIDs...)
	r.Shuffle(len(guids), func(a, b int) { guids[a], guids[b] = guids[b], guids[a] })
	other := func() {
		if len(guids) == 0 {
			return
		}
		g := guids[0]
		guids = guids[1:]
		es = append(es, entry{What: "other", GUID: g, Payload: []int{0, 4, 4, 8, 12, 40}[r.IntN(6)]})
	}
	maybe := func() {
		for r.IntN(3) == 0 {
			other()
		}
	}
	maybe()
	if r.IntN(2) == 0 {
		es = append(es, entry{What: "reset"})
		maybe()
		es = append(es, entry{What: "meta"})
	} else {
		es = append(es, entry{What: "meta"})
		maybe()
		es = append(es, entry{What: "reset"})
	}
	maybe()
	return es
}
