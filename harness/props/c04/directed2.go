package c04

import "fmt"

// Second directed enumeration (independent of the seed; appended after the concurrent family so that
// the earlier cases keep their numbers). C04 quantifies over "all metadata section lists (count,
// kinds, addresses, lengths, order)"; the first enumeration and the random layouts never produce
//
//   - a range of 8 or more pages whose page count is not a power of two (an internal stride of
//     8 / 16 / 64 pages with a lost remainder leaves every range of 1..8, 16, 32 ... 256 pages intact),
//     nor a range of 2^16 pages and more (a 16-bit page count) or of 2^31 bytes and more,
//   - a list of more than 13 ranges (a fixed scratch array, an 8-bit index),
//   - a malformed entry that sits deep in a long list, where only the first N entries were looked at.
//
// All lists below are well-formed except the "deep/..." ones, which have exactly one defect.

// longRange: the three mandatory kinds on pages 0..2, the range under test either right above them
// or ending exactly at 4 GiB.
func longRange(kind uint32, pages uint64, atTop bool, first bool) []sec {
	var rest []sec
	for k := uint32(1); k <= 3; k++ {
		if k == kind && kind != 1 { // the range under test is the one secrets / CPUID range
			continue
		}
		rest = append(rest, sec{Addr: (k - 1) * pg, Len: pg, Kind: k})
	}
	addr := uint64(3 * pg)
	if atTop && top32-pages*pg >= 3*pg {
		addr = top32 - pages*pg
	}
	l := sec{Addr: uint32(addr), Len: uint32(pages * pg), Kind: kind}
	if first {
		return append([]sec{l}, rest...)
	}
	return append(rest, l)
}

// manyList: n pairwise-disjoint ranges of 1..2 pages on a 4-page grid from base, visited in a
// fixed non-monotonic order ((j*step) mod n, step coprime to n). The mandatory kinds sit on the
// first three or the last three entries; everything else is unmeasured or SVSM-CAA.
func manyList(n int, base uint32, mandatoryLast bool) []sec {
	step := 7
	for gcd(step, n) != 1 {
		step += 2
	}
	out := make([]sec, n)
	for j := 0; j < n; j++ {
		slot := uint32((j * step) % n)
		k := uint32(1)
		if j%3 == 1 {
			k = 4
		}
		out[j] = sec{Addr: base + slot*4*pg, Len: pg * uint32(1+j%2), Kind: k}
	}
	at := 0
	if mandatoryLast {
		at = n - 3
	}
	out[at].Kind, out[at+1].Kind, out[at+2].Kind = 3, 1, 2
	return out
}

func gcd(a, b int) int {
	for b != 0 {
		a, b = b, a%b
	}
	return a
}

var longPages = []uint64{9, 10, 12, 15, 17, 24, 31, 33, 63, 65, 100, 127, 129, 255, 257, 1000, 4095, 4097, 65535, 65536, 65537}

// hugePages: 1 GiB + 1 page, 2 GiB, 2 GiB + 1 page, the longest length 32 bits can express.
var hugePages = []uint64{0x40001, 0x80000, 0x80001, 0xfffff}

var manyCounts = []int{13, 16, 17, 31, 32, 33, 34, 64, 65, 100, 128, 255, 256, 257, 341, 342, 500, 1000}

var deepCounts = []int{33, 40, 65, 130, 300}

type directed2 struct {
	directed
	minPages int  // smallest ROM that holds the metadata
	huge     bool // >= 2^18 pages in one range: LaunchDigest only, one combination
}

func buildDirected2() []directed2 {
	var out []directed2
	add := func(class, variant string, secs []sec, huge bool) {
		out = append(out, directed2{directed: directed{name: class + "/" + variant, class: class, secs: secs},
			minPages: (16+12*len(secs)+400)/4096 + 1, huge: huge})
	}
	for n, p := range longPages {
		for _, k := range []uint32{1, 4} {
			add(fmt.Sprintf("long-range/%dp", p), fmt.Sprintf("k%d/low/last", k), longRange(k, p, false, false), false)
			add(fmt.Sprintf("long-range/%dp", p), fmt.Sprintf("k%d/ends-at-4G/first", k), longRange(k, p, true, true), false)
		}
		if n%4 == 0 { // multi-page secrets / CPUID ranges are one range of their kind
			add(fmt.Sprintf("long-range/%dp", p), "k2/low/first", longRange(2, p, false, true), false)
			add(fmt.Sprintf("long-range/%dp", p), "k3/ends-at-4G/last", longRange(3, p, true, false), false)
		}
	}
	for n, p := range hugePages {
		add(fmt.Sprintf("long-range/0x%xp", p), "k1/low/last", longRange(1, p, false, false), true)
		if n%2 == 1 {
			add(fmt.Sprintf("long-range/0x%xp", p), "k4/ends-at-4G/first", longRange(4, p, true, true), true)
		}
	}
	for _, n := range manyCounts {
		add(fmt.Sprintf("many-ranges/n=%d", n), "mandatory-first", manyList(n, 0x20000000, false), false)
		add(fmt.Sprintf("many-ranges/n=%d", n), "mandatory-last", manyList(n, 0xe0000000, true), false)
	}
	// one defect whose entries all sit in the tail of a long list (index >= n-2), or that pairs the
	// last entry with an early one
	for _, n := range deepCounts {
		base := func() []sec { return manyList(n, 0x30000000, false) }
		cl := func(d string) string { return fmt.Sprintf("deep/%s/n=%d", d, n) }
		s := base()
		s[n-1].Addr, s[n-1].Len = s[n-2].Addr, s[n-2].Len
		add(cl("overlap-identical"), "last-two", s, false)
		s = base()
		s[n-2].Len = 2 * pg
		s[n-1].Addr, s[n-1].Len = s[n-2].Addr+pg, pg
		add(cl("overlap-second-page"), "last-two", s, false)
		s = base()
		s[n-1].Addr, s[n-1].Len = s[4].Addr, pg
		add(cl("overlap-identical"), "last-with-fifth", s, false)
		s = base()
		s[n-1].Kind = 3
		add(cl("duplicate-cpuid"), "last", s, false)
		s = base()
		s[n-1].Kind = 2
		add(cl("duplicate-secrets"), "last", s, false)
		s = base()
		s[n-1].Kind = 0x10
		add(cl("unknown-kind"), "last", s, false)
		s = base()
		s[n-1].Len = 0
		add(cl("zero-length"), "last", s, false)
		s = base()
		s[n-1].Len = pg + 0x800
		add(cl("length-not-page-multiple"), "last", s, false)
		s = base()
		s[n-1].Addr += 0x800
		add(cl("address-misaligned"), "last", s, false)
	}
	return out
}
