package c14

// History dimensions, appended after every earlier case number (extra.go, seq.go, conc.go keep
// their numbers and PRNG streams). What the earlier families never produced:
//
//   - a fault at ANY call position of a kind inside an attempt (2nd, 3rd, 4th read; 3rd write; 2nd
//     chmod), whether or not the unchanged code makes that call, with a manifest that is known to
//     exist on the head, in the quick tier;
//   - the caller's --overwrite option (an attempt may then rewrite an endorsement file that is on
//     the head already);
//   - histories in which the head ALREADY lists the very entry the submission is about to add when
//     an attempt obtains its workspace, so the attempt's change leaves the parsed manifest as it is:
//     (i) a TryCommit that lands on the head and is then answered with a retriable or permanent error
//     (lost acknowledgement) followed by the retry; (ii) somebody else (a twin run of the same
//     pipeline) committing the identical entry before the attempt; (iii) the caller submitting the
//     same candidate, image and timestamp again through values it keeps (resubmission sequences),
//     next to resubmissions that change only the timestamp, only the candidate or only the image.
//
// All of them are judged by the same offline checker (oracle.go) on the submission's own call log:
// "TryCommit succeeded" is what the back end ANSWERED (a landed commit that was answered with an
// error is a failed commit for the caller, exactly like for the repository).

import (
	"context"
	"crypto/sha512"
	"fmt"
	"math/rand/v2"
	"strings"
	"time"

	"github.com/google/gce-tcb-verifier/cmd/output"
	"github.com/google/gce-tcb-verifier/endorse"
	"github.com/google/gce-tcb-verifier/keys"
	"github.com/google/gce-tcb-verifier/sev"
	spb "github.com/google/go-sev-guest/proto/sevsnp"

	"verifharness/core"
)

const (
	flLostAckRetried = "history: a commit landed although TryCommit answered with a retriable error; the retry, whose fresh workspace already listed the entry, committed again and success was reported"
	flLostAckFailed  = "history: a commit landed although TryCommit answered with an error and the submission reported failure"
	flTwinThenCommit = "history: somebody else committed the identical entry before an attempt that then committed"
	flLaterReadFault = "history: a read other than the first one of an attempt failed with a manifest on the head and the attempt was released without a commit"
	flResubCommitted = "resubmission: the same candidate, image and timestamp were submitted again through the same values and committed again"
	flResubChanged   = "resubmission: a resubmission that changed only the timestamp, only the candidate or only the image committed"
	flResubAfterLost = "resubmission: a submission found its own entry on the head because an EARLIER submission's commit had landed unacknowledged, and committed"
)

var historyFloors = []string{flLostAckRetried, flLostAckFailed, flTwinThenCommit, flLaterReadFault, flResubCommitted, flResubChanged, flResubAfterLost}

var (
	// every call position of every kind, reached by the unchanged code or not
	opsEveryPosition = []opRef{{"get", 1}, {"read", 1}, {"read", 2}, {"read", 3}, {"read", 4}, {"write", 1}, {"write", 2}, {"write", 3}, {"chmod", 1}, {"chmod", 2}, {"commit", 1}}
	opsHistorySmall  = []opRef{{"read", 2}, {"commit", 1}}
)

// historyAlphabet is alphabet() with the twin writer and the landed-but-failed commit.
func historyAlphabet(ops []opRef, writers []int) (retri, term []outcome) {
	for _, w := range writers {
		term = append(term, outcome{Writer: w})
		for _, op := range ops {
			retri = append(retri, outcome{Kind: op.kind, Nth: op.nth, Class: clsRetriable, Writer: w})
			term = append(term, outcome{Kind: op.kind, Nth: op.nth, Class: clsPermanent, Writer: w})
		}
		retri = append(retri, outcome{Kind: "commit", Nth: 1, Class: clsRetriable, Writer: w, Lands: true})
		term = append(term, outcome{Kind: "commit", Nth: 1, Class: clsPermanent, Writer: w, Lands: true})
	}
	retri = append(retri, outcome{Writer: wrMid})
	return retri, term
}

// historyJobs enumerates ALL scripts over the history alphabet (fresh values each, run through
// runJob): with and without --overwrite, the head starting with 2 (3) manifest entries.
func historyJobs(thorough bool) []job {
	var js []job
	const vf = "endorse.VirtualFirmware"
	full := []int{-1, 0, 1}
	if thorough {
		full = []int{-2, -1, 0, 1, 2}
	}
	for _, ow := range []bool{false, true} {
		mode, initial := "history", 2
		if ow {
			mode, initial = "history+overwrite", 3
		}
		retri, term := historyAlphabet(opsEveryPosition, []int{wrNone, wrBefore, wrTwin})
		for _, b := range full {
			for _, s := range enumerate(maxAttempts(b), retri, term) {
				js = append(js, job{entry: vf, mode: mode, retries: b, scripts: []script{s}, dim: "history", overwrite: ow, initial: initial})
			}
		}
		deep := []int{2}
		if thorough {
			deep = []int{3}
		}
		retri, term = historyAlphabet(opsHistorySmall, []int{wrNone, wrTwin})
		for _, b := range deep {
			for _, s := range enumerate(maxAttempts(b), retri, term) {
				js = append(js, job{entry: vf, mode: mode, retries: b, scripts: []script{s}, dim: "history", overwrite: ow, initial: initial})
			}
		}
	}
	return js
}

// historyEvidence records what a history submission showed (from the call log, not the script).
func historyEvidence(c *core.Ctx, j job, vs []*vcs, log []event, per []*vcsObs, rerr error, fl map[string]bool) {
	c.Count("audit/history/"+j.mode, 1)
	o := per[0]
	landed, twins := vs[0].landed, vs[0].twins
	end := endOf(rerr)
	if landed > 0 {
		c.Count("history/commits-landed-but-answered-with-an-error", landed)
		if rerr == nil && o.Committed {
			fl[flLostAckRetried] = true
			c.Count("history/lost-acknowledgement-then-retry-committed-again", 1)
		}
		if rerr != nil {
			fl[flLostAckFailed] = true
			c.Count("history/lost-acknowledgement-then-failure-reported/"+end, 1)
		}
	}
	if twins > 0 {
		c.Count("history/twin-commits-of-the-identical-entry", twins)
		if rerr == nil && o.Committed {
			fl[flTwinThenCommit] = true
			c.Count("history/twin-entry-on-head-then-own-commit", 1)
		}
	}
	// which read position failed, per attempt
	laterRead := ""
	for _, a := range o.Attempts {
		n := 0
		for _, e := range a.Events {
			if e.Ev != "read" {
				continue
			}
			n++
			if e.Err != "" && !e.NotFnd {
				c.Count(fmt.Sprintf("history/read-fault-at-read#%d-of-an-attempt", n), 1)
				if n > 1 {
					laterRead = fmt.Sprintf("read#%d", n)
					if !a.Committed && o.Destroys[a.K] == 1 {
						fl[flLaterReadFault] = true
					}
				}
			}
		}
	}
	if landed > 0 || twins > 0 || laterRead != "" {
		c.Cell("history|overwrite=%v|retries=%d|attempts=%d|%s|landed-unacknowledged=%d|twin-commits=%d|later-read-fault=%s", j.overwrite, j.retries, len(o.Attempts), end, min(landed, 2), min(twins, 2), laterRead)
	}
}

// runHistory runs the history cases: numbers base.. in the order enumerated history scripts,
// resubmission sequences. Counts are fixed per tier.
func runHistory(c *core.Ctx, w *world, base int, fl map[string]bool) (next int) {
	hs := historyJobs(c.Thorough())
	nh := (len(hs) + chunk - 1) / chunk
	for i := 0; i < nh; i++ {
		ci := base + i
		if !c.Mine(ci) {
			continue
		}
		r := c.Rand(ci)
		lo, hi := i*chunk, min((i+1)*chunk, len(hs))
		c.Begin(ci, fmt.Sprintf("history scripts %d..%d: first %s", lo, hi-1, hs[lo]), hs[lo].entry, nil)
		for k := lo; k < hi; k++ {
			runJob(c, w, ci, 2_000_000+k, hs[k], r, fl)
		}
		c.End(ci)
	}
	c.Max("history/scripts-enumerated-in-tier", int64(len(hs)))
	base += nh
	nres := c.N(300, 3000)
	for i := 0; i < nres; i++ {
		ci := base + i
		if !c.Mine(ci) {
			continue
		}
		r := c.Rand(ci)
		c.Begin(ci, fmt.Sprintf("resubmission: %d sequences of submissions of the same / nearly the same endorsement through kept values", seqPerCase), "endorse.VirtualFirmware", nil)
		for q := 0; q < seqPerCase; q++ {
			runResub(c, w, ci, q, r, fl)
		}
		c.End(ci)
	}
	return base + nres
}

// histScript draws a script for a resubmission: clean in a third of the draws, otherwise
// randScript over every operation of the manifest change, with commit failures landing half of the
// time and the twin writer now and then.
func histScript(r *rand.Rand, retries int) script {
	if r.IntN(3) == 0 {
		return script{{}}
	}
	s := randScript(r, retries, opsManifestFull, true)
	for i := range s {
		if s[i].Kind == "commit" && s[i].Class != clsNone && r.IntN(2) == 0 {
			s[i].Lands = true
		}
		if s[i].Writer == wrNone && r.IntN(6) == 0 {
			s[i].Writer = wrTwin
		}
	}
	return s
}

// runResub: the caller keeps ONE endorse.Context, ONE context and one or two back-end values and
// submits 2-5 times; from one submission to the next it changes nothing but the budget (the same
// candidate, image and timestamp again), or only the timestamp, only the candidate, or only the
// image. Each submission is judged on its own call log; every entry on the head that is neither at
// the submission's path nor of its digest must survive.
func runResub(c *core.Ctx, w *world, ci, q int, r *rand.Rand, fl map[string]bool) {
	const vf = "endorse.VirtualFirmware"
	imgs := imagePool()
	outDir := []string{"", "release", "a/b"}[r.IntN(3)]
	initial := []int{0, 2}[r.IntN(2)]
	overwrite := r.IntN(4) != 0
	nv := 1 + r.IntN(4)/3
	steps := 2 + r.IntN(4)
	layout := "Context.VCS"
	if nv == 2 {
		layout = "Context.VCSs[2]"
	} else if r.IntN(2) == 0 {
		layout = "Context.VCSs[1]"
	}
	var vs []*vcs
	for vi := 0; vi < nv; vi++ {
		vs = append(vs, newVCS(vi, &recorder{}, nil, outDir, "", initial))
	}
	ec := &endorse.Context{
		SevSnp: &sev.SnpEndorsementRequest{LaunchVmsas: 1, Product: spb.SevProduct_SEV_PRODUCT_MILAN, ImageID: "00000000-0000-4000-8000-000000000001"},
		ClSpec: 1, OutDir: outDir,
	}
	if layout == "Context.VCS" {
		ec.VCS = vs[0]
	} else {
		for _, v := range vs {
			ec.VCSs = append(ec.VCSs, v)
		}
	}
	ctx := endorse.NewContext(output.NewContext(keys.NewContext(context.Background(), w.kc), &output.Options{Quiet: true, Overwrite: overwrite}), ec)

	candN, imgN := 0, r.IntN(len(imgs))
	cand := []string{"", "rc", "candidate_20240102"}[r.IntN(3)]
	ts := time.Unix(1700000000+int64(r.IntN(1<<20)), 0)
	prevEnd := "none"
	var history []string
	landedEarlier := false // an earlier submission's commit of the CURRENT (candidate, image) landed unacknowledged and nothing committed since
	for st := 0; st < steps; st++ {
		what := "first"
		if st > 0 {
			switch r.IntN(6) {
			case 0, 1, 2:
				what = "identical"
			case 3:
				what = "timestamp-changed"
				ts = ts.Add(time.Duration(1+r.IntN(1000)) * time.Second)
			case 4:
				what = "candidate-changed"
				candN++
				cand = fmt.Sprintf("resub%d-rc%d", q, candN)
			default:
				what = "image-changed"
				imgN = (imgN + 1 + r.IntN(len(imgs)-1)) % len(imgs)
			}
		}
		if what == "candidate-changed" || what == "image-changed" {
			landedEarlier = false
		}
		retries := []int{-1, 0, 0, 1, 1, 2}[r.IntN(6)]
		img := imgs[imgN]
		digest := sha512.Sum384(img)
		bn := cand
		if bn == "" {
			bn = endorse.DefaultEndorsementBasename
		}
		rec := &recorder{}
		var scripts []script
		for range vs {
			scripts = append(scripts, histScript(r, retries))
		}
		for vi, v := range vs {
			if !v.nextSubmission(rec, scripts[vi], bn+".binarypb", digest[:]) {
				c.Count("resubmission/sequence-ended-early(head-unparsable)", 1)
				return
			}
			v.setOwn(outDir, cand, img, ts)
		}
		ec.CommitRetries, ec.CandidateName, ec.Image, ec.Timestamp = retries, cand, img, ts
		ec.SevSnp.Svn = uint32(r.IntN(2))
		history = append(history, fmt.Sprintf("[%s] CommitRetries=%d candidate=%q image#%d timestamp=%d %v", what, retries, cand, imgN, ts.Unix(), scriptTexts(scripts)))
		gen := fmt.Sprintf("resubmission through kept values (%s, %d initial entries, overwrite=%v) submission %d of %d: %s; earlier on the same values: %v", layout, initial, overwrite, st+1, steps, history[st], history[:st])
		var rerr error
		returned := false
		m := c.Guard(ci, vf, gen, core.Budget{}, func() {
			rerr = endorse.VirtualFirmware(ctx)
			returned = true
		})
		if m.Panicked || !returned {
			return
		}
		obs := &runObs{Retries: retries, VCSs: vs, Log: rec.log, Err: rerr, RealChange: true}
		fs, per := judge(obs)
		reportFindings(c, ci, vf, gen, fs, map[string]any{"dimension": "resubmission", "layout": layout, "sequence": history, "submission": st + 1, "overwrite": overwrite,
			"commit_retries": retries, "returned_error": errText(rerr), "call_log": logTexts(rec.log), "out_dir": outDir, "initial_entries": initial})
		// ---- evidence ----
		end := endOf(rerr)
		if rerr != nil && strings.Contains(rerr.Error(), "without --overwrite") {
			end = "refused-without-overwrite"
		}
		c.Count("resubmission/submissions/"+what, 1)
		c.Count("resubmission/ended/"+end, 1)
		c.Cell("resubmission|%s|%s|overwrite=%v|retries=%d|previous=%s|%s|attempts=%d", layout, what, overwrite, retries, prevEnd, end, len(per[0].Attempts))
		if rerr == nil && per[0].Committed {
			switch what {
			case "identical":
				if prevEnd == "success" {
					fl[flResubCommitted] = true
					c.Count("resubmission/identical-resubmission-after-a-success-committed-again", 1)
				}
			case "first":
			default:
				fl[flResubChanged] = true
			}
			if landedEarlier && what != "first" {
				fl[flResubAfterLost] = true
				c.Count("resubmission/own-entry-on-head-from-an-earlier-unacknowledged-commit-then-committed", 1)
			}
		}
		if per[0].Committed {
			landedEarlier = false
		} else if vs[0].landed > 0 {
			landedEarlier = true
		}
		if st == steps-1 && q == 0 && ci%97 == 0 {
			c.Sample(map[string]any{"resubmission_sequence": history, "layout": layout, "overwrite": overwrite, "last_returned": errText(rerr), "last_call_log": logTexts(rec.log)})
		}
		prevEnd = end
	}
}
