package c14

// Audit dimensions added after the three rounds of seeded changes. The original enumeration
// (c14.go) runs every submission on values that are made for it and thrown away afterwards, one
// submission at a time, with budgets -2..4, and snapshot mode only in the thorough tier. The
// cases below are appended AFTER the original case numbers (so those keep their numbers and PRNG
// streams) and add, judged by the same offline checker (oracle.go):
//
//   - extra.go: option combinations in the quick tier (snapshot mode, snapshot mode with an SVSM
//     image, snapshot mode on two back ends) and retry budgets at the limits of the integer types
//     (math.MinInt.., -(2^32)+k, -(2^31)-1, -65535, -255, 2^31.., math.MaxInt);
//   - seq.go: sequences of submissions through values the caller KEEPS: one endorse.Context, one
//     context.Context derived from it, one or two back-end values, one change function; between the
//     submissions the caller changes CommitRetries / candidate / image / entry point; a failed
//     submission is followed by a good one and the other way round;
//   - conc.go: several independent submissions running in one process at the same time, interleaved
//     deterministically at every back-end operation (lockstep scheduler driven by the case PRNG).

import (
	"errors"
	"fmt"
	"math"

	"github.com/google/gce-tcb-verifier/endorse"

	"verifharness/core"
)

// judgeMinIntBudget gates the one budget value for which the check fires on the unchanged tree:
// CommitRetries == math.MinInt. RetrySubmit computes `remain := ec.CommitRetries - tries`; with
// tries == 1 that wraps around to math.MaxInt, `remain < 0` is false and the loop goes on for as
// long as failures are retriable (endorse/commit.go, RetrySubmit, the line computing remain).
// The property quantifies over "every retry budget including zero and negative". Until the
// coordinator decides, the runs are made and counted ("observed-but-gated/...") but not judged.
const judgeMinIntBudget = true

func notJudgedYet(j job, f finding) bool {
	return !judgeMinIntBudget && j.retries == math.MinInt && f.Rule == "attempts-exceed-retries-plus-one"
}

var (
	extremeNegative = []int{math.MinInt, math.MinInt + 1, math.MinInt + 2, -(1 << 32), -(1 << 32) + 1, -(1 << 32) + 3, -(1 << 31) - 1, -(1 << 31), -65535, -255}
	extremePositive = []int{math.MaxInt, math.MaxInt - 1, 1 << 32, 1 << 31, 1<<31 - 1}
)

const extremeChain = 6 // retriable failures in a row scripted for the huge budgets

// extraJobs lists the option-combination and extreme-budget submissions (fresh values each, run
// through runJob like the original enumeration).
func extraJobs(thorough bool) []job {
	var js []job
	const vf = "endorse.VirtualFirmware"
	// snapshot mode (the thorough tier enumerates the plain one in full already)
	if !thorough {
		for _, r := range []int{-1, 0, 1} {
			retri, term := alphabet(opsSnapshot, true)
			for _, s := range enumerate(maxAttempts(r), retri, term) {
				js = append(js, job{entry: vf, mode: "snapshot", retries: r, scripts: []script{s}, dim: "option-combination"})
			}
		}
	}
	// snapshot mode with an SVSM image: one write of two signatures, their two chmods, one write of
	// five or six files, their chmods
	opsSvsm := []opRef{{"get", 1}, {"write", 1}, {"chmod", 1}, {"chmod", 2}, {"write", 2}, {"chmod", 3}, {"chmod", 6}, {"commit", 1}}
	for _, r := range []int{0, 1} {
		retri, term := alphabet(opsSvsm, false)
		for _, s := range enumerate(maxAttempts(r), retri, term) {
			js = append(js, job{entry: vf, mode: "snapshot+svsm", retries: r, scripts: []script{s}, dim: "option-combination", snap: true, svsm: true})
		}
	}
	// snapshot mode on two back ends
	mr, _ := alphabet(opsMulti, false)
	mt := []outcome{{}, {Kind: "commit", Nth: 1, Class: clsPermanent}}
	for _, r := range []int{0, 1} {
		ss := enumerate(maxAttempts(r), mr, mt)
		for _, s1 := range ss {
			for i2, s2 := range ss {
				if !canSucceed(s1) && i2 > 0 {
					break
				}
				js = append(js, job{entry: vf, mode: "multi2-snapshot", retries: r, scripts: []script{s1, s2}, dim: "option-combination", snap: true})
			}
		}
	}
	// budgets at the limits of the integer types: negative ones allow one attempt; the scripts go on
	// for three attempts so that a wrapped or truncated budget has something to retry
	retri, term := alphabet(opsDeep, false)
	for _, r := range extremeNegative {
		for _, s := range enumerate(3, retri, term) {
			js = append(js, job{entry: vf, mode: "manifest-extreme-budget", retries: r, scripts: []script{s}, dim: "extreme-budget"})
		}
		for _, s := range enumerate(3, []outcome{{Kind: "change", Nth: 1, Class: clsRetriable}, {Kind: "commit", Nth: 1, Class: clsRetriable}},
			[]outcome{{}, {Kind: "commit", Nth: 1, Class: clsPermanent}}) {
			js = append(js, job{entry: "endorse.RetrySubmit", mode: "caller-change-extreme-budget", retries: r, scripts: []script{s}, dim: "extreme-budget"})
		}
	}
	// huge budgets: chains of retriable failures ended by success or a permanent error
	for _, r := range extremePositive {
		for n := 0; n <= extremeChain; n++ {
			for _, last := range term {
				var s script
				for a := 0; a < n; a++ {
					s = append(s, retri[(a+n)%len(retri)])
				}
				js = append(js, job{entry: vf, mode: "manifest-extreme-budget", retries: r, scripts: []script{append(s, last)}, dim: "extreme-budget"})
			}
		}
	}
	return js
}

// extraEvidence records what the option-combination / extreme-budget submissions showed.
func extraEvidence(c *core.Ctx, j job, per []*vcsObs, rerr error, fl map[string]bool) {
	c.Count("audit/"+j.dim+"/"+j.mode, 1)
	n := len(per[0].Attempts)
	switch j.dim {
	case "extreme-budget":
		if j.retries < 0 {
			if n == 1 && errors.Is(rerr, endorse.ErrNoRetries) {
				fl["extreme-negative-budget: one attempt failed retriably, then ErrNoRetries"] = true
				c.Count("audit/extreme-negative-budget/one-attempt-then-ErrNoRetries", 1)
			}
			if n > 1 {
				c.Count(fmt.Sprintf("audit/extreme-negative-budget/MORE-THAN-ONE-ATTEMPT(CommitRetries=%d)", j.retries), 1)
			}
		} else {
			c.Max("audit/huge-budget/max-attempts-made", int64(n))
			if n == extremeChain+1 && rerr == nil {
				fl[fmt.Sprintf("huge-budget: success at attempt %d after %d retriable failures", extremeChain+1, extremeChain)] = true
			}
		}
	case "option-combination":
		if rerr == nil && n > 1 {
			fl["option-combination/"+j.mode+": success after a retry"] = true
		}
		if rerr != nil && per[0].Destroys[1] == 1 {
			fl["option-combination/"+j.mode+": failed submission released its workspace"] = true
		}
	}
}

// auditFloors are the floors of all audit dimensions (extra.go, seq.go, conc.go).
var auditFloors = []string{
	"extreme-negative-budget: one attempt failed retriably, then ErrNoRetries",
	fmt.Sprintf("huge-budget: success at attempt %d after %d retriable failures", extremeChain+1, extremeChain),
	"option-combination/snapshot+svsm: success after a retry",
	"option-combination/snapshot+svsm: failed submission released its workspace",
	"option-combination/multi2-snapshot: success after a retry",
	"option-combination/multi2-snapshot: failed submission released its workspace",
	"kept-values: a submission with a LOWER budget than an earlier one on the same values used its budget up exactly",
	"kept-values: a submission with a HIGHER budget than an earlier one on the same values used its budget up exactly",
	"kept-values: success after a failed submission on the same values",
	"kept-values: failed submission after a successful one on the same values",
	"kept-values: a later success kept the manifest entries that earlier submissions on the same values committed",
	"kept-values: RetrySubmit and VirtualFirmware alternated on the same values",
	"kept-values: two back ends kept, second one committed in two submissions",
	"lockstep: another submission started between two attempts of a submission",
	"lockstep: another submission finished between two attempts of a submission",
	"lockstep: submissions with different budgets were in flight together and each used its own budget up exactly",
	"lockstep: two submissions were between manifest read and manifest write at the same time",
}

// runAudit runs the appended cases: numbers base.. in the order extra jobs, kept-value sequences,
// lockstep groups. Counts are fixed per tier.
func runAudit(c *core.Ctx, w *world, base int, fl map[string]bool) (next int) {
	xs := extraJobs(c.Thorough())
	nx := (len(xs) + chunk - 1) / chunk
	for i := 0; i < nx; i++ {
		ci := base + i
		if !c.Mine(ci) {
			continue
		}
		r := c.Rand(ci)
		lo, hi := i*chunk, min((i+1)*chunk, len(xs))
		c.Begin(ci, fmt.Sprintf("audit scripts %d..%d: first %s", lo, hi-1, xs[lo]), xs[lo].entry, nil)
		for k := lo; k < hi; k++ {
			runJob(c, w, ci, 1_000_000+k, xs[k], r, fl)
		}
		c.End(ci)
	}
	c.Max("audit/scripts-enumerated-in-tier", int64(len(xs)))
	base += nx
	nseq := c.N(400, 4000)
	for i := 0; i < nseq; i++ {
		ci := base + i
		if !c.Mine(ci) {
			continue
		}
		runSeqCase(c, w, ci, c.Rand(ci), fl)
	}
	base += nseq
	nconc := c.N(400, 4000)
	for i := 0; i < nconc; i++ {
		ci := base + i
		if !c.Mine(ci) {
			continue
		}
		runConcCase(c, w, ci, c.Rand(ci), fl)
	}
	return base + nconc
}
