package c14

// Lockstep groups: two or three independent submissions (own endorse.Context, own back-end
// values, own call log) run in one process at the same time. A scheduler driven by the case PRNG
// decides, at the start of every back-end operation, which submission goes on, so exactly one
// runs at any moment and the interleaving is a pure function of the seed (no clock, no race in
// the monitor: every hand-over goes through one mutex). Each submission is judged on its own
// call log by the same offline checker: what it does must not depend on the others.

import (
	"context"
	"fmt"
	"math/rand/v2"
	"runtime/debug"
	"sync"
	"time"

	"github.com/google/gce-tcb-verifier/cmd/output"
	"github.com/google/gce-tcb-verifier/endorse"
	"github.com/google/gce-tcb-verifier/keys"
	"github.com/google/gce-tcb-verifier/sev"
	spb "github.com/google/go-sev-guest/proto/sevsnp"

	"verifharness/core"
)

const groupsPerCase = 4

const (
	stRunning = iota
	stWaiting
	stDone
)

type lockstep struct {
	mu    sync.Mutex
	cond  *sync.Cond
	state []int
	grant int
	tick  int   // number of turns given so far
	start []int // tick of each participant's first turn
	end   []int // tick at which each participant finished
}

func newLockstep(n int) *lockstep {
	l := &lockstep{state: make([]int, n), grant: -1, start: make([]int, n), end: make([]int, n)}
	l.cond = sync.NewCond(&l.mu)
	return l
}

// wait is called by participant id at the start of an operation: it blocks until the scheduler
// gives it the turn.
func (l *lockstep) wait(id int) {
	l.mu.Lock()
	l.state[id] = stWaiting
	l.cond.Broadcast()
	for l.grant != id {
		l.cond.Wait()
	}
	l.grant = -1
	if l.start[id] == 0 {
		l.start[id] = l.tick
	}
	l.mu.Unlock()
}

func (l *lockstep) finish(id int) {
	l.mu.Lock()
	l.state[id] = stDone
	l.end[id] = l.tick
	l.cond.Broadcast()
	l.mu.Unlock()
}

func (l *lockstep) now() int {
	l.mu.Lock()
	defer l.mu.Unlock()
	return l.tick
}

// run is the scheduler: whenever nobody runs, it picks one of the waiting participants.
func (l *lockstep) run(r *rand.Rand) {
	l.mu.Lock()
	defer l.mu.Unlock()
	for {
		var waiting []int
		running := false
		for id, s := range l.state {
			switch s {
			case stRunning:
				running = true
			case stWaiting:
				waiting = append(waiting, id)
			}
		}
		if running {
			l.cond.Wait()
			continue
		}
		if len(waiting) == 0 {
			return
		}
		id := waiting[r.IntN(len(waiting))]
		l.tick++
		l.grant = id
		l.state[id] = stRunning
		l.cond.Broadcast()
	}
}

type participant struct {
	entry   string
	retries int
	scripts []script
	vs      []*vcs
	rec     *recorder
	ctx     context.Context
	change  func(context.Context, endorse.ChangeOps) (string, error)
	gen     string

	err      error
	returned bool
	panicMsg string
	panicAt  string
}

func runConcCase(c *core.Ctx, w *world, ci int, r *rand.Rand, fl map[string]bool) {
	c.Begin(ci, fmt.Sprintf("lockstep: %d groups of 2-3 submissions in flight together, interleaved at every back-end operation", groupsPerCase), "endorse.VirtualFirmware", nil)
	for g := 0; g < groupsPerCase; g++ {
		runGroup(c, w, ci, g, r, fl)
	}
	c.End(ci)
}

func runGroup(c *core.Ctx, w *world, ci, g int, r *rand.Rand, fl map[string]bool) {
	const vf, rs = "endorse.VirtualFirmware", "endorse.RetrySubmit"
	imgs := imagePool()
	k := 2 + r.IntN(2)
	l := newLockstep(k)
	var ps []*participant
	var all []string
	for id := 0; id < k; id++ {
		p := &participant{entry: vf, rec: &recorder{}}
		if r.IntN(5) == 0 {
			p.entry = rs
		}
		p.retries = []int{-1, 0, 0, 1, 1, 2, 2, 3}[r.IntN(8)]
		nv := 1
		if p.entry == vf && r.IntN(5) == 0 {
			nv = 2
		}
		outDir := []string{"", "release", "a/b"}[r.IntN(3)]
		initial := []int{0, 2}[r.IntN(2)]
		p.rec.tick = l.now
		pid := id
		turn := func() { l.wait(pid) }
		for vi := 0; vi < nv; vi++ {
			var s script
			if p.entry == rs {
				s = randScript(r, p.retries, opsCaller, false)
			} else {
				s = randScript(r, p.retries, opsManifestQuick, true)
			}
			p.scripts = append(p.scripts, s)
			v := newVCS(vi, p.rec, s, outDir, "", initial)
			v.turn = turn
			p.vs = append(p.vs, v)
		}
		ec := &endorse.Context{
			SevSnp: &sev.SnpEndorsementRequest{LaunchVmsas: 1, Product: spb.SevProduct_SEV_PRODUCT_MILAN, ImageID: "00000000-0000-4000-8000-000000000001", Svn: uint32(r.IntN(2))},
			ClSpec: 1, Image: imgs[r.IntN(len(imgs))], Timestamp: time.Unix(1700000000+int64(r.IntN(1<<20)), 0),
			CandidateName: []string{"", "rc1", "candidate_20240102"}[r.IntN(3)], OutDir: outDir, CommitRetries: p.retries,
		}
		if nv > 1 {
			for _, v := range p.vs {
				ec.VCSs = append(ec.VCSs, v)
			}
		} else {
			ec.VCS = p.vs[0]
		}
		p.ctx = endorse.NewContext(output.NewContext(keys.NewContext(context.Background(), w.kc), &output.Options{Quiet: true}), ec)
		p.change = callerChange(p.vs[0])
		p.gen = fmt.Sprintf("%s CommitRetries=%d %v", p.entry, p.retries, scriptTexts(p.scripts))
		all = append(all, fmt.Sprintf("#%d: %s", id, p.gen))
		ps = append(ps, p)
	}
	gen := fmt.Sprintf("lockstep group %d of %d submissions in flight together: %v", g, k, all)
	m := c.Guard(ci, vf, gen, core.Budget{}, func() {
		for id, p := range ps {
			id, p := id, p
			go func() {
				defer l.finish(id)
				defer func() {
					if x := recover(); x != nil {
						p.panicMsg, p.panicAt = fmt.Sprint(x), core.PanicSite(debug.Stack())
					}
				}()
				l.wait(id)
				if p.entry == rs {
					p.err = endorse.RetrySubmit(p.ctx, p.change)
				} else {
					p.err = endorse.VirtualFirmware(p.ctx)
				}
				p.returned = true
			}()
		}
		l.run(r)
	})
	c.Eval(k - 1)
	if m.Panicked {
		return
	}
	// ---- verdicts: every submission on its own ----
	type view struct {
		gets           []int // ticks of the GetChangeOps calls of back end 0
		mread          [][2]int
		usedUp, judged bool
	}
	views := make([]view, k)
	for id, p := range ps {
		if p.panicMsg != "" {
			c.Violate(core.Violation{Kind: "panic", Entry: p.entry, Site: p.panicAt, Gen: gen, Case: ci, Detail: p.panicMsg})
			continue
		}
		if !p.returned {
			continue
		}
		obs := &runObs{Retries: p.retries, VCSs: p.vs, Log: p.rec.log, Err: p.err, RealChange: p.entry == vf}
		fs, per := judge(obs)
		reportFindings(c, ci, p.entry, gen, fs, map[string]any{"dimension": "lockstep", "group": all, "submission": id, "commit_retries": p.retries,
			"returned_error": errText(p.err), "call_log": logTexts(p.rec.log), "turn_at_start": l.start[id], "turn_at_end": l.end[id]})
		end := endOf(p.err)
		n0 := len(per[0].Attempts)
		v := &views[id]
		v.judged = true
		v.usedUp = end == "budget-exhausted" && n0 == maxAttempts(p.retries)
		var rd int
		for _, e := range p.rec.log {
			if e.VCS != 0 {
				continue
			}
			switch {
			case e.Ev == "get":
				v.gets = append(v.gets, e.Tick)
			case e.Ev == "read" && e.Path == p.vs[0].manifest:
				rd = e.Tick
			case e.Ev == "write" && containsPath(e.Path, p.vs[0].manifest) && rd != 0:
				v.mread = append(v.mread, [2]int{rd, e.Tick})
				rd = 0
			}
		}
		c.Count("lockstep/submissions/"+p.entry, 1)
		c.Count("lockstep/ended/"+end, 1)
		c.Cell("lockstep|group-of-%d|%s|back-ends=%d|retries=%d|attempts=%d|%s", k, p.entry, len(p.vs), p.retries, n0, end)
	}
	c.Count("lockstep/groups", 1)
	c.Max("lockstep/max-turns-in-a-group", int64(l.tick))
	for a := 0; a < k; a++ {
		for b := 0; b < k; b++ {
			if a == b || !views[a].judged || !views[b].judged {
				continue
			}
			for i := 0; i+1 < len(views[a].gets); i++ {
				t1, t2 := views[a].gets[i], views[a].gets[i+1]
				if l.start[b] > t1 && l.start[b] < t2 {
					fl["lockstep: another submission started between two attempts of a submission"] = true
					c.Count("lockstep/other-started-between-attempts", 1)
				}
				if l.end[b] > t1 && l.end[b] < t2 {
					fl["lockstep: another submission finished between two attempts of a submission"] = true
					c.Count("lockstep/other-finished-between-attempts", 1)
				}
			}
			overlap := l.start[a] < l.end[b] && l.start[b] < l.end[a]
			if overlap && views[a].usedUp && views[b].usedUp && maxAttempts(ps[a].retries) != maxAttempts(ps[b].retries) {
				fl["lockstep: submissions with different budgets were in flight together and each used its own budget up exactly"] = true
				c.Count("lockstep/different-budgets-both-used-up-exactly", 1)
			}
			for _, x := range views[a].mread {
				for _, y := range views[b].mread {
					if x[0] < y[1] && y[0] < x[1] {
						fl["lockstep: two submissions were between manifest read and manifest write at the same time"] = true
						c.Count("lockstep/manifest-read-write-windows-overlapping", 1)
					}
				}
			}
		}
	}
	if g == 0 && ci%89 == 0 {
		var logs [][]string
		for _, p := range ps {
			logs = append(logs, logTexts(p.rec.log))
		}
		c.Sample(map[string]any{"lockstep_group": all, "call_logs_with_turn_numbers": logs})
	}
}
