package c14

// Error-shape dimension, appended after every earlier case number (c14.go, extra.go, seq.go,
// conc.go, hist.go keep their numbers and PRNG streams).
//
// What the earlier families never produced: every scripted failure was the back end's own opaque
// error value (*vcsErr) and nothing else, so "what the error IS" and "what the back end SAYS about
// it" were one and the same thing. A real back end returns errors that are also something
// well-known: they wrap context.DeadlineExceeded or context.Canceled although the caller's context
// is live (a per-call time limit of the client library), they are net / url / syscall / fs errors,
// gRPC statuses, they have Timeout() / Temporary() methods, their text says "conflict, try again"
// or "fatal". The property leaves the decision to the back end alone ("retries only after errors
// the version-control backend marks retriable"), so here the back end's verdict is made
// INDEPENDENT of the shape: every shape is scripted once as retriable and once as permanent, at
// every operation of an attempt, through both entry points, under a plain context and under a
// context that has a deadline which has not passed.
//
// Nothing new is judged: the same offline checker (oracle.go) reads the call log; the class of a
// logged error is the verdict the back end gives for it (RetriableError finds its own value in the
// chain, like a real back end finds its status code).

import (
	"context"
	"errors"
	"fmt"
	"io"
	"io/fs"
	"net"
	"net/url"
	"os"
	"syscall"

	"github.com/google/gce-tcb-verifier/endorse"
	"google.golang.org/grpc/codes"
	"google.golang.org/grpc/status"

	"verifharness/core"
)

// shapedErr is a back-end error that is the back end's own value AND something else.
type shapedErr struct {
	ve    *vcsErr
	inner error
}

func (e *shapedErr) Error() string {
	// the text does not carry the back end's verdict
	return fmt.Sprintf("vcs%d attempt %d: %s: %v", e.ve.VCS, e.ve.Attempt, e.ve.Op, e.inner)
}
func (e *shapedErr) Unwrap() []error { return []error{e.ve, e.inner} }

// eagerErr answers yes to every "is it worth another try" method a caller could look for.
type eagerErr struct{}

func (eagerErr) Error() string   { return "back end busy" }
func (eagerErr) Timeout() bool   { return true }
func (eagerErr) Temporary() bool { return true }
func (eagerErr) Retriable() bool { return true }
func (eagerErr) Retryable() bool { return true }

type errShape struct {
	name   string
	mk     func() error
	probe  func(error) bool // the shaped error really is what the name says (self-check of the double)
	noRead bool             // not used for reads (the back end's IsNotFound would call it a benign not-found)
}

func isErr(target error) func(error) bool {
	return func(e error) bool { return errors.Is(e, target) }
}

func grpcCode(c codes.Code) func(error) bool {
	return func(e error) bool {
		s, ok := status.FromError(e)
		return ok && s.Code() == c
	}
}

func hasTimeout(e error) bool {
	var t interface{ Timeout() bool }
	return errors.As(e, &t) && t.Timeout()
}

// errShapes: index+1 is outcome.Shape.
var errShapes = []errShape{
	{name: "wraps-context.DeadlineExceeded", mk: func() error { return fmt.Errorf("rpc: %w", context.DeadlineExceeded) }, probe: isErr(context.DeadlineExceeded)},
	{name: "wraps-context.Canceled", mk: func() error { return fmt.Errorf("rpc: %w", context.Canceled) }, probe: isErr(context.Canceled)},
	{name: "wraps-os.ErrDeadlineExceeded", mk: func() error { return fmt.Errorf("i/o: %w", os.ErrDeadlineExceeded) }, probe: func(e error) bool { return errors.Is(e, os.ErrDeadlineExceeded) && hasTimeout(e) }},
	{name: "net.OpError-i/o-timeout", mk: func() error {
		return &net.OpError{Op: "read", Net: "tcp", Err: os.ErrDeadlineExceeded}
	}, probe: func(e error) bool { var ne net.Error; return errors.As(e, &ne) && ne.Timeout() }},
	{name: "net.OpError-connection-refused", mk: func() error {
		return &net.OpError{Op: "dial", Net: "tcp", Err: os.NewSyscallError("connect", syscall.ECONNREFUSED)}
	}, probe: isErr(syscall.ECONNREFUSED)},
	{name: "url.Error-wrapping-io.EOF", mk: func() error {
		return &url.Error{Op: "Post", URL: "https://depot.invalid/commit", Err: io.EOF}
	}, probe: isErr(io.EOF)},
	{name: "io.ErrUnexpectedEOF", mk: func() error { return io.ErrUnexpectedEOF }, probe: isErr(io.ErrUnexpectedEOF)},
	{name: "syscall.ECONNRESET", mk: func() error { return os.NewSyscallError("read", syscall.ECONNRESET) }, probe: isErr(syscall.ECONNRESET)},
	{name: "syscall.ETIMEDOUT", mk: func() error { return os.NewSyscallError("connect", syscall.ETIMEDOUT) }, probe: func(e error) bool { return errors.Is(e, syscall.ETIMEDOUT) && hasTimeout(e) }},
	{name: "syscall.EAGAIN", mk: func() error { return syscall.EAGAIN }, probe: isErr(syscall.EAGAIN)},
	{name: "fs.PathError-permission-denied", mk: func() error {
		return &fs.PathError{Op: "open", Path: "/depot/x", Err: fs.ErrPermission}
	}, probe: isErr(fs.ErrPermission)},
	{name: "fs.ErrExist", mk: func() error { return fmt.Errorf("create: %w", fs.ErrExist) }, probe: isErr(fs.ErrExist)},
	{name: "fs.ErrNotExist", mk: func() error { return &fs.PathError{Op: "open", Path: "/depot/x", Err: fs.ErrNotExist} }, probe: isErr(fs.ErrNotExist), noRead: true},
	{name: "grpc-Unavailable", mk: func() error { return status.Error(codes.Unavailable, "try again later") }, probe: grpcCode(codes.Unavailable)},
	{name: "grpc-Aborted", mk: func() error { return status.Error(codes.Aborted, "transaction aborted") }, probe: grpcCode(codes.Aborted)},
	{name: "grpc-DeadlineExceeded", mk: func() error { return status.Error(codes.DeadlineExceeded, "context deadline exceeded") }, probe: grpcCode(codes.DeadlineExceeded)},
	{name: "grpc-PermissionDenied", mk: func() error { return status.Error(codes.PermissionDenied, "caller may not submit") }, probe: grpcCode(codes.PermissionDenied)},
	{name: "text-says-conflict-try-again", mk: func() error {
		return errors.New("merge conflict, retriable: temporarily unavailable (timeout), please retry")
	}, probe: func(error) bool { return true }},
	{name: "text-says-fatal", mk: func() error { return errors.New("fatal: permanent failure, not retriable, do not retry") }, probe: func(error) bool { return true }},
	{name: "wraps-endorse.ErrNoRetries", mk: func() error { return fmt.Errorf("proxy: %w", endorse.ErrNoRetries) }, probe: isErr(endorse.ErrNoRetries)},
	{name: "has-Timeout-Temporary-Retriable-methods", mk: func() error { return eagerErr{} }, probe: hasTimeout},
	{name: "errors.Join(context.DeadlineExceeded,io.EOF)", mk: func() error { return errors.Join(context.DeadlineExceeded, io.EOF) },
		probe: func(e error) bool { return errors.Is(e, context.DeadlineExceeded) && errors.Is(e, io.EOF) }},
}

func shapeName(s int) string {
	if s >= 1 && s <= len(errShapes) {
		return errShapes[s-1].name
	}
	return fmt.Sprintf("shape#%d", s)
}

// shaped gives the back end's own error value the scripted shape (0: none, the value itself).
func shaped(ve *vcsErr, shape int) error {
	if shape < 1 || shape > len(errShapes) {
		return ve
	}
	return &shapedErr{ve: ve, inner: errShapes[shape-1].mk()}
}

// shapesSound checks the double itself: every shaped error is found by the back end (its own value
// is in the chain, through the wrapping the repository adds) and is what its name says.
func shapesSound() (bad string) {
	for i, sh := range errShapes {
		for _, cls := range []int{clsRetriable, clsPermanent} {
			ve := &vcsErr{VCS: 0, Attempt: 1, Op: "probe", Class: cls}
			e := fmt.Errorf("failed to submit change: %w", shaped(ve, i+1))
			var got *vcsErr
			if !errors.As(e, &got) || got != ve || !sh.probe(e) {
				return sh.name
			}
		}
	}
	return ""
}

const (
	flShapeStopped = "error-shape: a failure wrapping context.DeadlineExceeded that the back end called NOT retriable ended the submission after one attempt, budget left, caller's context live"
	flShapeRetried = "error-shape: a failure of a well-known shape that the back end called retriable was retried and the retry committed"
	flShapeLanded  = "error-shape: a TryCommit that landed and was answered with a not-retriable time-out was not submitted again"
	flShapeSecond  = "error-shape: the second back end's not-retriable shaped failure ended a two-back-end submission"
	flShapesSound  = "error-shape: every shaped error carries the back end's own value and is what its name says"
)

var shapeFloors = func() []string {
	fs := []string{flShapesSound, flShapeStopped, flShapeRetried, flShapeLanded, flShapeSecond}
	for _, sh := range errShapes {
		fs = append(fs, shapeFloorName(sh.name))
	}
	return fs
}()

func shapeFloorName(n string) string {
	return "error-shape/" + n + ": called not retriable by the back end -> submission ended there with budget left"
}

// shapeJobs enumerates, for every shape x every operation of an attempt x budgets {1,3} x {plain
// context; context with a deadline that has not passed}, the scripts
//
//	[P]  [R ok]  [R P]  [plain-R P]  [R R .. R (budget used up)]
//
// (R / P = this shape, called retriable / permanent by the back end; after a P the script is silent,
// i.e. an attempt that must not be made would succeed), for TryCommit also [P landed] and
// [R landed, ok]; through endorse.VirtualFirmware (manifest mode) and endorse.RetrySubmit with a
// caller's change function; plus two back ends with the shaped failure in the second one.
func shapeJobs() []job {
	var js []job
	const vf, rs = "endorse.VirtualFirmware", "endorse.RetrySubmit"
	type fam struct {
		entry, mode string
		ops         []opRef
	}
	fams := []fam{{vf, "error-shape", opsManifestQuick}, {rs, "error-shape-caller-change", opsCaller}}
	for si, sh := range errShapes {
		s := si + 1
		for _, f := range fams {
			for _, op := range f.ops {
				if sh.noRead && op.kind == "read" {
					continue
				}
				R := outcome{Kind: op.kind, Nth: op.nth, Class: clsRetriable, Shape: s}
				P := outcome{Kind: op.kind, Nth: op.nth, Class: clsPermanent, Shape: s}
				plainR := outcome{Kind: op.kind, Nth: op.nth, Class: clsRetriable}
				for _, b := range []int{1, 3} {
					var all script
					for a := 0; a < maxAttempts(b); a++ {
						all = append(all, R)
					}
					scripts := []script{{P}, {R, {}}, {R, P}, {plainR, P}, all}
					if op.kind == "commit" && f.entry == vf {
						Pl, Rl := P, R
						Pl.Lands, Rl.Lands = true, true
						scripts = append(scripts, script{Pl}, script{Rl, {}})
					}
					for _, sc := range scripts {
						for _, live := range []bool{false, true} {
							js = append(js, job{entry: f.entry, mode: f.mode, retries: b, scripts: []script{sc}, dim: "error-shape", liveDeadline: live, initial: 2})
						}
					}
				}
			}
		}
		// two back ends: the first one commits, the second one fails with the shape
		for _, op := range opsMulti {
			R := outcome{Kind: op.kind, Nth: op.nth, Class: clsRetriable, Shape: s}
			P := outcome{Kind: op.kind, Nth: op.nth, Class: clsPermanent, Shape: s}
			for _, sc := range []script{{P}, {R, {}}} {
				js = append(js, job{entry: vf, mode: "error-shape-multi2", retries: 2, scripts: []script{{{}}, sc}, dim: "error-shape"})
			}
		}
	}
	return js
}

// shapeEvidence records what an error-shape submission showed. Attempts, verdicts and the end are
// taken from the call log; the shape's name comes from the script (it is evidence, not a verdict).
func shapeEvidence(c *core.Ctx, j job, log []event, per []*vcsObs, rerr error, fl map[string]bool) {
	c.Count("audit/error-shape/"+j.mode, 1)
	sc := j.scripts[len(j.scripts)-1]
	o := per[len(per)-1]
	shape, firstShaped := 0, -1
	for a, oc := range sc {
		if oc.Shape != 0 {
			shape, firstShaped = oc.Shape, a
			break
		}
	}
	if shape == 0 || len(o.Attempts) <= firstShaped {
		return
	}
	name := shapeName(shape)
	a := o.Attempts[firstShaped]
	if !a.AnyErr {
		c.Count("error-shape/scripted-operation-not-reached", 1)
		return
	}
	n := len(o.Attempts)
	end := endOf(rerr)
	verdict := className(a.LastErrClass)
	failedOp := ""
	for _, e := range a.Events {
		if e.Err != "" && !e.NotFnd && e.Ev != "retriable?" {
			failedOp = e.Ev
		}
	}
	landed := false
	for _, e := range a.Events {
		if e.Ev == "commit" && e.Path == "landed-ack-lost" {
			landed = true
		}
	}
	c.Count("error-shape/failures-seen/"+name+"/"+verdict, 1)
	ctxKind := "plain-context"
	if j.liveDeadline {
		ctxKind = "context-with-a-deadline-not-passed"
	}
	c.Count("error-shape/"+ctxKind, 1)
	c.Cell("error-shape|%s|%s|%s|called-%s|attempts=%d|%s|landed=%v", j.mode, name, failedOp, verdict, n, end, landed)
	if a.LastErrClass == clsPermanent && n == firstShaped+1 && n < maxAttempts(j.retries) && rerr != nil && !o.Committed {
		fl[shapeFloorName(name)] = true
		if shape == 1 && firstShaped == 0 {
			fl[flShapeStopped] = true
		}
		if landed && (shape == 1 || shape == 16) {
			fl[flShapeLanded] = true
		}
		if len(per) == 2 && per[0].Committed {
			fl[flShapeSecond] = true
		}
	}
	if a.LastErrClass == clsRetriable && a.SaidRetry && n > firstShaped+1 && rerr == nil && o.Committed {
		fl[flShapeRetried] = true
		c.Count("error-shape/retriable-shaped-failure-retried-and-committed", 1)
	}
}

// runShapes runs the error-shape cases: numbers base.. in the order of shapeJobs (the list is the
// same in both tiers; it is exhaustive over its dimensions).
func runShapes(c *core.Ctx, w *world, base int, fl map[string]bool) (next int) {
	if bad := shapesSound(); bad != "" {
		c.Note("error-shape double is unsound for shape %s", bad)
	} else {
		fl[flShapesSound] = true
	}
	js := shapeJobs()
	n := (len(js) + chunk - 1) / chunk
	for i := 0; i < n; i++ {
		ci := base + i
		if !c.Mine(ci) {
			continue
		}
		r := c.Rand(ci)
		lo, hi := i*chunk, min((i+1)*chunk, len(js))
		c.Begin(ci, fmt.Sprintf("error-shape scripts %d..%d: first %s", lo, hi-1, js[lo]), js[lo].entry, nil)
		for k := lo; k < hi; k++ {
			runJob(c, w, ci, 3_000_000+k, js[k], r, fl)
		}
		c.End(ci)
	}
	c.Max("error-shape/scripts-enumerated-in-tier", int64(len(js)))
	return base + n
}
