package c14

import (
	"bytes"
	"fmt"
	"math"

	rpb "github.com/google/gce-tcb-verifier/proto/releases"
	"google.golang.org/protobuf/encoding/prototext"
)

// finding is one refutation of C14 by the offline checker.
type finding struct {
	Rule   string
	Detail string
}

// runObs is everything the checker sees of one submission: the budget, the recorded call log
// of the scripted back ends, their committed heads afterwards, and the returned error.
// The scripts themselves are NOT an input: the verdict is computed from what the doubles
// actually answered.
type runObs struct {
	Retries    int
	VCSs       []*vcs
	Log        []event
	Err        error
	RealChange bool // the repository's own change function ran (VirtualFirmware), so the manifest rules apply
}

// attemptObs is the checker's view of one attempt (one GetChangeOps call and what followed
// until the next GetChangeOps call on the same back end).
type attemptObs struct {
	K            int
	Obtained     bool
	Committed    bool
	Commits      []string
	LastErrClass int  // class of the last error the back end returned in this attempt (not-found reads excluded)
	AnyErr       bool // the back end returned some error
	SaidRetry    bool // RetriableError answered true during this attempt
	Asked        int
	Events       []event
}

// vcsObs summarises one back end.
type vcsObs struct {
	Attempts   []*attemptObs
	Results    []event
	Destroys   map[int]int
	Committed  bool
	CommitIDs  map[string]int // commit id -> seq
	Conflicts  int
	WriterSeen int
	PreEvents  []event
	CtxDoneSeq int // log position at which the context became done (0: never)
}

func segment(v *vcs, log []event) *vcsObs {
	o := &vcsObs{Destroys: map[int]int{}, CommitIDs: map[string]int{}}
	var cur *attemptObs
	for _, e := range log {
		if e.VCS != v.id {
			continue
		}
		if e.Ev == "get" {
			cur = &attemptObs{K: len(o.Attempts) + 1, Obtained: e.Err == ""}
			o.Attempts = append(o.Attempts, cur)
		}
		if e.Ev == "writer" {
			o.WriterSeen++
			continue // the writer's own action belongs to no attempt
		}
		if e.Ev == "ctx-done" {
			o.CtxDoneSeq = e.Seq
			continue // the environment's action, not the repository's
		}
		if e.Ev == "destroy" {
			o.Destroys[e.WS]++
		}
		if e.Ev == "result" {
			o.Results = append(o.Results, e)
		}
		if cur == nil {
			o.PreEvents = append(o.PreEvents, e)
			continue
		}
		cur.Events = append(cur.Events, e)
		switch e.Ev {
		case "get", "read", "write", "chmod", "commit", "change":
			if e.Err != "" && !e.NotFnd {
				cur.AnyErr = true
				cur.LastErrClass = e.Class
			}
			if e.Ev == "commit" && e.Err == "" {
				// a successful commit belongs to the attempt whose workspace it came from
				o.Committed = true
				o.CommitIDs[e.Commit] = e.Seq
				if e.WS == cur.K {
					cur.Committed = true
					cur.Commits = append(cur.Commits, e.Commit)
				} else if e.WS >= 1 && e.WS <= len(o.Attempts) {
					a := o.Attempts[e.WS-1]
					a.Committed = true
					a.Commits = append(a.Commits, e.Commit)
				}
			}
			if e.Ev == "commit" && e.Path == "conflict" {
				o.Conflicts++
			}
		case "retriable?":
			cur.Asked++
			if e.Answer {
				cur.SaidRetry = true
			}
		}
	}
	return o
}

func maxAttempts(retries int) int {
	if retries < 0 {
		retries = 0
	}
	if retries == math.MaxInt {
		return math.MaxInt // retries+1 does not exist as an int; no run gets there
	}
	return retries + 1
}

// judge is the C14 oracle. It never demands more than the property: early stops are not judged
// (the bound is "at most"), a successful attempt need not release its workspace, the path given
// to Result is not judged.
func judge(r *runObs) (fs []finding, per []*vcsObs) {
	add := func(rule, format string, a ...any) {
		fs = append(fs, finding{rule, fmt.Sprintf(format, a...)})
	}
	allCommitted := true
	for _, v := range r.VCSs {
		o := segment(v, r.Log)
		per = append(per, o)
		n := len(o.Attempts)
		// (1) bounded
		if n > maxAttempts(r.Retries) {
			add("attempts-exceed-retries-plus-one", "vcs%d: %d attempts (GetChangeOps calls) with CommitRetries=%d, at most %d allowed", v.id, n, r.Retries, maxAttempts(r.Retries))
		}
		if len(o.PreEvents) > 0 {
			add("operation-outside-any-attempt", "vcs%d: %v before the first workspace was requested", v.id, o.PreEvents[0])
		}
		for _, a := range o.Attempts {
			// (2) a further attempt only after a failure the back end called retriable
			if a.K < n {
				switch {
				case a.Committed:
					add("retried-after-successful-commit", "vcs%d: attempt %d committed %v, yet attempt %d was started", v.id, a.K, a.Commits, a.K+1)
				case !a.SaidRetry:
					add("retry-without-retriable-error", "vcs%d: attempt %d started although RetriableError never answered true after attempt %d (asked %d times; last back-end error class %s)",
						v.id, a.K+1, a.K, a.Asked, className(a.LastErrClass))
				case a.LastErrClass != clsRetriable:
					add("retry-without-retriable-error", "vcs%d: attempt %d started although the error that ended attempt %d was %s", v.id, a.K+1, a.K, className(a.LastErrClass))
				}
			}
			// (3) fresh workspace: everything done during attempt k is done on the workspace obtained in attempt k
			manifestRead := false
			commitCalls, classified := 0, false
			for _, e := range a.Events {
				if e.Ev == "retriable?" && e.Answer {
					classified = true
				}
				switch e.Ev {
				case "read", "write", "chmod", "commit", "change":
					// a new attempt (more work after the failure was classified retriable, or a second
					// TryCommit) without a new workspace is not a fresh start
					if e.Ev == "commit" {
						commitCalls++
					}
					if classified || commitCalls > 1 {
						add("retry-without-fresh-workspace", "vcs%d: %v continues on workspace %d after its attempt had failed (no new GetChangeOps in between)", v.id, e, e.WS)
						classified, commitCalls = false, 0
					}
					if e.WS != a.K {
						add("stale-workspace-used", "vcs%d: during attempt %d, %v used the workspace of attempt %d", v.id, a.K, e, e.WS)
					}
					if e.Dead {
						add("workspace-used-after-release", "vcs%d: %v on a workspace that was already destroyed", v.id, e)
					}
				}
				// (4) the manifest this attempt writes was read in this attempt from this attempt's workspace
				if r.RealChange && v.manifest != "" {
					if e.Ev == "read" && e.WS == a.K && e.Path == v.manifest {
						manifestRead = true
					}
					if e.Ev == "write" && containsPath(e.Path, v.manifest) && !manifestRead {
						add("manifest-written-without-reading-it-in-this-attempt", "vcs%d: attempt %d wrote %s without a preceding read of it from workspace %d", v.id, a.K, v.manifest, a.K)
					}
				}
			}
			// (5) the workspace of a failed attempt is released exactly once
			if a.Obtained {
				d := o.Destroys[a.K]
				if !a.Committed && d == 0 {
					add("failed-attempt-workspace-not-released", "vcs%d: attempt %d obtained workspace %d, did not commit, and never called Destroy on it", v.id, a.K, a.K)
				}
				if !a.Committed && d > 1 {
					add("workspace-released-more-than-once", "vcs%d: Destroy called %d times on the workspace of failed attempt %d", v.id, d, a.K)
				}
			}
		}
		// (7) Result exactly once on success, with that commit, after it; never on failure
		if !o.Committed {
			allCommitted = false
			if len(o.Results) > 0 {
				add("result-recorded-without-commit", "vcs%d: Result(%s) called although no TryCommit succeeded", v.id, o.Results[0].Commit)
			}
		} else {
			switch {
			case len(o.Results) == 0:
				add("commit-not-recorded", "vcs%d: TryCommit succeeded but Result was never called", v.id)
			case len(o.Results) > 1:
				add("result-recorded-more-than-once", "vcs%d: Result called %d times for one submission", v.id, len(o.Results))
			default:
				res := o.Results[0]
				seq, ok := o.CommitIDs[res.Commit]
				if !ok {
					add("result-records-wrong-commit", "vcs%d: Result(%q) but the successful commit was %v", v.id, res.Commit, mapKeys(o.CommitIDs))
				} else if res.Seq < seq {
					add("result-recorded-before-commit", "vcs%d: Result at log position %d precedes the commit at %d", v.id, res.Seq, seq)
				}
			}
		}
		// (8) nothing a concurrent writer (or an earlier run) committed is dropped from the manifest
		if o.Committed && r.RealChange && v.manifest != "" {
			m := &rpb.VMEndorsementMap{}
			if err := prototext.Unmarshal(v.head[v.manifest], m); err != nil {
				add("committed-manifest-unparsable", "vcs%d: %v", v.id, err)
			} else {
				for _, want := range append(append([]*rpb.VMEndorsementMap_Entry{}, v.initial...), v.written...) {
					found := false
					for _, e := range m.Entries {
						if e.Path == want.Path && bytes.Equal(e.Digest, want.Digest) {
							found = true
						}
					}
					if !found {
						add("concurrently-committed-entry-dropped", "vcs%d: committed manifest has %d entries and lacks entry %q that was on the head before the successful attempt obtained its workspace", v.id, len(m.Entries), want.Path)
					}
				}
			}
		}
	}
	// (6) honest report
	if r.Err == nil && !allCommitted {
		add("success-reported-without-commit", "nil error returned although %s", notCommitted(per, r.VCSs))
	}
	if r.Err != nil && allCommitted {
		add("failure-reported-despite-commit", "error %q returned although every back end accepted a commit", r.Err)
	}
	return fs, per
}

func className(c int) string {
	return map[int]string{clsNone: "not a back-end error", clsRetriable: "retriable", clsPermanent: "permanent"}[c]
}

func containsPath(list, p string) bool {
	for _, s := range bytes.Split([]byte(list), []byte(",")) {
		if string(s) == p {
			return true
		}
	}
	return false
}

func mapKeys(m map[string]int) []string {
	var s []string
	for k := range m {
		s = append(s, k)
	}
	return s
}

func notCommitted(per []*vcsObs, vs []*vcs) string {
	s := ""
	for i, o := range per {
		if !o.Committed {
			s += fmt.Sprintf("vcs%d had no successful TryCommit; ", vs[i].id)
		}
	}
	return s
}
