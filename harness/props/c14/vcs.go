package c14

import (
	"context"
	"crypto/sha512"
	"errors"
	"fmt"
	"io/fs"
	"path"
	"sync"
	"time"

	"github.com/google/gce-tcb-verifier/endorse"
	rpb "github.com/google/gce-tcb-verifier/proto/releases"
	"github.com/google/gce-tcb-verifier/timeproto"
	"google.golang.org/protobuf/encoding/prototext"
)

// ---- fault scripts ----

// Error classes of the scripted back end.
const (
	clsNone = iota
	clsRetriable
	clsPermanent
)

// Concurrent-writer positions relative to one attempt.
const (
	wrNone   = iota
	wrBefore // somebody else commits before this attempt obtains its workspace
	wrMid    // somebody else commits after this attempt read its files and before its TryCommit
	wrTwin   // somebody else commits THE SAME entry (same digest, path, create time; own endorsement file) before this attempt obtains its workspace (hist.go)
)

// outcome scripts one attempt: which operation of the attempt fails (kind + n-th call of that
// kind inside the attempt), with which error class, and whether a concurrent writer commits.
// kind "change" is only used by the direct RetrySubmit workload (the caller's change function
// itself returns the error).
type outcome struct {
	Kind   string // "", get, read, write, chmod, commit, change
	Nth    int
	Class  int
	Writer int
	// Lands (hist.go; only with Kind "commit"): the commit is applied to the head and THEN the
	// back end answers with the scripted error (the acknowledgement was lost). From the caller's
	// side that TryCommit failed.
	Lands bool
	// Shape (errs.go): what ELSE the scripted error is, besides the back end's own error value: a
	// well-known sentinel or type in its chain, methods, a message. 0 = nothing else. The back end's
	// verdict (Class) does not depend on it.
	Shape int
}

func (o outcome) String() string {
	s := "ok"
	if o.Class != clsNone {
		s = fmt.Sprintf("%s#%d!%s", o.Kind, o.Nth, map[int]string{clsRetriable: "R", clsPermanent: "P"}[o.Class])
		if o.Kind == "get" || o.Kind == "commit" || o.Kind == "change" {
			s = fmt.Sprintf("%s!%s", o.Kind, map[int]string{clsRetriable: "R", clsPermanent: "P"}[o.Class])
		}
		if o.Lands {
			s += "(landed,ack-lost)"
		}
		if o.Shape != 0 {
			s += "{" + shapeName(o.Shape) + "}"
		}
	}
	switch o.Writer {
	case wrTwin:
		s = "TWIN>" + s
	case wrBefore:
		s = "W>" + s
	case wrMid:
		s += ">W"
	}
	return s
}

type script []outcome

func (s script) String() string {
	t := "["
	for i, o := range s {
		if i > 0 {
			t += " | "
		}
		t += o.String()
	}
	return t + "]"
}

// vcsErr is the error type of the scripted back end; RetriableError recognises it through
// errors.As, like a real back end recognises its own status codes through wrapping.
type vcsErr struct {
	VCS     int
	Attempt int
	Op      string
	Class   int
}

func (e *vcsErr) Error() string {
	return fmt.Sprintf("vcs%d attempt %d: %s failed (%s)", e.VCS, e.Attempt, e.Op, map[int]string{clsRetriable: "retriable", clsPermanent: "permanent"}[e.Class])
}

// ---- call log ----

// event is one record of the process-wide call log.
type event struct {
	Seq     int    `json:"seq"`
	VCS     int    `json:"vcs"`
	Ev      string `json:"ev"` // get read write chmod commit destroy retriable? result writer change
	WS      int    `json:"ws,omitempty"`
	Path    string `json:"path,omitempty"`
	Err     string `json:"err,omitempty"`
	Class   int    `json:"class,omitempty"`    // class of the error returned (clsNone for not-found and success)
	NotFnd  bool   `json:"notfound,omitempty"` // benign not-found answer of ReadFile
	Answer  bool   `json:"answer,omitempty"`   // RetriableError's answer
	Commit  string `json:"commit,omitempty"`   // TryCommit's commit / Result's argument
	Dead    bool   `json:"dead,omitempty"`     // operation on a workspace that was already destroyed
	Attempt int    `json:"attempt"`            // number of GetChangeOps calls on this VCS so far
	Tick    int    `json:"tick,omitempty"`     // lockstep groups: the scheduler's turn number at which this was logged
}

func (e event) String() string {
	s := fmt.Sprintf("%d:v%d.%s", e.Seq, e.VCS, e.Ev)
	if e.WS != 0 {
		if e.WS < 0 {
			s += fmt.Sprintf("(WORKSPACE-OF-EARLIER-SUBMISSION#%d ws%d", -e.WS/1000, -e.WS%1000)
		} else {
			s += fmt.Sprintf("(ws%d", e.WS)
		}
		if e.Path != "" {
			s += " " + e.Path
		}
		s += ")"
	} else if e.Path != "" {
		s += "(" + e.Path + ")"
	}
	switch {
	case e.Ev == "retriable?":
		s += fmt.Sprintf("=%v", e.Answer)
	case e.NotFnd:
		s += "=notfound"
	case e.Err != "":
		s += "=ERR:" + map[int]string{clsNone: "other", clsRetriable: "R", clsPermanent: "P"}[e.Class]
	case e.Commit != "":
		s += "=" + e.Commit
	}
	if e.Dead {
		s += "[DEAD-WS]"
	}
	if e.Tick != 0 {
		s += fmt.Sprintf("@turn%d", e.Tick)
	}
	return s
}

type recorder struct {
	mu   sync.Mutex
	log  []event
	tick func() int // lockstep groups: the scheduler's turn counter (nil elsewhere)
}

func (r *recorder) add(e event) {
	if r.tick != nil {
		e.Tick = r.tick()
	}
	r.mu.Lock()
	e.Seq = len(r.log) + 1
	r.log = append(r.log, e)
	r.mu.Unlock()
}

// ---- the scripted version-control model ----

// vcs models a version-control back end with a committed head (files + revision), workspaces
// that snapshot the head when they are obtained, optimistic commits (a commit from a workspace
// whose base revision is no longer the head is refused with a retriable conflict), and a
// concurrent writer that does a correct read-modify-write of the manifest on the head.
type vcs struct {
	id       int
	rec      *recorder
	script   script
	root     string // ReleasePath prefix
	manifest string // full path of the manifest on this VCS ("" in snapshot mode)
	snapDir  string // full path of the snapshot directory ("" in manifest mode)

	ctl      *ctxCtl      // scripted context of the submission (nil: the context never becomes done)
	cancelAt *cancelPoint // where this back end makes the context done (nil: nowhere)
	honour   bool         // a back end that refuses every operation that STARTS after the context is done

	// kept-value sequences (seq.go): the same back-end value serves several submissions one after
	// the other; sub numbers them, a workspace remembers the submission it was obtained in.
	sub int
	// lockstep groups (conc.go): called at the start of every operation the repository performs on
	// this back end; it blocks until the deterministic scheduler gives this submission the turn.
	turn func()

	// hist.go: the entry this submission is about to add and the full path of its endorsement file
	// (what the twin writer commits).
	own     *rpb.VMEndorsementMap_Entry
	ownFile string
	twins   int // commits of the twin writer
	landed  int // commits that landed although TryCommit answered with an error

	attempt int
	head    map[string][]byte // replaced, never mutated, on every commit
	rev     int
	initial []*rpb.VMEndorsementMap_Entry
	written []*rpb.VMEndorsementMap_Entry // entries committed by the concurrent writer
	wsList  []*workspace
}

func newVCS(id int, rec *recorder, s script, outDir, snapshotDir string, initialEntries int) *vcs {
	v := &vcs{id: id, rec: rec, script: s, root: fmt.Sprintf("/depot%d", id), head: map[string][]byte{}}
	if snapshotDir != "" {
		v.snapDir = path.Join(v.root, snapshotDir)
	} else {
		v.manifest = path.Join(v.root, outDir, endorse.ManifestFile)
	}
	if initialEntries > 0 && v.manifest != "" {
		m := &rpb.VMEndorsementMap{}
		files := map[string][]byte{}
		for i := 0; i < initialEntries; i++ {
			d := sha512.Sum384([]byte(fmt.Sprintf("initial-%d-%d", id, i)))
			e := &rpb.VMEndorsementMap_Entry{Digest: d[:], Path: fmt.Sprintf("old%d.binarypb", i),
				CreateTime: timeproto.To(time.Unix(1600000000+int64(i), 0))}
			m.Entries = append(m.Entries, e)
			v.initial = append(v.initial, e)
			files[path.Join(v.root, outDir, e.Path)] = []byte("old endorsement")
		}
		b, _ := prototext.Marshal(m)
		files[v.manifest] = b
		v.head = files
		v.rev = 1
	}
	return v
}

// setOwn tells the back-end model which manifest entry the submission is about to add.
func (v *vcs) setOwn(outDir, cand string, img []byte, ts time.Time) {
	if cand == "" {
		cand = endorse.DefaultEndorsementBasename
	}
	d := sha512.Sum384(img)
	v.own = &rpb.VMEndorsementMap_Entry{Digest: d[:], Path: cand + ".binarypb", CreateTime: timeproto.To(ts)}
	v.ownFile = path.Join(v.root, outDir, v.own.Path)
}

func (v *vcs) cur() outcome {
	if v.attempt >= 1 && v.attempt-1 < len(v.script) {
		return v.script[v.attempt-1]
	}
	return outcome{}
}

// writerCommit is the concurrent writer: a correct read-modify-write on the head.
func (v *vcs) writerCommit() {
	n := len(v.written)
	nh := make(map[string][]byte, len(v.head)+2)
	for k, b := range v.head {
		nh[k] = b
	}
	d := sha512.Sum384([]byte(fmt.Sprintf("writer-%d-%d", v.id, n)))
	e := &rpb.VMEndorsementMap_Entry{Digest: d[:], Path: fmt.Sprintf("w%d.binarypb", n),
		CreateTime: timeproto.To(time.Unix(1650000000+int64(n), 0))}
	if v.manifest != "" {
		m := &rpb.VMEndorsementMap{}
		if b, ok := v.head[v.manifest]; ok {
			if err := prototext.Unmarshal(b, m); err != nil {
				panic("c14 double: head manifest unparsable for the concurrent writer: " + err.Error())
			}
		}
		m.Entries = append(m.Entries, e)
		b, _ := prototext.Marshal(m)
		nh[v.manifest] = b
		nh[path.Join(path.Dir(v.manifest), e.Path)] = []byte("writer endorsement")
	} else {
		nh[path.Join(v.snapDir, fmt.Sprintf("w%d.fd", n))] = []byte("writer firmware")
	}
	v.written = append(v.written, e)
	v.head = nh
	v.rev++
	v.rec.add(event{VCS: v.id, Ev: "writer", Path: e.Path, Attempt: v.attempt})
}

// twinCommit is somebody else (a second run of the same pipeline for the same candidate, image and
// build time) committing the very entry this submission is about to add, with an endorsement file
// of its own: a correct read-modify-write of the manifest on the head. Entries of other candidates
// are left alone.
func (v *vcs) twinCommit() {
	if v.manifest == "" || v.own == nil {
		return
	}
	nh := make(map[string][]byte, len(v.head)+2)
	for k, b := range v.head {
		nh[k] = b
	}
	m := &rpb.VMEndorsementMap{}
	if b, ok := v.head[v.manifest]; ok {
		if err := prototext.Unmarshal(b, m); err != nil {
			panic("c14 double: head manifest unparsable for the twin writer: " + err.Error())
		}
	}
	var keep []*rpb.VMEndorsementMap_Entry
	for _, e := range m.Entries {
		if e.Path == v.own.Path || string(e.Digest) == string(v.own.Digest) {
			continue
		}
		keep = append(keep, e)
	}
	m.Entries = append(keep, &rpb.VMEndorsementMap_Entry{Digest: append([]byte(nil), v.own.Digest...), Path: v.own.Path, CreateTime: v.own.CreateTime})
	b, _ := prototext.Marshal(m)
	nh[v.manifest] = b
	nh[v.ownFile] = []byte(fmt.Sprintf("twin endorsement %d", v.twins))
	v.twins++
	v.head = nh
	v.rev++
	v.rec.add(event{VCS: v.id, Ev: "writer", Path: "twin:" + v.own.Path, Attempt: v.attempt})
}

// GetChangeOps implements endorse.VersionControl.
func (v *vcs) GetChangeOps(context.Context) (endorse.ChangeOps, error) {
	v.yield()
	v.attempt++
	o := v.cur()
	if err := v.ctxGate("get", 1, "GetChangeOps"); err != nil {
		v.rec.add(event{VCS: v.id, Ev: "get", Err: err.Error(), Class: clsPermanent, Attempt: v.attempt})
		return nil, err
	}
	if o.Writer == wrBefore {
		v.writerCommit()
	}
	if o.Writer == wrTwin {
		v.twinCommit()
	}
	if o.Kind == "get" && o.Class != clsNone {
		err := shaped(&vcsErr{VCS: v.id, Attempt: v.attempt, Op: "GetChangeOps", Class: o.Class}, o.Shape)
		v.rec.add(event{VCS: v.id, Ev: "get", Err: err.Error(), Class: o.Class, Attempt: v.attempt})
		return nil, err
	}
	ws := &workspace{v: v, id: v.attempt, sub: v.sub, baseRev: v.rev, base: v.head, over: map[string][]byte{}, count: map[string]int{}}
	v.wsList = append(v.wsList, ws)
	v.rec.add(event{VCS: v.id, Ev: "get", WS: ws.id, Attempt: v.attempt})
	return ws, nil
}

// RetriableError implements endorse.VersionControl.
func (v *vcs) RetriableError(err error) bool {
	v.yield()
	var ve *vcsErr
	ans := errors.As(err, &ve) && ve.Class == clsRetriable
	txt := "<nil>"
	if err != nil {
		txt = err.Error()
	}
	v.rec.add(event{VCS: v.id, Ev: "retriable?", Err: txt, Answer: ans, Attempt: v.attempt})
	return ans
}

// Result implements endorse.VersionControl.
func (v *vcs) Result(commit any, endorsementPath string) {
	v.yield()
	v.rec.add(event{VCS: v.id, Ev: "result", Commit: fmt.Sprint(commit), Path: endorsementPath, Attempt: v.attempt})
}

// ReleasePath implements endorse.VersionControl.
func (v *vcs) ReleasePath(_ context.Context, p string) string { return path.Join(v.root, p) }

// workspace implements endorse.ChangeOps.
type workspace struct {
	v         *vcs
	id        int
	sub       int // the submission (of a kept back-end value) this workspace was obtained in
	baseRev   int
	base      map[string][]byte
	over      map[string][]byte
	count     map[string]int
	destroyed int
	committed bool
}

// fault returns the scripted error for the n-th call of kind in this workspace's attempt.
// Faults only fire for the attempt that owns the workspace (a stale workspace used during a
// later attempt is reported by the oracle, not by injected errors).
func (w *workspace) fault(kind, op string) error {
	w.v.yield()
	w.count[kind]++
	if w.mine() && w.v.attempt == w.id {
		if err := w.v.ctxGate(kind, w.count[kind], op); err != nil {
			return err
		}
	}
	if w.destroyed > 0 {
		return &vcsErr{VCS: w.v.id, Attempt: w.v.attempt, Op: op + " on destroyed workspace", Class: clsPermanent}
	}
	o := w.v.cur()
	if w.mine() && w.v.attempt == w.id && o.Kind == kind && o.Class != clsNone && (o.Nth == w.count[kind] || kind == "commit") {
		return shaped(&vcsErr{VCS: w.v.id, Attempt: w.v.attempt, Op: fmt.Sprintf("%s#%d", op, w.count[kind]), Class: o.Class}, o.Shape)
	}
	return nil
}

func (w *workspace) ev(name, p string, err error) {
	e := event{VCS: w.v.id, Ev: name, WS: w.wsID(), Path: p, Dead: w.destroyed > 0 && name != "destroy", Attempt: w.v.attempt}
	if err != nil {
		e.Err = err.Error()
		var ve *vcsErr
		if errors.As(err, &ve) {
			e.Class = ve.Class
		} else if errors.Is(err, fs.ErrNotExist) {
			e.NotFnd = true
		}
	}
	w.v.rec.add(e)
}

func (w *workspace) WriteOrCreateFiles(_ context.Context, files ...*endorse.File) error {
	p := ""
	for i, f := range files {
		if i > 0 {
			p += ","
		}
		p += f.Path
	}
	if err := w.fault("write", "WriteOrCreateFiles"); err != nil {
		w.ev("write", p, err)
		return err
	}
	for _, f := range files {
		w.over[f.Path] = append([]byte(nil), f.Contents...)
	}
	w.ev("write", p, nil)
	return nil
}

func (w *workspace) ReadFile(_ context.Context, p string) ([]byte, error) {
	if err := w.fault("read", "ReadFile"); err != nil {
		w.ev("read", p, err)
		return nil, err
	}
	b, ok := w.over[p]
	if !ok {
		b, ok = w.base[p]
	}
	if !ok {
		err := &fs.PathError{Op: "open", Path: p, Err: fs.ErrNotExist}
		w.ev("read", p, err)
		return nil, err
	}
	w.ev("read", p, nil)
	return append([]byte(nil), b...), nil
}

func (w *workspace) SetBinaryWritable(_ context.Context, p string) error {
	if err := w.fault("chmod", "SetBinaryWritable"); err != nil {
		w.ev("chmod", p, err)
		return err
	}
	if _, ok := w.over[p]; !ok {
		if _, ok := w.base[p]; !ok {
			err := &vcsErr{VCS: w.v.id, Attempt: w.v.attempt, Op: "SetBinaryWritable of a file that is not in the workspace", Class: clsPermanent}
			w.ev("chmod", p, err)
			return err
		}
	}
	w.ev("chmod", p, nil)
	return nil
}

func (w *workspace) IsNotFound(err error) bool { return errors.Is(err, fs.ErrNotExist) }

func (w *workspace) Destroy() {
	w.v.yield()
	w.destroyed++
	w.ev("destroy", "", nil)
}

func (w *workspace) TryCommit(context.Context) (any, error) {
	if err := w.fault("commit", "TryCommit"); err != nil {
		// lost acknowledgement: the scripted failure of this attempt's TryCommit arrives after the
		// commit was applied (only possible when the head did not move under the workspace)
		if o := w.v.cur(); o.Lands && o.Kind == "commit" && w.v.ctl == nil && w.mine() && w.v.attempt == w.id && w.destroyed == 0 && w.count["commit"] == 1 && w.v.rev == w.baseRev {
			nh := make(map[string][]byte, len(w.v.head)+len(w.over))
			for k, b := range w.v.head {
				nh[k] = b
			}
			for k, b := range w.over {
				nh[k] = b
			}
			w.v.head = nh
			w.v.rev++
			w.baseRev = -1
			w.v.landed++
			w.ev("commit", "landed-ack-lost", err)
			return nil, err
		}
		w.ev("commit", "", err)
		return nil, err
	}
	if w.mine() && w.v.attempt == w.id && w.v.cur().Writer == wrMid && w.count["commit"] == 1 {
		w.v.writerCommit()
	}
	if w.v.rev != w.baseRev {
		err := &vcsErr{VCS: w.v.id, Attempt: w.v.attempt, Op: "TryCommit (conflict: head moved since the workspace was obtained)", Class: clsRetriable}
		w.ev("commit", "conflict", err)
		return nil, err
	}
	nh := make(map[string][]byte, len(w.v.head)+len(w.over))
	for k, b := range w.v.head {
		nh[k] = b
	}
	for k, b := range w.over {
		nh[k] = b
	}
	w.v.head = nh
	w.v.rev++
	w.baseRev = -1 // a second commit from the same workspace conflicts
	w.committed = true
	id := fmt.Sprintf("vcs%d@r%d", w.v.id, w.v.rev)
	w.v.rec.add(event{VCS: w.v.id, Ev: "commit", WS: w.wsID(), Commit: id, Attempt: w.v.attempt})
	return id, nil
}

// ---- scripted context ----

// ctxCtl is the switch of a scripted context: the back-end double flips it at a scripted
// operation, which models a cancellation (or a deadline passing) that arrives while that
// operation is in flight. No wall clock is involved.
type ctxCtl struct {
	mu       sync.Mutex
	done     chan struct{}
	fired    bool
	deadline bool // flavour: context.DeadlineExceeded instead of context.Canceled
}

func newCtl(deadline bool) *ctxCtl { return &ctxCtl{done: make(chan struct{}), deadline: deadline} }

func (c *ctxCtl) fire() {
	c.mu.Lock()
	if !c.fired {
		c.fired = true
		close(c.done)
	}
	c.mu.Unlock()
}

func (c *ctxCtl) err() error {
	c.mu.Lock()
	defer c.mu.Unlock()
	if !c.fired {
		return nil
	}
	if c.deadline {
		return context.DeadlineExceeded
	}
	return context.Canceled
}

// scriptedCtx is a context.Context whose Done/Err are driven by a ctxCtl.
type scriptedCtx struct {
	context.Context
	c *ctxCtl
}

func (s scriptedCtx) Done() <-chan struct{} { return s.c.done }
func (s scriptedCtx) Err() error            { return s.c.err() }
func (s scriptedCtx) Deadline() (time.Time, bool) {
	if s.c.deadline {
		return time.Date(2100, 1, 1, 0, 0, 0, 0, time.UTC), true
	}
	return time.Time{}, false
}

// cancelPoint says during which operation the context becomes done: the n-th call of kind in
// attempt Attempt of back end VCS ("get" of attempt 1 = before the first attempt's workspace,
// "get" of a later attempt = between attempts). Attempt 0 = already done when the submission is called.
type cancelPoint struct {
	VCS     int
	Attempt int
	Kind    string
	Nth     int
}

func (p *cancelPoint) String() string {
	if p.Attempt == 0 {
		return "before-the-call"
	}
	return fmt.Sprintf("vcs%d/attempt%d/%s#%d", p.VCS, p.Attempt, p.Kind, p.Nth)
}

// ctxGate is called at the start of every back-end operation of the current attempt. A
// context-honouring back end refuses operations that start after the context is done; then
// the scripted cancellation (if it is due at this operation) fires and the operation itself
// proceeds as scripted (the cancellation arrived while it was in flight).
func (v *vcs) ctxGate(kind string, nth int, op string) error {
	if v.ctl == nil {
		return nil
	}
	if v.honour {
		if cerr := v.ctl.err(); cerr != nil {
			return fmt.Errorf("%w: %w", &vcsErr{VCS: v.id, Attempt: v.attempt, Op: op + " refused, context is done", Class: clsPermanent}, cerr)
		}
	}
	if p := v.cancelAt; p != nil && p.Attempt == v.attempt && p.Kind == kind && p.Nth == nth && v.ctl.err() == nil {
		v.ctl.fire()
		v.rec.add(event{VCS: v.id, Ev: "ctx-done", Path: fmt.Sprintf("during %s#%d", kind, nth), Attempt: v.attempt})
	}
	return nil
}

// ---- kept back-end values and lockstep (used by seq.go / conc.go) ----

func (v *vcs) yield() {
	if v.turn != nil {
		v.turn()
	}
}

// mine says whether the workspace was obtained in the submission that is running now.
func (w *workspace) mine() bool { return w.sub == w.v.sub }

// wsID is the workspace number used in the call log: the attempt number it was obtained in, or a
// negative number for a workspace that an EARLIER submission on the same back-end value obtained
// (the oracle then sees an operation outside any attempt / on a stale workspace).
func (w *workspace) wsID() int {
	if w.mine() {
		return w.id
	}
	return -(w.sub*1000 + w.id)
}

// nextSubmission prepares a kept back-end value for another submission: the committed head stays,
// the per-submission bookkeeping (attempt counter, script, call log, what must survive) starts
// again. Every manifest entry on the head must survive the submission except an entry with the
// submission's own path or digest, which the run may legitimately rewrite (C13's subject).
func (v *vcs) nextSubmission(rec *recorder, s script, ownPath string, ownDigest []byte) (usable bool) {
	v.sub++
	v.rec, v.script, v.attempt = rec, s, 0
	v.wsList, v.written, v.initial = nil, nil, nil
	v.ctl, v.cancelAt, v.honour = nil, nil, false
	v.own, v.ownFile, v.twins, v.landed = nil, "", 0, 0
	if v.manifest == "" {
		return true
	}
	b, ok := v.head[v.manifest]
	if !ok {
		return true
	}
	m := &rpb.VMEndorsementMap{}
	if err := prototext.Unmarshal(b, m); err != nil {
		return false // the submission that committed it has been reported (committed-manifest-unparsable)
	}
	for _, e := range m.Entries {
		if e.Path == ownPath || string(e.Digest) == string(ownDigest) {
			continue
		}
		v.initial = append(v.initial, e)
	}
	return true
}
