// Package c14: commit retries are bounded, fresh and honest.
//
// Workload: every fault script (per attempt: which back-end operation fails, retriably or
// permanently, and whether somebody else commits concurrently) up to the retry budget, for every
// budget in {-2..3} (thorough: ..4), driven through endorse.VirtualFirmware (the repository's own
// change function; manifest mode, snapshot mode, several back ends) and through
// endorse.RetrySubmit directly. Monitor: an offline checker over the call log of a scripted
// version-control model (oracle.go); it does not look at the script.
package c14

import (
	"context"
	"crypto/sha512"
	"errors"
	"fmt"
	"math/rand/v2"
	"time"

	"github.com/google/gce-tcb-verifier/cmd/output"
	"github.com/google/gce-tcb-verifier/endorse"
	"github.com/google/gce-tcb-verifier/keys"
	rpb "github.com/google/gce-tcb-verifier/proto/releases"
	"github.com/google/gce-tcb-verifier/sev"
	"github.com/google/gce-tcb-verifier/sign/memca"
	"github.com/google/gce-tcb-verifier/testing/fakeovmf"
	"github.com/google/gce-tcb-verifier/testing/nonprod/memkm"
	spb "github.com/google/go-sev-guest/proto/sevsnp"
	"google.golang.org/protobuf/encoding/prototext"

	"verifharness/core"
)

func init() {
	core.Register(&core.Info{
		ID: "C14", Level: "fault_enumeration", Exhaustive: true,
		Rule: "case = a block of 32 fault scripts; a script fixes, for each attempt 1..max(retries,0)+1, one outcome from {ok; workspace / n-th read / n-th write / n-th chmod / commit failing retriably or permanently} x {nobody else commits; somebody commits before the attempt obtains its workspace} plus {somebody commits between the attempt's manifest read and its TryCommit -> genuine conflict}; attempt max+1 (reached only by a wrong loop) is scripted ok. " +
			"ALL scripts are enumerated (prefix-pruned: nothing is scripted after an ok or permanent outcome because the loop must stop there) for every CommitRetries in {-2,-1,0,1,2,3} through endorse.VirtualFirmware in manifest mode (operations: GetChangeOps, manifest read, endorsement write, chmod, TryCommit; thorough adds the existence read, the manifest write, snapshot mode with its 6 operations, and CommitRetries=4 over the operations GetChangeOps, endorsement write, TryCommit), " +
			"ALL pairs (thorough: also triples) of scripts over a 6-outcome alphabet for 2 (3) back ends in endorse.Context.VCSs with CommitRetries in {0,1,2}, and ALL 7^4 four-attempt scripts x 6 budgets through endorse.RetrySubmit with a caller-supplied change function (scripts there continue past the budget). " +
			"Context dimension: for ALL scripts over {ok; GetChangeOps / endorsement write / TryCommit failing retriably or permanently; genuine conflict} with CommitRetries in {-1,0,1,2} (thorough: the 5-operation alphabet for {-2..2} and the 3-operation one for 3), for ALL 2-back-end scripts with CommitRetries in {0,1} and for ALL caller-change scripts with CommitRetries in {-1..3}, the context handed to the entry point becomes done (x {Canceled, DeadlineExceeded} x {back end ignores it; back end refuses every operation that starts afterwards}) before the call or during every reachable operation of every attempt (inside GetChangeOps = before the first / between attempts; inside a TryCommit that succeeds, fails retriably, fails permanently); the context is a scripted context.Context switched by the double, no clock involved; same oracle. " +
			"The back end is a model with a committed head, snapshot workspaces and optimistic commits; the concurrent writer does a correct read-modify-write of the manifest. The seed only varies image, candidate name, directories, timestamp and whether the depot starts empty or with 2 manifest entries. " +
			"Oracle over the call log: attempts <= max(retries,0)+1; attempt k+1 only if attempt k did not commit, its last back-end error was retriable and RetriableError answered true; every operation of attempt k is on the workspace obtained in attempt k and never on a destroyed one; a manifest write is preceded by a manifest read from the same workspace; Destroy exactly once per failed attempt that obtained a workspace; nil result <=> every back end accepted a commit; Result exactly once with that commit after it, never without a commit; committed manifest keeps every entry that the writer or an earlier run committed. " +
			"Appended audit dimensions (same checker, each submission judged on its own call log): (i) option combinations in the quick tier: snapshot mode, snapshot mode with an SVSM image, snapshot mode on two back ends; (ii) budgets at the limits of the integer types (math.MinInt.., -(2^32)+k, -(2^31)-1, -65535, -255: one attempt allowed, scripts go on for three; 2^31.., math.MaxInt: chains of 0..6 retriable failures) through both entry points; (iii) kept values: 3-5 submissions in a row through ONE endorse.Context, ONE context around it, one or two back-end values (Context.VCS / VCSs[1] / VCSs[2]) and one change function, the caller changing CommitRetries, candidate, image, timestamp and entry point in between, PRNG-drawn scripts; the back-end model keeps its head, so every manifest entry committed by an earlier submission must survive, and a workspace obtained in an earlier submission counts as stale; (iv) lockstep groups: 2-3 independent submissions in flight in one process, a PRNG-driven scheduler gives the turn at every back-end operation (exactly one runs at a time, the interleaving is a function of the seed). " +
			"History dimensions (hist.go, appended after all of the above; same checker): (v) ALL scripts over {ok; get / read#1..4 / write#1..3 / chmod#1..2 / commit failing retriably or permanently; a TryCommit that LANDS on the head and is then answered with a retriable or permanent error (lost acknowledgement); genuine conflict} x {nobody; somebody else commits another entry; somebody else commits THE IDENTICAL entry (same digest, path, create time) before the attempt} for CommitRetries in {-1,0,1} (thorough {-2..2}) plus a 2-operation alphabet for CommitRetries=2 (thorough 3), each x {without, with --overwrite}, the head starting with 2 resp. 3 manifest entries; (vi) resubmission sequences: 2-5 submissions through ONE endorse.Context / context / one or two back-end values where the caller submits the same candidate, image and timestamp again, or changes only the timestamp, only the candidate or only the image, with and without --overwrite, PRNG-drawn scripts including landed-but-unacknowledged commits and the twin writer. " +
			"Error-shape dimension (errs.go, appended after all of the above; same checker): (vii) the scripted failure is the back end's own error value AND something well-known (wraps context.DeadlineExceeded / context.Canceled while the caller's context is live, os.ErrDeadlineExceeded, net.OpError, url.Error, io.EOF, syscall ECONNRESET / ETIMEDOUT / EAGAIN, fs permission / exist / not-exist, gRPC Unavailable / Aborted / DeadlineExceeded / PermissionDenied, Timeout()/Temporary()/Retriable() methods, a message that says 'conflict, retry' or 'fatal', endorse.ErrNoRetries, errors.Join of two), and the back end's verdict is independent of the shape: ALL 22 shapes x every operation of an attempt x CommitRetries in {1,3} x {plain context; context with a deadline that has not passed} x scripts {P; R ok; R P; plain-R P; R..R; for TryCommit also P landed, R landed ok} through endorse.VirtualFirmware and endorse.RetrySubmit with a caller's change function, plus two back ends with the shaped failure in the second one. " +
			"non-trivial = runs with at least one failed attempt or one concurrent commit; distinct = (entry, mode, retries, attempts made, how it ended, concurrent commits seen, genuine conflicts seen) cells",
		Assumptions: []string{
			"negative budgets are read as 'no retries' (one attempt); stopping early is not judged (the property says 'at most') but the run is inconclusive unless, for every budget, some script was observed to use exactly max(retries,0)+1 attempts",
			"a successful attempt is not required to destroy its workspace; the path passed to Result is not judged",
			"dry-run is C15's subject and not exercised here; the concurrent writer never touches the candidate's own path or digest (that is C13's subject)",
			"a cancellation that arrives during an operation does not change that operation's scripted answer (a commit in flight lands); the repository is not required to react to a done context, only to stay bounded and honest",
			"CommitRetries == math.MinInt is run but not judged (const judgeMinIntBudget in extra.go): on the unchanged tree `CommitRetries - tries` wraps around there and the loop retries for as long as failures are retriable; counted as observed-but-gated/...",
			"kept values: submissions of one sequence use different images and candidate names, so no submission legitimately rewrites another one's manifest entry (that is C13's subject); which back end a reused Context submits to after the caller changes Context.VCS is not judged",
			"lockstep: submissions that are in flight together share nothing but the process (own Context, own back-end values); sharing one endorse.Context between goroutines is not exercised (VirtualFirmware writes Context.VCS)",
			"a TryCommit that lands on the head but is answered with an error counts as a FAILED commit (that is all the caller can know): success may only be reported after a TryCommit that answered with a commit, and Result records that one; an attempt that finds its entry on the head already is not exempt from this",
		"history dimensions: entries at the submission's own path or with its own digest may be rewritten (C13's subject); a resubmission without --overwrite is expected to be refused by the repository and is only judged for honesty, bounds and clean-up",
		"error shapes: the back end alone decides what is retriable (RetriableError finds its own value in the error chain, through the repository's wrapping with %w); whatever else the error is or says carries no weight; not retrying an error the back end calls retriable is not judged ('at most')",
		"fault positions are per attempt: n-th call of a kind inside the attempt; an operation the code never reaches cannot fail, the oracle therefore judges the logged answers, not the script",
		},
		ShardsQuick: 16, ShardsThor: 16, TimeoutS: 600, TimeoutThor: 3000, Run: run,
	})
}

// ---- enumeration ----

// enumerate lists every script of at most n attempts: retriable outcomes continue, terminal
// outcomes (ok, permanent) end the script.
func enumerate(n int, retri, term []outcome) []script {
	var out []script
	var rec func(prefix script)
	rec = func(prefix script) {
		if len(prefix) == n {
			out = append(out, append(script(nil), prefix...))
			return
		}
		for _, t := range term {
			out = append(out, append(append(script(nil), prefix...), t))
		}
		for _, x := range retri {
			rec(append(append(script(nil), prefix...), x))
		}
	}
	rec(nil)
	return out
}

type opRef struct {
	kind string
	nth  int
}

// alphabet builds the retriable and terminal outcome sets for a list of fallible operations.
func alphabet(ops []opRef, writers bool) (retri, term []outcome) {
	ws := []int{wrNone}
	if writers {
		ws = []int{wrNone, wrBefore}
	}
	for _, w := range ws {
		term = append(term, outcome{Writer: w})
		for _, op := range ops {
			retri = append(retri, outcome{Kind: op.kind, Nth: op.nth, Class: clsRetriable, Writer: w})
			term = append(term, outcome{Kind: op.kind, Nth: op.nth, Class: clsPermanent, Writer: w})
		}
	}
	// a clean attempt whose commit collides with somebody else's: genuine, retriable conflict
	retri = append(retri, outcome{Writer: wrMid})
	return retri, term
}

var (
	opsManifestQuick = []opRef{{"get", 1}, {"read", 1}, {"write", 1}, {"chmod", 1}, {"commit", 1}}
	opsManifestFull  = []opRef{{"get", 1}, {"read", 1}, {"read", 2}, {"write", 1}, {"chmod", 1}, {"write", 2}, {"commit", 1}}
	opsSnapshot      = []opRef{{"get", 1}, {"write", 1}, {"chmod", 1}, {"write", 2}, {"chmod", 2}, {"commit", 1}}
	opsMulti         = []opRef{{"get", 1}, {"write", 1}, {"commit", 1}}
	opsDeep          = []opRef{{"get", 1}, {"write", 1}, {"commit", 1}}
)

// job is one submission to run.
type job struct {
	entry   string // endorse.VirtualFirmware | endorse.RetrySubmit
	mode    string // manifest | manifest-all-ops | snapshot | multi2 | multi3 | caller-change
	retries int
	scripts []script // one per back end

	cancel   *cancelPoint // the context handed to the entry point becomes done there (nil: never)
	deadline bool         // ... as context.DeadlineExceeded instead of context.Canceled
	honour   bool         // the back ends refuse operations that start after the context is done

	// audit dimensions (extra.go); zero for the original enumeration
	dim  string // "" | option-combination | extreme-budget
	snap bool   // snapshot mode although the mode text is not exactly "snapshot"
	svsm bool   // an SVSM image is submitted with the firmware (snapshot mode writes two signatures)

	// history dimensions (hist.go); zero elsewhere
	overwrite bool // the caller allows existing endorsement files to be overwritten (--overwrite)
	initial   int  // > 0: the depot starts with exactly this many manifest entries (instead of the PRNG's 0 or 2)

	// error-shape dimension (errs.go)
	liveDeadline bool // the context handed to the entry point has a deadline that never passes during the run
}

func (j job) String() string {
	s := fmt.Sprintf("%s mode=%s CommitRetries=%d", j.entry, j.mode, j.retries)
	for i, sc := range j.scripts {
		s += fmt.Sprintf(" vcs%d=%v", i, sc)
	}
	if j.overwrite {
		s += " --overwrite"
	}
	if j.initial > 0 {
		s += fmt.Sprintf(" head-starts-with-%d-entries", j.initial)
	}
	if j.liveDeadline {
		s += " context-has-a-deadline-that-has-not-passed"
	}
	if j.cancel != nil {
		s += fmt.Sprintf(" context-done(%s)@%v back-ends-%s-it", map[bool]string{false: "Canceled", true: "DeadlineExceeded"}[j.deadline], j.cancel,
			map[bool]string{false: "ignore", true: "honour"}[j.honour])
	}
	return s
}

// canSucceed says whether a script ends in an ok outcome within the budget (workload pruning
// for the multi-back-end products only; never used for a verdict).
func canSucceed(s script) bool {
	return len(s) > 0 && s[len(s)-1].Class == clsNone && s[len(s)-1].Writer != wrMid
}

func jobs(thorough bool) []job {
	var js []job
	const vf, rs = "endorse.VirtualFirmware", "endorse.RetrySubmit"
	budgets := []int{-2, -1, 0, 1, 2, 3}
	// (a) single back end, manifest mode
	for _, r := range budgets {
		retri, term := alphabet(opsManifestQuick, true)
		for _, s := range enumerate(maxAttempts(r), retri, term) {
			js = append(js, job{entry: vf, mode: "manifest", retries: r, scripts: []script{s}})
		}
	}
	// (b) several back ends
	mr, mt := alphabet(opsMulti, false)
	mt = []outcome{{}, {Kind: "commit", Nth: 1, Class: clsPermanent}}
	for _, r := range []int{0, 1, 2} {
		ss := enumerate(maxAttempts(r), mr, mt)
		for _, s1 := range ss {
			for i2, s2 := range ss {
				if !canSucceed(s1) && i2 > 0 {
					break // the second back end is never reached
				}
				js = append(js, job{entry: vf, mode: "multi2", retries: r, scripts: []script{s1, s2}})
			}
		}
	}
	// (c) caller-supplied change function, scripts continue past the budget
	spike := []outcome{{}, {Kind: "get", Nth: 1, Class: clsRetriable}, {Kind: "get", Nth: 1, Class: clsPermanent},
		{Kind: "change", Nth: 1, Class: clsRetriable}, {Kind: "change", Nth: 1, Class: clsPermanent},
		{Kind: "commit", Nth: 1, Class: clsRetriable}, {Kind: "commit", Nth: 1, Class: clsPermanent}}
	for _, r := range budgets {
		var rec func(p script)
		rec = func(p script) {
			if len(p) == 4 {
				js = append(js, job{entry: rs, mode: "caller-change", retries: r, scripts: []script{append(script(nil), p...)}})
				return
			}
			for _, o := range spike {
				rec(append(append(script(nil), p...), o))
			}
		}
		rec(nil)
	}
	// (e) the context becomes done at operation k of attempt j
	js = append(js, cancelJobs(thorough)...)
	if !thorough {
		return js
	}
	// (d) thorough: every operation of the manifest change, snapshot mode, one more budget, three back ends
	for _, r := range budgets {
		retri, term := alphabet(opsManifestFull, true)
		for _, s := range enumerate(maxAttempts(r), retri, term) {
			js = append(js, job{entry: vf, mode: "manifest-all-ops", retries: r, scripts: []script{s}})
		}
		retri, term = alphabet(opsSnapshot, true)
		for _, s := range enumerate(maxAttempts(r), retri, term) {
			js = append(js, job{entry: vf, mode: "snapshot", retries: r, scripts: []script{s}})
		}
	}
	{
		retri, term := alphabet(opsDeep, true)
		for _, s := range enumerate(maxAttempts(4), retri, term) {
			js = append(js, job{entry: vf, mode: "manifest", retries: 4, scripts: []script{s}})
		}
	}
	for _, r := range []int{0, 1} {
		ss := enumerate(maxAttempts(r), mr, mt)
		for _, s1 := range ss {
			for i2, s2 := range ss {
				if !canSucceed(s1) && i2 > 0 {
					break
				}
				for i3, s3 := range ss {
					if !canSucceed(s2) && i3 > 0 {
						break
					}
					js = append(js, job{entry: vf, mode: "multi3", retries: r, scripts: []script{s1, s2, s3}})
				}
			}
		}
	}
	return js
}

// cancelPoints lists every reachable point of a script at which the context can become done:
// during each operation of each scripted attempt up to and including the operation that fails
// (later operations of that attempt are never called), plus "already done before the call".
func cancelPoints(vi int, s script, order []opRef) []*cancelPoint {
	var ps []*cancelPoint
	for a, o := range s {
		for _, op := range order {
			ps = append(ps, &cancelPoint{VCS: vi, Attempt: a + 1, Kind: op.kind, Nth: op.nth})
			if o.Class != clsNone && o.Kind == op.kind && o.Nth == op.nth {
				break
			}
		}
	}
	return ps
}

// cancelJobs enumerates (script x cancellation point x {Canceled, DeadlineExceeded} x {back end
// ignores / honours the context}).
func cancelJobs(thorough bool) []job {
	var js []job
	const vf, rs = "endorse.VirtualFirmware", "endorse.RetrySubmit"
	orderManifest := []opRef{{"get", 1}, {"read", 1}, {"write", 1}, {"chmod", 1}, {"commit", 1}}
	orderCaller := []opRef{{"get", 1}, {"change", 1}, {"commit", 1}}
	variants := func(base job, pts []*cancelPoint) {
		pts = append([]*cancelPoint{{Attempt: 0}}, pts...)
		for _, p := range pts {
			for _, dl := range []bool{false, true} {
				for _, h := range []bool{false, true} {
					j := base
					j.cancel, j.deadline, j.honour = p, dl, h
					js = append(js, j)
				}
			}
		}
	}
	// single back end, real change function
	type tier struct {
		ops     []opRef
		budgets []int
	}
	tiers := []tier{{opsDeep, []int{-1, 0, 1, 2}}}
	if thorough {
		tiers = []tier{{opsManifestQuick, []int{-2, -1, 0, 1, 2}}, {opsDeep, []int{3}}}
	}
	for _, t := range tiers {
		retri, term := alphabet(t.ops, false)
		for _, r := range t.budgets {
			for _, s := range enumerate(maxAttempts(r), retri, term) {
				variants(job{entry: vf, mode: "manifest+ctx", retries: r, scripts: []script{s}}, cancelPoints(0, s, orderManifest))
			}
		}
	}
	// two back ends: the first one scripted, the second one clean or failing once; the context
	// becomes done in either of them
	mr, _ := alphabet(opsMulti, false)
	mt := []outcome{{}, {Kind: "commit", Nth: 1, Class: clsPermanent}}
	for _, r := range []int{0, 1} {
		for _, s1 := range enumerate(maxAttempts(r), mr, mt) {
			for _, s2 := range []script{{{}}, {{Kind: "commit", Nth: 1, Class: clsRetriable}, {}}} {
				if len(s2) > maxAttempts(r) {
					s2 = s2[:maxAttempts(r)]
				}
				pts := cancelPoints(0, s1, orderManifest)
				if canSucceed(s1) {
					pts = append(pts, cancelPoints(1, s2, orderManifest)...)
				}
				variants(job{entry: vf, mode: "multi2+ctx", retries: r, scripts: []script{s1, s2}}, pts)
			}
		}
	}
	// caller-supplied change function
	cr := []outcome{{Kind: "get", Nth: 1, Class: clsRetriable}, {Kind: "change", Nth: 1, Class: clsRetriable}, {Kind: "commit", Nth: 1, Class: clsRetriable}}
	ct := []outcome{{}, {Kind: "get", Nth: 1, Class: clsPermanent}, {Kind: "change", Nth: 1, Class: clsPermanent}, {Kind: "commit", Nth: 1, Class: clsPermanent}}
	for _, r := range []int{-1, 0, 1, 2, 3} {
		for _, s := range enumerate(maxAttempts(r), cr, ct) {
			variants(job{entry: rs, mode: "caller-change+ctx", retries: r, scripts: []script{s}}, cancelPoints(0, s, orderCaller))
		}
	}
	return js
}

// ---- world ----

type world struct {
	kc     *keys.Context
	images [][]byte
}

type rndReader struct{ r *rand.Rand }

func (r rndReader) Read(p []byte) (int, error) {
	for i := range p {
		p[i] = byte(r.r.Uint32())
	}
	return len(p), nil
}

func mkWorld(c *core.Ctx) (*world, error) {
	w := &world{}
	for i := 0; i < 3; i++ {
		fw := make([]byte, 8192)
		fw[100] = byte(i + 1)
		if err := fakeovmf.InitializeSevGUIDTable(fw, 0x20, 0xff0000ff, fakeovmf.DefaultSnpSections()); err != nil {
			return nil, err
		}
		w.images = append(w.images, fw)
	}
	m := memkm.TestOnlyT()
	w.kc = &keys.Context{CA: memca.TestOnlyCertificateAuthority(), Manager: m, Signer: m.Signer, Random: rndReader{c.RandNamed("rim-uuid")}}
	return w, nil
}

const chunk = 32

func run(c *core.Ctx) {
	js := jobs(c.Thorough())
	w, err := mkWorld(c)
	if err != nil {
		c.Note("world construction failed: %v", err)
		c.Floor("world-built", false)
		return
	}
	c.Floor("world-built", true)
	ncase := (len(js) + chunk - 1) / chunk
	fl := map[string]bool{}
	budgets := []int{-2, -1, 0, 1, 2, 3}
	if c.Thorough() {
		budgets = append(budgets, 4)
	}
	for i := 0; i < ncase; i++ {
		if !c.Mine(i) {
			continue
		}
		r := c.Rand(i)
		lo, hi := i*chunk, min((i+1)*chunk, len(js))
		gname := fmt.Sprintf("scripts %d..%d: first %s", lo, hi-1, js[lo])
		c.Begin(i, gname, js[lo].entry, nil)
		for k := lo; k < hi; k++ {
			runJob(c, w, i, k, js[k], r, fl)
		}
		c.End(i)
	}
	c.Max("scripts-enumerated-in-tier", int64(len(js)))
	next := runAudit(c, w, ncase, fl)
	next = runHistory(c, w, next, fl)
	runShapes(c, w, next, fl)
	if c.Only >= 0 {
		return // a replay decides by its violations only
	}
	for _, b := range budgets {
		n := fmt.Sprintf("budget-used-up-exactly(CommitRetries=%d:%d-attempts-then-ErrNoRetries)", b, maxAttempts(b))
		c.Floor(n, fl[n])
	}
	for _, n := range []string{"success-after-retry-kept-concurrent-entry", "genuine-conflict-was-retried", "permanent-error-stopped-with-budget-left",
		"second-back-end-committed-after-first", "failed-attempt-workspaces-seen-destroyed", "success-on-first-attempt",
		"context-done-inside-a-TryCommit-that-succeeded", "context-done-inside-a-TryCommit-that-failed-retriably", "context-done-inside-a-TryCommit-that-failed-permanently",
		"context-done-between-attempts", "context-done-before-the-first-attempt", "context-done-before-the-call", "honouring-back-end-refused-an-operation-after-context-done"} {
		c.Floor(n, fl[n])
	}
	for _, n := range auditFloors {
		c.Floor(n, fl[n])
	}
	for _, n := range historyFloors {
		c.Floor(n, fl[n])
	}
	for _, n := range shapeFloors {
		c.Floor(n, fl[n])
	}
}

func runJob(c *core.Ctx, w *world, ci, k int, j job, r *rand.Rand, fl map[string]bool) {
	rec := &recorder{}
	img := w.images[r.IntN(len(w.images))]
	cand := []string{"", "rc1", "candidate_20240102"}[r.IntN(3)]
	outDir := []string{"", "release", "a/b"}[r.IntN(3)]
	initial := []int{0, 2}[r.IntN(2)]
	ts := time.Unix(1700000000+int64(r.IntN(1<<20)), 0)
	if j.initial > 0 {
		initial = j.initial
	}
	snapDir, imgName := "", ""
	if j.mode == "snapshot" || j.snap {
		snapDir, imgName = []string{"snap", "snap/x"}[r.IntN(2)], "fw.fd"
	}
	var vs []*vcs
	base := context.Background()
	var ctl *ctxCtl
	if j.cancel != nil {
		ctl = newCtl(j.deadline)
		base = scriptedCtx{Context: base, c: ctl}
		if j.cancel.Attempt == 0 {
			ctl.fire()
			rec.add(event{VCS: -1, Ev: "ctx-done", Path: "before the call"})
		}
	}
	if j.liveDeadline && j.cancel == nil {
		base = scriptedCtx{Context: base, c: newCtl(true)} // never fired
	}
	for vi, s := range j.scripts {
		v := newVCS(vi, rec, s, outDir, snapDir, initial)
		v.setOwn(outDir, cand, img, ts)
		if j.cancel != nil {
			v.ctl, v.honour = ctl, j.honour
			if j.cancel.Attempt > 0 && j.cancel.VCS == vi {
				v.cancelAt = j.cancel
			}
		}
		vs = append(vs, v)
	}
	ec := &endorse.Context{
		SevSnp: &sev.SnpEndorsementRequest{LaunchVmsas: 1, Product: spb.SevProduct_SEV_PRODUCT_MILAN, ImageID: "00000000-0000-4000-8000-000000000001",
			Svn: uint32(r.IntN(2))},
		ClSpec: 1, Image: img, Timestamp: ts, CandidateName: cand, OutDir: outDir, CommitRetries: j.retries,
		SnapshotDir: snapDir, ImageName: imgName,
	}
	if j.svsm {
		ec.SvsmImage = []byte("svsm igvm image of the c14 workload")
	}
	switch {
	case len(vs) > 1:
		for _, v := range vs {
			ec.VCSs = append(ec.VCSs, v)
		}
	case r.IntN(2) == 0 && j.entry != "endorse.RetrySubmit":
		ec.VCSs = []endorse.VersionControl{vs[0]}
	default:
		ec.VCS = vs[0]
	}
	ctx := endorse.NewContext(output.NewContext(keys.NewContext(base, w.kc), &output.Options{Quiet: true, Overwrite: j.overwrite}), ec)
	gen := j.String()
	var rerr error
	returned := false
	m := c.Guard(ci, j.entry, gen, core.Budget{}, func() {
		if j.entry == "endorse.RetrySubmit" {
			rerr = endorse.RetrySubmit(ctx, callerChange(vs[0]))
		} else {
			rerr = endorse.VirtualFirmware(ctx)
		}
		returned = true
	})
	if m.Panicked || !returned {
		return
	}
	obs := &runObs{Retries: j.retries, VCSs: vs, Log: rec.log, Err: rerr, RealChange: j.entry == "endorse.VirtualFirmware"}
	fs, per := judge(obs)
	seen := map[string]bool{}
	for _, f := range fs {
		if seen[f.Rule] {
			continue
		}
		seen[f.Rule] = true
		if notJudgedYet(j, f) {
			c.Count("observed-but-gated/"+f.Rule+"/CommitRetries=math.MinInt", 1)
			continue
		}
		errText := "<nil>"
		if rerr != nil {
			errText = rerr.Error()
		}
		c.Violate(core.Violation{Kind: "oracle", Entry: j.entry, Site: f.Rule, Gen: gen, Case: ci, Detail: f.Detail,
			Witness: map[string]any{"script_index": k, "entry": j.entry, "mode": j.mode, "commit_retries": j.retries, "scripts": scriptTexts(j.scripts),
				"returned_error": errText, "call_log": logTexts(rec.log), "candidate": cand, "out_dir": outDir, "initial_entries": initial, "context_done_at": fmt.Sprint(j.cancel)}})
	}
	// ---- evidence ----
	c.Count("submissions/"+j.entry+"/"+j.mode, 1)
	totalAttempts, failedAttempts, writers, conflicts, destroyedFailed := 0, 0, 0, 0, 0
	for vi, o := range per {
		totalAttempts += len(o.Attempts)
		writers += o.WriterSeen
		conflicts += o.Conflicts
		for _, a := range o.Attempts {
			if !a.Committed {
				failedAttempts++
				if a.Obtained && o.Destroys[a.K] == 1 {
					destroyedFailed++
				}
			}
		}
		if vi > 0 && o.Committed && per[vi-1].Committed {
			fl["second-back-end-committed-after-first"] = true
		}
	}
	c.Count("attempts", totalAttempts)
	c.Count("failed-attempts", failedAttempts)
	c.Count("failed-attempt-workspaces-destroyed-once", destroyedFailed)
	c.Count("concurrent-commits", writers)
	c.Count("genuine-conflicts", conflicts)
	if destroyedFailed > 0 {
		fl["failed-attempt-workspaces-seen-destroyed"] = true
	}
	last := per[len(per)-1]
	first := per[0]
	end := "success"
	switch {
	case rerr == nil:
		c.Count("ended/success", 1)
		if totalAttempts == len(per) {
			fl["success-on-first-attempt"] = true
		}
	case errors.Is(rerr, endorse.ErrNoRetries):
		end = "budget-exhausted"
		c.Count("ended/ErrNoRetries", 1)
		for _, o := range per {
			if n := len(o.Attempts); n == maxAttempts(j.retries) && !o.Committed {
				fl[fmt.Sprintf("budget-used-up-exactly(CommitRetries=%d:%d-attempts-then-ErrNoRetries)", j.retries, n)] = true
			}
		}
	default:
		end = "permanent-error"
		c.Count("ended/permanent-error", 1)
		for _, o := range per {
			if n := len(o.Attempts); n > 0 && n < maxAttempts(j.retries) && !o.Committed {
				fl["permanent-error-stopped-with-budget-left"] = true
			}
		}
	}
	if conflicts > 0 && len(first.Attempts) > 1 {
		for _, a := range first.Attempts[:len(first.Attempts)-1] {
			for _, e := range a.Events {
				if e.Ev == "commit" && e.Path == "conflict" {
					fl["genuine-conflict-was-retried"] = true
				}
			}
		}
	}
	// stopping early although the last failure was retriable is not a violation ("at most"); it is counted
	if rerr != nil && !last.Committed {
		if n := len(last.Attempts); n > 0 && n < maxAttempts(j.retries) && last.Attempts[n-1].LastErrClass == clsRetriable {
			c.Count("stopped-before-budget-after-retriable-error(not judged)", 1)
		}
	}
	// the successful commit of a retried manifest submission carries its own entry and the writer's
	if obs.RealChange && rerr == nil && vs[0].manifest != "" {
		own := false
		mm := &rpb.VMEndorsementMap{}
		if prototext.Unmarshal(vs[0].head[vs[0].manifest], mm) == nil {
			d := sha512.Sum384(img)
			for _, e := range mm.Entries {
				if string(e.Digest) == string(d[:]) {
					own = true
				}
			}
			if own {
				c.Count("committed-manifest-has-own-entry", 1)
			} else {
				c.Count("committed-manifest-lacks-own-entry(not judged here; C13)", 1)
			}
			c.Max("max-entries-in-committed-manifest", int64(len(mm.Entries)))
			if own && len(first.Attempts) > 1 && len(vs[0].written) > 0 {
				fl["success-after-retry-kept-concurrent-entry"] = true
				c.Count("successes-after-retry-with-concurrent-entries-kept", 1)
			}
		}
	}
	ctxCell := ""
	if j.cancel != nil {
		ctxCell = ctxEvidence(c, j, rec.log, per, fl)
	}
	if failedAttempts > 0 || writers > 0 || ctxCell != "" {
		c.Cell("%s|%s|retries=%d|attempts=%d|%s|concurrent-commits=%d|conflicts=%d", j.entry, j.mode, j.retries, totalAttempts, end, min(writers, 2), min(conflicts, 2))
		if ctxCell != "" {
			c.Cell("%s|%s|retries=%d|%s|%s", j.entry, j.mode, j.retries, end, ctxCell)
		}
	}
	if j.dim == "error-shape" {
		shapeEvidence(c, j, rec.log, per, rerr, fl)
	} else if j.dim == "history" {
		historyEvidence(c, j, vs, rec.log, per, rerr, fl)
	} else if j.dim != "" {
		extraEvidence(c, j, per, rerr, fl)
	}
	if k%997 == 0 {
		errText := "<nil>"
		if rerr != nil {
			errText = rerr.Error()
		}
		c.Sample(map[string]any{"submission": gen, "returned": errText, "call_log": logTexts(rec.log)})
	}
}

// callerChange is the caller-supplied change function of the direct RetrySubmit workload: it
// reads and writes through the ChangeOps it is handed and fails by script.
func callerChange(v *vcs) func(context.Context, endorse.ChangeOps) (string, error) {
	return func(ctx context.Context, cops endorse.ChangeOps) (string, error) {
		ws, _ := cops.(*workspace)
		e := event{VCS: v.id, Ev: "change", Attempt: v.attempt}
		if ws != nil {
			e.WS = ws.wsID()
			e.Dead = ws.destroyed > 0
		}
		if err := v.ctxGate("change", 1, "caller's change function"); err != nil {
			e.Err, e.Class = err.Error(), clsPermanent
			v.rec.add(e)
			return "", err
		}
		o := v.cur()
		if o.Kind == "change" && o.Class != clsNone {
			err := shaped(&vcsErr{VCS: v.id, Attempt: v.attempt, Op: "caller's change function", Class: o.Class}, o.Shape)
			e.Err, e.Class = err.Error(), o.Class
			v.rec.add(e)
			return "", fmt.Errorf("change: %w", err)
		}
		v.rec.add(e)
		p := v.ReleasePath(ctx, "file.binarypb")
		if _, err := cops.ReadFile(ctx, p); err != nil && !cops.IsNotFound(err) {
			return "", err
		}
		if err := cops.WriteOrCreateFiles(ctx, &endorse.File{Path: p, Contents: []byte{1}}); err != nil {
			return "", err
		}
		return "file.binarypb", nil
	}
}

func scriptTexts(ss []script) []string {
	var t []string
	for _, s := range ss {
		t = append(t, s.String())
	}
	return t
}

func logTexts(l []event) []string {
	t := make([]string, 0, len(l))
	for _, e := range l {
		t = append(t, e.String())
	}
	return t
}

// ctxEvidence classifies where the context became done (from the log) for cells and floors.
func ctxEvidence(c *core.Ctx, j job, log []event, per []*vcsObs, fl map[string]bool) string {
	where := "never-reached"
	for i, e := range log {
		if e.Ev != "ctx-done" {
			continue
		}
		switch {
		case e.VCS < 0:
			where = "before-the-call"
			fl["context-done-before-the-call"] = true
		case j.cancel.Kind == "get" && j.cancel.Attempt == 1 && j.cancel.VCS == 0:
			where = "before-the-first-attempt"
			fl["context-done-before-the-first-attempt"] = true
		case j.cancel.Kind == "get":
			where = "between-attempts"
			fl["context-done-between-attempts"] = true
		case j.cancel.Kind == "commit":
			where = "inside-TryCommit"
			// the answer of that TryCommit is the next commit event of the same back end
			for _, n := range log[i+1:] {
				if n.VCS == e.VCS && n.Ev == "commit" {
					switch {
					case n.Err == "":
						where += "-that-succeeded"
						fl["context-done-inside-a-TryCommit-that-succeeded"] = true
					case n.Class == clsRetriable:
						where += "-that-failed-retriably"
						fl["context-done-inside-a-TryCommit-that-failed-retriably"] = true
					default:
						where += "-that-failed-permanently"
						fl["context-done-inside-a-TryCommit-that-failed-permanently"] = true
					}
					break
				}
			}
		default:
			where = "inside-" + j.cancel.Kind
		}
	}
	if j.honour {
		for _, e := range log {
			if e.Class == clsPermanent && e.Ev != "ctx-done" && len(e.Err) > 0 && containsStr(e.Err, "refused, context is done") {
				fl["honouring-back-end-refused-an-operation-after-context-done"] = true
				where += "/then-refused"
				break
			}
		}
	}
	c.Count("context-done/"+where, 1)
	return fmt.Sprintf("ctx=%s|%s|back-end-%s", where, map[bool]string{false: "Canceled", true: "DeadlineExceeded"}[j.deadline], map[bool]string{false: "ignores", true: "honours"}[j.honour])
}

func containsStr(s, sub string) bool {
	for i := 0; i+len(sub) <= len(s); i++ {
		if s[i:i+len(sub)] == sub {
			return true
		}
	}
	return false
}
