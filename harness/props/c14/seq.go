package c14

// Kept values: the caller builds ONE endorse.Context, ONE context.Context around it, one or two
// back-end values and one change function, and submits several endorsements through them, one
// after the other, changing CommitRetries, candidate name, image, timestamp and the entry point
// in between. Each submission is judged on its own call log by the same offline checker; the
// back-end model keeps its committed head, so every entry an earlier submission committed must
// survive the later ones.

import (
	"context"
	"crypto/sha512"
	"errors"
	"fmt"
	"math/rand/v2"
	"sync"
	"time"

	"github.com/google/gce-tcb-verifier/cmd/output"
	"github.com/google/gce-tcb-verifier/endorse"
	"github.com/google/gce-tcb-verifier/keys"
	"github.com/google/gce-tcb-verifier/sev"
	"github.com/google/gce-tcb-verifier/testing/fakeovmf"
	spb "github.com/google/go-sev-guest/proto/sevsnp"

	"verifharness/core"
)

const seqPerCase = 4

var (
	poolOnce sync.Once
	pool     [][]byte
)

// imagePool returns firmware images that differ from each other (so that no submission of a
// sequence legitimately rewrites the manifest entry of another one).
func imagePool() [][]byte {
	poolOnce.Do(func() {
		for i := 0; i < 8; i++ {
			fw := make([]byte, 8192)
			fw[100], fw[101] = byte(i+1), 0xa5
			if err := fakeovmf.InitializeSevGUIDTable(fw, 0x20, 0xff0000ff, fakeovmf.DefaultSnpSections()); err != nil {
				panic("c14: image pool: " + err.Error())
			}
			pool = append(pool, fw)
		}
	})
	return pool
}

// randScript draws a fault script for a budget: one outcome per attempt up to one attempt past
// the budget, cut after the first outcome at which a correct loop stops. Retriable outcomes are
// favoured so that budgets get used up.
func randScript(r *rand.Rand, retries int, ops []opRef, writers bool) script {
	var s script
	for a := 0; a < maxAttempts(retries)+1; a++ {
		o := outcome{}
		if writers && r.IntN(4) == 0 {
			o.Writer = wrBefore
		}
		switch x := r.IntN(20); {
		case x < 10: // retriable fault
			op := ops[r.IntN(len(ops))]
			o.Kind, o.Nth, o.Class = op.kind, op.nth, clsRetriable
		case x < 13 && writers: // genuine conflict
			o.Writer = wrMid
		case x < 15: // permanent fault
			op := ops[r.IntN(len(ops))]
			o.Kind, o.Nth, o.Class = op.kind, op.nth, clsPermanent
		}
		s = append(s, o)
		if o.Class == clsPermanent || (o.Class == clsNone && o.Writer != wrMid) {
			break
		}
	}
	return s
}

func endOf(err error) string {
	switch {
	case err == nil:
		return "success"
	case errors.Is(err, endorse.ErrNoRetries):
		return "budget-exhausted"
	}
	return "permanent-error"
}

func errText(err error) string {
	if err == nil {
		return "<nil>"
	}
	return err.Error()
}

// reportFindings turns the checker's findings for one submission into violations (one per rule).
func reportFindings(c *core.Ctx, ci int, entry, gen string, fs []finding, witness map[string]any) int {
	seen := map[string]bool{}
	for _, f := range fs {
		if seen[f.Rule] {
			continue
		}
		seen[f.Rule] = true
		c.Violate(core.Violation{Kind: "oracle", Entry: entry, Site: f.Rule, Gen: gen, Case: ci, Detail: f.Detail, Witness: witness})
	}
	return len(seen)
}

var (
	opsCaller = []opRef{{"get", 1}, {"change", 1}, {"commit", 1}}
)

func runSeqCase(c *core.Ctx, w *world, ci int, r *rand.Rand, fl map[string]bool) {
	c.Begin(ci, fmt.Sprintf("kept values: %d sequences of submissions through one endorse.Context / context / back-end values", seqPerCase), "endorse.VirtualFirmware", nil)
	for q := 0; q < seqPerCase; q++ {
		runSeq(c, w, ci, q, r, fl)
	}
	c.End(ci)
}

func runSeq(c *core.Ctx, w *world, ci, q int, r *rand.Rand, fl map[string]bool) {
	const vf, rs = "endorse.VirtualFirmware", "endorse.RetrySubmit"
	imgs := imagePool()
	perm := r.Perm(len(imgs))
	outDir := []string{"", "release", "a/b"}[r.IntN(3)]
	initial := []int{0, 2}[r.IntN(2)]
	layout := []string{"Context.VCS", "Context.VCSs[1]", "Context.VCSs[2]"}[r.IntN(3)]
	steps := 3 + r.IntN(3)
	nv := 1
	if layout == "Context.VCSs[2]" {
		nv = 2
	}
	var vs []*vcs
	for vi := 0; vi < nv; vi++ {
		vs = append(vs, newVCS(vi, &recorder{}, nil, outDir, "", initial))
	}
	// the kept values
	ec := &endorse.Context{
		SevSnp: &sev.SnpEndorsementRequest{LaunchVmsas: 1, Product: spb.SevProduct_SEV_PRODUCT_MILAN, ImageID: "00000000-0000-4000-8000-000000000001"},
		ClSpec: 1, OutDir: outDir,
	}
	switch layout {
	case "Context.VCS":
		ec.VCS = vs[0]
	default:
		for _, v := range vs {
			ec.VCSs = append(ec.VCSs, v)
		}
	}
	ctx := endorse.NewContext(output.NewContext(keys.NewContext(context.Background(), w.kc), &output.Options{Quiet: true}), ec)
	change := callerChange(vs[0])

	prevEnd, prevEntry := "none", ""
	var budgets []int
	secondCommits := 0
	everSucceeded := false
	var history []string
	for st := 0; st < steps; st++ {
		entry := vf
		if r.IntN(4) == 0 {
			entry = rs
		}
		retries := []int{-2, -1, 0, 0, 1, 1, 2, 3}[r.IntN(8)]
		// every other step after a generous budget asks for a small one
		if st > 0 && budgets[st-1] >= 2 && r.IntN(2) == 0 {
			retries = []int{-1, 0, 0, 1}[r.IntN(4)]
		}
		cand := fmt.Sprintf("seq%d-rc%d", q, st)
		if st == 0 && r.IntN(3) == 0 {
			cand = ""
		}
		img := imgs[perm[st]]
		digest := sha512.Sum384(img)
		base := cand
		if base == "" {
			base = endorse.DefaultEndorsementBasename
		}
		rec := &recorder{}
		used := vs
		var scripts []script
		if entry == rs {
			used = vs[:1]
			scripts = []script{randScript(r, retries, opsCaller, false)}
		} else {
			for range vs {
				scripts = append(scripts, randScript(r, retries, opsManifestQuick, true))
			}
		}
		usable := true
		for vi, v := range vs {
			var s script
			if vi < len(scripts) {
				s = scripts[vi]
			}
			if !v.nextSubmission(rec, s, base+".binarypb", digest[:]) {
				usable = false
			}
		}
		if !usable {
			c.Count("kept-values/sequence-ended-early(head-unparsable)", 1)
			return
		}
		// what the caller changes between submissions
		ec.CommitRetries, ec.CandidateName, ec.Image = retries, cand, img
		ec.Timestamp = time.Unix(1700000000+int64(r.IntN(1<<20)), 0)
		ec.SevSnp.Svn = uint32(r.IntN(2))
		if entry == rs {
			ec.VCS = vs[0] // RetrySubmit works on Context.VCS; the caller points it at the back end
		}
		history = append(history, fmt.Sprintf("%s CommitRetries=%d candidate=%q %v", entry, retries, cand, scriptTexts(scripts)))
		gen := fmt.Sprintf("kept values (%s, %d initial entries) submission %d of %d: %s; earlier on the same values: %v", layout, initial, st+1, steps, history[st], history[:st])
		var rerr error
		returned := false
		m := c.Guard(ci, entry, gen, core.Budget{}, func() {
			if entry == rs {
				rerr = endorse.RetrySubmit(ctx, change)
			} else {
				rerr = endorse.VirtualFirmware(ctx)
			}
			returned = true
		})
		if m.Panicked || !returned {
			return
		}
		obs := &runObs{Retries: retries, VCSs: used, Log: rec.log, Err: rerr, RealChange: entry == vf}
		fs, per := judge(obs)
		reportFindings(c, ci, entry, gen, fs, map[string]any{"dimension": "kept values", "layout": layout, "sequence": history, "submission": st + 1,
			"commit_retries": retries, "returned_error": errText(rerr), "call_log": logTexts(rec.log), "out_dir": outDir, "initial_entries": initial})
		// ---- evidence ----
		end := endOf(rerr)
		n0 := len(per[0].Attempts)
		rel := "first"
		lower, higher := false, false
		for _, b := range budgets {
			if maxAttempts(retries) < maxAttempts(b) {
				lower = true
			}
			if maxAttempts(retries) > maxAttempts(b) {
				higher = true
			}
		}
		if st > 0 {
			switch pb := budgets[st-1]; {
			case maxAttempts(retries) < maxAttempts(pb):
				rel = "lower"
			case maxAttempts(retries) > maxAttempts(pb):
				rel = "higher"
			default:
				rel = "same"
			}
		}
		c.Count("kept-values/submissions/"+entry, 1)
		c.Count("kept-values/ended/"+end, 1)
		c.Cell("kept-values|%s|%s|budget=%d(%s-than-previous)|previous=%s|%s|attempts=%d", layout, entry, retries, rel, prevEnd, end, n0)
		usedUp := end == "budget-exhausted" && n0 == maxAttempts(retries)
		if usedUp && lower {
			fl["kept-values: a submission with a LOWER budget than an earlier one on the same values used its budget up exactly"] = true
			c.Count("kept-values/lower-budget-than-earlier-used-up-exactly", 1)
		}
		if usedUp && higher {
			fl["kept-values: a submission with a HIGHER budget than an earlier one on the same values used its budget up exactly"] = true
			c.Count("kept-values/higher-budget-than-earlier-used-up-exactly", 1)
		}
		if st > 0 && end == "success" && prevEnd != "success" {
			fl["kept-values: success after a failed submission on the same values"] = true
			c.Count("kept-values/success-after-failure", 1)
		}
		if st > 0 && end != "success" && prevEnd == "success" {
			fl["kept-values: failed submission after a successful one on the same values"] = true
			c.Count("kept-values/failure-after-success", 1)
		}
		if end == "success" && entry == vf && everSucceeded && len(vs[0].initial) > initial {
			fl["kept-values: a later success kept the manifest entries that earlier submissions on the same values committed"] = true
			c.Count("kept-values/later-success-with-own-earlier-entries-on-head", 1)
			c.Max("kept-values/max-entries-that-had-to-survive", int64(len(vs[0].initial)+len(vs[0].written)))
		}
		if st > 0 && entry != prevEntry {
			fl["kept-values: RetrySubmit and VirtualFirmware alternated on the same values"] = true
		}
		if nv == 2 && entry == vf && per[1].Committed {
			secondCommits++
			if secondCommits == 2 {
				fl["kept-values: two back ends kept, second one committed in two submissions"] = true
			}
		}
		if end == "success" && entry == vf {
			everSucceeded = true
		}
		if st == steps-1 && q == 0 && ci%97 == 0 {
			c.Sample(map[string]any{"kept_values_sequence": history, "layout": layout, "last_returned": errText(rerr), "last_call_log": logTexts(rec.log)})
		}
		budgets = append(budgets, retries)
		prevEnd, prevEntry = end, entry
	}
}
