package c19

import (
	"bytes"
	"fmt"
	"math/rand/v2"
	"os"
	"path/filepath"
	"sync"

	"github.com/google/gce-tcb-verifier/gcetcbendorsement"
	gcmd "github.com/google/gce-tcb-verifier/gcetcbendorsement/cmd"
	epb "github.com/google/gce-tcb-verifier/proto/endorsement"
	"google.golang.org/protobuf/proto"
	"google.golang.org/protobuf/reflect/protoreflect"

	"verifharness/props/c19/pathref"
)

// The same-file family (case numbers after the audit's families): relations between the file
// arguments of ONE command, and command runs that fail between good ones.
//
// Every earlier CLI case names two unrelated files: FILE is read, --out is written, and the two
// never meet. `inspect payload|signature|mask FILE --out=DEST` has two file arguments though, and
// nothing keeps a caller from pointing them at one file: "replace the endorsement by its payload",
// DEST spelled differently from FILE, DEST a symbolic or hard link to FILE (or the other way
// round), the two reached through a linked directory. The rendering the command leaves in DEST
// must then still be the exact field bytes of the endorsement FILE held when the command was
// started - which it is exactly when the command has finished reading before it touches its
// destination. So here each step prepares a fresh endorsement file, runs ONE command whose --out
// is related to FILE in one of those ways (through the real backend cmd.OSIO in a private
// temporary directory, or through a POSIX-like in-memory cmd.IO of the monitor whose Create
// truncates at once and whose names may share one file), reads DEST back and judges it with the
// same rules as every other rendering.
//
// A command that REFUSES such a combination with an error renders nothing and is not judged
// (counted; floors require that every relation was seen to give an exact rendering, so a tree
// that refuses them all makes the run inconclusive instead of passing).
//
// The second kind of step puts a failing command between two good ones on ONE destination: a good
// rendering, then a run that fails (FILE missing / not an endorsement / a directory, an unknown
// --bytesform, a mask path that does not parse), then another good rendering. Only the good runs
// are judged (results do not depend on what the process or the destination went through before).
// What the failed run left in the destination is recorded as evidence only: C19 says nothing
// about the destination of a command that reported an error, and the unchanged tree itself empties
// it whenever the failure comes after the destination was opened (mask of an unparsable path).

// memFS is a POSIX-like in-memory cmd.IO: names map to files, several names may share one file,
// Create truncates the file at once (cmd.IO: "creates or opens and truncates"), writes go to the
// file as they are made.
type memFS struct {
	mu    sync.Mutex
	names map[string]*memFile
}

type memFile struct{ data []byte }

type memFSWriter struct {
	fs *memFS
	f  *memFile
}

func (w *memFSWriter) IsTerminal() bool { return false }
func (w *memFSWriter) Write(p []byte) (int, error) {
	w.fs.mu.Lock()
	defer w.fs.mu.Unlock()
	w.f.data = append(w.f.data, p...)
	return len(p), nil
}

func (m *memFS) Create(path string) (gcetcbendorsement.TerminalWriter, func(), error) {
	m.mu.Lock()
	defer m.mu.Unlock()
	f := m.names[path]
	if f == nil {
		f = &memFile{}
		m.names[path] = f
	}
	f.data = nil
	return &memFSWriter{fs: m, f: f}, func() {}, nil
}

func (m *memFS) ReadFile(path string) ([]byte, error) {
	m.mu.Lock()
	defer m.mu.Unlock()
	f := m.names[path]
	if f == nil {
		return nil, fmt.Errorf("open %s: no such file or directory", path)
	}
	return append([]byte(nil), f.data...), nil
}

var _ gcmd.IO = (*memFS)(nil)

var sameFileRelationsOS = []string{"same-path", "other-spelling-of-the-path", "input-is-a-symlink-to-the-destination", "destination-is-a-symlink-to-the-input",
	"hard-link", "two-symlinks-to-one-file", "through-a-symlinked-directory", "distinct-file-with-the-same-base-name"}
var sameFileRelationsMem = []string{"same-path", "second-name-of-the-file", "distinct-file-with-the-same-base-name"}
var failKinds = []string{"input-missing", "input-not-an-endorsement", "input-is-a-directory", "unknown-bytesform", "mask-path-does-not-parse"}

const controlRelation = "distinct-file-with-the-same-base-name"

type sameFileStep struct {
	kind     string // same-file | after-failed-run
	backend  string // os | memfs
	relation string
	variant  int  // spelling variant
	swap     bool // which of the two names carries the odd spelling
	relLink  bool // symbolic links with relative targets
	style    int  // where and how --out is spelled
	// the endorsement and what is asked of it (two requests for after-failed-run)
	e        *epb.VMLaunchEndorsement
	wire     []byte
	dec      protoreflect.Message
	req      [2]sameFileReq
	failKind string
}

type sameFileReq struct {
	sub   string
	f     form
	path  string
	steps []pathref.Step
}

func (k *checker) drawReq(r *rand.Rand, gp [][]pathref.Step) sameFileReq {
	q := sameFileReq{}
	q.f = formOf([]gcetcbendorsement.BytesForm{gcetcbendorsement.BytesRaw, gcetcbendorsement.BytesRaw, gcetcbendorsement.BytesAuto,
		gcetcbendorsement.BytesHex, gcetcbendorsement.BytesBase64}[r.IntN(5)], false)
	subs := []string{"payload", "payload", "signature", "signature"}
	if len(gp) > 0 {
		subs = append(subs, "mask", "mask")
	}
	q.sub = subs[r.IntN(len(subs))]
	if q.sub == "mask" {
		q.steps = gp[r.IntN(len(gp))]
		for try := 0; try < 8; try++ {
			if q.path, _ = pathref.Render(r, "", q.steps); cliSafe(q.path) {
				break
			}
		}
		if !cliSafe(q.path) {
			q.sub, q.path, q.steps = "signature", "", nil
		}
	}
	return q
}

// inspectArgs spells one command; style decides where --out stands and whether it is one argument.
func inspectArgs(q sameFileReq, in, out string, style int, bytesform string) []string {
	outArgs := []string{"--out=" + out}
	if style&1 == 1 {
		outArgs = []string{"--out", out}
	}
	args := []string{"inspect", q.sub}
	if style&2 == 2 {
		args = append(append(args, outArgs...), in)
	} else {
		args = append(append(args, in), outArgs...)
	}
	args = append(args, "--bytesform="+bytesform)
	if q.sub == "mask" {
		args = append(args, "--path="+q.path)
	}
	return args
}

func (k *checker) sameFile(i int, r *rand.Rand) {
	c := k.c
	// everything random is drawn before any file is touched
	n := 1 + r.IntN(3)
	backend := "os"
	if r.IntN(4) == 0 {
		backend = "memfs"
	}
	seq := make([]*sameFileStep, n)
	for j := range seq {
		s := &sameFileStep{kind: "same-file", backend: backend, variant: r.IntN(4), swap: r.IntN(2) == 0, relLink: r.IntN(2) == 0, style: r.IntN(4)}
		if r.IntN(10) < 3 {
			s.kind = "after-failed-run"
			s.failKind = failKinds[r.IntN(len(failKinds))]
		}
		rels := sameFileRelationsOS
		if backend == "memfs" {
			rels = sameFileRelationsMem
		}
		s.relation = rels[r.IntN(len(rels))]
		var gp [][]pathref.Step
		if r.IntN(2) == 0 {
			if w := k.goldenWorld(r, false, r.IntN(4) == 0); w != nil {
				s.e, s.wire, s.dec = w.e, w.wire, w.dec
				bytesPaths(w.dec, nil, &gp, 0)
			}
		}
		if s.e == nil {
			s.e = &epb.VMLaunchEndorsement{SerializedUefiGolden: rawBytes(r), Signature: rawBytes(r)}
			s.wire, _ = proto.Marshal(s.e)
		}
		s.req[0], s.req[1] = k.drawReq(r, gp), k.drawReq(r, gp)
		if s.kind == "after-failed-run" && backend == "memfs" && s.failKind == "input-is-a-directory" {
			s.failKind = "input-missing"
		}
		seq[j] = s
	}
	gen := fmt.Sprintf("same-file/%s/steps=%d", backend, n)
	c.Begin(i, gen, "cli inspect payload|signature|mask with related file arguments", seq[0].wire)

	dir := "/verif-c19-memfs"
	if backend == "os" {
		d, err := os.MkdirTemp("", "verif-c19s-")
		if err != nil {
			c.Count("same-file/environment-unavailable", 1)
			c.Note("same-file: could not prepare a temporary directory: %v", err)
			c.End(i)
			return
		}
		defer os.RemoveAll(d)
		dir = d
	}
	for j, s := range seq {
		if !k.sameFileStep(i, gen, j, dir, s) {
			break
		}
	}
	c.End(i)
}

// wantOf is the field a request addresses in the endorsement the step's file held.
func (s *sameFileStep) wantOf(q sameFileReq) []byte {
	switch q.sub {
	case "payload":
		return s.e.SerializedUefiGolden
	case "signature":
		return s.e.Signature
	}
	return pathref.Walk(s.dec, q.steps).Last().Bytes()
}

// sameFileStep prepares and runs one step. It returns false when the rest of the sequence should
// not be run (a panic was reported).
func (k *checker) sameFileStep(i int, gen string, j int, dir string, s *sameFileStep) bool {
	c := k.c
	sd := filepath.Join(dir, fmt.Sprintf("s%d", j))
	const name = "endorsement.binarypb"
	base := filepath.Join(sd, "a", name)
	in, out := base, base
	var bio gcmd.IO = gcmd.OSIO{}
	var mfs *memFS
	var setup error
	readBack := func(p string) ([]byte, error) { return os.ReadFile(p) }

	relation := s.relation
	if s.kind == "after-failed-run" {
		relation = controlRelation // the failing run is the dimension here; FILE and DEST are unrelated
	}
	if s.backend == "memfs" {
		mfs = &memFS{names: map[string]*memFile{}}
		bio = mfs
		readBack = mfs.ReadFile
		file := &memFile{data: append([]byte(nil), s.wire...)}
		mfs.names[base] = file
		switch relation {
		case "second-name-of-the-file":
			out = filepath.Join(sd, "latest")
			mfs.names[out] = file
			if s.swap {
				in, out = out, in
			}
		case controlRelation:
			out = filepath.Join(sd, "c", name)
		}
	} else {
		link := func(target, at string) error {
			if s.relLink {
				if rel, err := filepath.Rel(filepath.Dir(at), target); err == nil {
					target = rel
				}
			}
			return os.Symlink(target, at)
		}
		if setup = os.MkdirAll(filepath.Join(sd, "a"), 0o755); setup == nil {
			setup = os.WriteFile(base, s.wire, 0o644)
		}
		if setup == nil {
			switch relation {
			case "other-spelling-of-the-path":
				// built by hand: filepath.Join would clean the spelling away
				odd := []string{sd + "/a/../a/./" + name, sd + "//a/" + name, sd + "/a/./././" + name, sd + "/./a/../../" + filepath.Base(sd) + "/a/" + name}[s.variant]
				if s.swap {
					in = odd
				} else {
					out = odd
				}
			case "input-is-a-symlink-to-the-destination":
				in = filepath.Join(sd, "latest")
				setup = link(base, in)
			case "destination-is-a-symlink-to-the-input":
				out = filepath.Join(sd, "result")
				setup = link(base, out)
			case "hard-link":
				out = filepath.Join(sd, "a", "second-name")
				setup = os.Link(base, out)
				if s.swap {
					in, out = out, in
				}
			case "two-symlinks-to-one-file":
				in, out = filepath.Join(sd, "latest"), filepath.Join(sd, "result")
				if setup = link(base, in); setup == nil {
					setup = link(base, out)
				}
			case "through-a-symlinked-directory":
				if setup = link(filepath.Join(sd, "a"), filepath.Join(sd, "b")); setup == nil {
					out = filepath.Join(sd, "b", name)
					if s.swap {
						in, out = out, in
					}
				}
			case controlRelation:
				out = filepath.Join(sd, "c", name)
				setup = os.MkdirAll(filepath.Join(sd, "c"), 0o755)
			}
		}
	}
	if setup != nil {
		c.Count("same-file/environment-unavailable/"+relation, 1)
		c.Note("same-file: could not prepare the files of a step (%s): %v", relation, setup)
		return true
	}

	// run performs one request and judges it when the command reported success. refusalAllowed: an
	// error is a refusal of the combination (not judged) instead of a failed rendering.
	run := func(q sameFileReq, label string, refusalAllowed bool) (exact, ran bool) {
		entry := "cli inspect " + q.sub + " (same file)"
		if s.kind == "after-failed-run" {
			entry = "cli inspect " + q.sub + " (around a failed run)"
		}
		sgen := fmt.Sprintf("%s/step%d=%s,%s,%s,%s,out-style=%d,%s", gen, j, s.kind, relation, q.sub, q.f.cli, s.style, label)
		args := inspectArgs(q, in, out, s.style, q.f.cli)
		var rerr error
		if k.guard(i, entry, sgen, len(s.wire), func() { rerr = runCLIOn(bio, args...) }).Panicked {
			return false, false
		}
		if rerr != nil {
			if refusalAllowed {
				c.Count("same-file/refused(not judged)/"+relation, 1)
				c.Cell("same-file|%s|%s|%s|%s|refused", s.backend, relation, q.sub, q.f.name)
				return false, true
			}
			c.Oracle(i, entry, "rendering-failed", sgen, "form %s: command failed on a well-formed endorsement file and a writable destination: %s", q.f.name, errText(rerr))
			return false, true
		}
		got, readErr := readBack(out)
		if readErr != nil {
			c.Oracle(i, entry, "rendering-failed", sgen, "form %s: the command succeeded but its destination cannot be read: %s", q.f.name, errText(readErr))
			return false, true
		}
		if q.sub == "mask" {
			exact = k.judgeMask(i, entry, sgen, q.path, k.parses(i, sgen, q.path, rtGolden), s.dec, pathref.Walk(s.dec, q.steps), q.f, got, nil)
		} else {
			exact = k.checkBytes(i, entry, sgen, q.f, s.wantOf(q), got)
		}
		return exact, true
	}

	if s.kind == "same-file" {
		q := s.req[0]
		exact, ran := run(q, "the endorsement is what FILE held when the command was started", relation != controlRelation)
		if !ran {
			return false
		}
		outcome := "not-exact"
		if exact {
			outcome = "exact"
			k.sameFileExact[s.backend+"/"+relation]++
			if len(s.wantOf(q)) > 0 && relation != controlRelation {
				k.sameFileNonEmpty++
			}
		}
		c.Count("same-file/step/"+s.backend+"/"+relation+"/"+outcome, 1)
		c.Cell("same-file|%s|%s|%s|%s|%s", s.backend, relation, q.sub, q.f.name, lenClass(len(s.wantOf(q))))
		c.Cell("same-file|out-style=%d|%s", s.style, q.sub)
		return true
	}

	// after-failed-run: good, failing, good - all onto one destination
	first, ran := run(s.req[0], "first rendering", false)
	if !ran {
		return false
	}
	before, _ := readBack(out)
	fq := s.req[1]
	fin, bytesform := in, fq.f.cli
	switch s.failKind {
	case "input-missing":
		fin = in + ".typo"
	case "input-not-an-endorsement":
		fin = filepath.Join(sd, "a", "garbage")
		garbage := []byte{0x0a, 0xff, 0xff, 0xff, 0xff, 0xff, 0xff, 0xff, 0xff, 0xff, 0xff, 0x01} // an overlong length prefix
		if mfs != nil {
			mfs.names[fin] = &memFile{data: garbage}
		} else if err := os.WriteFile(fin, garbage, 0o644); err != nil {
			c.Count("same-file/environment-unavailable/"+s.failKind, 1)
			return true
		}
	case "input-is-a-directory":
		fin = filepath.Join(sd, "a")
	case "unknown-bytesform":
		bytesform = "base32"
	case "mask-path-does-not-parse":
		fq.sub, fq.path = "mask", "no_such_field_of_the_golden_measurement"
	}
	fentry := "cli inspect " + fq.sub + " (failing run)"
	fgen := fmt.Sprintf("%s/step%d=%s,failing run: %s", gen, j, s.kind, s.failKind)
	var ferr error
	if k.guard(i, fentry, fgen, len(s.wire), func() { ferr = runCLIOn(bio, inspectArgs(fq, fin, out, s.style, bytesform)...) }).Panicked {
		return false
	}
	// evidence only: what the failed run left in the destination
	left := "as-before"
	after, aerr := readBack(out)
	switch {
	case ferr == nil:
		left = "the-run-did-not-fail"
	case aerr != nil:
		left = "unreadable"
	case bytes.Equal(after, before):
	case len(after) == 0:
		left = "emptied"
	default:
		left = "changed"
	}
	c.Count("after-failed-run(evidence, not judged)/"+s.failKind+"/destination-"+left, 1)
	c.Cell("after-failed-run|%s|%s|destination-%s", s.backend, s.failKind, left)
	second, ran := run(s.req[1], "rendering after the failed run ("+s.failKind+", destination "+left+")", false)
	if !ran {
		return false
	}
	if first && second && ferr != nil {
		k.afterFailedExact[s.failKind]++
		c.Count("after-failed-run/both-good-renderings-exact/"+s.failKind, 1)
	}
	return true
}
