package c19

import (
	"bytes"
	"context"
	"encoding/base64"
	"encoding/hex"
	"fmt"
	"math/rand/v2"
	"strings"
	"time"

	"github.com/google/gce-tcb-verifier/gcetcbendorsement"
	"github.com/google/gce-tcb-verifier/gcetcbendorsement/parsepath"
	epb "github.com/google/gce-tcb-verifier/proto/endorsement"
	"google.golang.org/protobuf/proto"
	"google.golang.org/protobuf/reflect/protoreflect"
	fmpb "google.golang.org/protobuf/types/known/fieldmaskpb"

	"verifharness/core"
	"verifharness/doubles"
	"verifharness/props/c19/pathref"
)

type form struct {
	name string
	form gcetcbendorsement.BytesForm
	cli  string
	term bool
}

var renderForms = []form{
	{"bin", gcetcbendorsement.BytesRaw, "bin", false},
	{"hex", gcetcbendorsement.BytesHex, "hex", false},
	{"base64", gcetcbendorsement.BytesBase64, "base64", false},
	{"auto-terminal", gcetcbendorsement.BytesAuto, "auto", true},
	{"auto-file", gcetcbendorsement.BytesAuto, "auto", false},
}

// recWriter is the TerminalWriter the API entry points write to.
type recWriter struct {
	buf  bytes.Buffer
	term bool
}

func (w *recWriter) Write(p []byte) (int, error) { return w.buf.Write(p) }
func (w *recWriter) IsTerminal() bool            { return w.term }

func lenClass(n int) string {
	switch {
	case n == 0:
		return "0"
	case n < 3:
		return "1-2"
	case n == 16:
		return "16"
	case n < 64:
		return "3-63"
	case n <= 1025:
		return "64-1025"
	}
	return ">1025"
}

// checkBytes judges one rendering of want and reports whether it is exact.
func (k *checker) checkBytes(i int, entry, gen string, f form, want, got []byte) bool {
	c := k.c
	bad := func(rule, format string, a ...any) {
		c.Violate(core.Violation{Kind: "oracle", Entry: entry, Site: rule, Gen: gen, Case: i, Detail: fmt.Sprintf("form %s: ", f.name) + fmt.Sprintf(format, a...),
			Witness: map[string]any{"form": f.name, "field_b64": base64.StdEncoding.EncodeToString(clip(want)), "output_b64": base64.StdEncoding.EncodeToString(clip(got)),
				"field_len": len(want), "output_len": len(got)}})
		c.Cell("render|%s|%s|%s|WRONG", entry, f.name, lenClass(len(want)))
	}
	enc := f.name
	if f.form == gcetcbendorsement.BytesAuto {
		enc = "bin"
		if f.term {
			enc = "base64"
		}
	}
	switch enc {
	case "bin":
		if !bytes.Equal(got, want) {
			bad("raw-rendering-not-exact", "output (%d bytes) differs from the field (%d bytes): %s", len(got), len(want), firstDiff(got, want))
			return false
		}
	case "hex":
		dec, err := hex.DecodeString(string(got))
		if err != nil || !bytes.Equal(dec, want) {
			bad("hex-rendering-does-not-decode-to-field", "output %q (err %v) does not decode to the %d field bytes", clipS(got), err, len(want))
			return false
		}
	case "base64":
		dec, err := base64.StdEncoding.DecodeString(string(got))
		if err != nil || !bytes.Equal(dec, want) {
			bad("base64-rendering-does-not-decode-to-field", "output %q (err %v) does not decode (standard alphabet) to the %d field bytes", clipS(got), err, len(want))
			return false
		}
	}
	k.renderOK[entry+"/"+f.name] = true
	c.Count("rendering-exact/"+entry+"/"+f.name, 1)
	c.Cell("render|%s|%s|%s|exact", entry, f.name, lenClass(len(want)))
	return true
}

func clip(b []byte) []byte {
	if len(b) > 4096 {
		return b[:4096]
	}
	return b
}

func clipS(b []byte) string {
	if len(b) > 120 {
		return string(b[:120]) + "…"
	}
	return string(b)
}

func firstDiff(a, b []byte) string {
	n := min(len(a), len(b))
	for j := 0; j < n; j++ {
		if a[j] != b[j] {
			return fmt.Sprintf("first difference at offset %d (output %#02x, field %#02x)", j, a[j], b[j])
		}
	}
	return fmt.Sprintf("common prefix of %d bytes, then lengths differ", n)
}

var payloadLens = []int{0, 1, 2, 3, 4, 16, 17, 48, 57, 255, 256, 1023, 1024, 1025, 3000, 70000}

func rawBytes(r *rand.Rand) []byte {
	n := payloadLens[r.IntN(len(payloadLens))]
	b := make([]byte, n)
	for j := range b {
		b[j] = byte(r.Uint32())
	}
	if n > 0 {
		switch r.IntN(4) {
		case 0:
			b[n-1] = '\n' // a trailing newline in the field must survive
		case 1:
			b[0] = 0
		case 2:
			for j := range b { // bytes whose base64 uses '+' and '/'
				b[j] = []byte{0xfb, 0xff, 0xfe, 0x3e, 0x3f}[r.IntN(5)]
			}
		}
	}
	return b
}

const inFile, outFile = "/in/endorsement.binarypb", "/out/result"

// runCLI drives `gcetcbendorsement inspect <sub> FILE --out= --bytesform= [--path=]` in-process.
func (k *checker) runCLI(i int, gen, sub string, endorsement []byte, f form, path string, r *rand.Rand) (out []byte, err error, panicked bool) {
	io := doubles.NewMemIO()
	io.Files[inFile] = endorsement
	io.Terminal = f.term
	dest := outFile
	if r.IntN(4) == 0 {
		dest = "-"
	}
	args := []string{"inspect", sub, inFile, "--out=" + dest, "--bytesform=" + f.cli}
	if sub == "mask" {
		args = append(args, "--path="+path)
	}
	cli := &doubles.CLI{IO: io, Now: time.Date(2025, 3, 1, 0, 0, 0, 0, time.UTC)}
	m := k.guard(i, "cli inspect "+sub, gen, len(endorsement), func() { err = cli.Run(args...) })
	return io.Files[dest], err, m.Panicked
}

// bytesPaths lists structured paths to the populated bytes values of m (bounded).
func bytesPaths(m protoreflect.Message, prefix []pathref.Step, out *[][]pathref.Step, depth int) {
	if len(*out) >= 64 || depth > 7 {
		return
	}
	fds := m.Descriptor().Fields()
	for j := 0; j < fds.Len(); j++ {
		fd := fds.Get(j)
		if !m.Has(fd) {
			continue
		}
		p := append(append([]pathref.Step{}, prefix...), pathref.F(string(fd.Name())))
		v := m.Get(fd)
		switch {
		case fd.IsMap():
			for _, key := range pathref.SortedKeys(v.Map(), fd.MapKey().Kind()) {
				pk := append(append([]pathref.Step{}, p...), pathref.I(pathref.LitOfKey(fd.MapKey().Kind(), key)))
				switch fd.MapValue().Kind() {
				case protoreflect.BytesKind:
					*out = append(*out, pk)
				case protoreflect.MessageKind:
					bytesPaths(v.Map().Get(key).Message(), pk, out, depth+1)
				}
			}
		case fd.IsList():
			for x := 0; x < v.List().Len(); x++ {
				pk := append(append([]pathref.Step{}, p...), pathref.I(pathref.UintLit(uint64(x))))
				switch fd.Kind() {
				case protoreflect.BytesKind:
					*out = append(*out, pk)
				case protoreflect.MessageKind:
					bytesPaths(v.List().Get(x).Message(), pk, out, depth+1)
				}
			}
		case fd.Kind() == protoreflect.BytesKind:
			*out = append(*out, p)
		case fd.Kind() == protoreflect.MessageKind:
			bytesPaths(v.Message(), p, out, depth+1)
		}
	}
}

func cliSafe(s string) bool { return !strings.ContainsAny(s, ",\"'\\\n\r\x00") && s != "" }

// judgeMask judges one Mask-like call (API or CLI) on a path with reference walk w.
func (k *checker) judgeMask(i int, entry, gen, text string, parses bool, msg protoreflect.Message, w pathref.Walked, f form, out []byte, err error) (ok bool) {
	c := k.c
	if !parses && err != nil {
		// ParsePath itself rejects the text: allowed by C19 whatever the path addresses (counted, floors apply)
		c.Count("mask/"+entry+"/path-parse-rejected/expected-"+w.Status.String(), 1)
		return true
	}
	ok = true
	viol := func(rule, format string, a ...any) {
		ok = false
		c.Violate(core.Violation{Kind: "oracle", Entry: entry, Site: rule, Gen: gen, Case: i, Detail: fmt.Sprintf("path %q, form %s: ", text, f.name) + fmt.Sprintf(format, a...),
			Witness: map[string]any{"path": text, "message_type": string(msg.Descriptor().FullName()), "message_text": showMsg(msg), "message_wire_b64": wireB64(msg), "reference": w.Status.String(), "reference_why": w.Why}})
	}
	switch {
	case err != nil && w.Status == pathref.Present:
		viol("error-on-present-element", "every step addresses an existing element (walked value: %s) but the call failed: %s", pathref.Show(w.Last()), errTail(err))
		c.Cell("mask|%s|%s|%s|%s|ERROR-ON-PRESENT", entry, cut(w.Shape), w.Final, w.Status)
	case err != nil:
		c.Count("mask/"+entry+"/"+w.Status.String()+"-error", 1)
		c.Cell("mask|%s|%s|%s|%s|error", entry, cut(w.Shape), w.Final, w.Status)
		if w.Status == pathref.Absent {
			k.absentErr++
		}
	case w.Status != pathref.Present:
		viol("value-for-"+map[pathref.Status]string{pathref.Absent: "absent-element", pathref.IllTyped: "unwalkable-path"}[w.Status],
			"the path addresses nothing (%s) but the call succeeded with output %q", w.Why, clipS(out))
	case w.Final == "bytes":
		ok = k.checkBytes(i, entry, gen, f, w.Last().Bytes(), out)
		c.Cell("mask|%s|%s|bytes|present|rendered", entry, cut(w.Shape))
	default:
		c.Count("mask/"+entry+"/non-bytes-rendered(not judged)", 1)
	}
	return ok
}

// parses reports whether ParsePath accepts the text for the root type (panics are reported by guard).
func (k *checker) parses(i int, gen, text string, rt rootType) bool {
	var err error
	m := k.guard(i, entParse, gen, len(text), func() { _, err = parsepath.ParsePath(rt.mt.Descriptor(), text) })
	return !m.Panicked && err == nil
}

func (k *checker) render(i int, r *rand.Rand) {
	c := k.c
	switch sub := r.IntN(12); {
	case sub >= 10:
		k.reused(i, r)
	case sub < 4: // payload and signature: arbitrary bytes
		e := &epb.VMLaunchEndorsement{SerializedUefiGolden: rawBytes(r), Signature: rawBytes(r)}
		if r.IntN(8) == 0 {
			e.Signature = nil
		}
		wire, _ := proto.Marshal(e)
		gen := fmt.Sprintf("render/payload+signature/len=%s,%s", lenClass(len(e.SerializedUefiGolden)), lenClass(len(e.Signature)))
		c.Begin(i, gen, "InspectPayload+InspectSignature+cli", wire)
		for _, f := range renderForms {
			f.term = f.term || (f.form != gcetcbendorsement.BytesAuto && r.IntN(2) == 0)
			for _, which := range []string{"Payload", "Signature"} {
				want := e.SerializedUefiGolden
				call := gcetcbendorsement.InspectPayload
				if which == "Signature" {
					want, call = e.Signature, gcetcbendorsement.InspectSignature
				}
				w := &recWriter{term: f.term}
				ctx := gcetcbendorsement.WithInspect(context.Background(), &gcetcbendorsement.Inspect{Writer: w, Form: f.form})
				var err error
				g := k.guard(i, "Inspect"+which, gen, len(want), func() { err = call(ctx, e) })
				if !g.Panicked {
					if err != nil {
						c.Oracle(i, "Inspect"+which, "rendering-failed", gen, "form %s: writing %d bytes to an in-memory writer failed: %s", f.name, len(want), errText(err))
					} else {
						k.checkBytes(i, "Inspect"+which, gen, f, want, w.buf.Bytes())
					}
				}
				out, err, panicked := k.runCLI(i, gen, strings.ToLower(which), wire, f, "", r)
				if !panicked {
					if err != nil {
						c.Oracle(i, "cli inspect "+strings.ToLower(which), "rendering-failed", gen, "form %s: command failed on a well-formed endorsement file: %s", f.name, errText(err))
					} else {
						k.checkBytes(i, "cli inspect "+strings.ToLower(which), gen, f, want, out)
						k.cliOK++
					}
				}
			}
		}
		c.End(i)
	case sub < 8: // mask over the golden measurement carried in an endorsement
		g := pathref.RandMessage(r, rtGolden.mt)
		payload, err := proto.MarshalOptions{Deterministic: true}.Marshal(g.Interface())
		if err != nil {
			c.Note("render: golden marshal failed: %v", err)
			return
		}
		// expectations are computed on what the payload decodes to (as the code under test does)
		dec := rtGolden.mt.New()
		if err := proto.Unmarshal(payload, dec.Interface()); err != nil {
			c.Note("render: golden unmarshal failed: %v", err)
			return
		}
		e := &epb.VMLaunchEndorsement{SerializedUefiGolden: payload, Signature: rawBytes(r)}
		wire, _ := proto.Marshal(e)
		var bp [][]pathref.Step
		bytesPaths(dec, nil, &bp, 0)
		var steps []pathref.Step
		how := "bytes-field"
		switch {
		case len(bp) > 0 && r.IntN(10) < 6:
			steps = bp[r.IntN(len(bp))]
			if r.IntN(4) == 0 { // un-index a container on the way (tdx.measurements[i].mrtd -> tdx.measurements.mrtd)
				cands := [][]pathref.Step{steps}
				for _, p := range bp {
					for j, s := range p {
						if s.Index && j+1 < len(p) {
							cands = append(cands, p)
							break
						}
					}
				}
				steps = cands[len(cands)-1-r.IntN(max(1, len(cands)-1))]
				for j, s := range steps {
					if s.Index && j+1 < len(steps) {
						steps = append(append([]pathref.Step{}, steps[:j]...), steps[j+1:]...)
						how = "bytes-field-index-dropped"
						break
					}
				}
			}
		default:
			steps = pathref.RandPath(r, dec, pathref.GenOpts{MaxSteps: 4, AbsentPct: 25})
			how = "any-field"
		}
		rootName := ""
		if r.IntN(4) == 0 {
			rootName = string(rtGolden.mt.Descriptor().FullName())
		}
		text, _ := pathref.Render(r, rootName, steps)
		w := pathref.Walk(dec, steps)
		gen := fmt.Sprintf("render/mask-golden/%s/%s/%s", how, cut(w.Shape), w.Status)
		c.Begin(i, gen, "InspectMask+cli inspect mask", []byte(text))
		parses := k.parses(i, gen, text, rtGolden)
		forms := renderForms
		if w.Final != "bytes" || w.Status != pathref.Present {
			forms = renderForms[r.IntN(len(renderForms)):][:1]
		}
		for _, f := range forms {
			rw := &recWriter{term: f.term}
			ctx := gcetcbendorsement.WithInspect(context.Background(), &gcetcbendorsement.Inspect{Writer: rw, Form: f.form})
			var err error
			gd := k.guard(i, "InspectMask", gen, len(wire), func() {
				err = gcetcbendorsement.InspectMask(ctx, e, &fmpb.FieldMask{Paths: []string{text}})
			})
			if !gd.Panicked {
				k.judgeMask(i, "InspectMask", gen, text, parses, dec, w, f, rw.buf.Bytes(), err)
			}
			if cliSafe(text) {
				out, err, panicked := k.runCLI(i, gen, "mask", wire, f, text, r)
				if !panicked {
					k.judgeMask(i, "cli inspect mask", gen, text, parses, dec, w, f, out, err)
					if err == nil {
						k.cliOK++
					}
				}
			}
		}
		if i%1999 == 0 {
			c.Sample(map[string]any{"family": "render", "entry": "InspectMask + cli inspect mask", "path": text, "reference": w.Status.String(), "addressed": w.Final})
		}
		c.End(i)
	default: // MaskOptions.Mask over the test message type (bytes below maps of every key kind)
		m := pathref.RandMessage(r, rtTest.mt)
		var bp [][]pathref.Step
		bytesPaths(m, nil, &bp, 0)
		var steps []pathref.Step
		if len(bp) > 0 && r.IntN(10) < 8 {
			steps = bp[r.IntN(len(bp))]
		} else {
			steps = pathref.RandPath(r, m, pathref.GenOpts{MaxSteps: 6, AbsentPct: 25})
		}
		text, _ := pathref.Render(r, "", steps)
		w := pathref.Walk(m, steps)
		gen := fmt.Sprintf("render/mask-test/%s/%s", cut(w.Shape), w.Status)
		c.Begin(i, gen, "MaskOptions.Mask", []byte(text))
		parses := k.parses(i, gen, text, rtTest)
		forms := renderForms
		if w.Final != "bytes" || w.Status != pathref.Present {
			forms = renderForms[r.IntN(len(renderForms)):][:1]
		}
		for _, f := range forms {
			rw := &recWriter{term: f.term}
			opts := &gcetcbendorsement.MaskOptions{BytesForm: f.form, Writer: rw}
			var err error
			gd := k.guard(i, "MaskOptions.Mask", gen, len(text), func() {
				err = opts.Mask(m.Interface(), &fmpb.FieldMask{Paths: []string{text}})
			})
			if !gd.Panicked {
				k.judgeMask(i, "MaskOptions.Mask", gen, text, parses, m, w, f, rw.buf.Bytes(), err)
			}
		}
		c.End(i)
	}
}

// formOf names the rendering a (Form, writer) pair must produce, in the terms of renderForms.
func formOf(bf gcetcbendorsement.BytesForm, term bool) form {
	for _, f := range renderForms {
		if f.form == bf && (bf != gcetcbendorsement.BytesAuto || f.term == term) {
			f.term = term
			return f
		}
	}
	panic("c19: no such form")
}

// reused: one long-lived options value (*Inspect inside one context, or *MaskOptions) is kept
// across a short sequence of calls while the caller swaps the writer between a terminal and a
// non-terminal one. Every step is judged like a single call (auto is decided by the writer of
// *that* step), and the options value must come back with the Form the caller put in.
func (k *checker) reused(i int, r *rand.Rand) {
	c := k.c
	bf := []gcetcbendorsement.BytesForm{gcetcbendorsement.BytesAuto, gcetcbendorsement.BytesAuto, gcetcbendorsement.BytesAuto,
		gcetcbendorsement.BytesRaw, gcetcbendorsement.BytesHex, gcetcbendorsement.BytesBase64}[r.IntN(6)]
	g := pathref.RandMessage(r, rtGolden.mt)
	payload, err := proto.MarshalOptions{Deterministic: true}.Marshal(g.Interface())
	dec := rtGolden.mt.New()
	if err != nil || proto.Unmarshal(payload, dec.Interface()) != nil {
		c.Note("render: golden round trip failed")
		return
	}
	e := &epb.VMLaunchEndorsement{SerializedUefiGolden: payload, Signature: rawBytes(r)}
	var gp, tp [][]pathref.Step
	bytesPaths(dec, nil, &gp, 0)
	tm := pathref.RandMessage(r, rtTest.mt)
	bytesPaths(tm, nil, &tp, 0)
	// writer kinds per step: at least one switch, so that a decision cached at step n shows at n+1
	n := 3 + r.IntN(4)
	terms := make([]bool, n)
	for j := range terms {
		terms[j] = r.IntN(2) == 0
	}
	if same := func() bool {
		for _, t := range terms {
			if t != terms[0] {
				return false
			}
		}
		return true
	}(); same {
		terms[n-1] = !terms[0]
	}
	holder := "Inspect"
	if r.IntN(3) == 0 {
		holder = "MaskOptions"
	}
	gen := fmt.Sprintf("render/reused-%s/form=%s/steps=%d", holder, formOf(bf, false).cli, n)
	c.Begin(i, gen, "Inspect*/MaskOptions.Mask on one options value", payload)
	c.Count("reused-options-sequences/"+holder+"/"+formOf(bf, false).cli, 1)
	sawTerminal := false
	if holder == "Inspect" {
		insp := &gcetcbendorsement.Inspect{Form: bf}
		ctx := gcetcbendorsement.WithInspect(context.Background(), insp)
		for j := 0; j < n; j++ {
			w := &recWriter{term: terms[j]}
			insp.Writer = w // the caller redirects the output; the options value stays the same
			ops := []string{"Payload", "Signature"}
			if len(gp) > 0 {
				ops = append(ops, "Mask", "Mask")
			}
			op := ops[r.IntN(len(ops))]
			var want []byte
			var call func() error
			switch op {
			case "Payload":
				want, call = e.SerializedUefiGolden, func() error { return gcetcbendorsement.InspectPayload(ctx, e) }
			case "Signature":
				want, call = e.Signature, func() error { return gcetcbendorsement.InspectSignature(ctx, e) }
			default:
				steps := gp[r.IntN(len(gp))]
				text, _ := pathref.Render(r, "", steps)
				want = pathref.Walk(dec, steps).Last().Bytes()
				call = func() error { return gcetcbendorsement.InspectMask(ctx, e, &fmpb.FieldMask{Paths: []string{text}}) }
			}
			var err error
			sgen := fmt.Sprintf("%s/step%d=%s,terminal=%v", gen, j, op, terms[j])
			gd := k.guard(i, "Inspect"+op, sgen, len(want), func() { err = call() })
			if gd.Panicked {
				continue
			}
			if err != nil {
				c.Oracle(i, "Inspect"+op, "rendering-failed", sgen, "step %d of a sequence on one *Inspect: writing %d bytes to an in-memory writer failed: %s", j, len(want), errText(err))
				continue
			}
			k.checkBytes(i, "Inspect"+op, sgen, formOf(bf, terms[j]), want, w.buf.Bytes())
			if bf == gcetcbendorsement.BytesAuto && !terms[j] && sawTerminal {
				k.reusedSwitch++
			}
			sawTerminal = sawTerminal || terms[j]
		}
		if insp.Form != bf {
			c.Violate(core.Violation{Kind: "oracle", Entry: "Inspect (reused options)", Site: "callers-inspect-options-modified", Gen: gen, Case: i,
				Detail: fmt.Sprintf("the caller's Inspect.Form was %d (%s) before a sequence of %d Inspect* calls and is %d after it", bf, formOf(bf, false).cli, n, insp.Form)})
		}
	} else {
		opts := &gcetcbendorsement.MaskOptions{BytesForm: bf}
		for j := 0; j < n; j++ {
			w := &recWriter{term: terms[j]}
			opts.Writer = w
			var msg protoreflect.Message
			var paths [][]pathref.Step
			if len(tp) > 0 && (len(gp) == 0 || r.IntN(2) == 0) {
				msg, paths = tm, tp
			} else if len(gp) > 0 {
				msg, paths = dec, gp
			} else {
				continue
			}
			steps := paths[r.IntN(len(paths))]
			text, _ := pathref.Render(r, "", steps)
			wk := pathref.Walk(msg, steps)
			sgen := fmt.Sprintf("%s/step%d=Mask,terminal=%v", gen, j, terms[j])
			parses := k.parses(i, sgen, text, rootType{mt: msg.Type()})
			var err error
			gd := k.guard(i, "MaskOptions.Mask", sgen, len(text), func() { err = opts.Mask(msg.Interface(), &fmpb.FieldMask{Paths: []string{text}}) })
			if gd.Panicked {
				continue
			}
			k.judgeMask(i, "MaskOptions.Mask", sgen, text, parses, msg, wk, formOf(bf, terms[j]), w.buf.Bytes(), err)
			if err == nil && bf == gcetcbendorsement.BytesAuto && !terms[j] && sawTerminal {
				k.reusedSwitch++
			}
			sawTerminal = sawTerminal || terms[j]
		}
		if opts.BytesForm != bf {
			c.Violate(core.Violation{Kind: "oracle", Entry: "MaskOptions (reused options)", Site: "callers-inspect-options-modified", Gen: gen, Case: i,
				Detail: fmt.Sprintf("the caller's MaskOptions.BytesForm was %d before a sequence of %d Mask calls and is %d after it", bf, n, opts.BytesForm)})
		}
	}
	c.Cell("render|reused-%s|%s|steps=%d", holder, formOf(bf, false).cli, n)
	c.End(i)
}
