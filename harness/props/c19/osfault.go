package c19

import (
	"context"
	"fmt"
	"math/rand/v2"
	"os"
	"path/filepath"

	"github.com/google/gce-tcb-verifier/gcetcbendorsement"
	gcmd "github.com/google/gce-tcb-verifier/gcetcbendorsement/cmd"
	epb "github.com/google/gce-tcb-verifier/proto/endorsement"
	"google.golang.org/protobuf/proto"
	"google.golang.org/protobuf/reflect/protoreflect"
	fmpb "google.golang.org/protobuf/types/known/fieldmaskpb"

	"verifharness/core"
	"verifharness/props/c19/pathref"
)

// The os-write-fault family (case numbers after the same-file family): a destination of the real
// file backend that cannot store the rendering.
//
// The fault family refuses Write calls of an in-memory writer of the monitor, so it judges the
// renderers (WriteBytesForm, Inspect*, Mask) and the CLI's plumbing down to cmd.IO - but never the
// writer the shipped binary really uses, the one cmd.OSIO.Create hands out, and what happens
// between that writer and the operating system (buffering, a flush in the clean-up function whose
// result nobody can see, ...). Every case that went through cmd.OSIO so far wrote to a healthy
// file. Here the destination is opened by cmd.OSIO itself, by path, and is one the operating system
// lets nobody store anything in: /dev/full (every write fails with ENOSPC), named directly or
// through a symbolic link. Two callers are driven:
//
//	cli  `inspect payload|signature|mask FILE --out DEST`, in-process, backend IO = cmd.OSIO
//	api  w, cleanup, _ := cmd.OSIO{}.Create(DEST); Inspect{Payload,Signature,Mask} with Writer: w; cleanup()
//
// Each step first makes the rendering onto a regular file in a private temporary directory (judged
// like every other rendering; this also tells how many bytes an exact rendering has), then repeats
// the very same call with DEST = the destination that stores nothing.
//
// Oracle (one-directional): a call that returns nil claims a complete rendering (see the write-fault
// assumption). The monitor has probed the destination itself (a one-byte write is refused, nothing
// is accepted), so when the exact rendering has at least one byte and the call on that destination
// nevertheless reports success, no byte of the rendering exists anywhere while the caller was told
// it does: rule unstored-rendering-reported-as-success. A call that reports an error - from opening
// the destination or from writing - is what the property allows and is only counted. Renderings of
// zero bytes (empty fields) need no write and are not judged. Which error is reported, and what a
// failed call leaves behind, is not judged.
//
// Not covered here (no load-independent, process-local way to produce it by path): a destination
// that accepts a part of the rendering and then fails (a file system filling up half way, a file
// size limit).

const devFull = "/dev/full"

var osFaultDests = []string{"dev-full", "symlink-to-dev-full"}
var osFaultCallers = []string{"cli", "api"}

// storesNothing probes a path the way a careful operator would: open it for writing and try to
// store one byte. It reports true only when the open succeeds and the write is refused outright.
func storesNothing(path string) bool {
	f, err := os.OpenFile(path, os.O_WRONLY, 0)
	if err != nil {
		return false
	}
	defer f.Close()
	n, werr := f.Write([]byte{'x'})
	return n == 0 && werr != nil
}

// osAPIRender is what a program using the library with the CLI's file backend does: take the
// writer cmd.OSIO.Create hands out, render onto it, run the clean-up function.
func osAPIRender(dest string, q sameFileReq, e *epb.VMLaunchEndorsement) (createErr, err error) {
	w, cleanup, cerr := gcmd.OSIO{}.Create(dest)
	if cerr != nil {
		return cerr, nil
	}
	defer cleanup()
	ctx := gcetcbendorsement.WithInspect(context.Background(), &gcetcbendorsement.Inspect{Writer: w, Form: q.f.form})
	switch q.sub {
	case "payload":
		return nil, gcetcbendorsement.InspectPayload(ctx, e)
	case "signature":
		return nil, gcetcbendorsement.InspectSignature(ctx, e)
	}
	return nil, gcetcbendorsement.InspectMask(ctx, e, &fmpb.FieldMask{Paths: []string{q.path}})
}

func (k *checker) osWriteFault(i int, r *rand.Rand) {
	c := k.c
	type step struct {
		caller, dest string
		style        int
		e            *epb.VMLaunchEndorsement
		wire         []byte
		dec          protoreflect.Message
		q            sameFileReq
	}
	// everything random is drawn before the file system is touched
	n := 1 + r.IntN(3)
	seq := make([]*step, n)
	for j := range seq {
		s := &step{caller: osFaultCallers[r.IntN(len(osFaultCallers))], dest: osFaultDests[r.IntN(len(osFaultDests))], style: r.IntN(4)}
		var gp [][]pathref.Step
		if r.IntN(2) == 0 {
			if w := k.goldenWorld(r, false, false); w != nil {
				s.e, s.wire, s.dec = w.e, w.wire, w.dec
				bytesPaths(w.dec, nil, &gp, 0)
			}
		}
		if s.e == nil {
			s.e = &epb.VMLaunchEndorsement{SerializedUefiGolden: rawBytes(r), Signature: rawBytes(r)}
			s.wire, _ = proto.Marshal(s.e)
		}
		s.q = k.drawReq(r, gp)
		seq[j] = s
	}
	gen := fmt.Sprintf("os-write-fault/steps=%d", n)
	c.Begin(i, gen, "inspect payload|signature|mask onto a cmd.OSIO destination that stores nothing", seq[0].wire)
	dir, err := os.MkdirTemp("", "verif-c19f-")
	if err != nil {
		c.Count("os-write-fault/environment-unavailable", 1)
		c.Note("os-write-fault: could not prepare a temporary directory: %v", err)
		c.End(i)
		return
	}
	defer os.RemoveAll(dir)
	for j, s := range seq {
		q := s.q
		entry := "cli inspect " + q.sub + " (os write fault)"
		if s.caller == "api" {
			entry = "Inspect" + map[string]string{"payload": "Payload", "signature": "Signature", "mask": "Mask"}[q.sub] + " on the writer of cmd.OSIO.Create (os write fault)"
		}
		in := filepath.Join(dir, fmt.Sprintf("endorsement%d.binarypb", j))
		sound := filepath.Join(dir, fmt.Sprintf("sound%d", j))
		faulty := devFull
		setup := os.WriteFile(in, s.wire, 0o644)
		if setup == nil && s.dest == "symlink-to-dev-full" {
			faulty = filepath.Join(dir, fmt.Sprintf("full%d", j))
			setup = os.Symlink(devFull, faulty)
		}
		if setup != nil || !storesNothing(faulty) {
			c.Count("os-write-fault/environment-unavailable/"+s.dest, 1)
			if k.osFaultNoted++; k.osFaultNoted <= 1 {
				c.Note("os-write-fault: no destination that refuses every write could be prepared (%s; set-up error: %v)", s.dest, setup)
			}
			continue
		}
		sgen := fmt.Sprintf("%s/step%d=%s,%s,%s,%s,out-style=%d", gen, j, s.caller, s.dest, q.sub, q.f.cli, s.style)
		// call runs the step's request with the given destination; createErr is the refusal to open it (api only)
		call := func(dest, label string) (createErr, rerr error, panicked bool) {
			g := k.guard(i, entry, sgen+"/"+label, len(s.wire), func() {
				if s.caller == "api" {
					createErr, rerr = osAPIRender(dest, q, s.e)
				} else {
					rerr = runOSCLI(inspectArgs(q, in, dest, s.style, q.f.cli)...)
				}
			})
			return createErr, rerr, g.Panicked
		}

		// 1. the rendering onto a regular file: judged like every other one; its length is what must be stored
		cerr, rerr, panicked := call(sound, "regular file")
		if panicked {
			break
		}
		if cerr != nil {
			c.Oracle(i, entry, "rendering-failed", sgen, "form %s: cmd.OSIO.Create of a fresh file in a writable directory failed: %s", q.f.name, errText(cerr))
			break
		}
		got, readErr := os.ReadFile(sound)
		var want []byte
		exact := false
		if q.sub == "mask" {
			w := pathref.Walk(s.dec, q.steps)
			want = w.Last().Bytes()
			parses := k.parses(i, sgen, q.path, rtGolden)
			if rerr != nil && !parses {
				c.Count("os-write-fault/mask-path-parse-rejected(not judged)", 1)
				continue
			}
			if rerr == nil && readErr != nil {
				c.Oracle(i, entry, "rendering-failed", sgen, "form %s: the call succeeded but its destination cannot be read: %s", q.f.name, errText(readErr))
				break
			}
			exact = k.judgeMask(i, entry, sgen+"/regular file", q.path, parses, s.dec, w, q.f, got, rerr) && rerr == nil
		} else {
			want = s.e.SerializedUefiGolden
			if q.sub == "signature" {
				want = s.e.Signature
			}
			if rerr != nil {
				c.Oracle(i, entry, "rendering-failed", sgen, "form %s: the call failed on a well-formed endorsement and a writable destination: %s", q.f.name, errText(rerr))
				break
			}
			if readErr != nil {
				c.Oracle(i, entry, "rendering-failed", sgen, "form %s: the call succeeded but its destination cannot be read: %s", q.f.name, errText(readErr))
				break
			}
			exact = k.checkBytes(i, entry, sgen+"/regular file", q.f, want, got)
		}
		if !exact {
			continue // reported above; the second half would tell nothing more
		}
		if len(got) == 0 {
			c.Count("os-write-fault/empty-rendering(nothing to store, not judged)", 1)
			c.Cell("os-write-fault|%s|%s|%s|%s|nothing-to-store", s.caller, s.dest, q.sub, q.f.name)
			continue
		}

		// 2. the very same call onto the destination that stores nothing
		size := "fits-4KiB"
		if len(got) > 4096 {
			size = "over-4KiB"
		}
		if len(got) > 65536 {
			size = "over-64KiB"
		}
		cerr, rerr, panicked = call(faulty, "destination that refuses every write")
		if panicked {
			break
		}
		outcome := "write-failure-reported"
		switch {
		case cerr != nil:
			outcome = "open-refused"
			c.Count("os-write-fault/"+s.caller+"/destination-refused-at-open(not judged)", 1)
		case rerr != nil:
			k.osFaultReported[s.caller]++
			k.osFaultReported[s.dest]++
			k.osFaultReported[size]++
		default:
			outcome = "SUCCESS-REPORTED"
			c.Violate(core.Violation{Kind: "oracle", Entry: entry, Site: "unstored-rendering-reported-as-success", Gen: sgen, Case: i,
				Detail: fmt.Sprintf("form %s: the exact rendering has %d bytes (%d field bytes; the same call onto a regular file produced them), the destination %s refuses every write "+
					"(probed by the monitor: a one-byte write is refused), yet the call reported success: not one byte of the rendering is stored anywhere and the caller cannot know", q.f.name, len(got), len(want), faulty),
				Witness: map[string]any{"caller": s.caller, "destination": faulty, "subcommand": q.sub, "form": q.f.name, "path": q.path, "field_len": len(want), "rendering_len": len(got)}})
		}
		c.Count("os-write-fault/"+s.caller+"/"+s.dest+"/"+outcome, 1)
		c.Cell("os-write-fault|%s|%s|%s|%s|%s|%s", s.caller, s.dest, q.sub, q.f.name, size, outcome)
		k.osFaultSteps++
	}
	c.End(i)
}
