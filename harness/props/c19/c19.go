// Package c19: field-path inspection returns exactly the addressed value; renderings are exact.
//
// Monitor = differential against an independent reference model (props/c19/pathref): structured
// paths are walked field by field over concrete messages by protoreflect code that shares nothing
// with the repository's parser / evaluator; the same path, spelled as text in one of the many
// spellings the grammar allows, goes through parsepath.ParsePath + parsepath.PathValues (and the
// Mask / Inspect* / CLI layers on top of them).
package c19

import (
	"encoding/base64"
	"fmt"
	"math/rand/v2"
	"runtime"
	"sort"
	"strconv"
	"strings"
	"syscall"
	"time"

	"github.com/google/gce-tcb-verifier/gcetcbendorsement/parsepath"
	"github.com/google/gce-tcb-verifier/gcetcbendorsement/parsepath/testmessage"
	epb "github.com/google/gce-tcb-verifier/proto/endorsement"
	"google.golang.org/protobuf/encoding/prototext"
	"google.golang.org/protobuf/proto"
	"google.golang.org/protobuf/reflect/protopath"
	"google.golang.org/protobuf/reflect/protoreflect"

	"verifharness/core"
	"verifharness/props/c19/pathref"
)

func init() {
	core.Register(&core.Info{
		ID: "C19", Level: "exploration",
		Rule: "case = one path text evaluated on 2-4 messages of its root type, or one byte rendering. Families: " +
			"bool-key-spelling: a Boolean-keyed map indexed with each of the twelve spellings strconv.ParseBool knows (36 texts); only true / false are keys, an accepted other identifier is a violation; " +
			"(grammar) a structured path drawn by walking a random message (descriptor-driven: testprotopath.Test with all six map key kinds, Test.Nested, VMGoldenMeasurement, VMLaunchEndorsement; nesting <= 5, up to 8 field steps; indices of present and of missing elements) " +
			"and spelled at random (implicit/explicit root, decimal/hex/octal and negative integers, both quote styles, simple, 1-3 digit octal incl. leading zeros, 1-2 digit \\x/\\X in either case, \\u, \\U escapes, escapes followed by literal digits, raw UTF-8; string-keyed maps hold keys together with what a short-cutting scanner would read instead), evaluated on the message it was drawn from, a fresh random message, the empty message and a copy with the addressed element deleted; " +
			"(neighbour) the same with one type-breaking edit of the structure (index dropped/added, literal of the wrong kind or out of the key range, map-entry field, unknown/foreign field, negative/huge index); " +
			"(soup) token soups, random bytes, mutated valid texts and long inputs - whatever parses is evaluated and compared with a typed walk of the returned protopath; " +
			"(render) InspectPayload/InspectSignature/InspectMask, MaskOptions.Mask and the CLI 'inspect payload|signature|mask' (in-process, in-memory IO) for bin/hex/base64/auto(terminal and not) over byte strings of boundary lengths, plus sequences of 3-6 such calls on ONE *Inspect (in one context) or *MaskOptions whose writer the caller swaps between terminal and non-terminal (every step judged like a single call; the options' Form must be unchanged afterwards); " +
			"(held, case numbers after the original ones) 2-6 paths (same root type, now and then the same text twice or a path of another root type in between) are ALL parsed first - one after the other, or by goroutines started together - and only then evaluated (forwards, backwards, or everything held so far after every further parse), each on the message it was drawn from, another random one and the empty one, judged by the walk of its own structured path; " +
			"(os-files, likewise) sequences of 2-6 'inspect payload|signature|mask FILE --out=DEST --bytesform=bin|hex|base64|auto' runs through the CLI's real file backend cmd.OSIO in a private temporary directory, over 2-3 endorsement files and 1-2 destinations that are reused between the steps and are absent / empty / hold left-over bytes before the first; after every step DEST is read back with os.ReadFile and judged like every other rendering; " +
			"(audit families, likewise after all earlier case numbers; audit.go) (several) ONE mask call with 2-5 paths - InspectMask, MaskOptions.Mask, CLI with --path repeated / comma separated / both / as a separate argument, sometimes with --bytesform and --out left at their defaults - over present bytes fields, unset (empty) bytes fields, the same path twice, other values and absent elements at every position, the golden measurement / the endorsement file now and then in a non-canonical but equivalent protobuf encoding (reversed field order, superseded earlier duplicate, repeated field, non-minimal varints, unknown fields; expectations are what protobuf decodes from those bytes); " +
			"(fault) a rendering is first made on a sound writer (counting its Write calls), then repeated with one Write call refused (first / last / any; once or from then on; accepting nothing or half), then repeated on the same options value with a sound writer; " +
			"(mixed) 4-8 calls of all entry points - well-typed paths, texts that break off in the scanner or parser, renderings, masks of absent elements - run one after the other, by goroutines started together, or (3-6 renderings of one form) in lockstep, where every goroutine is held inside its first Write until all of them are there; everything is judged after the goroutines have ended, each call by its own reference; " +
			"(wire) CLI payload / signature / mask over non-canonical endorsement files, flags at their defaults now and then; " +
			"(kinds) 1-3 CLI payload / signature runs through cmd.OSIO with the endorsement behind a symbolic link, a FIFO fed by a goroutine, or a link to one, and the destination fresh, a longer file, a link to a longer file or a dangling link; " +
			"(same-file, samefile.go, after all earlier case numbers) 1-3 steps, each over a fresh endorsement file: ONE 'inspect payload|signature|mask FILE --out DEST' (--out before or after FILE, '--out=DEST' or '--out DEST') whose DEST is FILE itself - the same path, another spelling of it, FILE a symbolic link to DEST or DEST one to FILE (absolute or relative targets), a hard link, two links to one file, the same file through a linked directory - or, as a control, an unrelated file of the same base name; through cmd.OSIO in a private temporary directory or through a POSIX-like in-memory cmd.IO (Create truncates at once, two names may share one file); DEST is read back and judged like every other rendering against the endorsement FILE held when the command was started; or a good rendering, a FAILING run (FILE missing / not an endorsement / a directory, unknown --bytesform, unparsable mask path) and another good rendering, all onto one destination, only the good ones judged; " +
			"(os-write-fault, osfault.go, after all earlier case numbers) 1-3 steps, each over a fresh endorsement file: the rendering is first made onto a regular file (judged like every other rendering), then the very same call is repeated onto a destination that cmd.OSIO opens by path and that stores nothing (/dev/full, directly or through a symbolic link; probed by the monitor with a one-byte write); callers: the CLI with backend cmd.OSIO, and Inspect{Payload,Signature,Mask} on the writer cmd.OSIO.Create hands out followed by its clean-up function; a call that reports success for a rendering of at least one byte is a violation, a reported error (open or write) is counted. " +
			"Oracle: the reference walk (pathref.Walk) says present(value)/absent/unwalkable; a parse error is always allowed (counted); after a successful parse the evaluation must return exactly the walked value (every intermediate value too) when present and an error otherwise; no panic, no call that fails to return (200 s CPU backstop), allocation <= 64 MiB + 4 KiB/byte per call; " +
			"bin output equals the field bytes, hex/base64 output decodes (encoding/hex, RFC 4648 standard alphabet) to exactly the field bytes. " +
			"non-trivial = a path that parsed and was evaluated (or a rendering that was produced); distinct = (family, root type, step-kind shape with map key kinds, kind of the addressed value, expected status, outcome) and (entry, form, length class) cells; held: (mode, root, number of paths) plus the evaluation cells; os-files: (subcommand, form, length of the exact rendering relative to what the destination held); several: (entry, encoding, number of paths, position of the first empty field, position of the first absent element, outcome) and (path flag style, destination, defaults); fault: (entry, encoding, which write, short, persistent, outcome); mixed: (mode, calls, failing calls) plus evaluation / rendering cells; wire: (subcommand, encoding, operator); kinds: (subcommand, form, input kind, destination kind); same-file: (backend, relation of DEST to FILE, subcommand, form, length class of the field) and (--out spelling, subcommand); after-failed-run: (backend, kind of failure, what the failed run left in the destination - evidence only); os-write-fault: (caller, destination, subcommand, form, size class of the rendering relative to 4 KiB / 64 KiB, outcome)",
		Assumptions: []string{
			"a parse error is never judged (C19: 'parsing either fails with an error or ...'); floors require that every spelling feature and every map key kind was seen to parse and evaluate to the walked value, so a parser that rejects a whole class makes the run inconclusive instead of passing",
			"an unset singular message field is not absent (protobuf reflection reads it as the empty message); only missing list indices and map keys are absent",
			"string escapes follow the grammar scan.go documents and its tests pin down: octal = 1 to 3 digits, as many as are there; \\x/\\X = 1 or 2 hex digits, as many as are there; every numeric escape composes one rune (so \\377 is U+00FF; generated up to 0xff only); each generated literal is first read back by an independent unescaper (pathref.Unescape) and replaced by a plain \\U spelling if that disagrees (counted as GENERATOR-FALLBACK, expected 0)",
			"hex output is accepted in either case, base64 must use the standard alphabet with padding (README: 'encoded as hex or base64'); BytesHexGuidify is not reachable from --bytesform and is not judged",
			"C19 states no time bound: CPU time per call is evidence (maxima), only a 200 s backstop decides (non-termination); allocation is bounded per call as in C07; the worker runs under ulimit -v 6 GiB so that runaway allocation ends the child, not the host",
			"a parsed path is a value the caller may hold: C19's 'evaluated on any message of the root type' is judged whenever the caller evaluates it, also after further ParsePath calls (sequential or concurrent); only evaluation results are judged, never the identity or printed form of the held path",
			"what 'inspect ... --out=DEST' leaves in DEST is the rendering an external tool re-verifies (cmd.IO.Create: 'creates or opens and truncates'): with the real file backend the file content after a successful run must be exactly the rendering, whatever DEST held before; file modes, timestamps and the like are not judged; if the monitor cannot set up its temporary directory the case is counted as environment-unavailable and a floor requires that sequences ran",
			"a mask with several paths prints them 'on separate lines' (help text of --path; the repository's own test pins 'A\\nB'): the output must be the renderings in path order joined by single newlines - compared as a whole for raw output (the fields may hold newlines themselves), line by line for hex / base64; an empty bytes field is an empty line; one absent or unwalkable element anywhere makes the call fail (C19: 'or an error when the addressed element is absent'), whatever was printed before it; outputs with a present non-bytes value in them are not compared",
			"C19's renderings exist 'so external tools can re-verify them': a call that returns nil claims a complete rendering, so whatever a writer ACCEPTED during a call that reported success must be an exact rendering; a call that reports the writer's refusal is never judged. One case of this fires on the unchanged tree (F35 candidate: the final base64 group is written by enc.Close(), whose error writeBase64 drops) and is counted, not judged, while judgeBase64FinalGroupWriteFault is false",
			"results do not depend on what else the process does: calls made after failed calls, and calls running at the same time as others (every call on its own options value, writer and receiver; messages are only read), are judged exactly like single calls; the lockstep writer only delays the return of Write, it changes no data",
			"an endorsement file / golden measurement in a non-canonical encoding IS the message protobuf decodes from it (the monitor decodes the same bytes with google.golang.org/protobuf, a dependency, not the code under test); 'inspect payload' must print the payload bytes as they are in the file, not a re-encoding",
			"the CLI reads FILE and writes --out through the operating system's notion of a path: a symbolic link or a FIFO in place of the endorsement, and a symbolic link in place of the destination, are followed; FIFOs are fed by a goroutine of the monitor with less than a pipe buffer of data, the monitor never waits on time",
			"'inspect CMD FILE --out DEST' renders the endorsement FILE holds when the command is started; FILE and DEST are two arguments nothing forbids to name one file (in-place replacement, a link, another spelling), so when such a command reports success DEST must hold the exact rendering (C19: 'the raw renderings ... are the exact field bytes, so external tools can re-verify them'). A command that refuses the combination with an error renders nothing and is not judged (counted; floors require exact renderings for every relation). What a FAILED command leaves in its destination is outside C19 (the unchanged tree empties it whenever the failure comes after the destination was opened): recorded as evidence, never judged; the good runs before and after it are judged like single runs",
			"the write-fault assumption holds for the writer the shipped binary uses as well: cmd.OSIO.Create returns a writer and a clean-up function without a result, so the error results of the Inspect* call / of the command are the only way a caller learns that the rendering was not stored; when the operating system refuses every write of the destination (the monitor probes this itself before the call) and the exact rendering has at least one byte, a call that reports success is judged (unstored-rendering-reported-as-success); which error is reported, whether it comes from opening or from writing, and renderings of zero bytes are not judged; errors of Close (which the unchanged tree drops) are not provoked; a host without a usable /dev/full makes the run inconclusive (floor), not passing",
			"CLI paths contain no comma or quote (cobra's --path is a CSV string slice); the CLI is driven in-process through the verif backend hook with in-memory IO",
		},
		ShardsQuick: 8, ShardsThor: 16, TimeoutS: 1500, TimeoutThor: 3600, UlimitVKB: 6 << 20, Run: run,
	})
}

const (
	entParse = "parsepath.ParsePath"
	entEval  = "parsepath.PathValues"
)

// root types the paths are drawn over
type rootType struct {
	name string
	mt   protoreflect.MessageType
}

var (
	rtTest   = rootType{"Test", (&testmessage.Test{}).ProtoReflect().Type()}
	rtNested = rootType{"Test.Nested", (&testmessage.Test_Nested{}).ProtoReflect().Type()}
	rtGolden = rootType{"VMGoldenMeasurement", (&epb.VMGoldenMeasurement{}).ProtoReflect().Type()}
	rtEndors = rootType{"VMLaunchEndorsement", (&epb.VMLaunchEndorsement{}).ProtoReflect().Type()}
)

type checker struct {
	c *core.Ctx
	// floor observations
	okKeyKind    map[string]bool
	okSpelling   map[string]bool
	okRoot       map[string]bool
	absentErr    int
	mapThenF     int
	soupParsed   int
	soupReject   int
	renderOK     map[string]bool
	cliOK        int
	neighbourEv  int
	notedRejects int
	reusedSwitch int
	heldOK       map[string]int
	osSteps      int
	osOverLonger int
	// audit families (audit.go)
	sevExact             map[string]int
	sevStyle             map[string]int
	sevEmptyBeforeLater  int
	sevLateAbsent        int
	sevDefaultForm       int
	sevDefaultOut        int
	wireOK               map[string]int
	faultReported        map[string]int
	faultLastReported    int
	faultThenExact       int
	mixedGoodAfterFailed map[string]int
	lockstepExact        map[string]int
	mixedSpecial         map[string]int
	kindsOK              map[string]int
	// same-file family (samefile.go)
	sameFileExact    map[string]int
	sameFileNonEmpty int
	afterFailedExact map[string]int
	// os-write-fault family (osfault.go)
	osFaultReported map[string]int
	osFaultSteps    int
	osFaultNoted    int
}

func threadUserCPU() time.Duration {
	var ru syscall.Rusage
	const rusageThread = 1
	if err := syscall.Getrusage(rusageThread, &ru); err != nil {
		return 0
	}
	return time.Duration(ru.Utime.Nano())
}

// guard is core.Guard for panics, allocated bytes and non-termination. C19 itself states no time
// bound, and CPU time turned out not to be a load-independent unit on this kind of host: with
// unrelated processes exhausting the VM's memory, getrusage charged 30-40 s of "CPU" to
// sub-millisecond calls. So CPU time is recorded as evidence (user-mode thread time per entry
// point) and only a 200 s backstop decides: it exists to end and report a call that never returns.
func (k *checker) guard(i int, entry, gen string, inputLen int, f func()) core.Measured {
	runtime.LockOSThread()
	defer runtime.UnlockOSThread()
	u0 := threadUserCPU()
	m := k.c.Guard(i, entry, gen, core.Budget{CPU: 200 * time.Second, Alloc: 64<<20 + 4096*uint64(inputLen)}, f)
	k.c.Max("user_cpu_us/"+entry, int64((threadUserCPU()-u0)/time.Microsecond))
	return m
}

func showMsg(m protoreflect.Message) string {
	s := prototext.MarshalOptions{Multiline: false}.Format(m.Interface())
	if len(s) > 1500 {
		s = s[:1500] + "…"
	}
	return s
}

func wireB64(m protoreflect.Message) string {
	b, err := proto.MarshalOptions{Deterministic: true}.Marshal(m.Interface())
	if err != nil {
		return "marshal: " + err.Error()
	}
	if len(b) > 6000 {
		return base64.StdEncoding.EncodeToString(b[:6000]) + "…(truncated)"
	}
	return base64.StdEncoding.EncodeToString(b)
}

// judge compares one evaluation result with the reference walk. got is nil when err != nil.
// Returns the outcome class.
func (k *checker) judge(i int, entry, gen, text, msgName string, msg protoreflect.Message, exp pathref.Walked, got []protoreflect.Value, err error) string {
	viol := func(rule, format string, a ...any) {
		k.c.Violate(core.Violation{Kind: "oracle", Entry: entry, Site: rule, Gen: gen, Case: i,
			Detail: fmt.Sprintf("path %q on message %s: ", text, msgName) + fmt.Sprintf(format, a...),
			Witness: map[string]any{"path": text, "message_name": msgName, "message_type": string(msg.Descriptor().FullName()),
				"message_text": showMsg(msg), "message_wire_b64": wireB64(msg), "reference": exp.Status.String(), "reference_why": exp.Why}})
	}
	if err != nil {
		if exp.Status == pathref.Present {
			viol("error-on-present-element", "every step addresses an existing element (walked value: %s) but evaluation failed: %s", pathref.Show(exp.Last()), errText(err))
			return "ERROR-ON-PRESENT"
		}
		return exp.Status.String() + "-error"
	}
	switch exp.Status {
	case pathref.Absent:
		viol("value-for-absent-element", "the path addresses a missing element (%s) but evaluation returned %s", exp.Why, showLast(got))
		return "VALUE-FOR-ABSENT"
	case pathref.IllTyped:
		viol("value-for-unwalkable-path", "the path cannot be walked (%s) but evaluation returned %s", exp.Why, showLast(got))
		return "VALUE-FOR-UNWALKABLE"
	}
	if len(got) == 0 || !pathref.Equal(got[len(got)-1], exp.Last()) {
		viol("value-mismatch", "walked value %s, evaluation returned %s", pathref.Show(exp.Last()), showLast(got))
		return "MISMATCH"
	}
	if len(got) == len(exp.Values) {
		for j := range got {
			if !pathref.Equal(got[j], exp.Values[j]) {
				viol("value-mismatch", "value after step %d: walked %s, evaluation returned %s", j, pathref.Show(exp.Values[j]), pathref.Show(got[j]))
				return "MISMATCH"
			}
		}
	}
	return "value-equal"
}

func showLast(v []protoreflect.Value) string {
	if len(v) == 0 {
		return "<no values>"
	}
	return pathref.Show(v[len(v)-1])
}

type namedMsg struct {
	name string
	m    protoreflect.Message
}

// evalText runs ParsePath once and PathValues on every message, judging each against ref(msg).
// Returns whether the text parsed.
func (k *checker) evalText(i int, family, gen, text string, rt rootType, msgs []namedMsg, ref func(protoreflect.Message, protopath.Path) pathref.Walked, onOK func(msgName string, exp pathref.Walked)) bool {
	c := k.c
	var pp protopath.Path
	var perr error
	m := k.guard(i, entParse, gen, len(text), func() { pp, perr = parsepath.ParsePath(rt.mt.Descriptor(), text) })
	if m.Panicked {
		return false
	}
	if perr != nil {
		st := "n/a"
		if ref != nil && len(msgs) > 0 && family != "soup" {
			st = ref(msgs[0].m, nil).Status.String()
		}
		c.Count("parse-rejected/"+family+"/expected-"+st, 1)
		if st == "present" {
			// never a verdict (a parse error is allowed) but worth a look: kept as samples
			c.Count("parse-rejected-present-paths", 1)
			if k.notedRejects++; k.notedRejects <= 1 && len(text) < 100 {
				msg := firstLine(perr.Error())
				if j := strings.Index(msg, "parse failure: "); j >= 0 {
					msg = msg[j:]
				}
				c.Note("parse error on a path whose element is present (allowed by C19, counted), e.g. %q: %s", text, msg)
			}
		}
		return false
	}
	k.evalParsed(i, family, gen, text, rt, pp, msgs, ref, onOK)
	return true
}

// evalParsed runs PathValues with an already parsed path on every message and judges each result
// against ref(msg). It is what evalText does after a successful parse; the held-path family calls
// it on its own, after other ParsePath calls have been made.
func (k *checker) evalParsed(i int, family, gen, text string, rt rootType, pp protopath.Path, msgs []namedMsg, ref func(protoreflect.Message, protopath.Path) pathref.Walked, onOK func(msgName string, exp pathref.Walked)) {
	c := k.c
	for _, nm := range msgs {
		exp := ref(nm.m, pp)
		var vs protopath.Values
		var err error
		g := k.guard(i, entEval, gen, len(text), func() { vs, err = parsepath.PathValues(pp, nm.m.Interface()) })
		if g.Panicked {
			c.Count("eval-panic/"+family, 1)
			c.Cell("%s|%s|%s|%s|%s|PANIC", family, rt.name, cut(exp.Shape), exp.Final, exp.Status)
			continue
		}
		if out := k.judgeEvalResult(i, family, gen, text, rt, nm, exp, vs, err); out == "value-equal" && onOK != nil {
			onOK(nm.name, exp)
		}
	}
}

// judgeEvalResult judges what one PathValues call returned against the reference walk exp of the
// same message, counts it and records its cell. Returns the outcome class.
func (k *checker) judgeEvalResult(i int, family, gen, text string, rt rootType, nm namedMsg, exp pathref.Walked, vs protopath.Values, err error) string {
	c := k.c
	var got []protoreflect.Value
	if err == nil {
		got = vs.Values
	}
	out := k.judge(i, entEval, gen, text, nm.name, nm.m, exp, got, err)
	c.Count("eval/"+family+"/"+out, 1)
	c.Cell("%s|%s|%s|%s|%s|%s", family, rt.name, cut(exp.Shape), exp.Final, exp.Status, out)
	if out == "absent-error" {
		k.absentErr++
	}
	return out
}

func cut(s string) string {
	if len(s) > 60 {
		return s[:60] + "+"
	}
	return s
}

// errTail shortens an error that quotes the whole path to its informative end.
func errTail(err error) string {
	s := firstLine(err.Error())
	if j := strings.LastIndex(s, "\": "); j >= 0 && j+3 < len(s) {
		s = s[j+3:]
	}
	return printable(s)
}

// errText is the first line of an error with everything unprintable escaped: the repository's
// errors quote map keys and path texts as they are, control bytes included, and a verdict line
// holding a NUL byte is taken for binary data by the tools that read the check's output.
func errText(err error) string { return printable(firstLine(err.Error())) }

func printable(s string) string {
	q := strconv.QuoteToGraphic(s)
	return q[1 : len(q)-1]
}

func firstLine(s string) string {
	if j := strings.IndexByte(s, '\n'); j >= 0 {
		s = s[:j]
	}
	if len(s) > 300 {
		s = "…" + s[len(s)-300:]
	}
	return s
}

// removeAddressed deletes, in a clone of m, the element the last index step of a present path
// addresses (truncating the list just before it / clearing the map key).
func removeAddressed(m protoreflect.Message, steps []pathref.Step) (protoreflect.Message, bool) {
	last := -1
	for j, s := range steps {
		if s.Index {
			last = j
		}
	}
	if last < 0 {
		return nil, false
	}
	cl := proto.Clone(m.Interface()).ProtoReflect()
	w := pathref.Walk(cl, steps[:last+1])
	if w.Status != pathref.Present {
		return nil, false
	}
	cont := w.Values[last] // value after step last-1 = the container
	switch x := cont.Interface().(type) {
	case protoreflect.List:
		x.Truncate(int(steps[last].Lit.Mag))
	case protoreflect.Map:
		// find the key by value: the literal converts per key kind
		var del []protoreflect.MapKey
		x.Range(func(key protoreflect.MapKey, v protoreflect.Value) bool {
			if litIsKey(steps[last].Lit, key) {
				del = append(del, key)
			}
			return true
		})
		for _, d := range del {
			x.Clear(d)
		}
		if len(del) == 0 {
			return nil, false
		}
	default:
		return nil, false
	}
	return cl, true
}

func litIsKey(l pathref.Lit, k protoreflect.MapKey) bool {
	switch v := k.Interface().(type) {
	case string:
		return l.Kind == pathref.LStr && l.S == v
	case bool:
		return l.Kind == pathref.LBool && l.B == v
	case int32:
		return l.Kind == pathref.LInt && (pathref.IntLit(int64(v)) == l || (v == 0 && l.Mag == 0))
	case int64:
		return l.Kind == pathref.LInt && (pathref.IntLit(v) == l || (v == 0 && l.Mag == 0))
	case uint32:
		return l.Kind == pathref.LInt && !l.Neg && l.Mag == uint64(v)
	case uint64:
		return l.Kind == pathref.LInt && !l.Neg && l.Mag == v
	}
	return false
}

func spellingFeatures(sp *pathref.Spelling) []string {
	var f []string
	if sp.ExplicitRoot {
		f = append(f, "root:explicit")
	} else {
		f = append(f, "root:implicit")
	}
	for b := range sp.Bases {
		f = append(f, b)
	}
	if sp.Negative {
		f = append(f, "int:negative")
	}
	for q := range sp.Quotes {
		f = append(f, "quote:"+q)
	}
	for e := range sp.Escapes {
		f = append(f, "escape:"+e)
	}
	sort.Strings(f)
	return f
}

var wantSpellings = []string{"root:explicit", "root:implicit", "key-int:dec", "key-int:hex", "key-int:oct", "list-index:dec", "list-index:hex", "list-index:oct", "int:negative", "quote:dq", "quote:sq",
	"escape:simple", "escape:oct1", "escape:oct2", "escape:oct3", "escape:oct-leading-zero", "escape:hex1", "escape:hex2", "escape:then-literal-digit", "escape:u4", "escape:u8", "escape:raw-utf8"}
var wantKeyKinds = []string{"Mstring", "Mbool", "Mint32", "Mint64", "Muint32", "Muint64"}

// grammar: a well-typed structured path, spelled at random, on four messages.
func (k *checker) grammar(i int, r *rand.Rand, rt rootType) {
	c := k.c
	m0 := pathref.RandMessage(r, rt.mt)
	absentPct := []int{0, 0, 10, 30}[r.IntN(4)]
	steps := pathref.RandPath(r, m0, pathref.GenOpts{MaxSteps: 8, AbsentPct: absentPct})
	if r.IntN(40) == 0 {
		steps = nil // the root itself: "" or "(full.name)"
	}
	rootName := ""
	if r.IntN(3) == 0 {
		rootName = string(rt.mt.Descriptor().FullName())
	}
	text, sp := pathref.Render(r, rootName, steps)
	w0 := pathref.Walk(m0, steps)
	gen := fmt.Sprintf("grammar/%s/%s/%s", rt.name, cut(w0.Shape), w0.Status)
	c.Begin(i, gen, entParse+"+"+entEval, []byte(text))
	msgs := []namedMsg{{"drawn-from", m0}, {"other-random", pathref.RandMessage(r, rt.mt)}, {"empty", rt.mt.New()}}
	if w0.Status == pathref.Present {
		if cl, ok := removeAddressed(m0, steps); ok {
			msgs = append(msgs, namedMsg{"element-deleted", cl})
		}
	}
	mapThenF := false
	if toks := strings.Split(w0.Shape, "."); w0.Status == pathref.Present {
		for j := 1; j < len(toks); j++ {
			mapThenF = mapThenF || (toks[j] == "F" && strings.HasPrefix(toks[j-1], "M"))
		}
	}
	feats := spellingFeatures(sp)
	if len(steps) == 0 { // the empty text is not evidence that an implicit root followed by a field parses
		feats = nil
	}
	parsed := k.evalText(i, "grammar", gen, text, rt, msgs,
		func(m protoreflect.Message, _ protopath.Path) pathref.Walked { return pathref.Walk(m, steps) },
		func(msgName string, exp pathref.Walked) {
			for _, f := range feats {
				k.okSpelling[f] = true
			}
			for _, s := range strings.Split(exp.Shape, ".") {
				if strings.HasPrefix(s, "M") {
					k.okKeyKind[s] = true
				}
			}
			k.okRoot[rt.name] = true
		})
	if parsed && mapThenF {
		k.mapThenF++
		c.Count("evaluated/present-field-after-map-index", 1)
	}
	for _, f := range feats {
		c.Count("spelled/"+f, 1)
	}
	if i%997 == 0 {
		c.Sample(map[string]any{"family": "grammar", "root": rt.name, "path": text, "reference_on_drawn_from": w0.Status.String(), "shape": w0.Shape, "addressed": w0.Final})
	}
	c.End(i)
}

var foreignNames = []string{"nested", "repeats", "int32repeats", "strkeymap", "boolkeymap", "int32keymap", "int64keymap", "uint32keymap", "uint64keymap",
	"intfield", "stringfield", "bytesfield", "timestamp", "seconds", "nanos", "cl_spec", "clSpec", "commit", "cert", "digest", "ca_bundle", "sev_snp", "tdx", "svn",
	"measurements", "family_id", "image_id", "policy", "svsm_measurement", "ram_gib", "early_accept", "mrtd", "serialized_uefi_golden", "signature",
	"key", "value", "nosuch", "Nested", "Test", "intField", "_", "true", "false"}

func randLitOfOtherKind(r *rand.Rand, not pathref.LitKind) pathref.Lit {
	for {
		var l pathref.Lit
		switch r.IntN(3) {
		case 0:
			l = pathref.IntLit(int64(r.IntN(5)) - 1)
		case 1:
			l = pathref.Lit{Kind: pathref.LStr, S: []string{"", "0", "a", "true"}[r.IntN(4)]}
		default:
			l = pathref.Lit{Kind: pathref.LBool, B: r.IntN(2) == 0}
		}
		if l.Kind != not {
			return l
		}
	}
}

// neighbour: one type-breaking (or at least type-changing) edit of a well-typed path.
func (k *checker) neighbour(i int, r *rand.Rand, rt rootType) {
	c := k.c
	m0 := pathref.RandMessage(r, rt.mt)
	steps := pathref.RandPath(r, m0, pathref.GenOpts{MaxSteps: 6})
	var idx, fld []int
	for j, s := range steps {
		if s.Index {
			idx = append(idx, j)
		} else {
			fld = append(fld, j)
		}
	}
	ops := []string{"extra-index", "unknown-field", "foreign-field-appended", "field-appended"}
	if len(idx) > 0 {
		ops = append(ops, "drop-index", "drop-index", "drop-index", "wrong-literal-kind", "key-out-of-range", "negative-index", "huge-index", "map-entry-field")
	}
	// 32-bit integer keys present in the message: key +- 2^32 is not a key of the map's type
	var alias []int
	if toks := strings.Split(pathref.Walk(m0, steps).Shape, "."); len(toks) == len(steps) {
		for _, j := range idx {
			if toks[j] == "Mint32" || toks[j] == "Muint32" {
				alias = append(alias, j)
			}
		}
	}
	if len(alias) > 0 {
		ops = append(ops, "key-plus-2^32", "key-plus-2^32", "key-plus-2^32")
	}
	op := ops[r.IntN(len(ops))]
	ins := func(at int, s pathref.Step) {
		steps = append(steps[:at], append([]pathref.Step{s}, steps[at:]...)...)
	}
	switch op {
	case "drop-index":
		at := idx[r.IntN(len(idx))]
		steps = append(steps[:at:at], steps[at+1:]...)
		if r.IntN(2) == 0 { // make sure something follows the un-indexed container
			steps = append(steps[:at:at], append([]pathref.Step{pathref.F(foreignNames[r.IntN(12)])}, steps[at:]...)...)
		}
	case "extra-index":
		ins(r.IntN(len(steps)+1), pathref.I(randLitOfOtherKind(r, -1)))
	case "wrong-literal-kind":
		at := idx[r.IntN(len(idx))]
		steps[at] = pathref.I(randLitOfOtherKind(r, steps[at].Lit.Kind))
	case "key-out-of-range":
		at := idx[r.IntN(len(idx))]
		pool := []pathref.Lit{pathref.UintLit(1 << 31), pathref.UintLit(1 << 32), pathref.UintLit(1 << 63), pathref.UintLit(1<<64 - 1),
			pathref.IntLit(-1), pathref.IntLit(-(1 << 31) - 1), {Kind: pathref.LInt, Neg: true, Mag: 1<<63 + 1}, {Kind: pathref.LInt, Neg: true, Mag: 0}}
		steps[at] = pathref.I(pool[r.IntN(len(pool))])
	case "key-plus-2^32":
		at := alias[r.IntN(len(alias))]
		l := steps[at].Lit
		switch {
		case l.Neg && l.Mag > 0 && r.IntN(2) == 0:
			l = pathref.UintLit(1<<32 - l.Mag) // -k + 2^32
		case l.Neg && l.Mag > 0:
			l.Mag += 1 << 32
		default:
			l.Mag += uint64(1+r.IntN(3)) << 32
			l.Neg = false
		}
		steps[at] = pathref.I(l)
	case "negative-index":
		at := idx[r.IntN(len(idx))]
		steps[at] = pathref.I(pathref.IntLit(-1 - int64(r.IntN(3))))
	case "huge-index":
		at := idx[r.IntN(len(idx))]
		steps[at] = pathref.I(pathref.UintLit([]uint64{1<<63 - 1, 1 << 63, 1<<64 - 1, 1 << 31, 1 << 32}[r.IntN(5)]))
	case "map-entry-field":
		at := idx[r.IntN(len(idx))]
		steps[at] = pathref.F([]string{"key", "value"}[r.IntN(2)])
		if r.IntN(2) == 0 {
			steps = steps[:at+1]
		}
	case "unknown-field":
		at := fld[r.IntN(len(fld))]
		steps[at] = pathref.F(foreignNames[r.IntN(len(foreignNames))])
	case "foreign-field-appended", "field-appended":
		steps = append(steps, pathref.F(foreignNames[r.IntN(len(foreignNames))]))
	}
	rootName := ""
	if r.IntN(4) == 0 {
		rootName = string(rt.mt.Descriptor().FullName())
	}
	text, _ := pathref.Render(r, rootName, steps)
	w0 := pathref.Walk(m0, steps)
	gen := fmt.Sprintf("neighbour/%s/%s/%s", rt.name, op, w0.Status)
	c.Begin(i, gen, entParse+"+"+entEval, []byte(text))
	msgs := []namedMsg{{"drawn-from", m0}, {"other-random", pathref.RandMessage(r, rt.mt)}, {"empty", rt.mt.New()}}
	if k.evalText(i, "neighbour", gen, text, rt, msgs,
		func(m protoreflect.Message, _ protopath.Path) pathref.Walked { return pathref.Walk(m, steps) }, nil) {
		k.neighbourEv++
	}
	c.Count("neighbour-op/"+op+"/"+w0.Status.String(), 1)
	if i%499 == 0 {
		c.Sample(map[string]any{"family": "neighbour", "op": op, "root": rt.name, "path": text, "reference_on_drawn_from": w0.Status.String(), "why": w0.Why})
	}
	c.End(i)
}

var soupTokens = append([]string{"[", "]", ".", "(", ")", "[", "]", ".", "0", "1", "2", "-1", "-0", "0x10", "0X1f", "017", "00", "08", "4294967295", "4294967296", "-2147483648",
	"9223372036854775807", "9223372036854775808", "18446744073709551615", "99999999999999999999", "true", "false", `"a"`, `'b'`, `""`, `''`, `"\x41"`, `"\101"`, `"é"`, `"\U0001F512"`,
	`"\U7FFFFFFF"`, `"\UFFFFFFFF"`, `"\ud800"`, `"\xff"`, `"\777"`, `"\q"`, `"\`, `\`, `"`, `'`, "testprotopath", "endorsement", "Test", "VMGoldenMeasurement", "VMLaunchEndorsement",
	"\x00", "\xff", "\n", " ", "é", " ", "-", "--1", "0x", "0b1", "1e3", "1.5", "_", "a-b", "$"}, foreignNames...)

func mutateText(r *rand.Rand, s string) string {
	b := []byte(s)
	switch r.IntN(7) {
	case 0:
		if len(b) > 0 {
			b = b[:r.IntN(len(b))]
		}
	case 1:
		for n := 1 + r.IntN(3); n > 0 && len(b) > 0; n-- {
			b[r.IntN(len(b))] ^= 1 << uint(r.IntN(8))
		}
	case 2:
		at := r.IntN(len(b) + 1)
		b = append(b[:at:at], append([]byte{byte(r.Uint32())}, b[at:]...)...)
	case 3:
		at := r.IntN(len(b) + 1)
		t := soupTokens[r.IntN(len(soupTokens))]
		b = append(b[:at:at], append([]byte(t), b[at:]...)...)
	case 4:
		if len(b) > 1 {
			x, y := r.IntN(len(b)), r.IntN(len(b))
			if x > y {
				x, y = y, x
			}
			b = append(b[:y:y], append(append([]byte{}, b[x:y]...), b[y:]...)...)
		}
	case 5:
		if len(b) > 1 {
			x, y := r.IntN(len(b)), r.IntN(len(b))
			if x > y {
				x, y = y, x
			}
			b = append(b[:x:x], b[y:]...)
		}
	default:
		if len(b) > 0 {
			b[r.IntN(len(b))] = []byte{0, '\n', '\\', '"', '\'', '[', ']', '.', '(', ')', '-', 0xff, 0x80}[r.IntN(13)]
		}
	}
	return string(b)
}

var chainLits = []string{"0", "1", "2", "-1", "0x1", "01", "00", "true", "false", `"a"`, `'a'`, `""`, `"\x61"`, "4294967295", "4294967296", "-2147483648", "18446744073709551615", "9223372036854775808"}

var boolSpellings = []string{"true", "false", "True", "TRUE", "T", "t", "False", "FALSE", "F", "f", "1", "0"}

// chainTokens strings tokens together so that the sequence is locally plausible (name, '.', name,
// '[', literal, ']', ...) without looking at any type: names come from all message types, so
// most chains are ill-typed in some way the parser has to notice (field of a list, index of a
// message, literal of the wrong kind), and a fair share parses.
func chainTokens(r *rand.Rand, rt rootType) string {
	var sb strings.Builder
	if r.IntN(4) == 0 {
		sb.WriteString("(" + string(rt.mt.Descriptor().FullName()) + ").")
	}
	names := foreignNames[:len(foreignNames)-9]
	for n := 1 + r.IntN(6); n > 0; n-- {
		if r.IntN(12) == 0 {
			sb.WriteString(soupTokens[r.IntN(len(soupTokens))])
		}
		// bias towards the fields the root type really has, so that chains get past the first step
		if fds := rt.mt.Descriptor().Fields(); sb.Len() < 40 && r.IntN(2) == 0 {
			sb.WriteString(string(fds.Get(r.IntN(fds.Len())).Name()))
		} else {
			sb.WriteString(names[r.IntN(len(names))])
		}
		for r.IntN(5) < 2 {
			sb.WriteString("[" + chainLits[r.IntN(len(chainLits))] + "]")
		}
		if n > 1 {
			sb.WriteByte('.')
		}
	}
	return sb.String()
}

func longInput(r *rand.Rand) (string, string) {
	n := []int{1000, 5000, 20000}[r.IntN(3)]
	unit := []string{"[", "]", ".", "(", "a.", "nested.", "nested.nested.", "repeats[0].", `"\`, `["\x41`, "0", "-", "\\", "((", "é", "\xff", "repeats[0]", "[0]", "strkeymap[\"a\"].nested.", "'"}[r.IntN(20)]
	s := strings.Repeat(unit, n)
	switch r.IntN(3) {
	case 0:
		s = strings.TrimSuffix(s, ".")
	case 1:
		s = "nested." + s
	}
	return s, "long"
}

// soup: texts with no structure behind them. Whatever parses is evaluated and compared with the
// typed walk of the protopath the parser returned.
func (k *checker) soup(i int, r *rand.Rand, rt rootType) {
	c := k.c
	var text, kind string
	switch r.IntN(12) {
	case 0, 1:
		var sb strings.Builder
		for n := 1 + r.IntN(9); n > 0; n-- {
			sb.WriteString(soupTokens[r.IntN(len(soupTokens))])
		}
		text, kind = sb.String(), "tokens"
	case 2, 3, 4, 10, 11:
		text, kind = chainTokens(r, rt), "token-chain"
	case 5:
		b := make([]byte, r.IntN(48))
		for j := range b {
			b[j] = byte(r.Uint32())
		}
		text, kind = string(b), "random-bytes"
	case 6, 7, 8:
		m := pathref.RandMessage(r, rt.mt)
		steps := pathref.RandPath(r, m, pathref.GenOpts{MaxSteps: 6, AbsentPct: 10})
		rootName := ""
		if r.IntN(3) == 0 {
			rootName = string(rt.mt.Descriptor().FullName())
		}
		text, _ = pathref.Render(r, rootName, steps)
		for n := 1 + r.IntN(2); n > 0; n-- {
			text = mutateText(r, text)
		}
		kind = "mutated-valid"
	default:
		text, kind = longInput(r)
	}
	gen := "soup/" + rt.name + "/" + kind
	c.Begin(i, gen, entParse+"+"+entEval, []byte(text))
	msgs := []namedMsg{{"random", pathref.RandMessage(r, rt.mt)}, {"empty", rt.mt.New()}}
	if k.evalText(i, "soup", gen, text, rt, msgs,
		func(m protoreflect.Message, p protopath.Path) pathref.Walked { return pathref.WalkProtopath(m, p) }, nil) {
		k.soupParsed++
		c.Count("soup-parsed/"+kind, 1)
	} else {
		k.soupReject++
		c.Count("soup-rejected/"+kind, 1)
	}
	c.Max("max_input_len", int64(len(text)))
	c.End(i)
}

func run(c *core.Ctx) {
	k := &checker{c: c, okKeyKind: map[string]bool{}, okSpelling: map[string]bool{}, okRoot: map[string]bool{}, renderOK: map[string]bool{}, heldOK: map[string]int{},
		sevExact: map[string]int{}, sevStyle: map[string]int{}, wireOK: map[string]int{}, faultReported: map[string]int{}, mixedGoodAfterFailed: map[string]int{}, lockstepExact: map[string]int{}, mixedSpecial: map[string]int{}, kindsOK: map[string]int{},
		sameFileExact: map[string]int{}, afterFailedExact: map[string]int{}, osFaultReported: map[string]int{}}
	n := c.N(10000, 300000)
	for i := 0; i < n; i++ {
		if !c.Mine(i) {
			continue
		}
		r := c.Rand(i)
		switch f := i % 20; {
		case f < 9:
			k.grammar(i, r, rtTest)
		case f == 9:
			k.grammar(i, r, rtNested)
		case f == 10 || f == 11:
			k.grammar(i, r, rtGolden)
		case f == 12:
			if r.IntN(2) == 0 {
				k.grammar(i, r, rtEndors)
			} else {
				k.neighbour(i, r, rtGolden)
			}
		case f == 13 || f == 14:
			k.neighbour(i, r, rtTest)
		case f == 15:
			k.soup(i, r, rtTest)
		case f == 16:
			k.soup(i, r, []rootType{rtTest, rtNested, rtGolden, rtEndors}[r.IntN(4)])
		case f == 17:
			k.soup(i, r, rtGolden)
		default:
			k.render(i, r)
		}
	}
	// Families added later get case numbers after the original ones, so that every original case
	// stays the case it was (same number, same PRNG stream).
	nHeld, nOS := c.N(700, 14000), c.N(250, 4000)
	for i := n; i < n+nHeld+nOS; i++ {
		if !c.Mine(i) {
			continue
		}
		if r := c.Rand(i); i < n+nHeld {
			k.held(i, r)
		} else {
			k.osFiles(i, r)
		}
	}
	// The audit's families (audit.go), again after everything that existed before.
	base := n + nHeld + nOS
	nSev, nFault, nMixed, nWire, nKinds := c.N(450, 7000), c.N(400, 6000), c.N(300, 5000), c.N(120, 2000), c.N(100, 1500)
	for i := base; i < base+nSev+nFault+nMixed+nWire+nKinds; i++ {
		if !c.Mine(i) {
			continue
		}
		r := c.Rand(i)
		switch j := i - base; {
		case j < nSev:
			k.several(i, r)
		case j < nSev+nFault:
			k.fault(i, r)
		case j < nSev+nFault+nMixed:
			k.mixed(i, r)
		case j < nSev+nFault+nMixed+nWire:
			k.wireCLI(i, r)
		default:
			k.osKinds(i, r)
		}
	}
	// The same-file family (samefile.go), again after everything that existed before.
	base2 := base + nSev + nFault + nMixed + nWire + nKinds
	nSame := c.N(240, 3600)
	for i := base2; i < base2+nSame; i++ {
		if c.Mine(i) {
			k.sameFile(i, c.Rand(i))
		}
	}
	// The os-write-fault family (osfault.go), again after everything that existed before.
	base3 := base2 + nSame
	nOSFault := c.N(160, 2400)
	for i := base3; i < base3+nOSFault; i++ {
		if c.Mine(i) {
			k.osWriteFault(i, c.Rand(i))
		}
	}
	// Boolean-key spellings (round 7, C19-r7m1), again after everything that existed before: a Boolean-keyed map indexed
	// with every spelling strconv.ParseBool knows; the reference grammar has only true / false for Boolean keys.
	base4 := base3 + nOSFault
	for j, sp := range boolSpellings {
		for v, tail := range []string{"", ".nested", ".nested.nested"} {
			if i := base4 + j*3 + v; c.Mine(i) {
				r := c.Rand(i)
				text := "boolkeymap[" + sp + "]" + tail
				gen := "bool-key-spelling/" + sp
				c.Begin(i, gen, entParse+"+"+entEval, []byte(text))
				msgs := []namedMsg{{"random", pathref.RandMessage(r, rtTest.mt)}, {"random2", pathref.RandMessage(r, rtTest.mt)}, {"empty", rtTest.mt.New()}}
				if k.evalText(i, "soup", gen, text, rtTest, msgs,
					func(m protoreflect.Message, p protopath.Path) pathref.Walked { return pathref.WalkProtopath(m, p) }, nil) {
					c.Count("bool-key-spelling-parsed/"+sp, 1)
					if sp != "true" && sp != "false" && sp != "1" && sp != "0" { // (1 and 0 are numbers, counted only) the path grammar has two Boolean keys; any other identifier in an index addresses nothing
						c.Violate(core.Violation{Kind: "oracle", Entry: entParse, Site: "identifier-other-than-true-false-accepted-as-boolean-key", Gen: gen, Case: i,
							Detail:  fmt.Sprintf("path %q parsed: the index %q is neither true nor false, so the path addresses no element of the Boolean-keyed map and parsing has to fail", text, sp),
							Witness: map[string]any{"path": text}})
					}
				} else {
					c.Count("bool-key-spelling-rejected/"+sp, 1)
				}
				c.End(i)
			}
		}
	}
	for _, what := range append(append([]string{}, osFaultCallers...), osFaultDests...) {
		c.Floor("write-failure-of-a-cmd.OSIO-destination-reported/"+what, k.osFaultReported[what] > 0)
	}
	c.Floor("write-failure-of-a-cmd.OSIO-destination-reported/rendering-of-at-most-4KiB", k.osFaultReported["fits-4KiB"] > 0)
	for _, rel := range sameFileRelationsOS {
		c.Floor("same-file-rendering-exact/os/"+rel, k.sameFileExact["os/"+rel] > 0)
	}
	for _, rel := range sameFileRelationsMem {
		c.Floor("same-file-rendering-exact/memfs/"+rel, k.sameFileExact["memfs/"+rel] > 0)
	}
	c.Floor("same-file-rendering-exact-for-a-non-empty-field", k.sameFileNonEmpty > 0)
	for _, fk := range failKinds {
		c.Floor("good-renderings-exact-around-a-failed-run/"+fk, k.afterFailedExact[fk] > 0)
	}
	for _, e := range []string{entSevAPI, entSevCLI, entSevOpts} {
		c.Floor("several-paths-rendering-exact/"+e, k.sevExact[e] > 0)
	}
	for _, st := range []string{"repeated", "comma-separated", "mixed", "separate-argument"} {
		c.Floor("several-paths-cli-path-flag/"+st, k.sevStyle[st] > 0)
	}
	c.Floor("several-paths-empty-field-before-a-later-one-exact", k.sevEmptyBeforeLater > 0)
	c.Floor("several-paths-absent-element-after-present-ones-gave-error", k.sevLateAbsent > 0)
	c.Floor("cli-default-bytesform-exact", k.sevDefaultForm > 0)
	c.Floor("cli-default-out-exact", k.sevDefaultOut > 0)
	for _, op := range wireOpNames {
		c.Floor("non-canonical-encoding-rendered-exact/"+op, k.wireOK[op] > 0)
	}
	for _, enc := range []string{"bin", "hex", "base64"} {
		c.Floor("refused-write-reported/"+enc, k.faultReported[enc] > 0)
		c.Floor("lockstep-renderings-exact/"+enc, k.lockstepExact[enc] > 0)
	}
	c.Floor("refused-last-write-reported", k.faultLastReported > 0)
	c.Floor("rendering-exact-after-a-refused-write-on-the-same-options", k.faultThenExact > 0)
	for _, m := range []string{"one-after-the-other", "started-together"} {
		c.Floor("good-call-correct-with-failed-calls-around/"+m, k.mixedGoodAfterFailed[m] > 0)
	}
	c.Floor("one-text-evaluated-on-two-root-types", k.mixedSpecial["same-text-other-root"] > 0)
	c.Floor("text-parsed-again-after-the-caller-overwrote-the-first-result", k.mixedSpecial["path-again-after-the-caller-overwrote-the-first-result"] > 0)
	for _, kd := range inputKinds {
		c.Floor("os-file-kinds-exact/input="+kd, k.kindsOK["input="+kd] > 0)
	}
	for _, kd := range destKinds {
		c.Floor("os-file-kinds-exact/destination="+kd, k.kindsOK["destination="+kd] > 0)
	}
	for _, m := range heldModes {
		c.Floor("held-path-value-equal-after-later-parses/"+m, k.heldOK[m] > 0)
	}
	c.Floor("os-files-steps-judged", k.osSteps > 0)
	c.Floor("os-files-rendering-onto-longer-content", k.osOverLonger > 0)
	for _, kk := range wantKeyKinds {
		c.Floor("value-equal-through-key-kind/"+kk, k.okKeyKind[kk])
	}
	for _, s := range wantSpellings {
		c.Floor("value-equal-with-spelling/"+s, k.okSpelling[s])
	}
	for _, rt := range []rootType{rtTest, rtNested, rtGolden, rtEndors} {
		c.Floor("value-equal-on-root/"+rt.name, k.okRoot[rt.name])
	}
	c.Floor("absent-elements-gave-errors", k.absentErr > 0)
	c.Floor("field-after-map-index-evaluated", k.mapThenF > 0)
	c.Floor("neighbour-paths-evaluated", k.neighbourEv > 0)
	c.Floor("reused-options-auto-steps-on-a-file-after-a-terminal", k.reusedSwitch > 0)
	c.Floor("soup-some-parsed", k.soupParsed > 0)
	c.Floor("soup-some-rejected", k.soupReject > 0)
	for _, f := range renderForms {
		for _, e := range []string{"InspectPayload", "InspectSignature", "InspectMask", "MaskOptions.Mask", "cli inspect payload", "cli inspect signature", "cli inspect mask"} {
			c.Floor("rendering-exact/"+e+"/"+f.name, k.renderOK[e+"/"+f.name])
		}
	}
	c.Note("N2 (outside the repository): importing gcetcbendorsement/cmd re-points the shared google/logger at stdout, so --out=- of the real binary can be preceded by a log line on hosts without a TEE device; the monitor observes through --out files of the injected IO")
}
