package c19

import (
	"fmt"
	"math/rand/v2"
	"runtime/debug"
	"strings"
	"sync"

	"github.com/google/gce-tcb-verifier/gcetcbendorsement/parsepath"
	"google.golang.org/protobuf/reflect/protopath"
	"google.golang.org/protobuf/reflect/protoreflect"

	"verifharness/core"
	"verifharness/props/c19/pathref"
)

// The held-path family: state carried between ParsePath calls.
//
// C19 quantifies over "a path that, evaluated on any message of the root type, returns exactly the
// value obtained by walking the message": the parsed path is a value the caller holds and may
// evaluate whenever it likes - in particular after it has parsed further paths (a caller that
// first parses a whole field mask and only then evaluates it), after it has parsed the same text
// again, after paths of another root type were parsed, or after several goroutines parsed at the
// same time. The single-path families parse one text and evaluate it at once, so nothing a later
// ParsePath call does to an earlier result could show. Here 2-6 paths are parsed first (in one of
// several call orders) and every one of them is evaluated afterwards, each judged by the same
// reference walk of ITS OWN structured path as in the grammar family.

type heldPath struct {
	rt       rootType
	m0       protoreflect.Message
	other    protoreflect.Message
	steps    []pathref.Step
	text     string
	w0       pathref.Walked
	pp       protopath.Path
	perr     error
	parsed   bool
	panicked bool
}

var heldModes = []string{"parse-all-then-evaluate", "parse-all-then-evaluate", "parse-all-then-evaluate-backwards", "evaluate-after-every-parse", "parse-concurrently-then-evaluate"}

func (k *checker) held(i int, r *rand.Rand) {
	c := k.c
	roots := []rootType{rtTest, rtTest, rtTest, rtTest, rtNested, rtGolden, rtGolden, rtEndors}
	rt := roots[r.IntN(len(roots))]
	mode := heldModes[r.IntN(len(heldModes))]
	m0 := pathref.RandMessage(r, rt.mt)
	other := pathref.RandMessage(r, rt.mt)
	n := 2 + r.IntN(5)
	hs := make([]*heldPath, 0, n)
	for j := 0; j < n; j++ {
		h := &heldPath{rt: rt, m0: m0, other: other}
		dup := false
		switch x := r.IntN(10); {
		case x == 0 && j > 0: // the same text once more: two results of one text are held side by side
			prev := hs[r.IntN(len(hs))]
			h.rt, h.m0, h.other, h.steps, h.text, dup = prev.rt, prev.m0, prev.other, prev.steps, prev.text, true
		case x == 1: // a path of another root type in between
			h.rt = roots[r.IntN(len(roots))]
			h.m0 = pathref.RandMessage(r, h.rt.mt)
			h.other = pathref.RandMessage(r, h.rt.mt)
		}
		if !dup {
			absentPct := []int{0, 0, 0, 20}[r.IntN(4)]
			maxSteps := []int{2, 4, 8, 8}[r.IntN(4)]
			h.steps = pathref.RandPath(r, h.m0, pathref.GenOpts{MaxSteps: maxSteps, AbsentPct: absentPct})
			rootName := ""
			if r.IntN(3) == 0 {
				rootName = string(h.rt.mt.Descriptor().FullName())
			}
			h.text, _ = pathref.Render(r, rootName, h.steps)
		}
		h.w0 = pathref.Walk(h.m0, h.steps)
		hs = append(hs, h)
	}
	texts := make([]string, len(hs))
	for j, h := range hs {
		texts[j] = h.text
	}
	all := strings.Join(texts, "\n")
	gen := fmt.Sprintf("held/%s/%s/paths=%d", rt.name, mode, n)
	c.Begin(i, gen, entParse+" x"+fmt.Sprint(n)+" then "+entEval, []byte(all))

	// evaluate judges held path j now; after says how many ParsePath calls were made since it was parsed
	evaluate := func(j, after int, everywhere bool) {
		h := hs[j]
		if !h.parsed {
			return
		}
		held := fmt.Sprintf("held across %d later ParsePath call(s); all texts of the sequence, in parse order: %s", after, clipQ(texts))
		msgs := []namedMsg{{"drawn-from [" + held + "]", h.m0}}
		if everywhere {
			msgs = append(msgs, namedMsg{"other-random [" + held + "]", h.other}, namedMsg{"empty [" + held + "]", h.rt.mt.New()})
		}
		steps := h.steps
		k.evalParsed(i, "held", gen, h.text, h.rt, h.pp, msgs,
			func(m protoreflect.Message, _ protopath.Path) pathref.Walked { return pathref.Walk(m, steps) },
			func(string, pathref.Walked) {
				if after > 0 {
					k.heldOK[mode]++
					c.Count("held/value-equal-after-later-parses/"+mode, 1)
				}
			})
	}
	parseOne := func(j int) {
		h := hs[j]
		m := k.guard(i, entParse, gen, len(h.text), func() { h.pp, h.perr = parsepath.ParsePath(h.rt.mt.Descriptor(), h.text) })
		h.panicked = m.Panicked
		h.parsed = !m.Panicked && h.perr == nil
	}

	switch mode {
	case "evaluate-after-every-parse":
		for j := range hs {
			parseOne(j)
			for x := 0; x < j; x++ { // everything held so far, on the message it was drawn from
				evaluate(x, j-x, false)
			}
		}
	case "parse-concurrently-then-evaluate":
		// all ParsePath calls are started together. A panic in a parsing goroutine is recovered
		// there (it would end the process otherwise) and reported like Guard reports it.
		var wg sync.WaitGroup
		start := make(chan struct{})
		sites := make([]string, len(hs))
		msgsP := make([]string, len(hs))
		k.guard(i, entParse, gen, len(all), func() {
			for j := range hs {
				wg.Add(1)
				go func(h *heldPath, j int) {
					defer wg.Done()
					defer func() {
						if p := recover(); p != nil {
							h.panicked, msgsP[j], sites[j] = true, fmt.Sprint(p), core.PanicSite(debug.Stack())
						}
					}()
					<-start
					h.pp, h.perr = parsepath.ParsePath(h.rt.mt.Descriptor(), h.text)
				}(hs[j], j)
			}
			close(start)
			wg.Wait()
		})
		c.Eval(len(hs) - 1)
		for j, h := range hs {
			if h.panicked {
				c.Violate(core.Violation{Kind: "panic", Entry: entParse, Site: sites[j], Gen: gen, Case: i,
					Detail: fmt.Sprintf("ParsePath(%q) panicked while %d other ParsePath calls ran at the same time: %s", h.text, len(hs)-1, msgsP[j])})
			}
			h.parsed = !h.panicked && h.perr == nil
		}
	default:
		for j := range hs {
			parseOne(j)
		}
	}
	for _, h := range hs {
		switch {
		case h.panicked:
		case !h.parsed:
			c.Count("parse-rejected/held/expected-"+h.w0.Status.String(), 1)
		default:
			c.Count("held/parsed", 1)
		}
	}
	// now every held path is evaluated, on three messages of its root type
	order := make([]int, len(hs))
	for j := range order {
		order[j] = j
	}
	if mode == "parse-all-then-evaluate-backwards" {
		for a, b := 0, len(order)-1; a < b; a, b = a+1, b-1 {
			order[a], order[b] = order[b], order[a]
		}
	}
	for _, j := range order {
		after := len(hs) - 1 - j
		if mode == "parse-concurrently-then-evaluate" {
			after = len(hs) - 1 // no order among them: each was held while the others were parsed
		}
		evaluate(j, after, true)
	}
	c.Cell("held|%s|%s|paths=%d", mode, rt.name, n)
	if i%101 == 0 {
		c.Sample(map[string]any{"family": "held", "mode": mode, "root": rt.name, "texts_in_parse_order": texts})
	}
	c.End(i)
}

func clipQ(texts []string) string {
	s := fmt.Sprintf("%q", texts)
	if len(s) > 600 {
		s = s[:600] + "…"
	}
	return s
}
