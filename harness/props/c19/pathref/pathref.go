// Package pathref is the independent reference model of C19: a field-by-field walker over
// protobuf messages (protoreflect only, no repository code), the textual rendering of structured
// paths in every spelling the path grammar allows, and descriptor-driven random messages.
//
// The reference never parses text. A case is a *structured* path (field names, integer / string /
// bool index literals); Walk gives what that path addresses in a concrete message, Render gives
// one of its many textual spellings. The repository's parser + evaluator applied to the spelling
// must agree with Walk applied to the structure.
package pathref

import (
	"bytes"
	"fmt"
	"math"
	"math/rand/v2"
	"strconv"
	"strings"
	"unicode/utf8"

	"google.golang.org/protobuf/proto"
	"google.golang.org/protobuf/reflect/protopath"
	"google.golang.org/protobuf/reflect/protoreflect"
)

// LitKind is the kind of an index literal.
type LitKind int

// Literal kinds.
const (
	LInt LitKind = iota
	LStr
	LBool
)

// Lit is an index literal: a signed integer of up to 64 bits magnitude, a string or a bool.
type Lit struct {
	Kind LitKind
	Neg  bool
	Mag  uint64
	S    string
	B    bool
}

func (l Lit) String() string {
	switch l.Kind {
	case LStr:
		return strconv.Quote(l.S)
	case LBool:
		return strconv.FormatBool(l.B)
	}
	if l.Neg {
		return "-" + strconv.FormatUint(l.Mag, 10)
	}
	return strconv.FormatUint(l.Mag, 10)
}

// Step is one step of a structured path: a field access (Field != "") or an index.
type Step struct {
	Field  string
	Index  bool
	Lit    Lit
	OnList bool // annotation by the generator: the index addresses a list (only used to label spellings)
}

// F is a field step, I an index step.
func F(name string) Step { return Step{Field: name} }

// I is an index step.
func I(l Lit) Step { return Step{Index: true, Lit: l} }

// IntLit builds an integer literal from a signed value.
func IntLit(v int64) Lit {
	if v < 0 {
		return Lit{Kind: LInt, Neg: true, Mag: uint64(-(v + 1)) + 1}
	}
	return Lit{Kind: LInt, Mag: uint64(v)}
}

// UintLit builds an integer literal from an unsigned value.
func UintLit(v uint64) Lit { return Lit{Kind: LInt, Mag: v} }

// Status is what a structured path addresses in a message.
type Status int

// Walk results.
const (
	Present  Status = iota // every step addressed something: the value is defined
	Absent                 // a list index or map key that the message does not contain
	IllTyped               // the path cannot be walked on this type at all (field of a list, index of a scalar, ...)
)

func (s Status) String() string { return [...]string{"present", "absent", "illtyped"}[s] }

type cursorType int

const (
	tMsg cursorType = iota
	tList
	tMap
	tScalar
)

func typeOfField(fd protoreflect.FieldDescriptor) cursorType {
	switch {
	case fd.IsMap():
		return tMap
	case fd.IsList():
		return tList
	case fd.Kind() == protoreflect.MessageKind || fd.Kind() == protoreflect.GroupKind:
		return tMsg
	}
	return tScalar
}

func elemType(k protoreflect.Kind) cursorType {
	if k == protoreflect.MessageKind || k == protoreflect.GroupKind {
		return tMsg
	}
	return tScalar
}

// KeyOf converts a literal to a map key of the given key kind (false: the literal is not a value of that kind).
func KeyOf(kind protoreflect.Kind, l Lit) (protoreflect.MapKey, bool) {
	signed := func(bits uint) (int64, bool) {
		if l.Kind != LInt {
			return 0, false
		}
		if l.Mag == 0 {
			return 0, true
		}
		if l.Neg {
			if l.Mag > 1<<(bits-1) {
				return 0, false
			}
			return -int64(l.Mag-1) - 1, true
		}
		if l.Mag > 1<<(bits-1)-1 {
			return 0, false
		}
		return int64(l.Mag), true
	}
	unsigned := func(bits uint) (uint64, bool) {
		if l.Kind != LInt || (l.Neg && l.Mag != 0) {
			return 0, false
		}
		if bits < 64 && l.Mag > 1<<bits-1 {
			return 0, false
		}
		return l.Mag, true
	}
	switch kind {
	case protoreflect.StringKind:
		if l.Kind != LStr {
			return protoreflect.MapKey{}, false
		}
		return protoreflect.ValueOfString(l.S).MapKey(), true
	case protoreflect.BoolKind:
		if l.Kind != LBool {
			return protoreflect.MapKey{}, false
		}
		return protoreflect.ValueOfBool(l.B).MapKey(), true
	case protoreflect.Int32Kind, protoreflect.Sint32Kind, protoreflect.Sfixed32Kind:
		v, ok := signed(32)
		return protoreflect.ValueOfInt32(int32(v)).MapKey(), ok
	case protoreflect.Int64Kind, protoreflect.Sint64Kind, protoreflect.Sfixed64Kind:
		v, ok := signed(64)
		return protoreflect.ValueOfInt64(v).MapKey(), ok
	case protoreflect.Uint32Kind, protoreflect.Fixed32Kind:
		v, ok := unsigned(32)
		return protoreflect.ValueOfUint32(uint32(v)).MapKey(), ok
	case protoreflect.Uint64Kind, protoreflect.Fixed64Kind:
		v, ok := unsigned(64)
		return protoreflect.ValueOfUint64(v).MapKey(), ok
	}
	return protoreflect.MapKey{}, false
}

// LitOfKey is the inverse of KeyOf.
func LitOfKey(kind protoreflect.Kind, k protoreflect.MapKey) Lit {
	switch kind {
	case protoreflect.StringKind:
		return Lit{Kind: LStr, S: k.String()}
	case protoreflect.BoolKind:
		return Lit{Kind: LBool, B: k.Bool()}
	case protoreflect.Int32Kind, protoreflect.Sint32Kind, protoreflect.Sfixed32Kind,
		protoreflect.Int64Kind, protoreflect.Sint64Kind, protoreflect.Sfixed64Kind:
		return IntLit(k.Int())
	}
	return UintLit(k.Uint())
}

// Walked is the result of walking a structured path.
type Walked struct {
	Status Status
	Values []protoreflect.Value // root, then one per completed step
	Why    string               // for Absent / IllTyped: which step and why
	Shape  string               // step kinds walked, e.g. "F.Mstring.F.L" (for coverage cells)
	Final  string               // kind of the addressed value
}

// Last returns the addressed value.
func (w Walked) Last() protoreflect.Value { return w.Values[len(w.Values)-1] }

// Walk evaluates a structured path on root, field by field.
func Walk(root protoreflect.Message, steps []Step) Walked {
	w := Walked{Values: []protoreflect.Value{protoreflect.ValueOfMessage(root)}, Final: "message"}
	cur := protoreflect.ValueOfMessage(root)
	typ := tMsg
	var fd protoreflect.FieldDescriptor
	var shape []string
	fail := func(st Status, i int, format string, a ...any) Walked {
		w.Status = st
		w.Why = fmt.Sprintf("step %d: ", i) + fmt.Sprintf(format, a...)
		w.Shape = strings.Join(shape, ".")
		return w
	}
	for i, s := range steps {
		if !s.Index {
			if typ != tMsg {
				return fail(IllTyped, i, "field %q of a %s", s.Field, [...]string{"message", "list", "map", "scalar"}[typ])
			}
			f := cur.Message().Descriptor().Fields().ByName(protoreflect.Name(s.Field))
			if f == nil {
				return fail(IllTyped, i, "message %s has no field %q", cur.Message().Descriptor().FullName(), s.Field)
			}
			fd = f
			cur = cur.Message().Get(fd)
			typ = typeOfField(fd)
			shape = append(shape, "F")
			w.Final = [...]string{"message", "list", "map", fd.Kind().String()}[typ]
		} else {
			switch typ {
			case tList:
				if s.Lit.Kind != LInt {
					return fail(IllTyped, i, "list indexed by %v", s.Lit)
				}
				if s.Lit.Neg && s.Lit.Mag != 0 {
					return fail(IllTyped, i, "negative list index %v", s.Lit)
				}
				if s.Lit.Mag >= uint64(cur.List().Len()) {
					return fail(Absent, i, "list index %v, length %d", s.Lit, cur.List().Len())
				}
				cur = cur.List().Get(int(s.Lit.Mag))
				typ = elemType(fd.Kind())
				shape = append(shape, "L")
				w.Final = [...]string{"message", "", "", fd.Kind().String()}[typ]
			case tMap:
				k, ok := KeyOf(fd.MapKey().Kind(), s.Lit)
				if !ok {
					return fail(IllTyped, i, "%v is not a %v key", s.Lit, fd.MapKey().Kind())
				}
				v := cur.Map().Get(k)
				if !v.IsValid() {
					return fail(Absent, i, "map has no key %v", s.Lit)
				}
				cur = v
				typ = elemType(fd.MapValue().Kind())
				shape = append(shape, "M"+fd.MapKey().Kind().String())
				w.Final = [...]string{"message", "", "", fd.MapValue().Kind().String()}[typ]
			default:
				return fail(IllTyped, i, "index %v of a %s", s.Lit, [...]string{"message", "list", "map", "scalar"}[typ])
			}
		}
		w.Values = append(w.Values, cur)
	}
	w.Shape = strings.Join(shape, ".")
	return w
}

// WalkProtopath evaluates an already parsed protopath on root with a typed cursor. It is the
// reference for paths whose text was not generated from a structure (token soups): whatever the
// parser returned, evaluation must agree with this walk.
func WalkProtopath(root protoreflect.Message, p protopath.Path) Walked {
	w := Walked{Final: "message"}
	cur := protoreflect.ValueOfMessage(root)
	typ := tMsg
	var fd protoreflect.FieldDescriptor
	var shape []string
	fail := func(st Status, i int, format string, a ...any) Walked {
		w.Status = st
		w.Why = fmt.Sprintf("step %d: ", i) + fmt.Sprintf(format, a...)
		w.Shape = strings.Join(shape, ".")
		return w
	}
	for i, s := range p {
		switch s.Kind() {
		case protopath.RootStep:
			if i != 0 || s.MessageDescriptor().FullName() != root.Descriptor().FullName() {
				return fail(IllTyped, i, "root step %v", s)
			}
		case protopath.FieldAccessStep:
			f := s.FieldDescriptor()
			if typ != tMsg || f.ContainingMessage() == nil || f.ContainingMessage().FullName() != cur.Message().Descriptor().FullName() {
				return fail(IllTyped, i, "field %v not of the cursor", f.FullName())
			}
			fd = f
			cur = cur.Message().Get(fd)
			typ = typeOfField(fd)
			shape = append(shape, "F")
		case protopath.ListIndexStep:
			if typ != tList {
				return fail(IllTyped, i, "list index of a non-list")
			}
			if s.ListIndex() < 0 || s.ListIndex() >= cur.List().Len() {
				return fail(Absent, i, "list index %d, length %d", s.ListIndex(), cur.List().Len())
			}
			cur = cur.List().Get(s.ListIndex())
			typ = elemType(fd.Kind())
			shape = append(shape, "L")
		case protopath.MapIndexStep:
			if typ != tMap {
				return fail(IllTyped, i, "map index of a non-map")
			}
			if !keyHasKind(s.MapIndex(), fd.MapKey().Kind()) {
				return fail(IllTyped, i, "map key %v is not a %v", s.MapIndex(), fd.MapKey().Kind())
			}
			v := cur.Map().Get(s.MapIndex())
			if !v.IsValid() {
				return fail(Absent, i, "map has no key %v", s.MapIndex())
			}
			cur = v
			typ = elemType(fd.MapValue().Kind())
			shape = append(shape, "M"+fd.MapKey().Kind().String())
		default:
			return fail(IllTyped, i, "step kind %v", s.Kind())
		}
		w.Values = append(w.Values, cur)
	}
	w.Shape = strings.Join(shape, ".")
	switch typ {
	case tList:
		w.Final = "list"
	case tMap:
		w.Final = "map"
	case tMsg:
		w.Final = "message"
	default:
		w.Final = "scalar"
	}
	return w
}

func keyHasKind(k protoreflect.MapKey, kind protoreflect.Kind) bool {
	switch k.Interface().(type) {
	case string:
		return kind == protoreflect.StringKind
	case bool:
		return kind == protoreflect.BoolKind
	case int32:
		return kind == protoreflect.Int32Kind || kind == protoreflect.Sint32Kind || kind == protoreflect.Sfixed32Kind
	case int64:
		return kind == protoreflect.Int64Kind || kind == protoreflect.Sint64Kind || kind == protoreflect.Sfixed64Kind
	case uint32:
		return kind == protoreflect.Uint32Kind || kind == protoreflect.Fixed32Kind
	case uint64:
		return kind == protoreflect.Uint64Kind || kind == protoreflect.Fixed64Kind
	}
	return false
}

// Equal reports whether two reflected values are exactly the same value. Values of containers
// whose element or key types differ (two maps of different key kinds, lists of different element
// kinds) are different values: the protobuf runtime panics when asked to look a key of one kind up
// in a map of another, which is answered with "not equal" here.
func Equal(a, b protoreflect.Value) (eq bool) {
	defer func() {
		if recover() != nil {
			eq = false
		}
	}()
	return equal(a, b)
}

func equal(a, b protoreflect.Value) bool {
	if a.IsValid() != b.IsValid() {
		return false
	}
	if !a.IsValid() {
		return true
	}
	switch x := a.Interface().(type) {
	case protoreflect.Message:
		y, ok := b.Interface().(protoreflect.Message)
		return ok && x.IsValid() == y.IsValid() && x.Descriptor().FullName() == y.Descriptor().FullName() &&
			proto.Equal(x.Interface(), y.Interface())
	case protoreflect.List:
		y, ok := b.Interface().(protoreflect.List)
		if !ok || x.Len() != y.Len() {
			return false
		}
		for i := 0; i < x.Len(); i++ {
			if !equal(x.Get(i), y.Get(i)) {
				return false
			}
		}
		return true
	case protoreflect.Map:
		y, ok := b.Interface().(protoreflect.Map)
		if !ok || x.Len() != y.Len() {
			return false
		}
		eq := true
		x.Range(func(k protoreflect.MapKey, v protoreflect.Value) bool {
			if !y.Has(k) || !equal(v, y.Get(k)) {
				eq = false
			}
			return eq
		})
		return eq
	case []byte:
		y, ok := b.Interface().([]byte)
		return ok && bytes.Equal(x, y)
	case float32:
		y, ok := b.Interface().(float32)
		return ok && math.Float32bits(x) == math.Float32bits(y)
	case float64:
		y, ok := b.Interface().(float64)
		return ok && math.Float64bits(x) == math.Float64bits(y)
	default:
		return a.Interface() == b.Interface()
	}
}

// Show renders a value for violation details (bounded).
func Show(v protoreflect.Value) string {
	if !v.IsValid() {
		return "<invalid>"
	}
	var s string
	switch x := v.Interface().(type) {
	case protoreflect.Message:
		s = fmt.Sprintf("message %s{%v}", x.Descriptor().Name(), x.Interface())
	case protoreflect.List:
		s = fmt.Sprintf("list(len %d)", x.Len())
	case protoreflect.Map:
		s = fmt.Sprintf("map(len %d)", x.Len())
	case []byte:
		s = fmt.Sprintf("bytes %x", x)
	case string:
		s = fmt.Sprintf("string %q", x)
	default:
		s = fmt.Sprintf("%T %v", x, x)
	}
	if len(s) > 300 {
		s = s[:300] + "…"
	}
	return s
}

// ---------------------------------------------------------------------------------------------
// Textual rendering

// Spelling records which spellings a rendering used (for coverage cells and floors).
type Spelling struct {
	ExplicitRoot bool
	Bases        map[string]bool // key-int:dec|hex|oct, list-index:dec|hex|oct
	Quotes       map[string]bool // dq, sq
	Escapes      map[string]bool // simple, oct1..3, oct-leading-zero, hex1, hex2, u4, u8, raw-utf8, then-literal-digit
	Negative     bool
}

func newSpelling() *Spelling {
	return &Spelling{Bases: map[string]bool{}, Quotes: map[string]bool{}, Escapes: map[string]bool{}}
}

var simpleEsc = map[rune]byte{'\a': 'a', '\b': 'b', '\f': 'f', '\n': 'n', '\r': 'r', '\t': 't', '\v': 'v', '\\': '\\', '\'': '\'', '"': '"', '?': '?'}

func isOctDigit(c rune) bool { return c >= '0' && c <= '7' }
func isHexDigit(c rune) bool {
	return c >= '0' && c <= '9' || c >= 'a' && c <= 'f' || c >= 'A' && c <= 'F'
}

func randCase(r *rand.Rand, s string) string {
	switch r.IntN(3) {
	case 0:
		return strings.ToUpper(s)
	case 1:
		return s
	}
	b := []byte(s)
	for i := range b {
		if r.IntN(2) == 0 && b[i] >= 'a' && b[i] <= 'f' {
			b[i] -= 'a' - 'A'
		}
	}
	return string(b)
}

// QuoteString spells s as a quoted string literal of the path grammar as scan.go documents it
// (protobuf text-format string syntax, escapes compose runes): either quote; per character raw or
// one of the equivalent escapes - simple, octal of 1, 2 or 3 digits (greedy: a short form is only
// used when no octal digit follows), \x or \X with 1 or 2 hex digits in either case (short form
// only when no hex digit follows), \uHHHH, \UHHHHHHHH. A fixed-width escape may be followed by a
// literal digit ("\0601" is "01"). The result is checked against Unescape, an independent reading
// of the documented grammar, before it is used.
func QuoteString(r *rand.Rand, s string, sp *Spelling) string {
	q := byte('"')
	qn := "dq"
	if r.IntN(2) == 0 {
		q, qn = '\'', "sq"
	}
	sp.Quotes[qn] = true
	rs := []rune(s)
	escapePct := []int{0, 25, 25, 50, 100}[r.IntN(5)]
	used := map[string]bool{}
	var b strings.Builder
	b.WriteByte(q)
	prevEscaped := false
	for i, c := range rs {
		var next rune = -1
		if i+1 < len(rs) {
			next = rs[i+1]
		}
		must := c == rune(q) || c == '\\' || c == '\n' || c == 0
		if !must && r.IntN(100) >= escapePct {
			if c >= 0x80 {
				used["raw-utf8"] = true
			}
			if prevEscaped && c >= '0' && c <= '9' {
				used["then-literal-digit"] = true
			}
			b.WriteRune(c)
			prevEscaped = false
			continue
		}
		// the equivalent escaped forms of c
		var forms []string
		if e, ok := simpleEsc[c]; ok {
			forms = append(forms, "simple:\\"+string(e), "simple:\\"+string(e))
		}
		if c <= 0xff { // code points, as the scanner documents ("composed rune"); kept within one byte's range
			o := strconv.FormatInt(int64(c), 8)
			for w := len(o); w <= 3; w++ {
				if w < 3 && isOctDigit(next) {
					continue // a following octal digit would be swallowed by the greedy scan
				}
				name := fmt.Sprintf("oct%d", w)
				if w > len(o) {
					name += "+oct-leading-zero"
				}
				forms = append(forms, name+":\\"+strings.Repeat("0", w-len(o))+o)
			}
			h := strconv.FormatInt(int64(c), 16)
			x := string("xX"[r.IntN(2)])
			if len(h) == 1 && !isHexDigit(next) {
				forms = append(forms, "hex1:\\"+x+randCase(r, h), "hex1:\\"+x+randCase(r, h))
			}
			forms = append(forms, "hex2:\\"+x+randCase(r, fmt.Sprintf("%02x", c)))
		}
		if c <= 0xffff {
			forms = append(forms, "u4:\\u"+randCase(r, fmt.Sprintf("%04x", c)))
		}
		forms = append(forms, "u8:\\U"+randCase(r, fmt.Sprintf("%08x", c)))
		f := forms[r.IntN(len(forms))]
		j := strings.IndexByte(f, ':')
		for _, n := range strings.Split(f[:j], "+") {
			used[n] = true
		}
		b.WriteString(f[j+1:])
		prevEscaped = !strings.HasPrefix(f, "simple")
	}
	b.WriteByte(q)
	out := b.String()
	if got, err := Unescape(out); err != nil || got != s {
		// generator and documented grammar disagree: never let that become a verdict
		sp.Escapes["GENERATOR-FALLBACK"] = true
		b.Reset()
		b.WriteByte(q)
		for _, c := range rs {
			fmt.Fprintf(&b, "\\U%08x", c)
		}
		b.WriteByte(q)
		return b.String()
	}
	for n := range used {
		sp.Escapes[n] = true
	}
	return out
}

// Unescape reads a quoted string literal by the grammar scan.go documents, written from that
// description only: simple escapes \a \b \f \n \r \t \v \\ \' \" \?; octal = '\' + 1 to 3 octal
// digits, as many as are there (oct13Re "1, 2, or 3 octal numerals"; the repository's test reads
// "\118" as \11 then '8'); hex = '\x' or '\X' + 1 or 2 hex digits, as many as are there; \u + 4,
// \U + 8 hex digits; every numeric escape composes one rune. Raw newline, NUL, backslash and the
// quote character are not allowed inside.
func Unescape(lit string) (string, error) {
	if len(lit) < 2 || (lit[0] != '"' && lit[0] != '\'') || lit[len(lit)-1] != lit[0] {
		return "", fmt.Errorf("not a quoted literal")
	}
	q := lit[0]
	body := lit[1 : len(lit)-1]
	var out strings.Builder
	digits := func(at, maxN int, ok func(rune) bool) string {
		n := 0
		for n < maxN && at+n < len(body) && ok(rune(body[at+n])) {
			n++
		}
		return body[at : at+n]
	}
	for i := 0; i < len(body); {
		c := body[i]
		switch {
		case c == q || c == '\n' || c == 0:
			return "", fmt.Errorf("raw %q inside the literal at %d", c, i)
		case c != '\\':
			rn, size := utf8.DecodeRuneInString(body[i:])
			if rn == utf8.RuneError && size == 1 {
				return "", fmt.Errorf("invalid UTF-8 at %d", i)
			}
			out.WriteRune(rn)
			i += size
		default:
			if i+1 >= len(body) {
				return "", fmt.Errorf("dangling backslash")
			}
			e := body[i+1]
			var d string
			var base, skip int
			switch {
			case e >= '0' && e <= '7':
				d, base, skip = digits(i+1, 3, isOctDigit), 8, 1
			case e == 'x' || e == 'X':
				d, base, skip = digits(i+2, 2, isHexDigit), 16, 2
			case e == 'u':
				d, base, skip = digits(i+2, 4, isHexDigit), 16, 2
				if len(d) != 4 {
					d = ""
				}
			case e == 'U':
				d, base, skip = digits(i+2, 8, isHexDigit), 16, 2
				if len(d) != 8 {
					d = ""
				}
			default:
				found := false
				for rn, name := range simpleEsc {
					if name == e {
						out.WriteRune(rn)
						found = true
					}
				}
				if !found {
					return "", fmt.Errorf("unknown escape \\%c", e)
				}
				i += 2
				continue
			}
			if d == "" {
				return "", fmt.Errorf("numeric escape without digits at %d", i)
			}
			n, err := strconv.ParseUint(d, base, 32)
			if err != nil || !utf8.ValidRune(rune(n)) {
				return "", fmt.Errorf("numeric escape %q is not a code point", d)
			}
			out.WriteRune(rune(n))
			i += skip + len(d)
		}
	}
	return out.String(), nil
}

// Confusables returns the strings a scanner would produce for s if it cut the octal or hex
// escape of the first character short (fixed 1 or 2 digits instead of "as many as are there"):
// "0" spelled \060 becomes NUL,'6','0' or ACK,'0'. Maps are filled with a key together with its
// confusables, so that such a scanner returns another entry's value rather than only an error.
func Confusables(s string) []string {
	rs := []rune(s)
	if len(rs) == 0 || rs[0] > 0xff {
		return nil
	}
	c, rest := rs[0], string(rs[1:])
	seen := map[string]bool{s: true}
	var out []string
	add := func(v string) {
		if !seen[v] {
			seen[v] = true
			out = append(out, v)
		}
	}
	val := func(d string, base int) rune { n, _ := strconv.ParseUint(d, base, 32); return rune(n) }
	o3 := fmt.Sprintf("%03o", c)
	add(string(val(o3[:1], 8)) + o3[1:] + rest)
	add(string(val(o3[:2], 8)) + o3[2:] + rest)
	if o := strconv.FormatInt(int64(c), 8); len(o) == 2 {
		add(string(val(o[:1], 8)) + o[1:] + rest)
	}
	h := fmt.Sprintf("%02x", c)
	add(string(val(h[:1], 16)) + h[1:] + rest)
	add(string(val(h[:1], 16)) + strings.ToUpper(h[1:]) + rest)
	return out
}

// IntString spells an integer literal in decimal, hexadecimal or octal; site labels the use
// ("key-int" or "list-index") in the recorded spelling.
func IntString(r *rand.Rand, l Lit, sp *Spelling, site string) string {
	var s, base string
	switch r.IntN(4) {
	case 0:
		s, base = "0x"+strconv.FormatUint(l.Mag, 16), "hex"
	case 1:
		if r.IntN(2) == 0 {
			s, base = "0X"+strings.ToUpper(strconv.FormatUint(l.Mag, 16)), "hex"
		} else {
			s, base = "0"+strconv.FormatUint(l.Mag, 8), "oct" // "00" for zero is a valid octal spelling
		}
	default:
		s, base = strconv.FormatUint(l.Mag, 10), "dec"
	}
	sp.Bases[site+":"+base] = true
	if l.Neg {
		sp.Negative = true
		s = "-" + s
	}
	return s
}

// Render spells a structured path. rootName != "" spells the explicit root "(full.name)".
func Render(r *rand.Rand, rootName string, steps []Step) (string, *Spelling) {
	sp := newSpelling()
	var b strings.Builder
	if rootName != "" {
		sp.ExplicitRoot = true
		b.WriteString("(" + rootName + ")")
	}
	for _, s := range steps {
		if !s.Index {
			if b.Len() > 0 {
				b.WriteByte('.')
			}
			b.WriteString(s.Field)
			continue
		}
		b.WriteByte('[')
		switch s.Lit.Kind {
		case LStr:
			b.WriteString(QuoteString(r, s.Lit.S, sp))
		case LBool:
			b.WriteString(strconv.FormatBool(s.Lit.B))
		default:
			site := "key-int"
			if s.OnList {
				site = "list-index"
			}
			b.WriteString(IntString(r, s.Lit, sp, site))
		}
		b.WriteByte(']')
	}
	return b.String(), sp
}

// ---------------------------------------------------------------------------------------------
// Random messages and paths

var keyStrings = []string{"", "a", "b c", "q\"uote", "it's", "é", "tab\t", "back\\slash", "line\nfeed", "nul\x00byte", "日本語", "\U0001F512lock",
	"0", "01", "7", "8", "\x00", "\t", "\n", "a\tb", "0\n1", "\x00\x00", " ", "8\x009", "\x0060", "\x0600", "A1", "\x7f", "ÿ", "\u0080",
	"?", "\a\b\f\r\v", "]", "[0]", ".", "key", "value", "�", "߿ࠀ￿", strings.Repeat("long", 64)}

var int32Pool = []int64{0, 1, -1, 2, 7, -8, 16, 255, math.MaxInt32, math.MinInt32, 1 << 20, -(1 << 20)}
var int64Pool = []int64{0, 1, -1, 3, -9, math.MaxInt64, math.MinInt64, 1 << 33, -(1 << 33), math.MaxInt32 + 1, math.MinInt32 - 1}
var uint32Pool = []uint64{0, 1, 2, 4, 8, 16, 255, math.MaxUint32, 1 << 31}
var uint64Pool = []uint64{0, 1, 5, math.MaxUint64, 1 << 63, 1<<63 - 1, 1 << 40, math.MaxUint32 + 1}

// RandKeyLit draws a literal that is a legal key of the kind.
func RandKeyLit(r *rand.Rand, kind protoreflect.Kind) Lit {
	pick := func(n int) bool { return r.IntN(n) == 0 }
	switch kind {
	case protoreflect.StringKind:
		if pick(5) {
			n := r.IntN(6)
			rs := make([]rune, n)
			for i := range rs {
				rs[i] = randRune(r)
			}
			return Lit{Kind: LStr, S: string(rs)}
		}
		return Lit{Kind: LStr, S: keyStrings[r.IntN(len(keyStrings))]}
	case protoreflect.BoolKind:
		return Lit{Kind: LBool, B: pick(2)}
	case protoreflect.Int32Kind, protoreflect.Sint32Kind, protoreflect.Sfixed32Kind:
		if pick(4) {
			return IntLit(int64(int32(r.Uint32())))
		}
		return IntLit(int32Pool[r.IntN(len(int32Pool))])
	case protoreflect.Int64Kind, protoreflect.Sint64Kind, protoreflect.Sfixed64Kind:
		if pick(4) {
			return IntLit(int64(r.Uint64()))
		}
		return IntLit(int64Pool[r.IntN(len(int64Pool))])
	case protoreflect.Uint32Kind, protoreflect.Fixed32Kind:
		if pick(4) {
			return UintLit(uint64(r.Uint32()))
		}
		return UintLit(uint32Pool[r.IntN(len(uint32Pool))])
	default:
		if pick(4) {
			return UintLit(r.Uint64())
		}
		return UintLit(uint64Pool[r.IntN(len(uint64Pool))])
	}
}

func randRune(r *rand.Rand) rune {
	for {
		var c rune
		switch r.IntN(5) {
		case 0:
			c = rune(r.IntN(0x80))
		case 1:
			c = rune(0x80 + r.IntN(0x780))
		case 2:
			c = rune(0x800 + r.IntN(0xf800))
		case 3:
			c = rune(0x10000 + r.IntN(0x100000))
		default:
			c = rune(0x20 + r.IntN(0x5f))
		}
		if utf8.ValidRune(c) {
			return c
		}
	}
}

var lenPool = []int{0, 1, 2, 3, 16, 32, 47, 48, 49, 64}

func randBytes(r *rand.Rand) []byte {
	n := lenPool[r.IntN(len(lenPool))]
	b := make([]byte, n)
	for i := range b {
		b[i] = byte(r.Uint32())
	}
	// make newline / NUL / quote bytes likely: renderings must not treat them specially
	if n > 0 && r.IntN(3) == 0 {
		b[r.IntN(n)] = []byte{'\n', 0, '"', '\r', 0xff, '='}[r.IntN(6)]
	}
	return b
}

func randScalar(r *rand.Rand, fd protoreflect.FieldDescriptor) protoreflect.Value {
	switch fd.Kind() {
	case protoreflect.BoolKind:
		return protoreflect.ValueOfBool(r.IntN(2) == 0)
	case protoreflect.Int32Kind, protoreflect.Sint32Kind, protoreflect.Sfixed32Kind:
		return protoreflect.ValueOfInt32(int32(r.Uint32()))
	case protoreflect.Int64Kind, protoreflect.Sint64Kind, protoreflect.Sfixed64Kind:
		return protoreflect.ValueOfInt64(int64(r.Uint64()))
	case protoreflect.Uint32Kind, protoreflect.Fixed32Kind:
		return protoreflect.ValueOfUint32(r.Uint32())
	case protoreflect.Uint64Kind, protoreflect.Fixed64Kind:
		return protoreflect.ValueOfUint64(r.Uint64())
	case protoreflect.FloatKind:
		return protoreflect.ValueOfFloat32(float32(r.IntN(1000)) / 8)
	case protoreflect.DoubleKind:
		return protoreflect.ValueOfFloat64(float64(r.IntN(1000)) / 8)
	case protoreflect.StringKind:
		return protoreflect.ValueOfString(keyStrings[r.IntN(len(keyStrings))])
	case protoreflect.BytesKind:
		return protoreflect.ValueOfBytes(randBytes(r))
	case protoreflect.EnumKind:
		vs := fd.Enum().Values()
		return protoreflect.ValueOfEnum(vs.Get(r.IntN(vs.Len())).Number())
	}
	panic("pathref: unexpected scalar kind " + fd.Kind().String())
}

// populate[d] is the probability that a message-bearing field is populated at nesting depth d;
// it decays so that messages stay small while paths of depth 5-6 remain frequent.
var populate = []float64{0.55, 0.4, 0.3, 0.22, 0.18, 0.1}

// MaxDepth is the deepest nesting RandMessage creates.
const MaxDepth = 5

// Fill populates msg at random (descriptor-driven, every field kind, every map key kind).
func Fill(r *rand.Rand, msg protoreflect.Message, depth int) {
	fds := msg.Descriptor().Fields()
	for i := 0; i < fds.Len(); i++ {
		fd := fds.Get(i)
		isMsg := fd.Kind() == protoreflect.MessageKind || fd.Kind() == protoreflect.GroupKind ||
			(fd.IsMap() && fd.MapValue().Kind() == protoreflect.MessageKind)
		if isMsg {
			if depth > MaxDepth || r.Float64() >= populate[min(depth, len(populate)-1)] {
				continue
			}
		} else if r.IntN(4) == 0 {
			continue
		}
		switch {
		case fd.IsMap():
			mp := msg.Mutable(fd).Map()
			var keys []Lit
			for n := 1 + r.IntN(3); n > 0; n-- {
				l := RandKeyLit(r, fd.MapKey().Kind())
				keys = append(keys, l)
				if l.Kind == LStr && r.IntN(2) == 0 {
					for _, cf := range Confusables(l.S) {
						keys = append(keys, Lit{Kind: LStr, S: cf})
					}
				}
			}
			for _, l := range keys {
				k, _ := KeyOf(fd.MapKey().Kind(), l)
				if fd.MapValue().Kind() == protoreflect.MessageKind {
					v := mp.NewValue()
					if r.IntN(6) != 0 {
						Fill(r, v.Message(), depth+1)
					}
					mp.Set(k, v)
				} else {
					mp.Set(k, randScalar(r, fd.MapValue()))
				}
			}
		case fd.IsList():
			l := msg.Mutable(fd).List()
			n := 1 + r.IntN(3)
			if !isMsg && r.IntN(3) == 0 {
				n = 9 + r.IntN(12) // indices whose octal, decimal and hex spellings differ
			}
			for ; n > 0; n-- {
				if isMsg {
					v := l.NewElement()
					if r.IntN(6) != 0 {
						Fill(r, v.Message(), depth+1)
					}
					l.Append(v)
				} else {
					l.Append(randScalar(r, fd))
				}
			}
		case isMsg:
			m := msg.Mutable(fd).Message()
			if r.IntN(6) != 0 { // else: present but empty
				Fill(r, m, depth+1)
			}
		default:
			msg.Set(fd, randScalar(r, fd))
		}
	}
}

// RandMessage returns a new random message of the type of proto.
func RandMessage(r *rand.Rand, mt protoreflect.MessageType) protoreflect.Message {
	m := mt.New()
	Fill(r, m, 0)
	return m
}

// GenOpts steers RandPath.
type GenOpts struct {
	MaxSteps  int
	AbsentPct int // percent chance, at each index, of addressing a missing element
}

// RandPath draws a well-typed structured path by walking root: fields by descriptor, indices
// mostly from the elements root really has (so that deep paths are present), sometimes from
// elements it does not have (absent).
func RandPath(r *rand.Rand, root protoreflect.Message, o GenOpts) []Step {
	var steps []Step
	cur := root
	nfield := 1 + r.IntN(max(1, o.MaxSteps))
	for n := 0; n < nfield; n++ {
		fds := cur.Descriptor().Fields()
		if fds.Len() == 0 {
			break
		}
		// prefer populated fields, so that the walk can go deep
		var pop []protoreflect.FieldDescriptor
		cur.Range(func(fd protoreflect.FieldDescriptor, _ protoreflect.Value) bool { pop = append(pop, fd); return true })
		var fd protoreflect.FieldDescriptor
		if len(pop) > 0 && r.IntN(5) != 0 {
			// Range order is unspecified: order by number first so that the draw is reproducible
			sortFDs(pop)
			fd = pop[r.IntN(len(pop))]
			if r.IntN(4) == 0 { // string keys have by far the most spellings: visit them more often
				for _, p := range pop {
					if p.IsMap() && p.MapKey().Kind() == protoreflect.StringKind {
						fd = p
					}
				}
			}
		} else {
			fd = fds.Get(r.IntN(fds.Len()))
		}
		steps = append(steps, F(string(fd.Name())))
		v := cur.Get(fd)
		switch {
		case fd.IsMap():
			if r.IntN(8) == 0 {
				return steps // the map itself
			}
			keys := sortedKeys(v.Map(), fd.MapKey().Kind())
			if len(keys) == 0 || r.IntN(100) < o.AbsentPct {
				steps = append(steps, I(RandKeyLit(r, fd.MapKey().Kind())))
				k, _ := KeyOf(fd.MapKey().Kind(), steps[len(steps)-1].Lit)
				if !v.Map().Has(k) {
					return extendBlind(r, steps, fd.MapValue().Message(), o)
				}
				if fd.MapValue().Kind() != protoreflect.MessageKind {
					return steps
				}
				cur = v.Map().Get(k).Message()
				continue
			}
			k := keys[r.IntN(len(keys))]
			steps = append(steps, I(LitOfKey(fd.MapKey().Kind(), k)))
			if fd.MapValue().Kind() != protoreflect.MessageKind {
				return steps
			}
			cur = v.Map().Get(k).Message()
		case fd.IsList():
			if r.IntN(8) == 0 {
				return steps // the list itself
			}
			n := v.List().Len()
			if n == 0 || r.IntN(100) < o.AbsentPct {
				idx := []uint64{uint64(n), uint64(n) + 1, uint64(n) + uint64(r.IntN(1000)), math.MaxInt32, math.MaxInt64, 1 << 32}[r.IntN(6)]
				steps = append(steps, Step{Index: true, Lit: UintLit(idx), OnList: true})
				return extendBlind(r, steps, fd.Message(), o)
			}
			idx := r.IntN(n)
			steps = append(steps, Step{Index: true, Lit: UintLit(uint64(idx)), OnList: true})
			if fd.Kind() != protoreflect.MessageKind {
				return steps
			}
			cur = v.List().Get(idx).Message()
		case fd.Kind() == protoreflect.MessageKind || fd.Kind() == protoreflect.GroupKind:
			cur = v.Message()
		default:
			return steps
		}
	}
	return steps
}

// extendBlind continues a path below an absent element by descriptor only (the absent element
// has no value to walk): absent stays absent however the path goes on.
func extendBlind(r *rand.Rand, steps []Step, md protoreflect.MessageDescriptor, o GenOpts) []Step {
	for md != nil && r.IntN(2) == 0 && md.Fields().Len() > 0 {
		fd := md.Fields().Get(r.IntN(md.Fields().Len()))
		steps = append(steps, F(string(fd.Name())))
		switch {
		case fd.IsMap():
			steps = append(steps, I(RandKeyLit(r, fd.MapKey().Kind())))
			md = fd.MapValue().Message()
		case fd.IsList():
			steps = append(steps, I(UintLit(uint64(r.IntN(3)))))
			md = fd.Message()
		default:
			md = fd.Message()
		}
	}
	return steps
}

func sortFDs(f []protoreflect.FieldDescriptor) {
	for i := 1; i < len(f); i++ {
		for j := i; j > 0 && f[j].Number() < f[j-1].Number(); j-- {
			f[j], f[j-1] = f[j-1], f[j]
		}
	}
}

// sortedKeys returns the keys of a map in a reproducible order.
func sortedKeys(m protoreflect.Map, kind protoreflect.Kind) []protoreflect.MapKey {
	var ks []protoreflect.MapKey
	m.Range(func(k protoreflect.MapKey, _ protoreflect.Value) bool { ks = append(ks, k); return true })
	less := func(a, b protoreflect.MapKey) bool {
		switch kind {
		case protoreflect.StringKind:
			return a.String() < b.String()
		case protoreflect.BoolKind:
			return !a.Bool() && b.Bool()
		case protoreflect.Int32Kind, protoreflect.Sint32Kind, protoreflect.Sfixed32Kind,
			protoreflect.Int64Kind, protoreflect.Sint64Kind, protoreflect.Sfixed64Kind:
			return a.Int() < b.Int()
		}
		return a.Uint() < b.Uint()
	}
	for i := 1; i < len(ks); i++ {
		for j := i; j > 0 && less(ks[j], ks[j-1]); j-- {
			ks[j], ks[j-1] = ks[j-1], ks[j]
		}
	}
	return ks
}

// SortedKeys is sortedKeys for callers outside the package.
func SortedKeys(m protoreflect.Map, kind protoreflect.Kind) []protoreflect.MapKey {
	return sortedKeys(m, kind)
}
