package c19

import (
	"context"
	"fmt"
	"io"
	"math/rand/v2"
	"os"
	"path/filepath"
	"time"

	exel "github.com/google/gce-tcb-verifier/extract/eventlog"
	"github.com/google/gce-tcb-verifier/gcetcbendorsement"
	gcmd "github.com/google/gce-tcb-verifier/gcetcbendorsement/cmd"
	epb "github.com/google/gce-tcb-verifier/proto/endorsement"
	"google.golang.org/protobuf/proto"
	"google.golang.org/protobuf/reflect/protoreflect"

	"verifharness/props/c19/pathref"
)

// The os-files family: state carried between command runs by the file system.
//
// All other CLI cases run on an in-memory IO whose "files" are replaced wholesale, so the CLI's
// real file backend (cmd.OSIO, what the shipped binary uses) was never executed, and no command
// ever wrote to a destination that already held something. Here a short sequence of
// `inspect payload|signature|mask FILE --out=DEST --bytesform=...` runs goes through cmd.OSIO in a
// private temporary directory; the 1-2 destinations are reused between the steps and may exist
// before the first one (absent / empty / left over with other content). After every step the
// monitor reads DEST back with os.ReadFile - what an external tool re-verifying the rendering
// would read - and judges it exactly like every other rendering: the file is the field bytes
// (bin, auto on a file) or decodes to them (hex, base64).

func runOSCLI(args ...string) error {
	b := &gcmd.Backend{Now: time.Date(2025, 3, 1, 0, 0, 0, 0, time.UTC), IO: gcmd.OSIO{},
		MakeEfiVariableReader: func(p string) exel.VariableReader { return exel.MakeEfiVarFSReader(p) }}
	root := gcmd.MakeRoot(gcmd.VerifWithBackend(context.Background(), b))
	root.SetArgs(args)
	root.SetOut(io.Discard)
	root.SetErr(io.Discard)
	root.SilenceUsage = true
	root.SilenceErrors = true
	return root.Execute()
}

func (k *checker) osFiles(i int, r *rand.Rand) {
	c := k.c
	// everything random is drawn before the file system is touched
	ne := 2 + r.IntN(2)
	type endorsement struct {
		e    *epb.VMLaunchEndorsement
		wire []byte
		dec  protoreflect.Message // what the payload decodes to, when it was generated as a golden measurement
		gp   [][]pathref.Step     // the populated bytes fields of dec
		name string
	}
	es := make([]*endorsement, ne)
	for j := range es {
		en := &endorsement{name: fmt.Sprintf("endorsement%d.binarypb", j)}
		if r.IntN(3) == 0 { // a real golden measurement inside, so that mask has bytes fields to print
			g := pathref.RandMessage(r, rtGolden.mt)
			payload, err := proto.MarshalOptions{Deterministic: true}.Marshal(g.Interface())
			dec := rtGolden.mt.New()
			if err == nil && proto.Unmarshal(payload, dec.Interface()) == nil {
				en.e = &epb.VMLaunchEndorsement{SerializedUefiGolden: payload, Signature: rawBytes(r)}
				bytesPaths(dec, nil, &en.gp, 0)
				en.dec = dec
			}
		}
		if en.e == nil {
			en.e = &epb.VMLaunchEndorsement{SerializedUefiGolden: rawBytes(r), Signature: rawBytes(r)}
		}
		en.wire, _ = proto.Marshal(en.e)
		es[j] = en
	}
	type dest struct {
		name    string
		initial string // absent | empty | leftover
		content []byte // what the monitor knows to be in the file (nil = absent)
	}
	dests := make([]*dest, 1+r.IntN(2))
	for j := range dests {
		d := &dest{name: fmt.Sprintf("out%d", j), initial: []string{"absent", "absent", "empty", "leftover", "leftover"}[r.IntN(5)]}
		switch d.initial {
		case "empty":
			d.content = []byte{}
		case "leftover":
			d.content = rawBytes(r)
			if len(d.content) == 0 {
				d.content = []byte("left over\n")
			}
		}
		dests[j] = d
	}
	type step struct {
		sub   string
		en    *endorsement
		d     *dest
		f     form
		path  string
		steps []pathref.Step
	}
	n := 2 + r.IntN(4)
	seq := make([]step, n)
	for j := range seq {
		s := step{en: es[r.IntN(len(es))], d: dests[r.IntN(len(dests))]}
		s.f = formOf([]gcetcbendorsement.BytesForm{gcetcbendorsement.BytesRaw, gcetcbendorsement.BytesRaw, gcetcbendorsement.BytesAuto, gcetcbendorsement.BytesAuto,
			gcetcbendorsement.BytesHex, gcetcbendorsement.BytesBase64}[r.IntN(6)], false)
		subs := []string{"payload", "signature", "signature"}
		if len(s.en.gp) > 0 {
			subs = append(subs, "mask", "mask", "mask")
		}
		s.sub = subs[r.IntN(len(subs))]
		if s.sub == "mask" {
			s.steps = s.en.gp[r.IntN(len(s.en.gp))]
			for try := 0; try < 8; try++ {
				s.path, _ = pathref.Render(r, "", s.steps)
				if cliSafe(s.path) {
					break
				}
			}
			if !cliSafe(s.path) {
				s.sub, s.path, s.steps = "signature", "", nil
			}
		}
		seq[j] = s
	}
	gen := fmt.Sprintf("render/os-files/steps=%d,destinations=%d", n, len(dests))
	c.Begin(i, gen, "cli inspect payload|signature|mask through cmd.OSIO", es[0].wire)

	dir, err := os.MkdirTemp("", "verif-c19-")
	if err == nil {
		defer os.RemoveAll(dir)
		for _, en := range es {
			if err == nil {
				err = os.WriteFile(filepath.Join(dir, en.name), en.wire, 0o644)
			}
		}
		for _, d := range dests {
			if err == nil && d.content != nil {
				err = os.WriteFile(filepath.Join(dir, d.name), d.content, 0o644)
			}
		}
	}
	if err != nil {
		// the monitor's own set-up failed: nothing about the repository was observed (a floor requires that some sequences ran)
		c.Count("os-files/environment-unavailable", 1)
		c.Note("os-files: could not prepare a temporary directory: %v", err)
		c.End(i)
		return
	}
	for j, s := range seq {
		entry := "cli inspect " + s.sub + " (os files)"
		out := filepath.Join(dir, s.d.name)
		args := []string{"inspect", s.sub, filepath.Join(dir, s.en.name), "--out=" + out, "--bytesform=" + s.f.cli}
		if s.sub == "mask" {
			args = append(args, "--path="+s.path)
		}
		var want []byte
		switch s.sub {
		case "payload":
			want = s.en.e.SerializedUefiGolden
		case "signature":
			want = s.en.e.Signature
		}
		before := "absent"
		if s.d.content != nil {
			before = fmt.Sprintf("%d bytes", len(s.d.content))
		}
		sgen := fmt.Sprintf("%s/step%d=%s,%s,destination %s (%s before this step; %s before the sequence)", gen, j, s.sub, s.f.cli, s.d.name, before, s.d.initial)
		var rerr error
		g := k.guard(i, entry, sgen, len(s.en.wire), func() { rerr = runOSCLI(args...) })
		if g.Panicked {
			break // the state of the destination is unknown from here on
		}
		got, readErr := os.ReadFile(out)
		if rerr != nil {
			c.Oracle(i, entry, "rendering-failed", sgen, "form %s: command failed on a well-formed endorsement file and a writable destination: %s", s.f.name, errText(rerr))
			break
		}
		if readErr != nil {
			c.Oracle(i, entry, "rendering-failed", sgen, "form %s: the command succeeded but its destination cannot be read: %s", s.f.name, errText(readErr))
			break
		}
		if s.sub == "mask" {
			w := pathref.Walk(s.en.dec, s.steps)
			want = w.Last().Bytes()
			k.judgeMask(i, entry, sgen, s.path, k.parses(i, sgen, s.path, rtGolden), s.en.dec, w, s.f, got, nil)
		} else {
			k.checkBytes(i, entry, sgen, s.f, want, got)
		}
		// how long an exact rendering is relative to what the destination held (evidence: the class
		// a forgotten truncation, an append or a positioned write depends on)
		rel := "onto-nothing"
		if s.d.content != nil && len(s.d.content) == 0 {
			rel = "onto-empty"
		}
		if len(s.d.content) > 0 {
			exact := len(want)
			switch s.f.cli {
			case "hex":
				exact = 2 * len(want)
			case "base64":
				exact = (len(want) + 2) / 3 * 4
			}
			switch {
			case exact < len(s.d.content):
				rel = "onto-longer-content"
			case exact == len(s.d.content):
				rel = "onto-equally-long-content"
			default:
				rel = "onto-shorter-content"
			}
		}
		c.Count("os-files/step/"+rel, 1)
		c.Cell("render|os-files|%s|%s|%s", s.sub, s.f.name, rel)
		if rel == "onto-longer-content" {
			k.osOverLonger++
		}
		k.osSteps++
		s.d.content = got
	}
	c.End(i)
}
