package c19

import (
	"bytes"
	"context"
	"errors"
	"fmt"
	"io"
	"math/rand/v2"
	"os"
	"path/filepath"
	"runtime"
	"runtime/debug"
	"strings"
	"sync"
	"syscall"
	"time"

	exel "github.com/google/gce-tcb-verifier/extract/eventlog"
	"github.com/google/gce-tcb-verifier/gcetcbendorsement"
	gcmd "github.com/google/gce-tcb-verifier/gcetcbendorsement/cmd"
	"github.com/google/gce-tcb-verifier/gcetcbendorsement/parsepath"
	epb "github.com/google/gce-tcb-verifier/proto/endorsement"
	"google.golang.org/protobuf/encoding/protowire"
	"google.golang.org/protobuf/proto"
	"google.golang.org/protobuf/reflect/protopath"
	"google.golang.org/protobuf/reflect/protoreflect"
	fmpb "google.golang.org/protobuf/types/known/fieldmaskpb"

	"verifharness/core"
	"verifharness/doubles"
	"verifharness/props/c19/pathref"
)

// Dimensions added by the workload audit (case numbers after the held and os-files families).
//
//   several  a field mask of 2-5 paths in ONE call (API, MaskOptions, CLI --path repeated / comma
//            separated), with empty bytes fields, repeated paths and absent elements at every
//            position; CLI runs that leave --bytesform / --out at their defaults; endorsement files
//            and payloads in non-canonical but equivalent protobuf encodings
//   fault    the writer refuses one Write call (first / last / any; once or from then on; nothing
//            or half of the buffer accepted): a call that reports success must have delivered an
//            exact rendering; the same options value is then used again with a sound writer
//   mixed    4-8 calls of all entry points, failing and good ones in random order, run one after the
//            other, by goroutines started together, or (renderings only) in lockstep: every
//            rendering goroutine is held inside its first Write until all of them are there
//   wire     CLI payload / signature / mask over non-canonical files (see several)
//   kinds    the real file backend with the endorsement behind a symbolic link or a FIFO and the
//            destination behind a symbolic link (to a longer file, or dangling)

// F35 candidate (unchanged tree): gcetcbendorsement/presentation.go writeBase64 drops the error of
// enc.Close(), which is the call that writes the final (partial) base64 group. A writer that
// refuses exactly that write goes unnoticed: the Inspect* call returns nil with the rendering cut
// short. Until the coordinator decides, such a case is counted, not judged.
const judgeBase64FinalGroupWriteFault = true

const (
	entSevAPI  = "InspectMask (several paths)"
	entSevCLI  = "cli inspect mask (several paths)"
	entSevOpts = "MaskOptions.Mask (several paths)"
)

func runCLIOn(bio gcmd.IO, args ...string) error {
	b := &gcmd.Backend{Now: time.Date(2025, 3, 1, 0, 0, 0, 0, time.UTC), IO: bio,
		MakeEfiVariableReader: func(p string) exel.VariableReader { return exel.MakeEfiVarFSReader(p) }}
	root := gcmd.MakeRoot(gcmd.VerifWithBackend(context.Background(), b))
	root.SetArgs(args)
	root.SetOut(io.Discard)
	root.SetErr(io.Discard)
	root.SilenceUsage = true
	root.SilenceErrors = true
	return root.Execute()
}

// unsetBytesPaths lists structured paths to singular bytes fields that are NOT populated (they
// read as the empty byte string), also below unset singular message fields.
func unsetBytesPaths(m protoreflect.Message, prefix []pathref.Step, out *[][]pathref.Step, depth int) {
	if len(*out) >= 32 || depth > 3 {
		return
	}
	fds := m.Descriptor().Fields()
	for j := 0; j < fds.Len(); j++ {
		fd := fds.Get(j)
		if fd.IsList() || fd.IsMap() {
			continue
		}
		p := append(append([]pathref.Step{}, prefix...), pathref.F(string(fd.Name())))
		switch {
		case fd.Kind() == protoreflect.BytesKind && !m.Has(fd):
			*out = append(*out, p)
		case fd.Kind() == protoreflect.MessageKind && (m.Has(fd) || depth < 1):
			unsetBytesPaths(m.Get(fd).Message(), p, out, depth+1)
		}
	}
}

// ---------------------------------------------------------------------------------------------
// Non-canonical but equivalent protobuf encodings

type wireRec struct {
	num protowire.Number
	typ protowire.Type
	val []byte // the field value as encoded (length prefix included)
}

func splitRecords(b []byte) ([]wireRec, bool) {
	var recs []wireRec
	for len(b) > 0 {
		num, typ, n := protowire.ConsumeTag(b)
		if n < 0 {
			return nil, false
		}
		m := protowire.ConsumeFieldValue(num, typ, b[n:])
		if m < 0 {
			return nil, false
		}
		recs = append(recs, wireRec{num, typ, append([]byte(nil), b[n:n+m]...)})
		b = b[n+m:]
	}
	return recs, true
}

// padVarint encodes v with extra redundant continuation bytes (at most 10 bytes in all).
func padVarint(v uint64, extra int) []byte {
	b := protowire.AppendVarint(nil, v)
	for ; extra > 0 && len(b) < 10; extra-- {
		b[len(b)-1] |= 0x80
		b = append(b, 0)
	}
	return b
}

var wireOpNames = []string{"reversed-field-order", "stale-duplicate-first", "non-minimal-varints", "unknown-fields", "field-repeated"}

// recode re-encodes the top level of a serialized message with 1-2 operators. stale is what an
// earlier, superseded occurrence of a bytes field holds (nil: the empty string, which is a valid
// encoding of every length-delimited field type).
func recode(r *rand.Rand, b []byte, stale []byte) ([]byte, []string) {
	recs, ok := splitRecords(b)
	if !ok || len(recs) == 0 {
		return b, nil
	}
	var ops []string
	pad := 0
	for n := 1 + r.IntN(2); n > 0; n-- {
		op := wireOpNames[r.IntN(len(wireOpNames))]
		switch op {
		case "reversed-field-order":
			for a, z := 0, len(recs)-1; a < z; a, z = a+1, z-1 {
				recs[a], recs[z] = recs[z], recs[a]
			}
		case "stale-duplicate-first":
			at := r.IntN(len(recs))
			dup := recs[at]
			switch dup.typ {
			case protowire.BytesType:
				dup.val = protowire.AppendBytes(nil, stale)
			case protowire.VarintType:
				dup.val = protowire.AppendVarint(nil, uint64(r.IntN(1000)))
			}
			recs = append(recs[:at:at], append([]wireRec{dup}, recs[at:]...)...)
		case "field-repeated":
			at := r.IntN(len(recs))
			recs = append(recs[:at:at], append([]wireRec{recs[at]}, recs[at:]...)...)
		case "unknown-fields":
			unk := []wireRec{{num: protowire.Number(1000 + r.IntN(1000)), typ: protowire.VarintType, val: protowire.AppendVarint(nil, 7)},
				{num: protowire.Number(3000 + r.IntN(1000)), typ: protowire.BytesType, val: protowire.AppendBytes(nil, []byte("unknown"))}}
			for _, u := range unk {
				at := r.IntN(len(recs) + 1)
				recs = append(recs[:at:at], append([]wireRec{u}, recs[at:]...)...)
			}
		case "non-minimal-varints":
			pad = 1 + r.IntN(2)
		}
		ops = append(ops, op)
	}
	var out []byte
	for _, rc := range recs {
		out = append(out, padVarint(protowire.EncodeTag(rc.num, rc.typ), pad)...)
		switch {
		case pad > 0 && rc.typ == protowire.BytesType:
			content, _ := protowire.ConsumeBytes(rc.val)
			out = append(out, padVarint(uint64(len(content)), pad)...)
			out = append(out, content...)
		case pad > 0 && rc.typ == protowire.VarintType:
			v, _ := protowire.ConsumeVarint(rc.val)
			out = append(out, padVarint(v, pad)...)
		default:
			out = append(out, rc.val...)
		}
	}
	return out, ops
}

// endorsementWorld is one endorsement with a golden measurement inside, as the CLI and the API see
// it: file bytes, the fields protobuf decodes from them, and what the payload decodes to.
type endorsementWorld struct {
	e        *epb.VMLaunchEndorsement // as decoded from wire
	wire     []byte
	dec      protoreflect.Message // golden measurement decoded from e.SerializedUefiGolden
	innerOps []string
	outerOps []string
}

// goldenWorld draws a golden measurement, marshals it (optionally non-canonically) into an
// endorsement and marshals that (optionally non-canonically) into file bytes. Everything the oracle
// expects is decoded from those bytes by protobuf itself, which is not the code under test.
func (k *checker) goldenWorld(r *rand.Rand, recodeInner, recodeOuter bool) *endorsementWorld {
	g := pathref.RandMessage(r, rtGolden.mt)
	canon, err := proto.MarshalOptions{Deterministic: true}.Marshal(g.Interface())
	if err != nil {
		return nil
	}
	w := &endorsementWorld{}
	payload := canon
	if recodeInner {
		payload, w.innerOps = recode(r, canon, nil)
	}
	dec := rtGolden.mt.New()
	if proto.Unmarshal(payload, dec.Interface()) != nil {
		k.c.Count("wire/recoded-payload-not-decodable(fallback to canonical)", 1)
		payload, w.innerOps = canon, nil
		dec = rtGolden.mt.New()
		if proto.Unmarshal(payload, dec.Interface()) != nil {
			return nil
		}
	}
	sig := rawBytes(r)
	stale := rawBytes(r)
	e := &epb.VMLaunchEndorsement{SerializedUefiGolden: payload, Signature: sig}
	wire, _ := proto.MarshalOptions{Deterministic: true}.Marshal(e)
	if recodeOuter {
		w2, ops := recode(r, wire, append([]byte("STALE"), stale...))
		e2 := &epb.VMLaunchEndorsement{}
		if proto.Unmarshal(w2, e2) == nil && bytes.Equal(e2.SerializedUefiGolden, payload) && bytes.Equal(e2.Signature, sig) {
			wire, w.outerOps = w2, ops
		} else {
			k.c.Count("wire/recoded-file-decodes-differently(fallback to canonical)", 1)
		}
	}
	w.e, w.wire, w.dec = e, wire, dec
	return w
}

func opsName(ops []string) string {
	if len(ops) == 0 {
		return "canonical"
	}
	return strings.Join(ops, "+")
}

// ---------------------------------------------------------------------------------------------
// several: one mask call with several paths

type slot struct {
	steps []pathref.Step
	text  string
	w     pathref.Walked
	class byte // b: non-empty bytes, e: empty bytes, v: another present value, a: absent, u: unwalkable
}

func classOf(w pathref.Walked) byte {
	switch w.Status {
	case pathref.Absent:
		return 'a'
	case pathref.IllTyped:
		return 'u'
	}
	if w.Final != "bytes" {
		return 'v'
	}
	if len(w.Last().Bytes()) == 0 {
		return 'e'
	}
	return 'b'
}

func encodingOf(f form) string {
	if f.form == gcetcbendorsement.BytesAuto {
		if f.term {
			return "base64"
		}
		return "bin"
	}
	return f.name
}

// absentVariant returns a path to a bytes element with one index changed to an element the message
// does not have (or, when no bytes path has an index, a random path that is mostly absent).
func absentVariant(r *rand.Rand, msg protoreflect.Message, bp [][]pathref.Step) []pathref.Step {
	var withIndex [][]pathref.Step
	for _, p := range bp {
		for _, s := range p {
			if s.Index {
				withIndex = append(withIndex, p)
				break
			}
		}
	}
	for try := 0; try < 8 && len(withIndex) > 0; try++ {
		p := append([]pathref.Step{}, withIndex[r.IntN(len(withIndex))]...)
		var idx []int
		for j, s := range p {
			if s.Index {
				idx = append(idx, j)
			}
		}
		at := idx[r.IntN(len(idx))]
		switch l := p[at].Lit; l.Kind {
		case pathref.LStr:
			p[at].Lit = pathref.Lit{Kind: pathref.LStr, S: l.S + "?"}
		case pathref.LBool:
			p[at].Lit = pathref.Lit{Kind: pathref.LBool, B: !l.B}
		default:
			p[at].Lit = pathref.UintLit(uint64(3 + r.IntN(40)))
		}
		if pathref.Walk(msg, p).Status == pathref.Absent {
			return p
		}
	}
	return pathref.RandPath(r, msg, pathref.GenOpts{MaxSteps: 4, AbsentPct: 90})
}

// judgeSeveral judges one mask call with several paths. Returns the outcome class.
func (k *checker) judgeSeveral(i int, entry, gen string, slots []*slot, parses []bool, msg protoreflect.Message, f form, out []byte, err error) string {
	c := k.c
	texts := make([]string, len(slots))
	pattern := make([]byte, len(slots))
	for j, s := range slots {
		texts[j], pattern[j] = s.text, s.class
	}
	viol := func(rule, format string, a ...any) {
		c.Violate(core.Violation{Kind: "oracle", Entry: entry, Site: rule, Gen: gen, Case: i,
			Detail: fmt.Sprintf("paths %s (classes %s), form %s: ", clipQ(texts), pattern, f.name) + fmt.Sprintf(format, a...),
			Witness: map[string]any{"paths": texts, "classes": string(pattern), "message_type": string(msg.Descriptor().FullName()), "message_text": showMsg(msg),
				"message_wire_b64": wireB64(msg), "output_b64": clip(out)}})
	}
	for j := range slots {
		if !parses[j] {
			if err != nil {
				c.Count("several/"+entry+"/path-parse-rejected", 1)
				return "parse-rejected"
			}
			c.Count("several/"+entry+"/succeeded-though-ParsePath-rejects-a-path(not judged)", 1)
			return "not-judged"
		}
	}
	firstBad := -1
	for j, s := range slots {
		if s.w.Status != pathref.Present {
			firstBad = j
			break
		}
	}
	if firstBad >= 0 {
		s := slots[firstBad]
		if err == nil {
			viol("value-for-"+map[pathref.Status]string{pathref.Absent: "absent-element", pathref.IllTyped: "unwalkable-path"}[s.w.Status],
				"path %d (%q) addresses nothing (%s) but the call succeeded with output %q", firstBad, s.text, s.w.Why, clipS(out))
			return "VALUE-FOR-" + strings.ToUpper(s.w.Status.String())
		}
		c.Count("several/"+entry+"/"+s.w.Status.String()+"-error", 1)
		if s.w.Status == pathref.Absent {
			k.absentErr++
			if firstBad > 0 {
				k.sevLateAbsent++
			}
		}
		return s.w.Status.String() + "-error"
	}
	if err != nil {
		viol("error-on-present-element", "every step of every path addresses an existing element but the call failed: %s", errTail(err))
		return "ERROR-ON-PRESENT"
	}
	var wants [][]byte
	for _, s := range slots {
		if s.class != 'b' && s.class != 'e' {
			c.Count("several/"+entry+"/non-bytes-rendered(not judged)", 1)
			return "not-judged"
		}
		wants = append(wants, s.w.Last().Bytes())
	}
	ok := true
	if encodingOf(f) == "bin" {
		// the fields themselves may hold newlines: the whole output is compared
		ok = k.checkBytes(i, entry, gen, f, bytes.Join(wants, []byte{'\n'}), out)
	} else {
		pieces := bytes.Split(out, []byte{'\n'})
		if len(pieces) != len(wants) {
			viol(encodingOf(f)+"-rendering-does-not-decode-to-field", "the output %q has %d line(s) for %d paths", clipS(out), len(pieces), len(wants))
			return "WRONG"
		}
		for j := range pieces {
			ok = k.checkBytes(i, entry, fmt.Sprintf("%s/line %d of %d", gen, j, len(pieces)), f, wants[j], pieces[j]) && ok
		}
	}
	if !ok {
		return "WRONG"
	}
	k.sevExact[entry]++
	for j, s := range slots {
		if s.class == 'e' && j < len(slots)-1 {
			k.sevEmptyBeforeLater++
			break
		}
	}
	return "exact"
}

func posClass(j, n int) string {
	switch {
	case j < 0:
		return "none"
	case j == 0:
		return "first"
	case j == n-1:
		return "last"
	}
	return "middle"
}

func (k *checker) several(i int, r *rand.Rand) {
	c := k.c
	entry := []string{entSevAPI, entSevAPI, entSevCLI, entSevCLI, entSevOpts}[r.IntN(5)]
	rt := rtGolden
	if entry == entSevOpts && r.IntN(3) != 0 {
		rt = rtTest
	}
	var msg protoreflect.Message
	var world *endorsementWorld
	if rt.name == rtGolden.name {
		world = k.goldenWorld(r, entry != entSevOpts && r.IntN(3) == 0, entry == entSevCLI && r.IntN(3) == 0)
		if world == nil {
			c.Note("several: golden round trip failed")
			return
		}
		msg = world.dec
	} else {
		msg = pathref.RandMessage(r, rt.mt)
	}
	var bp, up [][]pathref.Step
	bytesPaths(msg, nil, &bp, 0)
	unsetBytesPaths(msg, nil, &up, 0)
	n := 2 + r.IntN(4)
	slots := make([]*slot, n)
	for j := range slots {
		var steps []pathref.Step
		switch x := r.IntN(10); {
		case x < 5 && len(bp) > 0:
			steps = bp[r.IntN(len(bp))]
		case x < 7 && len(up) > 0:
			steps = up[r.IntN(len(up))]
		case x == 7 && j > 0:
			steps = slots[r.IntN(j)].steps
		case x == 8:
			steps = absentVariant(r, msg, bp)
		default:
			if all := append(append([][]pathref.Step{}, bp...), up...); len(all) > 0 {
				steps = all[r.IntN(len(all))]
			} else {
				steps = pathref.RandPath(r, msg, pathref.GenOpts{MaxSteps: 4})
			}
		}
		rootName := ""
		if r.IntN(4) == 0 {
			rootName = string(rt.mt.Descriptor().FullName())
		}
		text, _ := pathref.Render(r, rootName, steps)
		if entry == entSevCLI {
			for try := 0; try < 8 && !cliSafe(text); try++ {
				text, _ = pathref.Render(r, rootName, steps)
			}
			if !cliSafe(text) {
				steps = []pathref.Step{pathref.F("commit")}
				text = "commit"
			}
		}
		w := pathref.Walk(msg, steps)
		slots[j] = &slot{steps: steps, text: text, w: w, class: classOf(w)}
	}
	texts := make([]string, n)
	pattern := make([]byte, n)
	allBytes := true
	firstEmpty, firstBad := -1, -1
	for j, s := range slots {
		texts[j], pattern[j] = s.text, s.class
		allBytes = allBytes && (s.class == 'b' || s.class == 'e')
		if s.class == 'e' && firstEmpty < 0 {
			firstEmpty = j
		}
		if (s.class == 'a' || s.class == 'u') && firstBad < 0 {
			firstBad = j
		}
	}
	// CLI spelling of the --path flag and of the defaults, drawn before anything runs
	style := []string{"repeated", "comma-separated", "mixed", "separate-argument"}[r.IntN(4)]
	destMode := []string{"file", "file", "stdout-explicit", "stdout-by-default"}[r.IntN(4)]
	omitForm := r.IntN(2) == 0
	formPick := r.IntN(len(renderForms))
	gen := fmt.Sprintf("several/%s/classes=%s/file=%s,payload=%s", rt.name, pattern, opsName(worldOps(world, true)), opsName(worldOps(world, false)))
	c.Begin(i, gen, entry, []byte(strings.Join(texts, "\n")))
	parses := make([]bool, n)
	for j, t := range texts {
		parses[j] = k.parses(i, gen, t, rt)
	}
	forms := renderForms
	if !allBytes {
		forms = renderForms[formPick:][:1]
	}
	for _, f := range forms {
		var out []byte
		var err error
		panicked := false
		fgen := gen + "/form=" + f.name
		switch entry {
		case entSevAPI:
			rw := &recWriter{term: f.term}
			ctx := gcetcbendorsement.WithInspect(context.Background(), &gcetcbendorsement.Inspect{Writer: rw, Form: f.form})
			panicked = k.guard(i, entry, fgen, len(world.wire), func() {
				err = gcetcbendorsement.InspectMask(ctx, world.e, &fmpb.FieldMask{Paths: append([]string(nil), texts...)})
			}).Panicked
			out = rw.buf.Bytes()
		case entSevOpts:
			rw := &recWriter{term: f.term}
			opts := &gcetcbendorsement.MaskOptions{BytesForm: f.form, Writer: rw}
			panicked = k.guard(i, entry, fgen, len(texts), func() {
				err = opts.Mask(msg.Interface(), &fmpb.FieldMask{Paths: append([]string(nil), texts...)})
			}).Panicked
			out = rw.buf.Bytes()
		default:
			mio := doubles.NewMemIO()
			mio.Files[inFile] = world.wire
			mio.Terminal = f.term
			args := []string{"inspect", "mask", inFile}
			dest := outFile
			switch destMode {
			case "stdout-explicit":
				dest = "-"
				args = append(args, "--out=-")
			case "stdout-by-default":
				dest = "-"
			default:
				args = append(args, "--out="+outFile)
			}
			formDefault := f.cli == "auto" && omitForm
			if !formDefault {
				args = append(args, "--bytesform="+f.cli)
			}
			switch style {
			case "repeated":
				for _, t := range texts {
					args = append(args, "--path="+t)
				}
			case "comma-separated":
				args = append(args, "--path="+strings.Join(texts, ","))
			case "mixed":
				args = append(args, "--path="+strings.Join(texts[:n-1], ","), "--path="+texts[n-1])
			default:
				for _, t := range texts {
					args = append(args, "--path", t)
				}
			}
			fgen += fmt.Sprintf("/path-flag=%s,out=%s,bytesform-flag=%v", style, destMode, !formDefault)
			cli := &doubles.CLI{IO: mio, Now: time.Date(2025, 3, 1, 0, 0, 0, 0, time.UTC)}
			panicked = k.guard(i, entry, fgen, len(world.wire), func() { err = cli.Run(args...) }).Panicked
			out = mio.Files[dest]
			if !panicked {
				res := k.judgeSeveral(i, entry, fgen, slots, parses, msg, f, out, err)
				c.Cell("several|%s|%s|n=%d|empty=%s|bad=%s|%s", entry, encodingOf(f), n, posClass(firstEmpty, n), posClass(firstBad, n), res)
				c.Cell("several-cli|path-flag=%s|out=%s|bytesform-flag=%v|%s", style, destMode, !formDefault, res)
				c.Count("several/"+entry+"/"+res, 1)
				if res == "exact" {
					k.sevStyle[style]++
					if formDefault {
						k.sevDefaultForm++
					}
					if destMode == "stdout-by-default" {
						k.sevDefaultOut++
					}
					for _, op := range append(append([]string{}, world.innerOps...), world.outerOps...) {
						k.wireOK[op]++
					}
				}
			}
			continue
		}
		if panicked {
			continue
		}
		res := k.judgeSeveral(i, entry, fgen, slots, parses, msg, f, out, err)
		c.Cell("several|%s|%s|n=%d|empty=%s|bad=%s|%s", entry, encodingOf(f), n, posClass(firstEmpty, n), posClass(firstBad, n), res)
		if res == "exact" && world != nil {
			for _, op := range world.innerOps {
				k.wireOK[op]++
			}
		}
		c.Count("several/"+entry+"/"+res, 1)
	}
	if i%97 == 0 {
		c.Sample(map[string]any{"family": "several", "entry": entry, "paths": texts, "classes": string(pattern)})
	}
	c.End(i)
}

func worldOps(w *endorsementWorld, outer bool) []string {
	if w == nil {
		return nil
	}
	if outer {
		return w.outerOps
	}
	return w.innerOps
}

// ---------------------------------------------------------------------------------------------
// fault: a writer that refuses a write

var errInjected = errors.New("verif: injected write failure")

// faultWriter accepts writes until call number failAt (counting from 0; -1: never fails), which
// it refuses (accepting nothing, or the first half when short). When persistent, every later call
// is refused too. It remembers where in the accepted stream each call started.
type faultWriter struct {
	term       bool
	failAt     int
	short      bool
	persistent bool
	calls      int
	offs, lens []int
	acc        bytes.Buffer
	refused    int
}

func (w *faultWriter) IsTerminal() bool { return w.term }
func (w *faultWriter) Write(p []byte) (int, error) {
	idx := w.calls
	w.calls++
	w.offs = append(w.offs, w.acc.Len())
	w.lens = append(w.lens, len(p))
	if w.failAt >= 0 && (idx == w.failAt || (w.persistent && idx > w.failAt)) {
		w.refused++
		if w.short && len(p) > 1 {
			w.acc.Write(p[:len(p)/2])
			return len(p) / 2, errInjected
		}
		return 0, errInjected
	}
	w.acc.Write(p)
	return len(p), nil
}

// faultIO is a cmd.IO whose every created destination is one given writer.
type faultIO struct {
	files map[string][]byte
	w     gcetcbendorsement.TerminalWriter
}

func (f *faultIO) Create(string) (gcetcbendorsement.TerminalWriter, func(), error) {
	return f.w, func() {}, nil
}
func (f *faultIO) ReadFile(p string) ([]byte, error) {
	b, ok := f.files[p]
	if !ok {
		return nil, fmt.Errorf("open %s: no such file", p)
	}
	return append([]byte(nil), b...), nil
}

func (k *checker) fault(i int, r *rand.Rand) {
	c := k.c
	f := renderForms[r.IntN(len(renderForms))]
	if f.form != gcetcbendorsement.BytesAuto {
		f.term = r.IntN(2) == 0
	}
	enc := encodingOf(f)
	var entry string
	var wants [][]byte
	var call func(w gcetcbendorsement.TerminalWriter) error
	var texts []string
	maskRT := rtGolden
	inputLen := 0
	switch kind := r.IntN(8); {
	case kind < 3: // payload / signature through the API, one *Inspect for all calls of the case
		e := &epb.VMLaunchEndorsement{SerializedUefiGolden: rawBytes(r), Signature: rawBytes(r)}
		insp := &gcetcbendorsement.Inspect{Form: f.form}
		ctx := gcetcbendorsement.WithInspect(context.Background(), insp)
		if r.IntN(2) == 0 {
			entry, wants = "InspectPayload (write fault)", [][]byte{e.SerializedUefiGolden}
			call = func(w gcetcbendorsement.TerminalWriter) error {
				insp.Writer = w
				return gcetcbendorsement.InspectPayload(ctx, e)
			}
		} else {
			entry, wants = "InspectSignature (write fault)", [][]byte{e.Signature}
			call = func(w gcetcbendorsement.TerminalWriter) error {
				insp.Writer = w
				return gcetcbendorsement.InspectSignature(ctx, e)
			}
		}
		inputLen = len(wants[0])
	case kind < 5: // payload / signature through the CLI
		e := &epb.VMLaunchEndorsement{SerializedUefiGolden: rawBytes(r), Signature: rawBytes(r)}
		wire, _ := proto.Marshal(e)
		sub := []string{"payload", "signature"}[r.IntN(2)]
		entry, wants = "cli inspect "+sub+" (write fault)", [][]byte{e.SerializedUefiGolden}
		if sub == "signature" {
			wants = [][]byte{e.Signature}
		}
		call = func(w gcetcbendorsement.TerminalWriter) error {
			return runCLIOn(&faultIO{files: map[string][]byte{inFile: wire}, w: w}, "inspect", sub, inFile, "--out="+outFile, "--bytesform="+f.cli)
		}
		inputLen = len(wire)
	default: // one or two bytes fields through a mask
		var msg protoreflect.Message
		var world *endorsementWorld
		golden := kind < 7
		if golden {
			if world = k.goldenWorld(r, false, false); world == nil {
				return
			}
			msg = world.dec
		} else {
			msg, maskRT = pathref.RandMessage(r, rtTest.mt), rtTest
		}
		var bp [][]pathref.Step
		bytesPaths(msg, nil, &bp, 0)
		if len(bp) == 0 {
			c.Count("fault/no-bytes-field-in-the-message", 1)
			return
		}
		for n := 1 + r.IntN(2); n > 0; n-- {
			steps := bp[r.IntN(len(bp))]
			t, _ := pathref.Render(r, "", steps)
			texts = append(texts, t)
			wants = append(wants, pathref.Walk(msg, steps).Last().Bytes())
		}
		if golden {
			entry = "InspectMask (write fault)"
			insp := &gcetcbendorsement.Inspect{Form: f.form}
			ctx := gcetcbendorsement.WithInspect(context.Background(), insp)
			call = func(w gcetcbendorsement.TerminalWriter) error {
				insp.Writer = w
				return gcetcbendorsement.InspectMask(ctx, world.e, &fmpb.FieldMask{Paths: append([]string(nil), texts...)})
			}
			inputLen = len(world.wire)
		} else {
			entry = "MaskOptions.Mask (write fault)"
			opts := &gcetcbendorsement.MaskOptions{BytesForm: f.form}
			call = func(w gcetcbendorsement.TerminalWriter) error {
				opts.Writer = w
				return opts.Mask(msg.Interface(), &fmpb.FieldMask{Paths: append([]string(nil), texts...)})
			}
		}
	}
	// the plan of the fault, drawn before the repository runs
	where := []string{"first", "last", "any", "any"}[r.IntN(4)]
	pick := int(r.Uint32() >> 1)
	short, persistent := r.IntN(3) == 0, r.IntN(2) == 0
	total := 0
	for _, w := range wants {
		total += len(w)
	}
	gen := fmt.Sprintf("fault/%s/form=%s/fields=%d", entry, f.name, len(wants))
	c.Begin(i, gen, entry, bytes.Join(wants, nil))

	// judgeOut judges an output that the call reported as complete
	judgeOut := func(entry, gen string, out []byte) bool {
		ok := true
		if enc == "bin" {
			ok = k.checkBytes(i, entry, gen, f, bytes.Join(wants, []byte{'\n'}), out)
		} else if pieces := bytes.Split(out, []byte{'\n'}); len(pieces) != len(wants) {
			ok = false
			c.Violate(core.Violation{Kind: "oracle", Entry: entry, Site: enc + "-rendering-does-not-decode-to-field", Gen: gen, Case: i,
				Detail: fmt.Sprintf("form %s: the output %q has %d line(s) for %d fields", f.name, clipS(out), len(pieces), len(wants))})
		} else {
			for j := range pieces {
				ok = k.checkBytes(i, entry, gen, f, wants[j], pieces[j]) && ok
			}
		}
		return ok
	}

	// 1. a sound writer: how many Write calls does this rendering make, and where does each start
	dry := &faultWriter{term: f.term, failAt: -1}
	var err error
	if k.guard(i, entry, gen+"/sound-writer", inputLen, func() { err = call(dry) }).Panicked {
		c.End(i)
		return
	}
	if err != nil {
		// with a sound writer only a path that ParsePath rejects may fail (allowed, counted)
		allParse := true
		for _, t := range texts {
			allParse = allParse && k.parses(i, gen, t, maskRT)
		}
		if allParse {
			rule := "rendering-failed"
			if len(texts) > 0 {
				rule = "error-on-present-element"
			}
			c.Oracle(i, entry, rule, gen, "form %s: writing %d bytes of present bytes fields %s to a sound in-memory writer failed: %s", f.name, total, clipQ(texts), errText(err))
		} else {
			c.Count("fault/sound-run-failed-on-a-path-ParsePath-rejects", 1)
		}
		c.End(i)
		return
	}
	if !judgeOut(entry, gen+"/sound-writer", dry.acc.Bytes()) {
		c.End(i)
		return
	}
	if dry.calls == 0 {
		c.Count("fault/rendering-makes-no-write(nothing to refuse)", 1)
		c.Cell("fault|%s|%s|%s|no-write", entry, f.name, lenClass(total))
		c.End(i)
		return
	}
	failAt := pick % dry.calls
	switch where {
	case "first":
		failAt = 0
	case "last":
		failAt = dry.calls - 1
	}
	whereIs := posClass(failAt, dry.calls)
	if dry.calls == 1 {
		whereIs = "only"
	}
	// is the refused write the final base64 group of a field whose length is not a multiple of 3?
	finalGroup := false
	if enc == "base64" {
		end := 0
		for j, w := range wants {
			end += (len(w) + 2) / 3 * 4
			if len(w)%3 != 0 && dry.offs[failAt] == end-4 && dry.lens[failAt] == 4 {
				finalGroup = true
			}
			if j < len(wants)-1 {
				end++ // the separator
			}
		}
	}
	// 2. the same call, with write number failAt refused
	fw := &faultWriter{term: f.term, failAt: failAt, short: short, persistent: persistent}
	fgen := fmt.Sprintf("%s/write %d of %d refused (accepting %s; %s)", gen, failAt+1, dry.calls, map[bool]string{false: "nothing", true: "half of it"}[short],
		map[bool]string{false: "that write only", true: "and every later one"}[persistent])
	if k.guard(i, entry, fgen, inputLen, func() { err = call(fw) }).Panicked {
		c.End(i)
		return
	}
	outcome := "error-reported"
	switch {
	case fw.refused == 0:
		outcome = "refused-write-never-made" // the call wrote differently this time: judged like a sound run
		if err == nil {
			judgeOut(entry, fgen, fw.acc.Bytes())
		}
	case err != nil:
		k.faultReported[enc]++
		if whereIs == "last" || whereIs == "only" {
			k.faultLastReported++
		}
	case finalGroup && !judgeBase64FinalGroupWriteFault:
		outcome = "KNOWN-base64-final-group-write-error-ignored(counted, not judged)"
		c.Count("fault/known-candidate-F35/base64-final-group-write-error-ignored", 1)
		c.Note("F35 candidate (counted, not judged): writeBase64 (gcetcbendorsement/presentation.go) ignores the error of enc.Close(); when the writer refuses the write of the final base64 group the Inspect* / Mask call returns nil with the rendering cut short")
	default:
		// success was reported although the writer refused a write: what the writer accepted must
		// nevertheless be an exact rendering (it cannot be, unless the call wrote it again)
		outcome = "complete-anyway"
		if !judgeOut(entry, fgen+" but the call reported success", fw.acc.Bytes()) {
			outcome = "INCOMPLETE-BUT-SUCCESS"
		}
	}
	c.Count("fault/"+enc+"/"+outcome, 1)
	c.Cell("fault|%s|%s|%s-write|short=%v|persistent=%v|%s", entry, enc, whereIs, short, persistent, outcome)
	// 3. the caller carries on with the same options value and a sound writer
	again := &faultWriter{term: f.term, failAt: -1}
	agen := fgen + ", then the same call with a sound writer"
	if !k.guard(i, entry, agen, inputLen, func() { err = call(again) }).Panicked {
		if err != nil {
			c.Oracle(i, entry, "rendering-failed", agen, "form %s: writing %d bytes to a sound in-memory writer failed after an earlier call met a write failure: %s", f.name, total, errText(err))
		} else if judgeOut(entry, agen, again.acc.Bytes()) {
			k.faultThenExact++
		}
	}
	c.End(i)
}

// ---------------------------------------------------------------------------------------------
// mixed: failing and good calls of all entry points in one process, in sequence or at the same time

// barrier releases everybody once need participants have arrived.
type barrier struct {
	mu   sync.Mutex
	need int
	have int
	ch   chan struct{}
}

func (b *barrier) arrive() {
	b.mu.Lock()
	b.have++
	if b.have == b.need {
		close(b.ch)
	}
	b.mu.Unlock()
}

// lockWriter holds its first Write until every participant of the barrier has reached its own
// first Write (or has finished without writing). Then it records like recWriter.
type lockWriter struct {
	term bool
	b    *barrier
	once sync.Once
	buf  bytes.Buffer
}

func (w *lockWriter) IsTerminal() bool { return w.term }
func (w *lockWriter) Write(p []byte) (int, error) {
	if w.b != nil {
		w.once.Do(func() { w.b.arrive(); <-w.b.ch })
	}
	return w.buf.Write(p)
}
func (w *lockWriter) finished() {
	if w.b != nil {
		w.once.Do(w.b.arrive)
	}
}

type evalRes struct {
	vs  protopath.Values
	err error
}

type mixOp struct {
	kind    string // eval | render
	failing bool   // generated to fail (a text that should not parse, an absent element)
	label   string
	// eval
	rt    rootType
	text  string
	steps []pathref.Step // nil: judged by the typed walk of whatever the parser returned
	msgs  []namedMsg
	pp    protopath.Path
	perr  error
	res   []evalRes
	// render
	entry  string
	f      form
	call   func(w gcetcbendorsement.TerminalWriter) error
	want   []byte
	msg    protoreflect.Message
	wk     pathref.Walked
	isMask bool
	parses bool
	w      *lockWriter
	rerr   error
	// a panic caught in the op's own goroutine
	panicked     bool
	pmsg, psite  string
	wasGoodAfter bool
	scribble     bool // eval with steps: overwrite the returned path after the evaluations
}

func (o *mixOp) run(recoverHere bool) {
	if recoverHere {
		defer func() {
			if p := recover(); p != nil {
				o.panicked, o.pmsg, o.psite = true, fmt.Sprint(p), core.PanicSite(debug.Stack())
			}
		}()
	}
	if o.kind == "render" {
		defer o.w.finished()
		o.rerr = o.call(o.w)
		return
	}
	o.pp, o.perr = parsepath.ParsePath(o.rt.mt.Descriptor(), o.text)
	if o.perr != nil {
		return
	}
	for _, nm := range o.msgs {
		vs, err := parsepath.PathValues(o.pp, nm.m.Interface())
		o.res = append(o.res, evalRes{vs, err})
	}
	if o.scribble {
		// the caller owns the path it was given: it re-uses the slice for something else. A later
		// ParsePath of the same text must not be affected.
		for j := range o.pp {
			o.pp[j] = o.pp[0]
		}
	}
}

var brokenTails = []string{`["abc`, `['abc`, `["\q"]`, `["\`, `["a\x"]`, `["\u12"]`, `["\U0011"]`, "[\"a\nb\"]", "[\"a\x00\"]", "[\"\xff\"]", `[`, `[0`, `.`, `..x`, `[0]]`, `[[0]]`, `.(`, `)`, `[0x]`, `[--1]`, `.nosuch`, `["a"]["b"]`, `[true][false]`}
var brokenHeads = []string{`(`, `(testprotopath.`, `(testprotopath.Test`, `(a.b.c).`, `(endorsement.VMGoldenMeasurement.`, `()`, `(.`, `.`, `[0].`, `"a".`}

func (k *checker) mixedOps(i int, r *rand.Rand, gen string, n int, rendersOnly bool, oneForm *form) []*mixOp {
	roots := []rootType{rtTest, rtTest, rtNested, rtGolden, rtEndors}
	var ops []*mixOp
	var evals []*mixOp
	for j := 0; j < n; j++ {
		x := r.IntN(20)
		if rendersOnly {
			x = 10 + r.IntN(6)
		}
		o := &mixOp{}
		switch {
		case x < 6: // a well-typed path on the message it was drawn from, another one and the empty one
			if len(evals) > 0 && r.IntN(4) == 0 { // the same text on the very same message values once more
				p := evals[r.IntN(len(evals))]
				o.kind, o.rt, o.text, o.steps, o.msgs, o.label = "eval", p.rt, p.text, p.steps, p.msgs, "path-again"
				if !p.failing && p.label != "same-text-other-root" {
					p.scribble = true
					o.label = "path-again-after-the-caller-overwrote-the-first-result"
				}
			} else if r.IntN(5) == 0 { // one text that is a path of two root types (Test.nested is field 1, Test.Nested.nested field 4)
				o.kind, o.rt, o.label = "eval", rtTest, "same-text-other-root"
				for d := 1 + r.IntN(3); d > 0; d-- {
					o.steps = append(o.steps, pathref.F("nested"))
				}
				o.text, _ = pathref.Render(r, "", o.steps)
				o.msgs = []namedMsg{{"random", pathref.RandMessage(r, rtTest.mt)}}
				twin := &mixOp{kind: "eval", rt: rtNested, label: "same-text-other-root", steps: o.steps, text: o.text,
					msgs: []namedMsg{{"random", pathref.RandMessage(r, rtNested.mt)}}}
				if r.IntN(2) == 0 {
					o, twin = twin, o
				}
				ops = append(ops, twin)
			} else {
				o.kind, o.rt, o.label = "eval", roots[r.IntN(len(roots))], "path"
				m0 := pathref.RandMessage(r, o.rt.mt)
				o.steps = pathref.RandPath(r, m0, pathref.GenOpts{MaxSteps: 6, AbsentPct: []int{0, 0, 25}[r.IntN(3)]})
				rootName := ""
				if r.IntN(3) == 0 {
					rootName = string(o.rt.mt.Descriptor().FullName())
				}
				o.text, _ = pathref.Render(r, rootName, o.steps)
				o.msgs = []namedMsg{{"drawn-from", m0}, {"empty", o.rt.mt.New()}}
				if len(o.steps) == 0 {
					o.steps = []pathref.Step{}
				}
			}
			evals = append(evals, o)
		case x < 10: // a text that breaks off or goes wrong in the scanner / parser
			o.kind, o.rt, o.failing, o.label = "eval", roots[r.IntN(len(roots))], true, "broken-text"
			m0 := pathref.RandMessage(r, o.rt.mt)
			steps := pathref.RandPath(r, m0, pathref.GenOpts{MaxSteps: 4})
			t, _ := pathref.Render(r, "", steps)
			switch r.IntN(4) {
			case 0:
				t = t + brokenTails[r.IntN(len(brokenTails))]
			case 1:
				t = brokenHeads[r.IntN(len(brokenHeads))] + t
			case 2:
				t = mutateText(r, mutateText(r, t))
			default:
				t = brokenHeads[r.IntN(len(brokenHeads))] + brokenTails[r.IntN(len(brokenTails))]
			}
			o.text = t
			o.msgs = []namedMsg{{"random", m0}}
		default: // a rendering
			o.kind = "render"
			f := renderForms[r.IntN(len(renderForms))]
			if f.form != gcetcbendorsement.BytesAuto {
				f.term = r.IntN(2) == 0
			}
			if oneForm != nil {
				f = *oneForm
			}
			o.f = f
			o.w = &lockWriter{term: f.term}
			switch y := r.IntN(10); {
			case y < 3:
				e := &epb.VMLaunchEndorsement{SerializedUefiGolden: rawBytes(r), Signature: rawBytes(r)}
				ctx := gcetcbendorsement.WithInspect(context.Background(), &gcetcbendorsement.Inspect{Writer: o.w, Form: f.form})
				if r.IntN(2) == 0 {
					o.entry, o.want, o.label = "InspectPayload (mixed calls)", e.SerializedUefiGolden, "payload"
					o.call = func(gcetcbendorsement.TerminalWriter) error { return gcetcbendorsement.InspectPayload(ctx, e) }
				} else {
					o.entry, o.want, o.label = "InspectSignature (mixed calls)", e.Signature, "signature"
					o.call = func(gcetcbendorsement.TerminalWriter) error { return gcetcbendorsement.InspectSignature(ctx, e) }
				}
			default:
				o.isMask = true
				golden := y < 6
				var world *endorsementWorld
				if golden {
					world = k.goldenWorld(r, false, false)
				}
				var rt rootType
				if world != nil {
					o.msg, rt = world.dec, rtGolden
				} else {
					golden = false
					o.msg, rt = pathref.RandMessage(r, rtTest.mt), rtTest
				}
				o.rt = rt
				var bp [][]pathref.Step
				bytesPaths(o.msg, nil, &bp, 0)
				var steps []pathref.Step
				wantAbsent := !rendersOnly && r.IntN(4) == 0
				switch {
				case wantAbsent || len(bp) == 0:
					steps = pathref.RandPath(r, o.msg, pathref.GenOpts{MaxSteps: 4, AbsentPct: 90})
				default:
					steps = bp[r.IntN(len(bp))]
				}
				o.text, _ = pathref.Render(r, "", steps)
				o.wk = pathref.Walk(o.msg, steps)
				o.failing = o.wk.Status != pathref.Present
				o.label = "mask-" + o.wk.Status.String()
				if o.wk.Status == pathref.Present && o.wk.Final == "bytes" {
					o.want = o.wk.Last().Bytes()
				}
				text := o.text
				if golden {
					o.entry = "InspectMask (mixed calls)"
					ctx := gcetcbendorsement.WithInspect(context.Background(), &gcetcbendorsement.Inspect{Writer: o.w, Form: f.form})
					o.call = func(gcetcbendorsement.TerminalWriter) error {
						return gcetcbendorsement.InspectMask(ctx, world.e, &fmpb.FieldMask{Paths: []string{text}})
					}
				} else {
					o.entry = "MaskOptions.Mask (mixed calls)"
					opts := &gcetcbendorsement.MaskOptions{BytesForm: f.form, Writer: o.w}
					msg := o.msg
					o.call = func(gcetcbendorsement.TerminalWriter) error {
						return opts.Mask(msg.Interface(), &fmpb.FieldMask{Paths: []string{text}})
					}
				}
			}
		}
		ops = append(ops, o)
	}
	return ops
}

var mixedModes = []string{"one-after-the-other", "one-after-the-other", "started-together", "lockstep-renderings"}

func (k *checker) mixed(i int, r *rand.Rand) {
	c := k.c
	mode := mixedModes[r.IntN(len(mixedModes))]
	n := 4 + r.IntN(5)
	var oneForm *form
	if mode == "lockstep-renderings" {
		n = 3 + r.IntN(4)
		f := renderForms[r.IntN(len(renderForms))]
		if f.form != gcetcbendorsement.BytesAuto {
			f.term = r.IntN(2) == 0
		}
		oneForm = &f
	}
	gen := fmt.Sprintf("mixed/%s/calls=%d", mode, n)
	if oneForm != nil {
		gen += "/form=" + oneForm.name
	}
	ops := k.mixedOps(i, r, gen, n, mode == "lockstep-renderings", oneForm)
	labels := make([]string, len(ops))
	inputs := make([]string, len(ops))
	for j, o := range ops {
		labels[j], inputs[j] = o.label, o.text
	}
	c.Begin(i, gen, "ParsePath/PathValues/Mask/Inspect* in one process", []byte(strings.Join(inputs, "\n")))
	// whether ParsePath accepts a mask's path is asked before the calls that are under observation
	for _, o := range ops {
		if o.isMask {
			o.parses = k.parses(i, gen, o.text, o.rt)
		}
	}
	seq := fmt.Sprintf("calls of the sequence, in order: %s", clipQ(labels))
	if mode == "one-after-the-other" {
		failedBefore := false
		for j, o := range ops {
			ent := entParse + "+" + entEval
			if o.kind == "render" {
				ent = o.entry
			}
			o.wasGoodAfter = failedBefore && !o.failing
			g := k.guard(i, ent, fmt.Sprintf("%s/call %d=%s", gen, j, o.label), len(o.text)+len(o.want), func() { o.run(false) })
			if g.Panicked {
				o.panicked, o.psite = true, "" // reported by guard
			}
			if o.kind == "eval" {
				c.Eval(len(o.res))
			}
			failedBefore = failedBefore || o.failing
		}
	} else {
		var wg sync.WaitGroup
		start := make(chan struct{})
		if mode == "lockstep-renderings" {
			b := &barrier{need: len(ops), ch: make(chan struct{})}
			for _, o := range ops {
				o.w.b = b
			}
		}
		k.guard(i, "concurrent calls", gen, 1<<16, func() {
			for _, o := range ops {
				wg.Add(1)
				go func(o *mixOp) {
					defer wg.Done()
					<-start
					o.run(true)
				}(o)
			}
			close(start)
			wg.Wait()
		})
		anyFailing := false
		for _, o := range ops {
			anyFailing = anyFailing || o.failing
			c.Eval(1 + len(o.res))
		}
		for _, o := range ops {
			o.wasGoodAfter = anyFailing && !o.failing
			if o.panicked {
				ent := entParse + "+" + entEval
				if o.kind == "render" {
					ent = o.entry
				}
				c.Violate(core.Violation{Kind: "panic", Entry: ent, Site: o.psite, Gen: gen, Case: i,
					Detail: fmt.Sprintf("call %q (%s) panicked while %d other calls ran at the same time: %s", o.text, o.label, len(ops)-1, o.pmsg)})
			}
		}
	}
	// everything is judged here, by one goroutine
	exactRenderings := 0
	for j, o := range ops {
		if o.panicked {
			continue
		}
		ogen := fmt.Sprintf("%s/call %d=%s [%s]", gen, j, o.label, seq)
		good := false
		if o.kind == "eval" {
			if o.perr != nil {
				c.Count("parse-rejected/mixed/"+o.label, 1)
				continue
			}
			steps := o.steps
			for x, nm := range o.msgs {
				var exp pathref.Walked
				if steps != nil {
					exp = pathref.Walk(nm.m, steps)
				} else {
					exp = pathref.WalkProtopath(nm.m, o.pp)
				}
				out := k.judgeEvalResult(i, "mixed", ogen, o.text, o.rt, nm, exp, o.res[x].vs, o.res[x].err)
				good = good || out == "value-equal"
			}
		} else if o.isMask {
			ok := k.judgeMask(i, o.entry, ogen, o.text, o.parses, o.msg, o.wk, o.f, o.w.buf.Bytes(), o.rerr)
			good = ok && o.rerr == nil && o.want != nil
		} else if o.rerr != nil {
			c.Oracle(i, o.entry, "rendering-failed", ogen, "form %s: writing %d bytes to an in-memory writer failed: %s", o.f.name, len(o.want), errText(o.rerr))
		} else {
			good = k.checkBytes(i, o.entry, ogen, o.f, o.want, o.w.buf.Bytes())
		}
		if good {
			if o.kind == "render" {
				exactRenderings++
			}
			if o.kind == "eval" && (o.label == "same-text-other-root" || strings.HasPrefix(o.label, "path-again-after")) {
				k.mixedSpecial[o.label]++
				c.Count("mixed/value-equal/"+o.label, 1)
			}
			if o.wasGoodAfter {
				k.mixedGoodAfterFailed[mode]++
			}
		}
	}
	if mode == "lockstep-renderings" && exactRenderings >= 2 {
		k.lockstepExact[encodingOf(*oneForm)]++
		c.Count("mixed/lockstep-batches-with-2+-exact-renderings/"+encodingOf(*oneForm), 1)
	}
	nfail := 0
	for _, o := range ops {
		if o.failing {
			nfail++
		}
	}
	c.Cell("mixed|%s|calls=%d|failing=%d", mode, len(ops), min(nfail, 3))
	if i%53 == 0 {
		c.Sample(map[string]any{"family": "mixed", "mode": mode, "calls": labels, "texts": inputs})
	}
	c.End(i)
}

// ---------------------------------------------------------------------------------------------
// wire: CLI over non-canonical endorsement files

func (k *checker) wireCLI(i int, r *rand.Rand) {
	c := k.c
	world := k.goldenWorld(r, r.IntN(2) == 0, true)
	if world == nil {
		c.Note("wire: golden round trip failed")
		return
	}
	var bp [][]pathref.Step
	bytesPaths(world.dec, nil, &bp, 0)
	subs := []string{"payload", "signature"}
	if len(bp) > 0 {
		subs = append(subs, "mask", "mask")
	}
	sub := subs[r.IntN(len(subs))]
	var steps []pathref.Step
	text := ""
	if sub == "mask" {
		steps = bp[r.IntN(len(bp))]
		for try := 0; try < 8; try++ {
			if text, _ = pathref.Render(r, "", steps); cliSafe(text) {
				break
			}
		}
		if !cliSafe(text) {
			sub, text, steps = "signature", "", nil
		}
	}
	entry := "cli inspect " + sub + " (non-canonical file)"
	omitForm, omitOut := r.IntN(3) == 0, r.IntN(3) == 0
	gen := fmt.Sprintf("wire/%s/file=%s,payload=%s", sub, opsName(world.outerOps), opsName(world.innerOps))
	c.Begin(i, gen, entry, world.wire)
	for _, f := range renderForms {
		mio := doubles.NewMemIO()
		mio.Files[inFile] = world.wire
		mio.Terminal = f.term
		args := []string{"inspect", sub, inFile}
		dest := outFile
		if omitOut {
			dest = "-"
		} else {
			args = append(args, "--out="+outFile)
		}
		formDefault := omitForm && f.cli == "auto"
		if !formDefault {
			args = append(args, "--bytesform="+f.cli)
		}
		if sub == "mask" {
			args = append(args, "--path="+text)
		}
		var err error
		cli := &doubles.CLI{IO: mio, Now: time.Date(2025, 3, 1, 0, 0, 0, 0, time.UTC)}
		fgen := fmt.Sprintf("%s/form=%s,out-flag=%v,bytesform-flag=%v", gen, f.name, !omitOut, !formDefault)
		if k.guard(i, entry, fgen, len(world.wire), func() { err = cli.Run(args...) }).Panicked {
			continue
		}
		out := mio.Files[dest]
		ok := false
		switch {
		case sub == "mask":
			ok = k.judgeMask(i, entry, fgen, text, k.parses(i, fgen, text, rtGolden), world.dec, pathref.Walk(world.dec, steps), f, out, err)
		case err != nil:
			c.Oracle(i, entry, "rendering-failed", fgen, "form %s: command failed on an endorsement file that protobuf decodes (encoding: file %s, payload %s): %s", f.name,
				opsName(world.outerOps), opsName(world.innerOps), errText(err))
		case sub == "payload":
			ok = k.checkBytes(i, entry, fgen, f, world.e.SerializedUefiGolden, out)
		default:
			ok = k.checkBytes(i, entry, fgen, f, world.e.Signature, out)
		}
		if err == nil && ok {
			for _, op := range append(append([]string{}, world.innerOps...), world.outerOps...) {
				k.wireOK[op]++
			}
			if formDefault {
				k.sevDefaultForm++
			}
			if omitOut {
				k.sevDefaultOut++
			}
		}
		for _, op := range world.outerOps {
			c.Cell("wire|%s|%s|file:%s", sub, encodingOf(f), op)
		}
		for _, op := range world.innerOps {
			c.Cell("wire|%s|%s|payload:%s", sub, encodingOf(f), op)
		}
		c.Cell("wire|%s|out-flag=%v|bytesform-flag=%v", sub, !omitOut, !formDefault)
	}
	c.End(i)
}

// ---------------------------------------------------------------------------------------------
// kinds: the real file backend with links and FIFOs

var inputKinds = []string{"regular", "symlink", "fifo", "symlink-to-fifo"}
var destKinds = []string{"fresh", "symlink-to-longer-file", "dangling-symlink", "longer-file"}

func (k *checker) osKinds(i int, r *rand.Rand) {
	c := k.c
	type step struct {
		sub, in, dest string
		f             form
		e             *epb.VMLaunchEndorsement
		wire          []byte
		leftover      []byte
	}
	n := 1 + r.IntN(3)
	seq := make([]step, n)
	for j := range seq {
		s := step{sub: []string{"payload", "signature"}[r.IntN(2)], in: inputKinds[r.IntN(len(inputKinds))], dest: destKinds[r.IntN(len(destKinds))]}
		s.f = formOf([]gcetcbendorsement.BytesForm{gcetcbendorsement.BytesRaw, gcetcbendorsement.BytesAuto, gcetcbendorsement.BytesHex, gcetcbendorsement.BytesBase64}[r.IntN(4)], false)
		for {
			s.e = &epb.VMLaunchEndorsement{SerializedUefiGolden: rawBytes(r), Signature: rawBytes(r)}
			if len(s.e.SerializedUefiGolden)+len(s.e.Signature) < 40000 { // a FIFO's buffer takes the whole file: the feeding goroutine never blocks in write
				break
			}
		}
		s.wire, _ = proto.Marshal(s.e)
		s.leftover = make([]byte, 200000+r.IntN(1000)) // longer than every rendering of < 40000 bytes
		for x := range s.leftover {
			s.leftover[x] = byte('A' + x%23)
		}
		seq[j] = s
	}
	gen := fmt.Sprintf("kinds/steps=%d", n)
	c.Begin(i, gen, "cli inspect payload|signature through cmd.OSIO (file kinds)", seq[0].wire)
	dir, err := os.MkdirTemp("", "verif-c19k-")
	if err != nil {
		c.Count("kinds/environment-unavailable", 1)
		c.Note("kinds: could not prepare a temporary directory: %v", err)
		c.End(i)
		return
	}
	defer os.RemoveAll(dir)
	for j, s := range seq {
		entry := "cli inspect " + s.sub + " (os file kinds)"
		sgen := fmt.Sprintf("%s/step%d=%s,%s,input=%s,destination=%s", gen, j, s.sub, s.f.cli, s.in, s.dest)
		in := filepath.Join(dir, fmt.Sprintf("in%d", j))
		out := filepath.Join(dir, fmt.Sprintf("out%d", j))
		target := filepath.Join(dir, fmt.Sprintf("target%d", j))
		real := in
		var setup error
		if s.in == "symlink" || s.in == "symlink-to-fifo" {
			real = in + ".real"
			setup = os.Symlink(real, in)
		}
		fifo := s.in == "fifo" || s.in == "symlink-to-fifo"
		if setup == nil {
			if fifo {
				setup = syscall.Mkfifo(real, 0o600)
			} else {
				setup = os.WriteFile(real, s.wire, 0o644)
			}
		}
		if setup == nil {
			switch s.dest {
			case "symlink-to-longer-file":
				if setup = os.WriteFile(target, s.leftover, 0o644); setup == nil {
					setup = os.Symlink(target, out)
				}
			case "dangling-symlink":
				setup = os.Symlink(target, out)
			case "longer-file":
				setup = os.WriteFile(out, s.leftover, 0o644)
			}
		}
		if setup != nil {
			c.Count("kinds/environment-unavailable", 1)
			c.Note("kinds: could not prepare the files of a step: %v", setup)
			break
		}
		// a FIFO is fed by a goroutine that opens it for writing (which waits for the reader)
		fed := make(chan struct{})
		if fifo {
			go func(wire []byte) {
				defer close(fed)
				if f, err := os.OpenFile(real, os.O_WRONLY, 0); err == nil {
					f.Write(wire)
					f.Close()
				}
			}(s.wire)
		} else {
			close(fed)
		}
		var rerr error
		g := k.guard(i, entry, sgen, len(s.wire), func() { rerr = runOSCLI("inspect", s.sub, in, "--out="+out, "--bytesform="+s.f.cli) })
		select {
		case <-fed:
		default:
			// the command never opened the FIFO (or the feeder is just about to finish): the feeder
			// still waits in open. Let it through and take whatever it writes, until it is done.
			if rf, err := os.OpenFile(real, os.O_RDONLY|syscall.O_NONBLOCK, 0); err == nil {
				buf := make([]byte, 1<<16)
			drain:
				for {
					select {
					case <-fed:
						break drain
					default:
						if n, _ := rf.Read(buf); n == 0 {
							runtime.Gosched()
						}
					}
				}
				rf.Close()
			} else {
				<-fed
			}
			c.Count("kinds/fifo-feeder-released-by-the-monitor", 1)
		}
		if g.Panicked {
			break
		}
		if rerr != nil {
			c.Oracle(i, entry, "rendering-failed", sgen, "form %s: command failed on a well-formed endorsement (input: %s) and a writable destination (%s): %s", s.f.name, s.in, s.dest, errText(rerr))
			break
		}
		got, readErr := os.ReadFile(out)
		if readErr != nil {
			c.Oracle(i, entry, "rendering-failed", sgen, "form %s: the command succeeded but its destination cannot be read: %s", s.f.name, errText(readErr))
			break
		}
		want := s.e.SerializedUefiGolden
		if s.sub == "signature" {
			want = s.e.Signature
		}
		if k.checkBytes(i, entry, sgen, s.f, want, got) {
			k.kindsOK["input="+s.in]++
			k.kindsOK["destination="+s.dest]++
		}
		c.Count("kinds/step/input="+s.in, 1)
		c.Count("kinds/step/destination="+s.dest, 1)
		c.Cell("kinds|%s|%s|input=%s|destination=%s", s.sub, s.f.name, s.in, s.dest)
	}
	c.End(i)
}
