package c02

// Family src (appended after the getter family): the endorsement of ONE call is available from
// several places at once, and the places DISAGREE; and options that belong to another entry point
// are already filled in when the validator is built.
//
//   SevValidate   SevValidateOptions.Endorsement (explicit)  x  the attestation's GCE firmware
//                 certificate-table entry (another validly signed endorsement of the session, the
//                 same one, garbage, empty, only an unrelated GUID)  x  a getter (by name / handing
//                 out another object)  x  named count  x  base policy / overwrite / test-only switch
//   validator     Options.Endorsement (explicit)  x  the serialized endorsement argument  x  getter
//                 x  Options.SNP as another entry point left it: nil, count only, or with a
//                 Measurement already in it (the value the caller checked with verify.Endorsement
//                 on the very same Options a moment ago, the caller's kept buffer, an empty slice)
//                 x  expected digest (of the winning / of the losing source)
//
// "That endorsement" of the property is decided by the documented precedence only where it is
// documented: an explicitly supplied endorsement wins (CLI --endorsement: "Overrides what could be
// extracted from the attestation"; verify.Options.Endorsement: "If endorsement is provided outside of
// the auxblob, use it"). Without an explicit one the oracle is lenient: an acceptance is fine when ANY
// source that was available to the call (attached entry / argument, whatever the getter handed out
// during the call) lists the report's measurement for the named count; when no usable source existed
// at all, every endorsement of the session counts. Only acceptances are judged.
//
// The report's measurement is what must be listed - never a measurement the options happen to carry.

import (
	"bytes"
	"fmt"

	"github.com/google/gce-tcb-verifier/extract/extractsev"
	"github.com/google/gce-tcb-verifier/gcetcbendorsement"
	"github.com/google/gce-tcb-verifier/sev"
	"github.com/google/gce-tcb-verifier/verify"
	cpb "github.com/google/go-sev-guest/proto/check"
	spb "github.com/google/go-sev-guest/proto/sevsnp"

	"verifharness/core"
	"verifharness/gen"
)

const unrelatedGUID = "00000000-feed-4f0e-9c2d-000000000001"

func runSources(c *core.Ctx, w *world, base int, tl *tally) int {
	n := c.N(160, 2000)
	loserRejected, prepopRejected, prepopAccepted, explicitOverAttachedAccepted := 0, 0, 0, 0
	for k := 0; k < n; k++ {
		i := base + k
		if !c.Mine(i) {
			continue
		}
		r := c.Rand(i)
		sh := genShape(r)
		nt := 2 + r.IntN(2)
		var ts []*table
		for j := 0; j < nt; j++ {
			ts = append(ts, genSessTable(r, sh, w.pki.Signer, w.nb))
		}
		gname := fmt.Sprintf("sources#%d tables=%d keys=%v", k, nt, sh.keys)
		c.Begin(i, gname, "sources", nil)
		b := &bucket{byName: map[string]int{}}
		for j, t := range ts {
			b.raws = append(b.raws, t.raw)
			for _, v := range only48(listedSNP(t.golden, 0)) {
				b.byName[verify.GCETcbURL(extractsev.GCETcbObjectName(sev.GCEUefiFamilyID, v))] = j
			}
		}
		mbuf := make([]byte, 48) // the caller's measurement buffer, kept for the whole session
		so := &gcetcbendorsement.SevValidateOptions{RootsOfTrust: w.roots, Now: w.now}
		type keptClosure struct {
			f snpFn
			o *verify.Options
		}
		type ckey struct {
			explicit, variant int
			req               uint32
		}
		closures := map[ckey]*keptClosure{}
		var prevM []byte
		steps := 36 + r.IntN(12)
		c.Count("src/sessions", 1)
		for s := 0; s < steps; s++ {
			var req uint32
			switch x := r.IntN(20); {
			case x < 6:
				req = 0
			case x < 18:
				req = sh.keys[r.IntN(len(sh.keys))]
			default:
				req = 7
			}
			// the places the endorsement of this call can come from
			explicit := -1
			if r.IntN(5) < 3 {
				explicit = r.IntN(nt)
			}
			akind, aidx := "absent", -1
			var attached []byte
			switch x := r.IntN(10); {
			case x < 6:
				aidx = r.IntN(nt)
				if explicit >= 0 && r.IntN(5) > 0 {
					aidx = (explicit + 1 + r.IntN(nt-1)) % nt
				}
				attached = cp(ts[aidx].raw)
				switch {
				case explicit < 0:
					akind = "an-endorsement"
				case aidx == explicit:
					akind = "same-endorsement"
				default:
					akind = "other-endorsement"
				}
			case x < 7:
				akind, attached = "garbage", rbytes(r, 40+r.IntN(200))
			case x < 8:
				akind, attached = "empty", []byte{}
			}
			gkind := "none"
			var getter verify.HTTPSGetter
			if x := r.IntN(6); x < 2 || (explicit < 0 && aidx < 0 && x < 5) {
				getter, gkind = b, "by-name"
				if r.IntN(3) == 0 {
					gkind = "other-object"
				}
			}
			b.mode, b.wrong, b.returned = gkind, r.IntN(nt), nil
			// the table the probe is drawn for: the one that ought to decide
			primary := explicit
			if primary < 0 {
				primary = aidx
			}
			if primary < 0 {
				primary = r.IntN(nt)
			}
			g := ts[primary].golden
			listedP := listedSNP(g, req)
			var loserReq, loserAny [][]byte
			if explicit >= 0 && aidx >= 0 && aidx != explicit {
				loserReq = minus(only48(listedSNP(ts[aidx].golden, req)), listedP)
				loserAny = minus(minus(only48(listedSNP(ts[aidx].golden, 0)), listedP), loserReq)
			}
			sprobe := func() (string, []byte) {
				l48 := only48(listedP)
				for try := 0; try < 4; try++ {
					switch r.IntN(13) {
					case 0, 1, 2:
						if v := pickOf(r, l48); v != nil {
							return "listed", cp(v)
						}
					case 3, 4, 5, 6:
						if v := pickOf(r, loserReq); v != nil {
							return "listed-by-losing-source", cp(v)
						}
					case 7:
						if v := pickOf(r, loserAny); v != nil {
							return "listed-by-losing-source-for-other-count", cp(v)
						}
					case 8:
						if v := pickOf(r, minus(only48(listedSNP(g, 0)), listedP)); v != nil {
							return "listed-for-other-request", cp(v)
						}
					case 9, 10:
						if v := pickOf(r, l48); v != nil {
							x := cp(v)
							x[r.IntN(48)] ^= 1 << r.IntN(8)
							return "one-bit-neighbour", x
						}
					case 11:
						if prevM != nil {
							return "measurement-of-previous-call", cp(prevM)
						}
					}
				}
				return "random", rbytes(r, 48)
			}
			mkind, m := sprobe()
			reqKind := snpReqKind(g, req)
			// what the oracle judges against, known only after the call (the getter records what it handed out)
			decide := func(digest []byte) (allowed, memberSomewhere bool, how string, listed [][]byte) {
				var ws []int
				switch {
				case explicit >= 0:
					ws, how = []int{explicit}, fmt.Sprintf("explicitly supplied endorsement #%d", explicit)
				default:
					seen := map[int]bool{}
					if aidx >= 0 {
						ws, seen[aidx] = append(ws, aidx), true
					}
					for _, idx := range b.returned {
						if idx >= 0 && !seen[idx] {
							ws, seen[idx] = append(ws, idx), true
						}
					}
					how = fmt.Sprintf("any of the available sources %v (attached #%d, getter handed out %v)", ws, aidx, b.returned)
					if len(ws) == 0 {
						for j := range ts {
							ws = append(ws, j)
						}
						how = "no usable source: every endorsement of the session"
					}
				}
				for _, j := range ws {
					l := listedSNP(ts[j].golden, req)
					listed = append(listed, l...)
					if len(m) == 48 && member(l, m) {
						memberSomewhere = true
						if len(digest) == 0 || bytes.Equal(digest, ts[j].golden.Digest) {
							allowed = true
						}
					}
				}
				return
			}
			srcCell := fmt.Sprintf("explicit=%v|attached=%s|getter=%s", explicit >= 0, akind, gkind)
			if r.IntN(2) == 0 { // ---- SevValidate ----
				a := gen.SnpAttestation(m, w.vcek)
				switch {
				case attached != nil:
					a.CertificateChain.Extras = map[string][]byte{sev.GCEFwCertGUID: attached}
					if r.IntN(4) == 0 {
						a.CertificateChain.Extras[unrelatedGUID] = rbytes(r, 16)
					}
				case r.IntN(3) == 0:
					a.CertificateChain.Extras = map[string][]byte{unrelatedGUID: rbytes(r, 16)}
					srcCell += "(unrelated-guid-only)"
				}
				var basePol *cpb.Policy
				bk := ""
				if r.IntN(3) == 0 {
					basePol, bk = &cpb.Policy{Policy: gen.ProdPolicy(), MinimumVersion: "0.0"}, "+base"
				}
				o := &gcetcbendorsement.SevValidateOptions{RootsOfTrust: w.roots, Now: w.now}
				name := "SevValidate(fresh-options)"
				if r.IntN(2) == 0 {
					o, name = so, "SevValidate(kept-options)"
				}
				o.Endorsement = nil
				if explicit >= 0 {
					o.Endorsement = ts[explicit].e
				}
				o.Getter = getter
				o.ExpectedLaunchVmsas, o.BasePolicy, o.Overwrite, o.TestonlyForceGCS = req, basePol, r.IntN(2) == 0, r.IntN(5) == 0
				ctx := w.ctx
				if r.IntN(4) == 0 {
					ctx = w.dead
				}
				var err error
				c.Guard(i, "src/"+name, gname, core.Budget{PanicNotJudged: true}, func() { err = gcetcbendorsement.SevValidate(ctx, a, o) })
				allowed, _, how, listed := decide(nil)
				outcome := "rejected"
				if err == nil {
					outcome = "accepted"
				}
				c.Cell("src|SevValidate|%s|force-gcs=%v%s|%s", srcCell, o.TestonlyForceGCS, bk, outcome)
				c.Cell("src|SevValidate|%s|%s|%s", srcCell, mkind, outcome)
				tl.judge(i, "src", name, "", reqKind, mkind, err == nil, allowed, "", gname,
					fmt.Sprintf("step %d: %s with %s force-gcs=%v overwrite=%v%s; request vmsas=%d report measurement(%s)=%x; judged against %s, which lists for that request %x",
						s, name, srcCell, o.TestonlyForceGCS, o.Overwrite, bk, req, mkind, m, how, listed), ts[primary].raw)
				if err != nil && mkind == "listed-by-losing-source" {
					loserRejected++
				}
				if err == nil && explicit >= 0 && akind == "other-endorsement" {
					explicitOverAttachedAccepted++
				}
				prevM = m
				continue
			}
			// ---- the validator closure ----
			// Options.SNP as the caller (or an earlier use of the same Options) left it
			variant := r.IntN(6)
			if variant == 0 && req != 0 {
				variant = 1
			}
			if variant >= 2 && len(only48(listedP)) == 0 && variant != 3 && variant != 5 {
				variant = 1
			}
			var snpo *verify.SNPOptions
			vkind := ""
			switch variant {
			case 0:
				vkind = "snp=nil"
			case 1:
				vkind, snpo = "snp={count}", &verify.SNPOptions{ExpectedLaunchVMSAs: req}
			case 2:
				vkind, snpo = "snp={count,measurement=listed-value}", &verify.SNPOptions{ExpectedLaunchVMSAs: req, Measurement: cp(pickOf(r, only48(listedP)))}
			case 3:
				if v := pickOf(r, only48(listedP)); v != nil && r.IntN(3) > 0 {
					copy(mbuf, v)
				}
				vkind, snpo = "snp={count,measurement=kept-buffer}", &verify.SNPOptions{ExpectedLaunchVMSAs: req, Measurement: mbuf}
			case 4:
				vkind, snpo = "snp={count,measurement=listed-value,checked-first}", &verify.SNPOptions{ExpectedLaunchVMSAs: req, Measurement: cp(pickOf(r, only48(listedP)))}
			default:
				vkind, snpo = "snp={count,measurement=empty}", &verify.SNPOptions{ExpectedLaunchVMSAs: req, Measurement: []byte{}}
			}
			prepop := snpo != nil && len(snpo.Measurement) == 48
			if prepop && r.IntN(3) == 0 {
				x := cp(snpo.Measurement)
				x[r.IntN(48)] ^= 1 << r.IntN(8)
				mkind, m = "one-bit-neighbour-of-options-measurement", x
			}
			if r.IntN(16) == 0 && len(m) == 48 {
				mkind, m = mkind+"[47-bytes]", m[:47]
			}
			var digest []byte
			dkind := ""
			if r.IntN(4) == 0 {
				switch x := r.IntN(3); {
				case x == 0:
					dkind, digest = "+digest=equal", cp(g.Digest)
				case x == 1 && explicit >= 0 && aidx >= 0 && aidx != explicit:
					dkind, digest = "+digest=of-losing-source", cp(ts[aidx].golden.Digest)
				case x == 1:
					dkind, digest = "+digest=of-other-endorsement", cp(ts[(primary+1)%nt].golden.Digest)
				default:
					x := cp(g.Digest)
					x[r.IntN(48)] ^= 1 << r.IntN(8)
					dkind, digest = "+digest=one-bit-off", x
				}
			}
			build := func() *keptClosure {
				o := &verify.Options{RootsOfTrust: w.roots, Now: w.now, SNP: snpo, ExpectedUefiSha384: digest, Getter: getter}
				if explicit >= 0 {
					o.Endorsement = ts[explicit].e
				}
				if variant == 4 || (prepop && r.IntN(3) == 0) {
					// the same Options first serve the entry point the measurement option is meant for
					var err error
					first := "verify.Endorsement(same-options-first)"
					if r.IntN(2) == 0 {
						c.Guard(i, "src/"+first, gname, core.Budget{PanicNotJudged: true}, func() { err = verify.Endorsement(ts[primary].raw, o) })
					} else {
						first = "verify.EndorsementProto(same-options-first)"
						c.Guard(i, "src/"+first, gname, core.Budget{PanicNotJudged: true}, func() { err = verify.EndorsementProto(ts[primary].e, o) })
					}
					dOK := len(digest) == 0 || bytes.Equal(digest, g.Digest)
					okM := member(listedP, snpo.Measurement)
					site := ""
					if okM && !dOK {
						site = "accepted-wrong-digest"
					}
					tl.judge(i, "src", first, dkind, reqKind, "options-measurement", err == nil, okM && dOK, site, gname,
						fmt.Sprintf("step %d: %s on endorsement #%d request vmsas=%d measurement %x listed %x digest%s", s, first, primary, req, snpo.Measurement, listedP, dkind), ts[primary].raw)
					c.Count("src/options-used-for-verify.Endorsement-before-SNPValidateFunc", 1)
				}
				return &keptClosure{f: verify.SNPValidateFunc(o), o: o}
			}
			name := "SNPValidateFunc(fresh-closure)"
			var kc *keptClosure
			// closures without digest and getter are kept and called again later in the session (their Options
			// value stays as it is; only the caller's kept buffer changes under variant 3)
			if digest == nil && getter == nil && r.IntN(2) == 0 {
				key := ckey{explicit, variant, req}
				kc = closures[key]
				if kc == nil || (variant != 3 && prepop && !member(listedP, kc.o.SNP.Measurement)) {
					kc = build()
					closures[key] = kc
				} else if variant == 2 || variant == 4 {
					// a kept closure keeps its own pre-populated value; the neighbour probe refers to it
					if mkind == "one-bit-neighbour-of-options-measurement" {
						x := cp(kc.o.SNP.Measurement)
						x[r.IntN(48)] ^= 1 << r.IntN(8)
						m = x
					}
				}
				name = "SNPValidateFunc(kept-closure)"
			} else {
				kc = build()
			}
			var arg []byte
			if attached != nil {
				arg = attached
			}
			att := &spb.Attestation{Report: &spb.Report{Measurement: m}}
			if variant == 3 && r.IntN(4) == 0 && len(m) == 48 {
				// the report's measurement and the options' measurement are the very same buffer
				copy(mbuf, m)
				att.Report.Measurement = mbuf
				vkind += "(aliases-report)"
			}
			var err error
			c.Guard(i, "src/"+name, gname, core.Budget{PanicNotJudged: true}, func() { err = kc.f(att, arg) })
			allowed, memberSomewhere, how, listed := decide(digest)
			site := ""
			if memberSomewhere && !allowed {
				site = "accepted-wrong-digest"
			}
			outcome := "rejected"
			if err == nil {
				outcome = "accepted"
			}
			c.Cell("src|SNPValidateFunc|%s|%s|%s", srcCell, vkind, outcome)
			c.Cell("src|SNPValidateFunc|%s|%s|%s", srcCell, mkind, outcome)
			tl.judge(i, "src", name, "["+vkind+"]"+dkind, reqKind, mkind, err == nil, allowed, site, gname,
				fmt.Sprintf("step %d: %s built from Options{Endorsement: %v, %s, getter=%s}%s called with argument=%s; request vmsas=%d report measurement(%s)=%x options measurement %x; judged against %s, which lists for that request %x",
					s, name, explicit >= 0, vkind, gkind, dkind, akind, req, mkind, m, kc.o.SNP.Measurement, how, listed), ts[primary].raw)
			if prepop {
				if err == nil {
					prepopAccepted++
				} else if !allowed {
					prepopRejected++
				}
			}
			if err != nil && mkind == "listed-by-losing-source" {
				loserRejected++
			}
			if err == nil && explicit >= 0 && akind == "other-endorsement" {
				explicitOverAttachedAccepted++
			}
			prevM = cp(m)
		}
		c.End(i)
	}
	c.Count("src/listed-only-by-the-losing-source:rejected", loserRejected)
	c.Count("src/explicit-endorsement-with-another-one-attached:accepted-listed", explicitOverAttachedAccepted)
	c.Count("src/validator-with-measurement-already-in-options:accepted-listed", prepopAccepted)
	c.Count("src/validator-with-measurement-already-in-options:rejected-unlisted-report", prepopRejected)
	c.Floor("src/losing-source-rejected", loserRejected > 0)
	c.Floor("src/explicit-over-attached-accepted", explicitOverAttachedAccepted > 0)
	c.Floor("src/prepopulated-options-accepted-listed", prepopAccepted > 0)
	c.Floor("src/prepopulated-options-rejected-unlisted", prepopRejected > 0)
	return n
}
