// Package c02: accepted attestations carry an endorsed measurement for the named configuration.
package c02

import (
	"bytes"
	"context"
	"fmt"
	"math/rand/v2"
	"sync"
	"time"

	"github.com/google/gce-tcb-verifier/gcetcbendorsement"
	epb "github.com/google/gce-tcb-verifier/proto/endorsement"
	"github.com/google/gce-tcb-verifier/timeproto"
	"github.com/google/gce-tcb-verifier/verify"
	cpb "github.com/google/go-sev-guest/proto/check"
	spb "github.com/google/go-sev-guest/proto/sevsnp"
	tcpb "github.com/google/go-tdx-guest/proto/checkconfig"
	"google.golang.org/protobuf/proto"

	"verifharness/core"
	"verifharness/gen"
)

func init() {
	core.Register(&core.Info{
		ID: "C02", Level: "exploration",
		Rule: "case = (generated measurement table signed genuinely: any subset of VMSA counts incl. non-GCE ones, colliding / wrong-length / empty values, optional SVSM, 0..6 TDX rows with duplicate RAM sizes; report measurement drawn from endorsed values, their one-bit neighbours, random, zero, wrong length; request: VMSA count / RAM size / expected digest). " +
			"Oracle: accept => measurement is 48 bytes (report-taking entry points) and a member of listedFor(request); listedFor(0)=all values+SVSM, listedFor(n)={measurements[n]} (+SVSM if n=1); TDX: MRTDs of rows with ram_gib==request compared as integers; a supplied digest must equal the endorsed one; derived policies must carry exactly those constraints and never an empty allow-list. " +
			"non-trivial = distinct (entry point, request kind, measurement kind, outcome class) cells. " +
			"Appended families, same rule, judged per call against the endorsement and request of THAT call: seq = sessions over 2-3 endorsements sharing count keys / RAM sizes on values the caller keeps " +
			"(options structs, measurement / digest / quote buffers refilled in place, closures, base policies, a reused decode receiver), probed with values another endorsement of the session lists for the same request, " +
			"with the previous call's measurement and with a value scribbled into a policy the library returned earlier; returned policies are re-judged after all later calls; failing calls in between. " +
			"cmix = different endorsements / requests / entry points in flight together. combo = digest x count x measurement, base policy x overwrite x endorsement source x test-only switch x cancelled context, " +
			"requests congruent to a listed count mod 2^8 / 2^16 / 2^31, keys 0 and 2^32-1, tables of 20-60 entries, TDX rows with a non-48-byte MRTD. getter = endorsement fetched through the caller's getter that fails, " +
			"hands out another object / garbage / its previous answer, and is retried (also with another count). " +
			"src = several sources of the endorsement present in one call and disagreeing (explicit option x certificate-table entry / closure argument x getter; an explicit one decides, otherwise any available source may), " +
			"probed with values only the losing source lists; validator built from Options that already carry a measurement (checked with verify.Endorsement on the same Options first, the caller's kept buffer, empty): the REPORT's measurement must be listed",
		Assumptions: []string{"endorsements are genuinely signed so that only the measurement clause decides", "SVSM measurement counts as listed for requests 0 and 1 (README: with an SVSM the VMSA count is 1)",
			"verify.SNP / EndorsementProto take a measurement option rather than a report, so only membership (not the 48-byte length) is required of them",
			"when a call has an explicitly supplied endorsement (SevValidateOptions.Endorsement / verify.Options.Endorsement) and another one attached to the attestation or passed as argument, 'that endorsement' is the explicit one (CLI: --endorsement 'Overrides what could be extracted from the attestation'; Options.Endorsement: 'If endorsement is provided outside of the auxblob, use it'); without an explicit one any available source may justify an acceptance",
			"when the endorsement is fetched through the caller's getter, 'that endorsement' is what the getter handed out during the call; if it handed out nothing usable an acceptance is judged against every endorsement of the session",
			"an endorsed TDX row with a zero-length MRTD (never produced by the signer) turns the derived allow-list into a wildcard; observed and counted, judging gated by judgeEmptyMrtdRows"},
		ShardsQuick: 8, ShardsThor: 16, TimeoutS: 600, TimeoutThor: 3000, Run: run,
	})
}

type table struct {
	golden *epb.VMGoldenMeasurement
	e      *epb.VMLaunchEndorsement
	raw    []byte
}

func rbytes(r *rand.Rand, n int) []byte {
	b := make([]byte, n)
	for i := range b {
		b[i] = byte(r.IntN(256))
	}
	return b
}

var counts = []uint32{1, 2, 3, 4, 8, 16, 22, 24, 30, 32, 44, 48, 56, 60, 64, 72, 80, 88, 96, 112, 128, 176, 180, 224, 240, 255, 1000}

func genTable(r *rand.Rand, signer *gen.Identity, nb time.Time) *table {
	g := &epb.VMGoldenMeasurement{Timestamp: timeproto.To(nb.Add(time.Hour)), ClSpec: 1 + uint64(r.IntN(1000)), Digest: rbytes(r, 48)}
	pool := [][]byte{rbytes(r, 48), rbytes(r, 48), rbytes(r, 48)} // shared values so that counts collide
	if r.IntN(10) > 0 {
		snp := &epb.VMSevSnp{Policy: gen.ProdPolicy()}
		if r.IntN(12) > 0 {
			snp.Measurements = map[uint32][]byte{}
			n := r.IntN(6)
			for i := 0; i < n; i++ {
				k := counts[r.IntN(len(counts))]
				switch r.IntN(10) {
				case 0:
					snp.Measurements[k] = pool[r.IntN(len(pool))]
				case 1:
					snp.Measurements[k] = rbytes(r, 47+2*r.IntN(2)) // 47 or 49 bytes
				case 2:
					snp.Measurements[k] = []byte{}
				default:
					snp.Measurements[k] = rbytes(r, 48)
				}
			}
			if r.IntN(3) == 0 { // make sure count 1 is often present, sometimes equal to another value
				snp.Measurements[1] = rbytes(r, 48)
			}
		}
		switch r.IntN(4) {
		case 0:
			snp.SvsmMeasurement = rbytes(r, 48)
		case 1:
			snp.SvsmMeasurement = pool[0]
		}
		g.SevSnp = snp
	}
	if r.IntN(10) > 0 {
		tdx := &epb.VMTdx{}
		n := r.IntN(7)
		rams := []uint32{0, 16, 16, 32, 64, 176, 1 << 31, 0xffffffff}
		for i := 0; i < n; i++ {
			row := &epb.VMTdx_Measurement{RamGib: rams[r.IntN(len(rams))], EarlyAccept: r.IntN(2) == 0, Mrtd: rbytes(r, 48)}
			if r.IntN(8) == 0 {
				row.Mrtd = pool[r.IntN(len(pool))]
			}
			tdx.Measurements = append(tdx.Measurements, row)
		}
		g.Tdx = tdx
	}
	e := gen.Endorse(signer, g)
	raw, _ := proto.Marshal(e)
	// golden as the verifier will see it (with certificate)
	gg := &epb.VMGoldenMeasurement{}
	proto.Unmarshal(e.SerializedUefiGolden, gg)
	return &table{golden: gg, e: e, raw: raw}
}

// listedSNP is the oracle's set for a VMSA request.
func listedSNP(g *epb.VMGoldenMeasurement, n uint32) [][]byte {
	var out [][]byte
	snp := g.GetSevSnp()
	if snp == nil {
		return nil
	}
	if n == 0 {
		for _, v := range snp.Measurements {
			out = append(out, v)
		}
		out = append(out, snp.SvsmMeasurement)
		return out
	}
	if v, ok := snp.Measurements[n]; ok {
		out = append(out, v)
	}
	if n == 1 && len(snp.SvsmMeasurement) > 0 {
		out = append(out, snp.SvsmMeasurement)
	}
	return out
}

func listedTDX(g *epb.VMGoldenMeasurement, ram int) [][]byte {
	var out [][]byte
	for _, row := range g.GetTdx().GetMeasurements() {
		if ram == 0 || int64(row.GetRamGib()) == int64(ram) {
			out = append(out, row.GetMrtd())
		}
	}
	return out
}

func member(set [][]byte, m []byte) bool {
	for _, v := range set {
		if bytes.Equal(v, m) {
			return true
		}
	}
	return false
}

type meas struct {
	kind string
	b    []byte
}

func measurements(r *rand.Rand, listed [][]byte, all [][]byte) []meas {
	var out []meas
	pick := func(set [][]byte) []byte {
		if len(set) == 0 {
			return nil
		}
		return set[r.IntN(len(set))]
	}
	if v := pick(listed); v != nil {
		out = append(out, meas{"listed", v})
		if len(v) > 0 {
			n := append([]byte(nil), v...)
			n[r.IntN(len(n))] ^= 1 << r.IntN(8)
			out = append(out, meas{"one-bit-neighbour", n})
			out = append(out, meas{"prefix", v[:len(v)-1]})
			out = append(out, meas{"extended", append(append([]byte(nil), v...), 0)})
		}
	}
	if v := pick(all); v != nil {
		out = append(out, meas{"endorsed-elsewhere", v})
	}
	out = append(out, meas{"random", rbytes(r, 48)}, meas{"zero", make([]byte, 48)})
	if r.IntN(4) == 0 {
		out = append(out, meas{"empty", []byte{}})
	}
	return out
}

func run(c *core.Ctx) {
	nb := time.Date(2025, 1, 1, 0, 0, 0, 0, time.UTC)
	now := nb.AddDate(0, 2, 0)
	pki := gen.NewPKI(nb)
	roots := gen.Pool(pki.Root)
	vcek := gen.Vcek(now)
	ctx := context.Background()
	dead, cancel := context.WithCancel(ctx)
	cancel()
	n := c.N(1200, 20000)
	accepts := map[string]int{}
	rejects := map[string]int{}
	for i := 0; i < n; i++ {
		if !c.Mine(i) {
			continue
		}
		r := c.Rand(i)
		t := genTable(r, pki.Signer, nb)
		g := t.golden
		gname := fmt.Sprintf("table#%d snp=%v n=%d svsm=%d tdxrows=%d", i, g.SevSnp != nil, len(g.GetSevSnp().GetMeasurements()), len(g.GetSevSnp().GetSvsmMeasurement()), len(g.GetTdx().GetMeasurements()))
		c.Begin(i, gname, "all", nil)
		if i%211 == 0 {
			c.Sample(map[string]any{"case": i, "golden": fmt.Sprintf("%v", g.GetSevSnp().GetMeasurements()), "tdx_rows": len(g.GetTdx().GetMeasurements())})
		}
		// requests
		reqs := []uint32{0, 1}
		for k := range g.GetSevSnp().GetMeasurements() {
			reqs = append(reqs, k)
		}
		reqs = append(reqs, counts[r.IntN(len(counts))], 7)
		allSNP := listedSNP(g, 0)
		judge := func(entry, reqKind, mkind string, accepted bool, allowed bool, detail string) {
			cell := "reject"
			switch {
			case accepted && !allowed:
				cell = "ACCEPT-UNLISTED"
				c.Violate(core.Violation{Kind: "oracle", Entry: entry, Site: "accepted-unendorsed-measurement", Gen: gname + " " + reqKind + " meas=" + mkind, Case: i, Detail: detail,
					Witness: map[string]any{"endorsement": t.raw}})
			case accepted:
				cell = "accept-listed"
				accepts[entry]++
			case !allowed:
				rejects[entry]++
				cell = "reject-unlisted"
			default:
				cell = "reject-listed"
				c.Count("reject-listed/"+entry, 1)
			}
			c.Cell("%s|%s|%s|%s", entry, reqKind, mkind, cell)
		}
		for _, req := range reqs {
			listed := listedSNP(g, req)
			reqKind := "vmsas=0"
			if req != 0 {
				if _, ok := g.GetSevSnp().GetMeasurements()[req]; ok {
					reqKind = "vmsas=present"
				} else {
					reqKind = "vmsas=absent"
				}
				if req == 1 {
					reqKind += "(1)"
				}
			}
			for _, m := range measurements(r, listed, allSNP) {
				okMember := member(listed, m.b)
				ok48 := okMember && len(m.b) == 48
				det := fmt.Sprintf("request vmsas=%d measurement(%s)=%x listed=%x", req, m.kind, m.b, listed)
				// verify.SNP directly
				var err error
				if g.SevSnp != nil {
					c.Guard(i, "verify.SNP", gname, core.Budget{PanicNotJudged: true}, func() {
						err = verify.SNP(g, &verify.SNPOptions{Measurement: m.b, ExpectedLaunchVMSAs: req})
					})
					// nil measurement with request 0 checks nothing and is not a validation of a report
					if !(req == 0 && m.b == nil) {
						judge("verify.SNP", reqKind, m.kind, err == nil, okMember || (req == 0 && len(m.b) == 0 && m.b == nil), det)
					}
				}
				c.Guard(i, "verify.EndorsementProto+SNP", gname, core.Budget{PanicNotJudged: true}, func() {
					err = verify.EndorsementProto(t.e, &verify.Options{RootsOfTrust: roots, Now: now, SNP: &verify.SNPOptions{Measurement: m.b, ExpectedLaunchVMSAs: req}})
				})
				judge("verify.EndorsementProto+SNP", reqKind, m.kind, err == nil, okMember, det)
				c.Guard(i, "SNPValidateFunc", gname, core.Budget{PanicNotJudged: true}, func() {
					f := verify.SNPValidateFunc(&verify.Options{RootsOfTrust: roots, Now: now, SNP: &verify.SNPOptions{ExpectedLaunchVMSAs: req}})
					err = f(&spb.Attestation{Report: &spb.Report{Measurement: m.b}}, t.raw)
				})
				judge("SNPValidateFunc", reqKind, m.kind, err == nil, ok48, det)
				if req == 0 {
					// the caller left the SNP options out altogether (no count named, nothing pinned)
					c.Guard(i, "SNPValidateFunc(no-snp-options)", gname, core.Budget{PanicNotJudged: true}, func() {
						f := verify.SNPValidateFunc(&verify.Options{RootsOfTrust: roots, Now: now})
						err = f(&spb.Attestation{Report: &spb.Report{Measurement: m.b}}, t.raw)
					})
					judge("SNPValidateFunc(no-snp-options)", reqKind, m.kind, err == nil, ok48, det)
				}
				c.Guard(i, "SevValidate", gname, core.Budget{PanicNotJudged: true}, func() {
					err = gcetcbendorsement.SevValidate(ctx, gen.SnpAttestation(m.b, vcek), &gcetcbendorsement.SevValidateOptions{Endorsement: t.e, RootsOfTrust: roots, Now: now, ExpectedLaunchVmsas: req})
				})
				judge("SevValidate", reqKind, m.kind, err == nil, ok48, det)
			}
			if g.SevSnp != nil && len(listed) > 0 {
				foreign := rbytes(r, 48)
				var err error
				c.Guard(i, "SevValidate+base+overwrite", gname, core.Budget{PanicNotJudged: true}, func() {
					err = gcetcbendorsement.SevValidate(ctx, gen.SnpAttestation(foreign, vcek), &gcetcbendorsement.SevValidateOptions{Endorsement: t.e, RootsOfTrust: roots, Now: now, ExpectedLaunchVmsas: req,
						BasePolicy: &cpb.Policy{Measurement: foreign, Policy: gen.ProdPolicy(), MinimumVersion: "0.0"}, Overwrite: true})
				})
				judge("SevValidate+base+overwrite", reqKind, "only-in-base-policy", err == nil, member(listed, foreign), fmt.Sprintf("request vmsas=%d report measurement %x is only in the caller's base policy", req, foreign))
			}
			// derived SNP policy must carry the measurement constraint for the named count
			if g.SevSnp != nil && req != 0 {
				// every combination of the other options: none of them may excuse a named count
				for _, fl := range []struct {
					tag              string
					allow, overwrite bool
					base             *cpb.Policy
				}{{"", false, false, nil}, {"+allow-unspecified", true, false, nil}, {"+overwrite", false, true, nil}, {"+allow-unspecified+overwrite", true, true, nil},
					{"+empty-base", false, false, &cpb.Policy{}}, {"+allow-unspecified+empty-base", true, false, &cpb.Policy{}}} {
					var pol interface{ GetMeasurement() []byte }
					var err error
					entry := "SevPolicy" + fl.tag
					c.Guard(i, entry, gname, core.Budget{PanicNotJudged: true}, func() {
						p, e := gcetcbendorsement.SevPolicy(ctx, t.e, &gcetcbendorsement.SevPolicyOptions{LaunchVmsas: req, AllowUnspecifiedVmsas: fl.allow, Overwrite: fl.overwrite, Base: fl.base})
						pol, err = p, e
					})
					want, present := g.SevSnp.Measurements[req]
					switch {
					case err == nil && !present:
						c.Oracle(i, entry, "policy-without-measurement-constraint", gname, "SevPolicy succeeded for vmsas=%d although the endorsement lists no measurement for it (policy measurement %x)", req, pol.GetMeasurement())
					case err == nil && !bytes.Equal(pol.GetMeasurement(), want):
						c.Oracle(i, entry, "policy-wrong-measurement", gname, "SevPolicy vmsas=%d measurement %x, endorsed %x", req, pol.GetMeasurement(), want)
					case err == nil:
						c.Cell("%s|%s|constraint-present", entry, reqKind)
					default:
						c.Cell("%s|%s|refused", entry, reqKind)
					}
				}
			}
		}
		// expected digest
		for _, d := range []struct {
			kind string
			b    []byte
		}{{"nil", nil}, {"equal", g.Digest}, {"one-bit-off", func() []byte { x := append([]byte(nil), g.Digest...); x[r.IntN(48)] ^= 1 << r.IntN(8); return x }()},
			{"prefix", g.Digest[:47]}, {"empty", []byte{}}} {
			var err error
			c.Guard(i, "verify.Endorsement+digest", gname, core.Budget{PanicNotJudged: true}, func() {
				err = verify.Endorsement(t.raw, &verify.Options{RootsOfTrust: roots, Now: now, ExpectedUefiSha384: d.b})
			})
			allowed := len(d.b) == 0 || bytes.Equal(d.b, g.Digest)
			if err == nil && !allowed {
				c.Oracle(i, "verify.Endorsement+digest", "accepted-wrong-digest", gname, "expected digest (%s) %x accepted, endorsed %x", d.kind, d.b, g.Digest)
			}
			if err == nil {
				accepts["verify.Endorsement+digest"]++
			} else if !allowed {
				rejects["verify.Endorsement+digest"]++
			}
			c.Cell("digest|%s|accepted=%v", d.kind, err == nil)
			// the same clause through the validator closure (endorsement as argument and in the options)
			if g.SevSnp != nil && len(allSNP) > 0 {
				var m48 []byte
				for _, v := range allSNP {
					if len(v) == 48 {
						m48 = v
					}
				}
				if m48 != nil {
					for _, src := range []string{"arg", "options"} {
						o := &verify.Options{RootsOfTrust: roots, Now: now, ExpectedUefiSha384: d.b}
						var arg []byte = t.raw
						if src == "options" {
							o.Endorsement, arg = t.e, nil
						}
						c.Guard(i, "SNPValidateFunc+digest/"+src, gname, core.Budget{PanicNotJudged: true}, func() {
							err = verify.SNPValidateFunc(o)(&spb.Attestation{Report: &spb.Report{Measurement: m48}}, arg)
						})
						if err == nil && !allowed {
							c.Oracle(i, "SNPValidateFunc+digest/"+src, "accepted-wrong-digest", gname, "validator closure accepted although the expected digest (%s) %x differs from the endorsed %x", d.kind, d.b, g.Digest)
						}
						if err == nil {
							accepts["SNPValidateFunc+digest"]++
						} else if !allowed {
							rejects["SNPValidateFunc+digest"]++
						}
						c.Cell("digest-closure|%s|%s|accepted=%v", src, d.kind, err == nil)
					}
				}
			}
		}
		// TDX
		if g.Tdx != nil {
			rams := []int{0, 16, 32, 64, 48, -16, 1<<32 + 16, 1 << 32, 1 << 31, 0xffffffff, -1}
			for _, row := range g.Tdx.Measurements {
				rams = append(rams, int(row.RamGib))
			}
			allT := listedTDX(g, 0)
			for _, ram := range rams {
				listed := listedTDX(g, ram)
				ramKind := "ram=0"
				if ram != 0 {
					ramKind = "ram=unlisted"
					if len(listed) > 0 {
						ramKind = "ram=listed"
					}
					if ram < 0 || ram > 0xffffffff {
						ramKind += "(out-of-u32)"
					}
				}
				// policy
				var ptd [][]byte
				var err error
				c.Guard(i, "TdxPolicy", gname, core.Budget{PanicNotJudged: true}, func() {
					p, e := gcetcbendorsement.TdxPolicy(ctx, t.e, &gcetcbendorsement.TdxPolicyOptions{RAMGiB: ram})
					err = e
					if e == nil {
						ptd = p.GetTdQuoteBodyPolicy().GetAnyMrTd()
					}
				})
				if err == nil {
					if len(ptd) == 0 {
						c.Oracle(i, "TdxPolicy", "policy-without-mrtd-constraint", gname, "TdxPolicy ram_gib=%d succeeded with an empty MRTD allow-list (endorsement lists %d rows, %d for this size)", ram, len(allT), len(listed))
					} else {
						for _, v := range ptd {
							if !member(listed, v) {
								c.Oracle(i, "TdxPolicy", "policy-allows-unlisted-mrtd", gname, "TdxPolicy ram_gib=%d allows %x which is not endorsed for that size", ram, v)
							}
						}
						for _, v := range listed {
							if !member(ptd, v) {
								c.Oracle(i, "TdxPolicy", "policy-misses-listed-mrtd", gname, "TdxPolicy ram_gib=%d misses endorsed %x", ram, v)
							}
						}
					}
				}
				c.Cell("TdxPolicy|%s|ok=%v", ramKind, err == nil)
				// a caller-supplied base policy that already allows some other MRTD, with overwrite permission:
				// the endorsement's list must still be the only one that validates
				foreign := rbytes(r, 48)
				basePol := &tcpb.Policy{TdQuoteBodyPolicy: &tcpb.TDQuoteBodyPolicy{AnyMrTd: [][]byte{foreign}}}
				var ptd2 [][]byte
				c.Guard(i, "TdxPolicy+base+overwrite", gname, core.Budget{PanicNotJudged: true}, func() {
					p, e := gcetcbendorsement.TdxPolicy(ctx, t.e, &gcetcbendorsement.TdxPolicyOptions{RAMGiB: ram, Base: basePol, Overwrite: true})
					err = e
					if e == nil {
						ptd2 = p.GetTdQuoteBodyPolicy().GetAnyMrTd()
					}
				})
				if err == nil {
					for _, v := range ptd2 {
						if !member(listed, v) {
							c.Oracle(i, "TdxPolicy+base+overwrite", "policy-allows-unlisted-mrtd", gname, "TdxPolicy ram_gib=%d with a pre-populated base and overwrite allows %x which the endorsement does not list for that size", ram, v)
						}
					}
					c.Cell("TdxPolicy+base+overwrite|%s|ok", ramKind)
				}
				c.Guard(i, "TdxValidate+base+overwrite", gname, core.Budget{PanicNotJudged: true}, func() {
					err = gcetcbendorsement.TdxValidate(ctx, gen.TdxQuote(foreign), &gcetcbendorsement.TdxValidateOptions{Endorsement: t.e, RootsOfTrust: roots, Now: now, ExpectedRAMGiB: ram, BasePolicy: basePol, Overwrite: true})
				})
				judge("TdxValidate+base+overwrite", ramKind, "only-in-base-policy", err == nil, member(listed, foreign), fmt.Sprintf("request ram_gib=%d quote MRTD %x is only in the caller's base policy, endorsement lists %x", ram, foreign, listed))
				for _, m := range measurements(r, listed, allT) {
					if len(m.b) != 48 {
						continue // a raw quote always carries 48 bytes
					}
					c.Guard(i, "TdxValidate", gname, core.Budget{PanicNotJudged: true}, func() {
						err = gcetcbendorsement.TdxValidate(ctx, gen.TdxQuote(m.b), &gcetcbendorsement.TdxValidateOptions{Endorsement: t.e, RootsOfTrust: roots, Now: now, ExpectedRAMGiB: ram})
					})
					judge("TdxValidate", ramKind, m.kind, err == nil, member(listed, m.b) && len(m.b) == 48,
						fmt.Sprintf("request ram_gib=%d mrtd(%s)=%x listed=%x", ram, m.kind, m.b, listed))
				}
			}
		}
		c.End(i)
	}
	// the same clause while several validations are in flight on ONE validator: whatever is accepted must be listed
	// for its own call (the re-entrancy of the validator itself is C09's; here only the membership verdict is judged)
	nconc := c.N(24, 200)
	for k := 0; k < nconc; k++ {
		i := n + k
		if !c.Mine(i) {
			continue
		}
		r := c.Rand(i)
		t := genTable(r, pki.Signer, nb)
		g := t.golden
		if g.SevSnp == nil {
			continue
		}
		var good [][]byte
		for _, v := range g.SevSnp.Measurements {
			if len(v) == 48 {
				good = append(good, v)
			}
		}
		if len(good) == 0 {
			continue
		}
		all := listedSNP(g, 0)
		gname := fmt.Sprintf("concurrent#%d table n=%d", k, len(g.SevSnp.Measurements))
		c.Begin(i, gname, "SNPValidateFunc/concurrent", nil)
		f := verify.SNPValidateFunc(&verify.Options{RootsOfTrust: roots, Now: now})
		ngor := 4 + r.IntN(9)
		var wg sync.WaitGroup
		var mu sync.Mutex
		badAccepted, goodAccepted, calls := 0, 0, 0
		var first string
		start := make(chan struct{})
		for gi := 0; gi < ngor; gi++ {
			seedA, seedB := r.Uint64(), r.Uint64()
			wg.Add(1)
			go func(gi int) {
				defer wg.Done()
				rr := rand.New(rand.NewPCG(seedA, seedB))
				<-start
				for j := 0; j < 120; j++ {
					var m []byte
					listed := gi%2 == 0
					if listed {
						m = good[rr.IntN(len(good))]
					} else {
						m = rbytes(rr, 48)
					}
					err := f(&spb.Attestation{Report: &spb.Report{Measurement: m}}, t.raw)
					mu.Lock()
					calls++
					if err == nil && !member(all, m) {
						badAccepted++
						if first == "" {
							first = fmt.Sprintf("goroutine %d call %d: measurement %x accepted, listed %x", gi, j, m, all)
						}
					} else if err == nil {
						goodAccepted++
					}
					mu.Unlock()
				}
			}(gi)
		}
		close(start)
		wg.Wait()
		c.Eval(calls)
		if badAccepted > 0 {
			c.Violate(core.Violation{Kind: "oracle", Entry: "SNPValidateFunc/concurrent", Site: "accepted-unendorsed-measurement", Gen: gname, Case: i,
				Detail: fmt.Sprintf("%d of %d concurrent calls accepted a measurement the endorsement does not list; first: %s", badAccepted, calls, first)})
		}
		accepts["SNPValidateFunc/concurrent"] += goodAccepted
		rejects["SNPValidateFunc/concurrent"] += calls - goodAccepted - badAccepted
		c.Cell("concurrent|goroutines=%d|bad-accepted=%v", ngor, badAccepted > 0)
		c.End(i)
	}
	runAudit(c, &world{nb: nb, now: now, pki: pki, roots: roots, vcek: vcek, ctx: ctx, dead: dead}, n+nconc)
	for _, e := range []string{"verify.SNP", "verify.EndorsementProto+SNP", "SNPValidateFunc", "SevValidate", "TdxValidate", "verify.Endorsement+digest", "SNPValidateFunc/concurrent"} {
		c.Count("accept-listed/"+e, accepts[e])
		c.Count("reject-unlisted/"+e, rejects[e])
		c.Floor("accept-listed/"+e, accepts[e] > 0)
		c.Floor("reject-unlisted/"+e, rejects[e] > 0)
	}
}
