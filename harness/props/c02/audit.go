package c02

// Families appended after the original cases (their case numbers start at n+nconc, so the
// original cases keep their numbers and PRNG streams). Every family is judged by the same
// one-directional rule as the original workload: whatever is ACCEPTED must carry a
// measurement listed, for the request of THAT call, by the endorsement used in THAT call
// (and a supplied digest must equal that endorsement's digest). What differs is the
// dimension of the workload:
//
//   seq     values the caller keeps (options structs, buffers refilled in place, closures,
//           base policies, decode receivers) reused across calls on several endorsements;
//           probes with values listed by ANOTHER endorsement of the same session, with the
//           measurement of the PREVIOUS call, and with a value the caller scribbled into a
//           policy the library returned earlier; returned policies re-judged after later calls
//   cmix    calls on different endorsements / requests / entry points in flight together
//   combo   option combinations (digest x count x measurement; base policy x overwrite x
//           source of the endorsement x test-only switch x cancelled context) and boundary
//           requests (counts congruent to a listed one modulo 2^8 / 2^16 / 2^31, keys 0 and
//           2^32-1, large tables, TDX rows whose MRTD is not 48 bytes)
//   getter  the endorsement comes through the caller's HTTPS getter, which fails, bursts,
//           answers with another object, with garbage, and is then retried
//   src     (sources.go) several sources of the endorsement present at once and disagreeing;
//           options of another entry point already filled in when the validator is built
import (
	"bytes"
	"context"
	"crypto/x509"
	"fmt"
	"math/rand/v2"
	"sort"
	"sync"
	"time"

	"github.com/google/gce-tcb-verifier/extract/extractsev"
	"github.com/google/gce-tcb-verifier/gcetcbendorsement"
	epb "github.com/google/gce-tcb-verifier/proto/endorsement"
	"github.com/google/gce-tcb-verifier/sev"
	"github.com/google/gce-tcb-verifier/timeproto"
	"github.com/google/gce-tcb-verifier/verify"
	cpb "github.com/google/go-sev-guest/proto/check"
	spb "github.com/google/go-sev-guest/proto/sevsnp"
	tcpb "github.com/google/go-tdx-guest/proto/checkconfig"
	"google.golang.org/protobuf/proto"

	"verifharness/core"
	"verifharness/gen"
)

// judgeEmptyMrtdRows: an endorsement whose TDX table carries a row with a ZERO-LENGTH MRTD makes
// TdxPolicy emit an allow-list with an empty entry, which go-tdx-guest treats as "skip the check":
// every quote validates. Read strictly that contradicts the property (a 48-byte MRTD cannot be
// byte-equal to an empty listed value), but no signer produces such a row, so the judging of exactly
// these requests is gated until the coordinator decides. The observation is counted either way.
const judgeEmptyMrtdRows = true

type world struct {
	nb, now time.Time
	pki     *gen.PKI
	roots   *x509.CertPool
	vcek    []byte
	ctx     context.Context
	dead    context.Context // already cancelled
}

type tally struct {
	c   *core.Ctx
	mu  sync.Mutex
	acc map[string]int
	rej map[string]int
}

func (t *tally) judge(i int, fam, entry, variant, reqKind, mkind string, accepted, allowed bool, site, gname, detail string, raw []byte) {
	if site == "" {
		site = "accepted-unendorsed-measurement"
	}
	cell := "reject-listed"
	switch {
	case accepted && !allowed:
		cell = "ACCEPT-UNLISTED"
		t.c.Violate(core.Violation{Kind: "oracle", Entry: fam + "/" + entry, Site: site, Gen: gname + " " + entry + variant + " " + reqKind + " meas=" + mkind, Case: i, Detail: detail,
			Witness: map[string]any{"endorsement": raw}})
	case accepted:
		cell = "accept-listed"
		t.mu.Lock()
		t.acc[fam]++
		t.acc[fam+"/"+mkind]++
		t.mu.Unlock()
	case !allowed:
		cell = "reject-unlisted"
		t.mu.Lock()
		t.rej[fam]++
		t.rej[fam+"/"+mkind]++
		t.mu.Unlock()
	}
	t.c.Cell("%s|%s|%s|%s|%s", fam, entry, reqKind, mkind, cell)
	if variant != "" {
		t.c.Cell("%s|%s%s|%s|%s", fam, entry, variant, mkind, cell)
	}
}

func cp(b []byte) []byte { return append([]byte(nil), b...) }

func only48(set [][]byte) [][]byte {
	var out [][]byte
	for _, v := range set {
		if len(v) == 48 {
			out = append(out, v)
		}
	}
	return out
}

func pickOf(r *rand.Rand, set [][]byte) []byte {
	if len(set) == 0 {
		return nil
	}
	return set[r.IntN(len(set))]
}

func minus(a, b [][]byte) [][]byte {
	var out [][]byte
	for _, v := range a {
		if !member(b, v) {
			out = append(out, v)
		}
	}
	return out
}

func snpReqKind(g *epb.VMGoldenMeasurement, req uint32) string {
	if req == 0 {
		return "vmsas=0"
	}
	k := "vmsas=absent"
	if _, ok := g.GetSevSnp().GetMeasurements()[req]; ok {
		k = "vmsas=present"
	}
	if req == 1 {
		k += "(1)"
	}
	return k
}

func tdxRamKind(g *epb.VMGoldenMeasurement, ram int) string {
	if ram == 0 {
		return "ram=0"
	}
	k := "ram=unlisted"
	if len(listedTDX(g, ram)) > 0 {
		k = "ram=listed"
	}
	if ram < 0 || ram > 0xffffffff {
		k += "(out-of-u32)"
	}
	return k
}

func hasEmpty(set [][]byte) bool {
	for _, v := range set {
		if len(v) == 0 {
			return true
		}
	}
	return false
}

// ---- tables of one session: the same count keys and RAM sizes, different values ----

type shape struct {
	keys []uint32
	rams []uint32
}

func genShape(r *rand.Rand) shape {
	var sh shape
	seen := map[uint32]bool{}
	if r.IntN(3) > 0 {
		sh.keys, seen[1] = append(sh.keys, 1), true
	}
	for len(sh.keys) < 3+r.IntN(3) {
		k := counts[r.IntN(len(counts))]
		if !seen[k] {
			sh.keys, seen[k] = append(sh.keys, k), true
		}
	}
	all := []uint32{16, 32, 64, 176}
	r.Shuffle(len(all), func(a, b int) { all[a], all[b] = all[b], all[a] })
	sh.rams = all[:2+r.IntN(2)]
	return sh
}

func genSessTable(r *rand.Rand, sh shape, signer *gen.Identity, nb time.Time) *table {
	g := &epb.VMGoldenMeasurement{Timestamp: timeproto.To(nb.Add(time.Hour)), ClSpec: 1 + uint64(r.IntN(1000)), Digest: rbytes(r, 48)}
	snp := &epb.VMSevSnp{Policy: gen.ProdPolicy(), Measurements: map[uint32][]byte{}}
	for _, k := range sh.keys {
		if r.IntN(100) < 65 {
			snp.Measurements[k] = rbytes(r, 48)
		}
	}
	if r.IntN(3) == 0 {
		snp.SvsmMeasurement = rbytes(r, 48)
	}
	g.SevSnp = snp
	tdx := &epb.VMTdx{}
	for _, ram := range sh.rams {
		for n := r.IntN(3); n > 0; n-- {
			tdx.Measurements = append(tdx.Measurements, &epb.VMTdx_Measurement{RamGib: ram, EarlyAccept: r.IntN(2) == 0, Mrtd: rbytes(r, 48)})
		}
	}
	if r.IntN(4) == 0 {
		tdx.Measurements = append(tdx.Measurements, &epb.VMTdx_Measurement{RamGib: 0, Mrtd: rbytes(r, 48)})
	}
	r.Shuffle(len(tdx.Measurements), func(a, b int) {
		tdx.Measurements[a], tdx.Measurements[b] = tdx.Measurements[b], tdx.Measurements[a]
	})
	g.Tdx = tdx
	e := gen.Endorse(signer, g)
	raw, _ := proto.Marshal(e)
	gg := &epb.VMGoldenMeasurement{}
	proto.Unmarshal(e.SerializedUefiGolden, gg)
	return &table{golden: gg, e: e, raw: raw}
}

// probe draws the measurement of one call. listed = what this call's endorsement lists for this call's
// request, here = everything this call's endorsement lists, other = what ANOTHER endorsement of the
// session lists for the same request, prev = the measurement of the previous call, foreign = the value
// scribbled into returned policies.
func probe(r *rand.Rand, listed, here, other [][]byte, prev, foreign []byte) (string, []byte) {
	listed, here, other = only48(listed), only48(here), only48(other)
	for try := 0; try < 4; try++ {
		switch r.IntN(12) {
		case 0, 1, 2:
			if v := pickOf(r, listed); v != nil {
				return "listed", cp(v)
			}
		case 3, 4:
			if v := pickOf(r, minus(other, listed)); v != nil {
				return "listed-by-other-endorsement", cp(v)
			}
		case 5:
			if v := pickOf(r, minus(here, listed)); v != nil {
				return "listed-for-other-request", cp(v)
			}
		case 6, 7:
			if prev != nil {
				return "measurement-of-previous-call", cp(prev)
			}
		case 8:
			if v := pickOf(r, listed); v != nil {
				n := cp(v)
				n[r.IntN(48)] ^= 1 << r.IntN(8)
				return "one-bit-neighbour", n
			}
		case 9, 10:
			return "scribbled-into-returned-policy", cp(foreign)
		}
	}
	return "random", rbytes(r, 48)
}

func otherListedSNP(ts []*table, j int, req uint32) [][]byte {
	var out [][]byte
	for x, t := range ts {
		if x != j {
			out = append(out, listedSNP(t.golden, req)...)
		}
	}
	return out
}

func otherListedTDX(ts []*table, j int, ram int) [][]byte {
	var out [][]byte
	for x, t := range ts {
		if x != j {
			out = append(out, listedTDX(t.golden, ram)...)
		}
	}
	return out
}

type snpFn = func(*spb.Attestation, []byte) error

// ---- family seq ----

func runSessions(c *core.Ctx, w *world, base int, tl *tally) int {
	n := c.N(240, 2400)
	for k := 0; k < n; k++ {
		i := base + k
		if !c.Mine(i) {
			continue
		}
		r := c.Rand(i)
		sh := genShape(r)
		nt := 2 + r.IntN(2)
		var ts []*table
		for j := 0; j < nt; j++ {
			ts = append(ts, genSessTable(r, sh, w.pki.Signer, w.nb))
		}
		gname := fmt.Sprintf("session#%d tables=%d keys=%v rams=%v", k, nt, sh.keys, sh.rams)
		c.Begin(i, gname, "sequence", nil)
		foreign := rbytes(r, 48)
		// values the caller keeps for the whole session
		mbuf, dbuf := make([]byte, 48), make([]byte, 48)
		vo := &verify.Options{RootsOfTrust: w.roots, Now: w.now, SNP: &verify.SNPOptions{Measurement: mbuf}}
		att := &spb.Attestation{Report: &spb.Report{Measurement: make([]byte, 48)}}
		closArg := map[uint32]snpFn{}
		closOpt := map[[2]uint32]snpFn{}
		so := &gcetcbendorsement.SevValidateOptions{RootsOfTrust: w.roots, Now: w.now}
		satt := gen.SnpAttestation(make([]byte, 48), w.vcek)
		sbase := &cpb.Policy{Policy: gen.ProdPolicy(), MinimumVersion: "0.0"}
		to := &gcetcbendorsement.TdxValidateOptions{RootsOfTrust: w.roots, Now: w.now}
		quote := gen.TdxQuote(make([]byte, 48))
		tbase := &tcpb.Policy{}
		eobj := &epb.VMLaunchEndorsement{}
		tpo := &gcetcbendorsement.TdxPolicyOptions{}
		spo := &gcetcbendorsement.SevPolicyOptions{}
		type kept struct {
			tdx  *tcpb.Policy
			sev  *cpb.Policy
			j    int
			req  uint32
			ram  int
			step int
		}
		var retained []kept
		var prevM []byte
		steps := 60 + r.IntN(60)
		c.Count("seq/sessions", 1)
		for s := 0; s < steps; s++ {
			j := r.IntN(nt)
			t := ts[j]
			g := t.golden
			ep := t.e
			recv := ""
			if r.IntN(2) == 0 { // the caller decodes into the receiver it already has
				if err := proto.Unmarshal(t.raw, eobj); err == nil {
					ep, recv = eobj, "+reused-receiver"
					c.Count("seq/endorsement-decoded-into-kept-receiver", 1)
				}
			}
			ctx := w.ctx
			if r.IntN(4) == 0 {
				ctx = w.dead
			}
			if r.IntN(10) == 0 { // a call that fails for another reason, on the kept values, before the next one
				bad := proto.Clone(t.e).(*epb.VMLaunchEndorsement)
				var err error
				v := pickOf(r, only48(listedSNP(g, 0)))
				if v == nil {
					v = rbytes(r, 48)
				}
				switch r.IntN(3) {
				case 0:
					bad.Signature[r.IntN(len(bad.Signature))] ^= 0x40
					copy(mbuf, v)
					vo.SNP.ExpectedLaunchVMSAs, vo.ExpectedUefiSha384 = 0, nil
					c.Guard(i, "seq/failing-call", gname, core.Budget{PanicNotJudged: true}, func() { err = verify.EndorsementProto(bad, vo) })
				case 1:
					f := closArg[0]
					if f == nil {
						f = verify.SNPValidateFunc(&verify.Options{RootsOfTrust: w.roots, Now: w.now})
						closArg[0] = f
					}
					copy(att.Report.Measurement, v)
					c.Guard(i, "seq/failing-call", gname, core.Budget{PanicNotJudged: true}, func() { err = f(att, t.raw[:len(t.raw)-1-r.IntN(40)]) })
				default:
					so.Endorsement, so.ExpectedLaunchVmsas, so.BasePolicy, so.Overwrite = bad, 0, nil, false
					bad.Signature = bad.Signature[:len(bad.Signature)-1]
					copy(satt.Report.Measurement, v)
					c.Guard(i, "seq/failing-call", gname, core.Budget{PanicNotJudged: true}, func() { err = gcetcbendorsement.SevValidate(ctx, satt, so) })
				}
				if err != nil {
					c.Count("seq/failing-call-before-next", 1)
				} else {
					c.Count("seq/forged-endorsement-accepted(C01's, not judged here)", 1)
				}
			}
			if r.IntN(5) < 3 { // SEV-SNP step
				var req uint32
				switch x := r.IntN(20); {
				case x < 6:
					req = 0
				case x < 17:
					req = sh.keys[r.IntN(len(sh.keys))]
				case x < 19:
					req = 7
				default:
					req = counts[r.IntN(len(counts))]
				}
				listed := listedSNP(g, req)
				reqKind := snpReqKind(g, req)
				entry := r.IntN(9)
				if entry == 8 && req == 0 {
					entry = r.IntN(8)
				}
				if entry == 8 {
					// SevPolicy on kept options and a kept base policy
					spo.LaunchVmsas, spo.AllowUnspecifiedVmsas, spo.Overwrite = req, r.IntN(2) == 0, r.IntN(2) == 0
					spo.Base = nil
					if r.IntN(2) == 0 {
						spo.Base = sbase
					}
					var p *cpb.Policy
					var err error
					c.Guard(i, "seq/SevPolicy(kept-options)", gname, core.Budget{PanicNotJudged: true}, func() { p, err = gcetcbendorsement.SevPolicy(ctx, ep, spo) })
					want, present := g.SevSnp.Measurements[req]
					switch {
					case err == nil && !present:
						c.Oracle(i, "seq/SevPolicy(kept-options)", "policy-without-measurement-constraint", gname, "step %d: SevPolicy succeeded for vmsas=%d although endorsement #%d lists no measurement for it (policy measurement %x)", s, req, j, p.GetMeasurement())
					case err == nil && !bytes.Equal(p.GetMeasurement(), want):
						c.Oracle(i, "seq/SevPolicy(kept-options)", "policy-wrong-measurement", gname, "step %d: SevPolicy vmsas=%d on endorsement #%d: measurement %x, endorsed %x", s, req, j, p.GetMeasurement(), want)
					case err == nil:
						c.Cell("seq|SevPolicy(kept-options)%s|%s|constraint-present", recv, reqKind)
						if r.IntN(2) == 0 {
							retained = append(retained, kept{sev: p, j: j, req: req, step: s})
						} else if len(p.Measurement) == 48 {
							copy(p.Measurement, foreign) // the caller edits what it was given
							c.Count("seq/returned-policy-scribbled", 1)
						}
					default:
						c.Cell("seq|SevPolicy(kept-options)%s|%s|refused", recv, reqKind)
					}
					continue
				}
				mkind, m := probe(r, listed, listedSNP(g, 0), otherListedSNP(ts, j, req), prevM, foreign)
				okMember := member(listed, m)
				// expected digest on the entry points that take one
				dkind, dOK := "", true
				var digest []byte
				if entry <= 4 && r.IntN(3) == 0 {
					switch r.IntN(3) {
					case 0:
						dkind, digest = "+digest=equal", g.Digest
					case 1:
						dkind, digest = "+digest=of-other-endorsement", ts[(j+1)%nt].golden.Digest
					default:
						x := cp(g.Digest)
						x[r.IntN(48)] ^= 1 << r.IntN(8)
						dkind, digest = "+digest=one-bit-off", x
					}
					dOK = bytes.Equal(digest, g.Digest)
				}
				var err error
				name, variant := "", ""
				switch entry {
				case 0, 1:
					copy(mbuf, m) // same buffer, refilled in place
					vo.SNP.ExpectedLaunchVMSAs = req
					vo.ExpectedUefiSha384 = nil
					if digest != nil {
						copy(dbuf, digest)
						vo.ExpectedUefiSha384 = dbuf
					}
					if entry == 0 {
						name, variant = "verify.EndorsementProto(kept-options)", recv
						c.Guard(i, "seq/"+name, gname, core.Budget{PanicNotJudged: true}, func() { err = verify.EndorsementProto(ep, vo) })
					} else {
						name = "verify.Endorsement(kept-options)"
						c.Guard(i, "seq/"+name, gname, core.Budget{PanicNotJudged: true}, func() { err = verify.Endorsement(t.raw, vo) })
					}
				case 2:
					name = "SNPValidateFunc(kept-closure,arg)"
					f := closArg[req]
					if f == nil || digest != nil {
						f = verify.SNPValidateFunc(&verify.Options{RootsOfTrust: w.roots, Now: w.now, SNP: &verify.SNPOptions{ExpectedLaunchVMSAs: req}, ExpectedUefiSha384: cp(digest)})
						if digest == nil {
							closArg[req] = f
						} else {
							name = "SNPValidateFunc(fresh-closure,arg)"
						}
					}
					copy(att.Report.Measurement, m)
					c.Guard(i, "seq/"+name, gname, core.Budget{PanicNotJudged: true}, func() { err = f(att, t.raw) })
				case 3:
					name = "SNPValidateFunc(kept-closure,options)"
					key := [2]uint32{uint32(j), req}
					f := closOpt[key]
					if f == nil || digest != nil {
						f = verify.SNPValidateFunc(&verify.Options{RootsOfTrust: w.roots, Now: w.now, SNP: &verify.SNPOptions{ExpectedLaunchVMSAs: req}, Endorsement: t.e, ExpectedUefiSha384: cp(digest)})
						if digest == nil {
							closOpt[key] = f
						} else {
							name = "SNPValidateFunc(fresh-closure,options)"
						}
					}
					copy(att.Report.Measurement, m)
					c.Guard(i, "seq/"+name, gname, core.Budget{PanicNotJudged: true}, func() { err = f(att, nil) })
				case 4:
					name = "SNPValidateFunc(fresh-closure,arg)"
					c.Guard(i, "seq/"+name, gname, core.Budget{PanicNotJudged: true}, func() {
						err = verify.SNPValidateFunc(&verify.Options{RootsOfTrust: w.roots, Now: w.now, SNP: &verify.SNPOptions{ExpectedLaunchVMSAs: req}, ExpectedUefiSha384: cp(digest)})(
							&spb.Attestation{Report: &spb.Report{Measurement: cp(m)}}, t.raw)
					})
				case 5, 6:
					name, variant = "SevValidate(kept-options)", recv
					so.Endorsement, so.ExpectedLaunchVmsas = ep, req
					so.BasePolicy, so.Overwrite = nil, r.IntN(2) == 0
					if r.IntN(2) == 0 {
						so.BasePolicy = sbase
						variant += "+kept-base"
					}
					copy(satt.Report.Measurement, m)
					c.Guard(i, "seq/"+name, gname, core.Budget{PanicNotJudged: true}, func() { err = gcetcbendorsement.SevValidate(ctx, satt, so) })
				default:
					name = "SevValidate(fresh)"
					c.Guard(i, "seq/"+name, gname, core.Budget{PanicNotJudged: true}, func() {
						err = gcetcbendorsement.SevValidate(ctx, gen.SnpAttestation(m, w.vcek), &gcetcbendorsement.SevValidateOptions{Endorsement: t.e, RootsOfTrust: w.roots, Now: w.now, ExpectedLaunchVmsas: req})
					})
				}
				site := ""
				if okMember && !dOK {
					site = "accepted-wrong-digest"
				}
				tl.judge(i, "seq", name, variant+dkind, reqKind, mkind, err == nil, okMember && dOK, site, gname,
					fmt.Sprintf("step %d of %d: endorsement #%d request vmsas=%d measurement(%s)=%x listed-for-this-call=%x digest%s", s, steps, j, req, mkind, m, listed, dkind), t.raw)
				prevM = m
			} else { // TDX step
				var ram int
				switch x := r.IntN(20); {
				case x < 5:
					ram = 0
				case x < 16:
					ram = int(sh.rams[r.IntN(len(sh.rams))])
				case x < 18:
					ram = 48
				default:
					ram = 1<<32 + int(sh.rams[r.IntN(len(sh.rams))])
				}
				listed := listedTDX(g, ram)
				ramKind := tdxRamKind(g, ram)
				if r.IntN(4) == 0 {
					tpo.RAMGiB, tpo.Overwrite, tpo.Base = ram, r.IntN(2) == 0, nil
					if r.IntN(2) == 0 {
						tpo.Base = tbase
					}
					var p *tcpb.Policy
					var err error
					c.Guard(i, "seq/TdxPolicy(kept-options)", gname, core.Budget{PanicNotJudged: true}, func() { p, err = gcetcbendorsement.TdxPolicy(ctx, ep, tpo) })
					if err == nil {
						if judgeTdxPolicy(c, i, "seq/TdxPolicy(kept-options)", gname, fmt.Sprintf("step %d: endorsement #%d ram_gib=%d", s, j, ram), p, listed) {
							c.Cell("seq|TdxPolicy(kept-options)%s|%s|constraint-exact", recv, ramKind)
						}
						if r.IntN(2) == 0 {
							retained = append(retained, kept{tdx: p, j: j, ram: ram, step: s})
						} else {
							for _, v := range p.GetTdQuoteBodyPolicy().GetAnyMrTd() { // the caller edits what it was given
								if len(v) == 48 {
									copy(v, foreign)
								}
							}
							p.TdQuoteBodyPolicy.AnyMrTd = append(p.TdQuoteBodyPolicy.AnyMrTd, cp(foreign))
							c.Count("seq/returned-policy-scribbled", 1)
						}
					} else {
						c.Cell("seq|TdxPolicy(kept-options)%s|%s|refused", recv, ramKind)
					}
					continue
				}
				mkind, m := probe(r, listed, listedTDX(g, 0), otherListedTDX(ts, j, ram), prevM, foreign)
				var err error
				name, variant := "", ""
				if r.IntN(3) > 0 {
					name, variant = "TdxValidate(kept-options)", recv
					to.Endorsement, to.ExpectedRAMGiB = ep, ram
					to.BasePolicy, to.Overwrite = nil, r.IntN(2) == 0
					if r.IntN(2) == 0 {
						to.BasePolicy = tbase
						variant += "+kept-base"
					}
					copy(quote[gen.MrtdOffset:gen.MrtdOffset+48], m) // same quote buffer, refilled in place
					c.Guard(i, "seq/"+name, gname, core.Budget{PanicNotJudged: true}, func() { err = gcetcbendorsement.TdxValidate(ctx, quote, to) })
				} else {
					name = "TdxValidate(fresh)"
					c.Guard(i, "seq/"+name, gname, core.Budget{PanicNotJudged: true}, func() {
						err = gcetcbendorsement.TdxValidate(ctx, gen.TdxQuote(m), &gcetcbendorsement.TdxValidateOptions{Endorsement: t.e, RootsOfTrust: w.roots, Now: w.now, ExpectedRAMGiB: ram})
					})
				}
				tl.judge(i, "seq", name, variant, ramKind, mkind, err == nil, member(listed, m), "", gname,
					fmt.Sprintf("step %d of %d: endorsement #%d request ram_gib=%d mrtd(%s)=%x listed-for-this-call=%x", s, steps, j, ram, mkind, m, listed), t.raw)
				prevM = m
			}
		}
		// what the library returned earlier must still be what the endorsement says, after all later calls
		for _, kp := range retained {
			g := ts[kp.j].golden
			if kp.tdx != nil {
				if judgeTdxPolicy(c, i, "seq/TdxPolicy(retained)", gname, fmt.Sprintf("policy returned at step %d for endorsement #%d ram_gib=%d, read again after %d later steps", kp.step, kp.j, kp.ram, steps-kp.step-1), kp.tdx, listedTDX(g, kp.ram)) {
					c.Cell("seq|TdxPolicy(retained)|still-exact")
				}
			} else {
				if want := g.SevSnp.Measurements[kp.req]; !bytes.Equal(kp.sev.GetMeasurement(), want) {
					c.Oracle(i, "seq/SevPolicy(retained)", "policy-wrong-measurement", gname, "policy returned at step %d for endorsement #%d vmsas=%d now carries measurement %x, endorsed %x", kp.step, kp.j, kp.req, kp.sev.GetMeasurement(), want)
				} else {
					c.Cell("seq|SevPolicy(retained)|still-exact")
				}
			}
			c.Count("seq/retained-policy-rechecked", 1)
		}
		c.End(i)
	}
	return n
}

// judgeTdxPolicy applies the original policy rules; true when the policy is exactly the listed set.
func judgeTdxPolicy(c *core.Ctx, i int, entry, gname, what string, p *tcpb.Policy, listed [][]byte) bool {
	ptd := p.GetTdQuoteBodyPolicy().GetAnyMrTd()
	ok := true
	if len(ptd) == 0 {
		c.Oracle(i, entry, "policy-without-mrtd-constraint", gname, "%s: empty MRTD allow-list (%d listed for this size)", what, len(listed))
		return false
	}
	for _, v := range ptd {
		if !member(listed, v) {
			c.Oracle(i, entry, "policy-allows-unlisted-mrtd", gname, "%s: allows %x which the endorsement does not list for that size (listed %x)", what, v, listed)
			ok = false
		}
	}
	for _, v := range listed {
		if !member(ptd, v) {
			c.Oracle(i, entry, "policy-misses-listed-mrtd", gname, "%s: misses endorsed %x", what, v)
			ok = false
		}
	}
	return ok
}

// ---- family cmix: different endorsements, requests and entry points in flight together ----

func runConcurrentMixed(c *core.Ctx, w *world, base int, tl *tally) int {
	n := c.N(40, 320)
	// probes of this family lean on values that are listed, but not for THIS call's request / endorsement:
	// exactly what a neighbour's request or endorsement leaking into this call would make acceptable
	cprobe := func(rr *rand.Rand, listed, here, other [][]byte) (string, []byte) {
		listed, here, other = only48(listed), only48(here), only48(other)
		for try := 0; try < 3; try++ {
			switch rr.IntN(10) {
			case 0, 1, 2:
				if v := pickOf(rr, listed); v != nil {
					return "listed", cp(v)
				}
			case 3, 4, 5:
				if v := pickOf(rr, minus(here, listed)); v != nil {
					return "listed-for-other-request", cp(v)
				}
			case 6, 7:
				if v := pickOf(rr, minus(other, listed)); v != nil {
					return "listed-by-other-endorsement", cp(v)
				}
			case 8:
				if v := pickOf(rr, listed); v != nil {
					x := cp(v)
					x[rr.IntN(48)] ^= 1 << rr.IntN(8)
					return "one-bit-neighbour", x
				}
			}
		}
		return "random", rbytes(rr, 48)
	}
	for k := 0; k < n; k++ {
		i := base + k
		if !c.Mine(i) {
			continue
		}
		r := c.Rand(i)
		sh := genShape(r)
		nt := 1 + r.IntN(3)
		homog, hkind := r.IntN(2) == 0, r.IntN(4) // every goroutine on the same entry point, requests differ
		if hkind == 2 {
			hkind = 3
		}
		var ts []*table
		for j := 0; j < nt; j++ {
			ts = append(ts, genSessTable(r, sh, w.pki.Signer, w.nb))
		}
		ngor := 6 + r.IntN(7)
		ncalls := 50
		if homog {
			ncalls = 120
		}
		gname := fmt.Sprintf("concurrent-mixed#%d tables=%d goroutines=%d same-entry-point=%v", k, nt, ngor, homog)
		c.Begin(i, gname, "concurrent-mixed", nil)
		shared := map[uint32]snpFn{} // one closure per named count, used by all goroutines whatever their endorsement
		for _, q := range append([]uint32{0}, sh.keys...) {
			shared[q] = verify.SNPValidateFunc(&verify.Options{RootsOfTrust: w.roots, Now: w.now, SNP: &verify.SNPOptions{ExpectedLaunchVMSAs: q}})
		}
		type res struct {
			entry, reqKind, mkind, detail string
			accepted, allowed             bool
			raw                           []byte
			polErr                        []string
		}
		var mu sync.Mutex
		var results []res
		var wg sync.WaitGroup
		start := make(chan struct{})
		calls := 0
		for gi := 0; gi < ngor; gi++ {
			j := r.IntN(nt)
			kind := r.IntN(5)
			if homog {
				kind = hkind
			}
			req := uint32(0)
			if r.IntN(3) > 0 {
				req = sh.keys[r.IntN(len(sh.keys))]
			}
			ram := 0
			if r.IntN(3) > 0 {
				ram = int(sh.rams[r.IntN(len(sh.rams))])
			}
			seedA, seedB := r.Uint64(), r.Uint64()
			wg.Add(1)
			go func(gi int) {
				defer wg.Done()
				rr := rand.New(rand.NewPCG(seedA, seedB))
				t := ts[j]
				g := t.golden
				var local []res
				<-start
				for x := 0; x < ncalls; x++ {
					var one res
					func() {
						defer func() {
							if p := recover(); p != nil {
								one = res{entry: "panic"}
							}
						}()
						if kind < 3 {
							listed := listedSNP(g, req)
							mkind, m := cprobe(rr, listed, listedSNP(g, 0), otherListedSNP(ts, j, req))
							var err error
							entry := ""
							switch kind {
							case 0:
								entry = "SNPValidateFunc(shared-closure,arg)"
								err = shared[req](&spb.Attestation{Report: &spb.Report{Measurement: m}}, t.raw)
							case 1:
								entry = "SevValidate"
								err = gcetcbendorsement.SevValidate(w.ctx, gen.SnpAttestation(m, w.vcek), &gcetcbendorsement.SevValidateOptions{Endorsement: t.e, RootsOfTrust: w.roots, Now: w.now, ExpectedLaunchVmsas: req})
							default:
								entry = "verify.EndorsementProto"
								err = verify.EndorsementProto(t.e, &verify.Options{RootsOfTrust: w.roots, Now: w.now, SNP: &verify.SNPOptions{Measurement: m, ExpectedLaunchVMSAs: req}})
							}
							one = res{entry: entry, reqKind: snpReqKind(g, req), mkind: mkind, accepted: err == nil, allowed: member(listed, m), raw: t.raw,
								detail: fmt.Sprintf("goroutine %d call %d: endorsement #%d request vmsas=%d measurement(%s)=%x listed=%x", gi, x, j, req, mkind, m, listed)}
						} else {
							listed := listedTDX(g, ram)
							if kind == 3 {
								mkind, m := cprobe(rr, listed, listedTDX(g, 0), otherListedTDX(ts, j, ram))
								err := gcetcbendorsement.TdxValidate(w.ctx, gen.TdxQuote(m), &gcetcbendorsement.TdxValidateOptions{Endorsement: t.e, RootsOfTrust: w.roots, Now: w.now, ExpectedRAMGiB: ram})
								one = res{entry: "TdxValidate", reqKind: tdxRamKind(g, ram), mkind: mkind, accepted: err == nil, allowed: member(listed, m), raw: t.raw,
									detail: fmt.Sprintf("goroutine %d call %d: endorsement #%d request ram_gib=%d mrtd(%s)=%x listed=%x", gi, x, j, ram, mkind, m, listed)}
							} else {
								p, err := gcetcbendorsement.TdxPolicy(w.ctx, t.e, &gcetcbendorsement.TdxPolicyOptions{RAMGiB: ram})
								one = res{entry: "TdxPolicy", reqKind: tdxRamKind(g, ram), mkind: "-", raw: t.raw}
								if err == nil {
									ptd := p.GetTdQuoteBodyPolicy().GetAnyMrTd()
									if len(ptd) == 0 {
										one.polErr = append(one.polErr, "policy-without-mrtd-constraint")
									}
									for _, v := range ptd {
										if !member(listed, v) {
											one.polErr = append(one.polErr, "policy-allows-unlisted-mrtd")
											one.detail = fmt.Sprintf("goroutine %d call %d: endorsement #%d ram_gib=%d policy allows %x, listed %x", gi, x, j, ram, v, listed)
											break
										}
									}
								}
							}
						}
					}()
					local = append(local, one)
				}
				mu.Lock()
				results = append(results, local...)
				calls += len(local)
				mu.Unlock()
			}(gi)
		}
		close(start)
		wg.Wait()
		c.Eval(calls)
		c.Count("cmix/calls", calls)
		for _, one := range results {
			switch {
			case one.entry == "panic":
				c.Count("panic-observed-not-judged-here/cmix", 1)
			case one.entry == "TdxPolicy":
				for _, rule := range one.polErr {
					c.Violate(core.Violation{Kind: "oracle", Entry: "cmix/TdxPolicy", Site: rule, Gen: gname, Case: i, Detail: one.detail, Witness: map[string]any{"endorsement": one.raw}})
				}
				c.Cell("cmix|TdxPolicy|%s|exact=%v", one.reqKind, len(one.polErr) == 0)
			default:
				tl.judge(i, "cmix", one.entry, "", one.reqKind, one.mkind, one.accepted, one.allowed, "", gname, one.detail, one.raw)
			}
		}
		c.End(i)
	}
	return n
}

// ---- family combo: option combinations and boundary requests ----

var boundaryKeys = []uint32{0, 1, 2, 4, 8, 255, 256, 257, 0x7fffffff, 0x80000000, 0x80000001, 0xffffffff}

func genTableF(r *rand.Rand, signer *gen.Identity, nb time.Time) *table {
	g := &epb.VMGoldenMeasurement{Timestamp: timeproto.To(nb.Add(time.Hour)), ClSpec: 1 + uint64(r.IntN(1000)), Digest: rbytes(r, 48)}
	switch r.IntN(12) {
	case 0:
		g.Digest = nil
	case 1:
		g.Digest = rbytes(r, 32)
	}
	snp := &epb.VMSevSnp{Policy: gen.ProdPolicy(), Measurements: map[uint32][]byte{}}
	nk := 1 + r.IntN(6)
	if r.IntN(6) == 0 {
		nk = 20 + r.IntN(30) // a table as large as the real ones and larger
	}
	for x := 0; x < nk; x++ {
		var k uint32
		switch r.IntN(4) {
		case 0:
			k = boundaryKeys[r.IntN(len(boundaryKeys))]
		case 1:
			k = uint32(r.IntN(300))
		default:
			k = counts[r.IntN(len(counts))]
		}
		snp.Measurements[k] = rbytes(r, 48)
	}
	if r.IntN(3) == 0 {
		snp.SvsmMeasurement = rbytes(r, 48)
	}
	g.SevSnp = snp
	tdx := &epb.VMTdx{}
	nr := 1 + r.IntN(6)
	if r.IntN(6) == 0 {
		nr = 20 + r.IntN(40)
	}
	rams := []uint32{0, 16, 16, 32, 64, 176, 256, 1 << 31, 0xffffffff}
	for x := 0; x < nr; x++ {
		tdx.Measurements = append(tdx.Measurements, &epb.VMTdx_Measurement{RamGib: rams[r.IntN(len(rams))], EarlyAccept: r.IntN(2) == 0, Mrtd: rbytes(r, 48)})
	}
	if r.IntN(6) == 0 { // a row whose MRTD is not 48 bytes
		tdx.Measurements[r.IntN(len(tdx.Measurements))].Mrtd = rbytes(r, []int{0, 0, 47, 49}[r.IntN(4)])
	}
	g.Tdx = tdx
	e := gen.Endorse(signer, g)
	raw, _ := proto.Marshal(e)
	gg := &epb.VMGoldenMeasurement{}
	proto.Unmarshal(e.SerializedUefiGolden, gg)
	return &table{golden: gg, e: e, raw: raw}
}

func runCombos(c *core.Ctx, w *world, base int, tl *tally) int {
	n := c.N(220, 3200)
	for k := 0; k < n; k++ {
		i := base + k
		if !c.Mine(i) {
			continue
		}
		r := c.Rand(i)
		t := genTableF(r, w.pki.Signer, w.nb)
		g := t.golden
		gname := fmt.Sprintf("combo#%d snp-keys=%d svsm=%d tdx-rows=%d digest-len=%d", k, len(g.SevSnp.Measurements), len(g.SevSnp.SvsmMeasurement), len(g.Tdx.Measurements), len(g.Digest))
		c.Begin(i, gname, "combinations", nil)
		c.Max("combo/largest-snp-table", int64(len(g.SevSnp.Measurements)))
		c.Max("combo/largest-tdx-table", int64(len(g.Tdx.Measurements)))
		allSNP := listedSNP(g, 0)
		var keys []uint32
		for q := range g.SevSnp.Measurements {
			keys = append(keys, q)
		}
		sort.Slice(keys, func(a, b int) bool { return keys[a] < keys[b] })
		// (a) requests that are congruent to a listed count, and the extreme keys
		type creq struct {
			req  uint32
			kind string
			m    []byte
		}
		var cr []creq
		for x := 0; x < 4 && len(keys) > 0; x++ {
			q := keys[r.IntN(len(keys))]
			v := g.SevSnp.Measurements[q]
			cr = append(cr, creq{q + 256, "≡listed mod 2^8", v}, creq{q + 65536, "≡listed mod 2^16", v}, creq{q ^ 1<<31, "≡listed mod 2^31", v}, creq{q, "the listed count itself", v})
		}
		cr = append(cr, creq{0xffffffff, "2^32-1", pickOf(r, only48(allSNP))}, creq{0, "0", g.SevSnp.Measurements[0]})
		for _, q := range cr {
			if len(q.m) != 48 {
				continue
			}
			listed := listedSNP(g, q.req)
			reqKind := snpReqKind(g, q.req) + "[" + q.kind + "]"
			allowed := member(listed, q.m)
			det := fmt.Sprintf("request vmsas=%d (%s) measurement %x listed-for-it=%x", q.req, q.kind, q.m, listed)
			var err error
			c.Guard(i, "combo/verify.SNP", gname, core.Budget{PanicNotJudged: true}, func() {
				err = verify.SNP(g, &verify.SNPOptions{Measurement: cp(q.m), ExpectedLaunchVMSAs: q.req})
			})
			tl.judge(i, "combo", "verify.SNP", "", reqKind, "listed-for-congruent-count", err == nil, allowed, "", gname, det, t.raw)
			c.Guard(i, "combo/SNPValidateFunc", gname, core.Budget{PanicNotJudged: true}, func() {
				err = verify.SNPValidateFunc(&verify.Options{RootsOfTrust: w.roots, Now: w.now, SNP: &verify.SNPOptions{ExpectedLaunchVMSAs: q.req}})(&spb.Attestation{Report: &spb.Report{Measurement: cp(q.m)}}, t.raw)
			})
			tl.judge(i, "combo", "SNPValidateFunc", "", reqKind, "listed-for-congruent-count", err == nil, allowed, "", gname, det, t.raw)
			c.Guard(i, "combo/SevValidate", gname, core.Budget{PanicNotJudged: true}, func() {
				err = gcetcbendorsement.SevValidate(w.ctx, gen.SnpAttestation(q.m, w.vcek), &gcetcbendorsement.SevValidateOptions{Endorsement: t.e, RootsOfTrust: w.roots, Now: w.now, ExpectedLaunchVmsas: q.req})
			})
			tl.judge(i, "combo", "SevValidate", "", reqKind, "listed-for-congruent-count", err == nil, allowed, "", gname, det, t.raw)
			if q.req != 0 {
				var p *cpb.Policy
				c.Guard(i, "combo/SevPolicy", gname, core.Budget{PanicNotJudged: true}, func() {
					p, err = gcetcbendorsement.SevPolicy(w.ctx, t.e, &gcetcbendorsement.SevPolicyOptions{LaunchVmsas: q.req, AllowUnspecifiedVmsas: r.IntN(2) == 0})
				})
				want, present := g.SevSnp.Measurements[q.req]
				switch {
				case err == nil && !present:
					c.Oracle(i, "combo/SevPolicy", "policy-without-measurement-constraint", gname, "SevPolicy succeeded for vmsas=%d (%s) although the endorsement lists no measurement for it (policy measurement %x)", q.req, q.kind, p.GetMeasurement())
				case err == nil && !bytes.Equal(p.GetMeasurement(), want):
					c.Oracle(i, "combo/SevPolicy", "policy-wrong-measurement", gname, "SevPolicy vmsas=%d measurement %x, endorsed %x", q.req, p.GetMeasurement(), want)
				case err == nil:
					c.Cell("combo|SevPolicy|%s|constraint-present", reqKind)
				default:
					c.Cell("combo|SevPolicy|%s|refused", reqKind)
				}
			}
		}
		// draws over the option space
		drawReq := func() uint32 {
			switch x := r.IntN(10); {
			case x < 3 || len(keys) == 0:
				return 0
			case x < 8:
				return keys[r.IntN(len(keys))]
			default:
				return 7
			}
		}
		drawM := func(listed, here [][]byte, foreign []byte) (string, []byte) {
			listed, here = only48(listed), only48(here)
			for try := 0; try < 3; try++ {
				switch r.IntN(6) {
				case 0, 1:
					if v := pickOf(r, listed); v != nil {
						return "listed", cp(v)
					}
				case 2:
					if v := pickOf(r, minus(here, listed)); v != nil {
						return "listed-for-other-request", cp(v)
					}
				case 3:
					if v := pickOf(r, listed); v != nil {
						x := cp(v)
						x[r.IntN(48)] ^= 1 << r.IntN(8)
						return "one-bit-neighbour", x
					}
				case 4:
					if foreign != nil {
						return "only-in-base-policy", cp(foreign)
					}
				}
			}
			return "random", rbytes(r, 48)
		}
		// (b) expected digest x named count x measurement
		for x := 0; x < 12; x++ {
			req := drawReq()
			listed := listedSNP(g, req)
			mkind, m := drawM(listed, allSNP, nil)
			var digest []byte
			dkind := ""
			switch r.IntN(6) {
			case 0:
				dkind, digest = "nil", nil
			case 1, 2:
				dkind, digest = "equal", cp(g.Digest)
			case 3:
				dkind, digest = "one-bit-off", rbytes(r, 48)
				if len(g.Digest) > 0 {
					digest = cp(g.Digest)
					digest[r.IntN(len(digest))] ^= 1 << r.IntN(8)
				}
			case 4:
				dkind, digest = "extended", append(cp(g.Digest), 0)
			default:
				dkind, digest = "empty", []byte{}
			}
			dOK := len(digest) == 0 || bytes.Equal(digest, g.Digest)
			reqKind := snpReqKind(g, req) + "+digest=" + dkind
			det := fmt.Sprintf("request vmsas=%d expected digest (%s) %x endorsed digest %x measurement(%s)=%x listed=%x", req, dkind, digest, g.Digest, mkind, m, listed)
			var err error
			src := r.IntN(4)
			entry := []string{"verify.EndorsementProto", "verify.Endorsement", "SNPValidateFunc(arg)", "SNPValidateFunc(options)"}[src]
			c.Guard(i, "combo/"+entry+"+digest", gname, core.Budget{PanicNotJudged: true}, func() {
				o := &verify.Options{RootsOfTrust: w.roots, Now: w.now, ExpectedUefiSha384: digest, SNP: &verify.SNPOptions{ExpectedLaunchVMSAs: req}}
				switch src {
				case 0:
					o.SNP.Measurement = m
					err = verify.EndorsementProto(t.e, o)
				case 1:
					o.SNP.Measurement = m
					err = verify.Endorsement(t.raw, o)
				case 2:
					err = verify.SNPValidateFunc(o)(&spb.Attestation{Report: &spb.Report{Measurement: m}}, t.raw)
				default:
					o.Endorsement = t.e
					err = verify.SNPValidateFunc(o)(&spb.Attestation{Report: &spb.Report{Measurement: m}}, nil)
				}
			})
			site := ""
			if member(listed, m) && !dOK {
				site = "accepted-wrong-digest"
			}
			tl.judge(i, "combo", entry+"+digest", "", reqKind, mkind, err == nil, member(listed, m) && dOK, site, gname, det, t.raw)
		}
		// (c) SevValidate: base policy x overwrite x source of the endorsement x test-only switch x context
		for x := 0; x < 16; x++ {
			req := drawReq()
			listed := listedSNP(g, req)
			foreign := rbytes(r, 48)
			var basePol *cpb.Policy
			bkind := "base=nil"
			switch r.IntN(6) {
			case 1:
				bkind, basePol = "base=empty", &cpb.Policy{}
			case 2:
				bkind, basePol = "base=no-measurement", &cpb.Policy{Policy: gen.ProdPolicy(), MinimumVersion: "0.0"}
			case 3:
				bkind, basePol = "base=foreign-measurement", &cpb.Policy{Policy: gen.ProdPolicy(), MinimumVersion: "0.0", Measurement: cp(foreign)}
			case 4:
				if v := pickOf(r, only48(listed)); v != nil {
					bkind, basePol = "base=listed-measurement", &cpb.Policy{Policy: gen.ProdPolicy(), MinimumVersion: "0.0", Measurement: cp(v)}
				}
			case 5:
				if v := pickOf(r, minus(only48(allSNP), listed)); v != nil {
					bkind, basePol = "base=measurement-of-other-count", &cpb.Policy{Policy: gen.ProdPolicy(), MinimumVersion: "0.0", Measurement: cp(v)}
				}
			}
			var fm []byte
			if bkind == "base=foreign-measurement" {
				fm = foreign
			}
			mkind, m := drawM(listed, allSNP, fm)
			if bkind == "base=measurement-of-other-count" && r.IntN(2) == 0 {
				mkind, m = "listed-for-other-request", cp(basePol.Measurement)
			}
			o := &gcetcbendorsement.SevValidateOptions{RootsOfTrust: w.roots, Now: w.now, ExpectedLaunchVmsas: req, BasePolicy: basePol, Overwrite: r.IntN(2) == 0, TestonlyForceGCS: r.IntN(4) == 0}
			a := gen.SnpAttestation(m, w.vcek)
			src := ""
			switch r.IntN(3) {
			case 0:
				src, o.Endorsement = "options", t.e
			case 1:
				src = "cert-table"
				a.CertificateChain.Extras = map[string][]byte{sev.GCEFwCertGUID: cp(t.raw)}
			default:
				src, o.Endorsement = "options+cert-table", t.e
				a.CertificateChain.Extras = map[string][]byte{sev.GCEFwCertGUID: cp(t.raw)}
			}
			ctx, ck := w.ctx, ""
			if r.IntN(3) == 0 {
				ctx, ck = w.dead, "+cancelled-ctx"
			}
			entry := fmt.Sprintf("SevValidate[%s,%s,overwrite=%v,force-gcs=%v%s]", src, bkind, o.Overwrite, o.TestonlyForceGCS, ck)
			var err error
			c.Guard(i, "combo/SevValidate+options", gname, core.Budget{PanicNotJudged: true}, func() { err = gcetcbendorsement.SevValidate(ctx, a, o) })
			outcome := "rejected"
			if err == nil {
				outcome = "accepted"
			}
			// pairwise cells over the option space (the product would be thousands of cells)
			c.Cell("combo|SevValidate+options|source=%s|%s|overwrite=%v|%s", src, bkind, o.Overwrite, outcome)
			c.Cell("combo|SevValidate+options|%s|%s|%s|%s", bkind, snpReqKind(g, req), mkind, outcome)
			c.Cell("combo|SevValidate+options|source=%s|force-gcs=%v%s|%s", src, o.TestonlyForceGCS, ck, outcome)
			tl.judge(i, "combo", "SevValidate+options", "", snpReqKind(g, req), mkind, err == nil, member(listed, m), "", gname,
				fmt.Sprintf("%s request vmsas=%d measurement(%s)=%x listed=%x base policy measurement %x", entry, req, mkind, m, listed, basePol.GetMeasurement()), t.raw)
		}
		// (c') SevPolicy: base policy (with a measurement of its own) x overwrite x allow-unspecified x named count
		for x := 0; x < 10 && len(keys) > 0; x++ {
			req := drawReq()
			if req == 0 {
				req = keys[r.IntN(len(keys))]
			}
			if req == 0 { // key 0 is in the table, but a request of 0 names no count
				req = 3
			}
			want, present := g.SevSnp.Measurements[req]
			var basePol *cpb.Policy
			bkind := "base=no-measurement"
			switch r.IntN(5) {
			case 0:
				basePol = &cpb.Policy{Policy: gen.ProdPolicy(), MinimumVersion: "0.0"}
			case 1:
				bkind, basePol = "base=foreign-measurement", &cpb.Policy{Policy: gen.ProdPolicy(), MinimumVersion: "0.0", Measurement: rbytes(r, 48)}
			case 2:
				bkind, basePol = "base=same-measurement", &cpb.Policy{Policy: gen.ProdPolicy(), MinimumVersion: "0.0", Measurement: cp(want)}
			case 3:
				if v := pickOf(r, minus(only48(allSNP), [][]byte{want})); v != nil {
					bkind, basePol = "base=measurement-of-other-count", &cpb.Policy{Policy: gen.ProdPolicy(), MinimumVersion: "0.0", Measurement: cp(v)}
				}
			default:
				bkind, basePol = "base=zero-length-measurement", &cpb.Policy{Measurement: []byte{}}
			}
			o := &gcetcbendorsement.SevPolicyOptions{LaunchVmsas: req, Base: basePol, Overwrite: r.IntN(2) == 0, AllowUnspecifiedVmsas: r.IntN(2) == 0}
			ctx := w.ctx
			if r.IntN(3) == 0 {
				ctx = w.dead
			}
			var p *cpb.Policy
			var err error
			c.Guard(i, "combo/SevPolicy+options", gname, core.Budget{PanicNotJudged: true}, func() { p, err = gcetcbendorsement.SevPolicy(ctx, t.e, o) })
			what := fmt.Sprintf("SevPolicy[%s,overwrite=%v,allow-unspecified=%v] vmsas=%d", bkind, o.Overwrite, o.AllowUnspecifiedVmsas, req)
			switch {
			case err == nil && !present:
				c.Oracle(i, "combo/SevPolicy+options", "policy-without-measurement-constraint", gname, "%s succeeded although the endorsement lists no measurement for that count (policy measurement %x)", what, p.GetMeasurement())
			case err == nil && !bytes.Equal(p.GetMeasurement(), want):
				c.Oracle(i, "combo/SevPolicy+options", "policy-wrong-measurement", gname, "%s: measurement %x (base policy had %x), endorsed %x", what, p.GetMeasurement(), basePol.GetMeasurement(), want)
			case err == nil:
				c.Cell("combo|SevPolicy+options|%s|overwrite=%v|allow-unspecified=%v|%s|constraint-present", bkind, o.Overwrite, o.AllowUnspecifiedVmsas, snpReqKind(g, req))
				c.Count("combo/SevPolicy+options-constraint-present", 1)
			default:
				c.Cell("combo|SevPolicy+options|%s|overwrite=%v|allow-unspecified=%v|%s|refused", bkind, o.Overwrite, o.AllowUnspecifiedVmsas, snpReqKind(g, req))
			}
		}
		// (d) TdxValidate / TdxPolicy: base policy x overwrite x RAM size x context
		allT := listedTDX(g, 0)
		for x := 0; x < 16; x++ {
			ram := 0
			switch r.IntN(8) {
			case 0, 1:
			case 2:
				ram = 48
			case 3:
				ram = 1<<32 + int(g.Tdx.Measurements[r.IntN(len(g.Tdx.Measurements))].RamGib)
			default:
				ram = int(g.Tdx.Measurements[r.IntN(len(g.Tdx.Measurements))].RamGib)
			}
			listed := listedTDX(g, ram)
			foreign := rbytes(r, 48)
			var basePol *tcpb.Policy
			bkind := "base=nil"
			var fm []byte
			switch r.IntN(8) {
			case 1:
				bkind, basePol = "base=empty", &tcpb.Policy{}
			case 2:
				bkind, basePol = "base=empty-body", &tcpb.Policy{TdQuoteBodyPolicy: &tcpb.TDQuoteBodyPolicy{}}
			case 3:
				bkind, basePol = "base=zero-length-allow-list", &tcpb.Policy{TdQuoteBodyPolicy: &tcpb.TDQuoteBodyPolicy{AnyMrTd: [][]byte{}}}
			case 4:
				bkind, basePol, fm = "base=foreign-allow-list", &tcpb.Policy{TdQuoteBodyPolicy: &tcpb.TDQuoteBodyPolicy{AnyMrTd: [][]byte{cp(foreign)}}}, foreign
			case 5:
				if v := pickOf(r, minus(only48(allT), listed)); v != nil {
					bkind, basePol, fm = "base=allow-list-of-other-size", &tcpb.Policy{TdQuoteBodyPolicy: &tcpb.TDQuoteBodyPolicy{AnyMrTd: [][]byte{cp(v)}}}, v
				}
			case 6:
				bkind, basePol = "base=header-policy-only", &tcpb.Policy{HeaderPolicy: &tcpb.HeaderPolicy{}}
			case 7:
				bkind, basePol = "base=empty-entry-in-allow-list", &tcpb.Policy{TdQuoteBodyPolicy: &tcpb.TDQuoteBodyPolicy{AnyMrTd: [][]byte{{}}}}
			}
			overwrite := r.IntN(2) == 0
			ctx, ck := w.ctx, ""
			if r.IntN(3) == 0 {
				ctx, ck = w.dead, "+cancelled-ctx"
			}
			ramKind := tdxRamKind(g, ram)
			gated := hasEmpty(listed) && !judgeEmptyMrtdRows
			if hasEmpty(listed) {
				ramKind += "[row with zero-length MRTD]"
			}
			var err error
			if r.IntN(3) == 0 {
				var p *tcpb.Policy
				entry := fmt.Sprintf("TdxPolicy[%s,overwrite=%v%s]", bkind, overwrite, ck)
				c.Guard(i, "combo/TdxPolicy+options", gname, core.Budget{PanicNotJudged: true}, func() {
					p, err = gcetcbendorsement.TdxPolicy(ctx, t.e, &gcetcbendorsement.TdxPolicyOptions{RAMGiB: ram, Base: basePol, Overwrite: overwrite})
				})
				if err == nil {
					exact := judgeTdxPolicy(c, i, "combo/TdxPolicy+options", gname, fmt.Sprintf("%s ram_gib=%d", entry, ram), p, listed)
					c.Cell("combo|%s|%s|exact=%v", entry, ramKind, exact)
					c.Count("combo/TdxPolicy+options-judged", 1)
					if hasEmpty(p.GetTdQuoteBodyPolicy().GetAnyMrTd()) {
						c.Count("observed/TdxPolicy-emits-zero-length-allow-entry(wildcard)-for-zero-length-endorsed-MRTD", 1)
					}
				} else {
					c.Cell("combo|%s|%s|refused", entry, ramKind)
				}
				continue
			}
			mkind, m := drawM(listed, allT, fm)
			entry := fmt.Sprintf("TdxValidate[%s,overwrite=%v%s]", bkind, overwrite, ck)
			c.Guard(i, "combo/TdxValidate+options", gname, core.Budget{PanicNotJudged: true}, func() {
				err = gcetcbendorsement.TdxValidate(ctx, gen.TdxQuote(m), &gcetcbendorsement.TdxValidateOptions{Endorsement: t.e, RootsOfTrust: w.roots, Now: w.now, ExpectedRAMGiB: ram, BasePolicy: basePol, Overwrite: overwrite})
			})
			if gated {
				if err == nil && !member(listed, m) {
					c.Count("observed/TdxValidate-accepts-unlisted-MRTD-when-a-row-has-zero-length-MRTD(gated)", 1)
					c.Note("TdxValidate accepts any MRTD when the endorsement's TDX table has a row with a zero-length mrtd for the requested size (empty any_mr_td entry = skip in go-tdx-guest); judging gated by judgeEmptyMrtdRows")
				}
				c.Cell("combo|TdxValidate+options|%s|%s|gated-accepted=%v", ramKind, mkind, err == nil)
				continue
			}
			outcome := "rejected"
			if err == nil {
				outcome = "accepted"
			}
			c.Cell("combo|TdxValidate+options|%s|overwrite=%v%s|%s|%s", bkind, overwrite, ck, mkind, outcome)
			tl.judge(i, "combo", "TdxValidate+options", "", ramKind, mkind, err == nil, member(listed, m), "", gname,
				fmt.Sprintf("%s request ram_gib=%d mrtd(%s)=%x listed=%x", entry, ram, mkind, m, listed), t.raw)
		}
		c.End(i)
	}
	return n
}

// ---- family getter: the endorsement comes through the caller's getter, with faults ----

type bucket struct {
	mu       sync.Mutex
	byName   map[string]int // URL -> table index
	raws     [][]byte
	mode     string
	wrong    int
	last     []byte
	lastIdx  int
	gets     int
	returned []int // table indices returned during the current call (-1 = nothing usable)
}

func (b *bucket) Get(url string) ([]byte, error) {
	b.mu.Lock()
	defer b.mu.Unlock()
	b.gets++
	give := func(idx int, body []byte) ([]byte, error) {
		b.returned = append(b.returned, idx)
		if idx >= 0 {
			b.last, b.lastIdx = body, idx
		}
		return body, nil
	}
	switch b.mode {
	case "error":
		b.returned = append(b.returned, -1)
		return nil, fmt.Errorf("Get %q: connection reset by peer", url)
	case "error-503":
		b.returned = append(b.returned, -1)
		return nil, fmt.Errorf("failed to retrieve %s, status code received 503", url)
	case "other-object":
		return give(b.wrong, cp(b.raws[b.wrong]))
	case "stale-previous-response":
		if b.last != nil {
			return give(b.lastIdx, cp(b.last))
		}
	case "empty":
		return give(-1, []byte{})
	case "nil":
		return give(-1, nil)
	case "truncated":
		if idx, ok := b.byName[url]; ok {
			return give(-1, cp(b.raws[idx][:len(b.raws[idx])/2]))
		}
	}
	if idx, ok := b.byName[url]; ok {
		return give(idx, cp(b.raws[idx]))
	}
	b.returned = append(b.returned, -1)
	return nil, fmt.Errorf("failed to retrieve %s, status code received 404", url)
}

func runGetter(c *core.Ctx, w *world, base int, tl *tally) int {
	n := c.N(120, 1800)
	otherRejected := 0
	modes := []string{"by-name", "by-name", "by-name", "error", "error-503", "other-object", "other-object", "stale-previous-response", "empty", "nil", "truncated"}
	for k := 0; k < n; k++ {
		i := base + k
		if !c.Mine(i) {
			continue
		}
		r := c.Rand(i)
		sh := genShape(r)
		ts := []*table{genSessTable(r, sh, w.pki.Signer, w.nb), genSessTable(r, sh, w.pki.Signer, w.nb)}
		gname := fmt.Sprintf("getter#%d keys=%v", k, sh.keys)
		c.Begin(i, gname, "getter", nil)
		b := &bucket{byName: map[string]int{}}
		for j, t := range ts {
			b.raws = append(b.raws, t.raw)
			for _, v := range only48(listedSNP(t.golden, 0)) {
				b.byName[verify.GCETcbURL(extractsev.GCETcbObjectName(sev.GCEUefiFamilyID, v))] = j
			}
		}
		closures := map[uint32]snpFn{}
		so := &gcetcbendorsement.SevValidateOptions{RootsOfTrust: w.roots, Now: w.now, Getter: b}
		var prevM []byte
		type call struct {
			entry int
			req   uint32
			m     []byte
			mkind string
		}
		var redo *call
		for s := 0; s < 28; s++ {
			var cl call
			mode := modes[r.IntN(len(modes))]
			retry := ""
			if redo != nil && r.IntN(4) > 0 {
				cl, mode, retry = *redo, "by-name", "+retry-after-failed-fetch"
				if r.IntN(3) == 0 { // retried with another flag value
					cl.req = append([]uint32{0}, sh.keys...)[r.IntN(1+len(sh.keys))]
					retry += "(other-count)"
				}
				if r.IntN(4) == 0 {
					mode = "other-object"
				}
			} else {
				cl.entry = r.IntN(4)
				if r.IntN(3) > 0 {
					cl.req = sh.keys[r.IntN(len(sh.keys))]
				}
				j := r.IntN(2)
				cl.mkind, cl.m = probe(r, listedSNP(ts[j].golden, cl.req), listedSNP(ts[j].golden, 0), listedSNP(ts[1-j].golden, cl.req), prevM, nil)
				if cl.mkind == "scribbled-into-returned-policy" {
					cl.mkind, cl.m = "random", rbytes(r, 48)
				}
			}
			redo = nil
			b.mode, b.wrong, b.returned = mode, r.IntN(2), nil
			var err error
			name := ""
			switch cl.entry {
			case 0:
				name = "SNPValidateFunc(kept-closure,getter)"
				f := closures[cl.req]
				if f == nil {
					f = verify.SNPValidateFunc(&verify.Options{RootsOfTrust: w.roots, Now: w.now, Getter: b, SNP: &verify.SNPOptions{ExpectedLaunchVMSAs: cl.req}})
					closures[cl.req] = f
				}
				c.Guard(i, "getter/"+name, gname, core.Budget{PanicNotJudged: true}, func() { err = f(&spb.Attestation{Report: &spb.Report{Measurement: cp(cl.m)}}, nil) })
			case 1:
				name = "SNPValidateFunc(fresh-closure,getter)"
				c.Guard(i, "getter/"+name, gname, core.Budget{PanicNotJudged: true}, func() {
					err = verify.SNPFamilyValidateFunc(sev.GCEUefiFamilyID, &verify.Options{RootsOfTrust: w.roots, Now: w.now, Getter: b, SNP: &verify.SNPOptions{ExpectedLaunchVMSAs: cl.req}})(&spb.Attestation{Report: &spb.Report{Measurement: cp(cl.m)}}, nil)
				})
			case 2:
				name = "SevValidate(kept-options,getter)"
				so.ExpectedLaunchVmsas, so.TestonlyForceGCS = cl.req, r.IntN(3) == 0
				c.Guard(i, "getter/"+name, gname, core.Budget{PanicNotJudged: true}, func() { err = gcetcbendorsement.SevValidate(w.ctx, gen.SnpAttestation(cl.m, w.vcek), so) })
			default:
				name = "SevValidate(fresh,getter)"
				c.Guard(i, "getter/"+name, gname, core.Budget{PanicNotJudged: true}, func() {
					err = gcetcbendorsement.SevValidate(w.ctx, gen.SnpAttestation(cl.m, w.vcek), &gcetcbendorsement.SevValidateOptions{RootsOfTrust: w.roots, Now: w.now, Getter: b, ExpectedLaunchVmsas: cl.req})
				})
			}
			// the endorsement of this call is what the getter handed out during it
			var listed [][]byte
			got := "nothing-usable"
			usable := false
			for _, idx := range b.returned {
				if idx >= 0 {
					listed = append(listed, listedSNP(ts[idx].golden, cl.req)...)
					usable = true
					got = fmt.Sprintf("endorsement #%d", idx)
				}
			}
			if !usable { // lenient: a library that falls back to something it fetched earlier is judged by all of them
				for _, t := range ts {
					listed = append(listed, listedSNP(t.golden, cl.req)...)
				}
			}
			c.Count("getter/fetch="+mode, 1)
			if len(b.returned) == 0 {
				c.Count("getter/call-without-fetch", 1)
			}
			reqKind := "vmsas=0"
			if cl.req != 0 {
				reqKind = "vmsas=named"
			}
			if mode == "other-object" && err != nil && !member(listed, cl.m) && usable {
				otherRejected++
			}
			tl.judge(i, "getter", name, retry, reqKind+"|fetch="+mode, cl.mkind, err == nil, member(listed, cl.m), "", gname,
				fmt.Sprintf("step %d: %s fetch mode %s handed out %s; request vmsas=%d measurement(%s)=%x listed-by-what-was-handed-out=%x", s, name+retry, mode, got, cl.req, cl.mkind, cl.m, listed), b.raws[0])
			if err != nil && !usable && mode != "by-name" && mode != "stale-previous-response" { // a fault, not "no such object"
				redo = &cl
				c.Count("getter/failed-fetch", 1)
			}
			if retry != "" {
				c.Count("getter/retries-after-failed-fetch", 1)
				if err == nil {
					c.Count("getter/retries-accepted-listed", 1)
				}
			}
			prevM = cl.m
		}
		c.End(i)
	}
	c.Count("getter/other-object-handed-out-and-measurement-not-listed-by-it:rejected", otherRejected)
	c.Floor("getter/other-object-rejected", otherRejected > 0)
	return n
}

// runAudit runs the appended families and declares their floors.
func runAudit(c *core.Ctx, w *world, base int) {
	tl := &tally{c: c, acc: map[string]int{}, rej: map[string]int{}}
	base += runSessions(c, w, base, tl)
	base += runConcurrentMixed(c, w, base, tl)
	base += runCombos(c, w, base, tl)
	base += runGetter(c, w, base, tl)
	runSources(c, w, base, tl)
	for _, fam := range []string{"seq", "cmix", "combo", "getter", "src"} {
		c.Count("accept-listed/"+fam, tl.acc[fam])
		c.Count("reject-unlisted/"+fam, tl.rej[fam])
		c.Floor("accept-listed/"+fam, tl.acc[fam] > 0)
		c.Floor("reject-unlisted/"+fam, tl.rej[fam] > 0)
	}
	for _, k := range []string{"seq/listed-by-other-endorsement", "seq/measurement-of-previous-call", "seq/scribbled-into-returned-policy", "cmix/listed-by-other-endorsement", "cmix/listed-for-other-request",
		"combo/listed-for-congruent-count", "combo/only-in-base-policy", "getter/measurement-of-previous-call",
		"src/listed-by-losing-source", "src/one-bit-neighbour-of-options-measurement"} {
		c.Count("reject-unlisted/"+k, tl.rej[k])
		c.Floor("probe-rejected/"+k, tl.rej[k] > 0)
	}
}
