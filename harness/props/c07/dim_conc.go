package c07

import (
	"bytes"
	"context"
	"fmt"
	"math/rand/v2"
	"os"
	"path/filepath"
	"runtime/debug"
	"sync"
	"sync/atomic"
	"time"

	"github.com/google/gce-tcb-verifier/eventlog"
	"github.com/google/gce-tcb-verifier/extract"
	exel "github.com/google/gce-tcb-verifier/extract/eventlog"
	"github.com/google/gce-tcb-verifier/extract/extractsev"
	"github.com/google/gce-tcb-verifier/gcetcbendorsement"
	epb "github.com/google/gce-tcb-verifier/proto/endorsement"
	"github.com/google/gce-tcb-verifier/verify"
	"google.golang.org/protobuf/proto"
	fmpb "google.golang.org/protobuf/types/known/fieldmaskpb"

	"verifharness/core"
	"verifharness/doubles"
)

// concurrent family: a verification service decodes what several peers send at the same time. Each
// of 8 goroutines owns its inputs, its receivers, its options and its collaborators (even its
// event-log file); the only thing the calls share is whatever the library keeps per process — a
// cache, a pool, a package-level scratch buffer, a lazily built table. All goroutines start the same
// entry point together and run their inputs three times. Judged: a panic in any goroutine (recovered
// there and reported with its site), a fatal runtime error (concurrent map access: the supervisor
// attributes the death to this case), the batch's allocation budget, and non-termination (CPU
// watchdog). Results are not compared (C09 owns the validators' verdicts under concurrency).

const (
	concGoroutines = 8
	concInputs     = 6
)

// concRounds: the decoders take microseconds per call, so their inputs go round more often to keep
// the goroutines overlapping for long enough; the validating entry points take a millisecond.
func concRounds(g string) int {
	switch g {
	case "endorsement", "quote":
		return 3
	}
	return 24
}

type concEntry struct {
	name string
	f    func(w *world, gi int, st step, k int) error
}

func concEntries(g string, w *world) []concEntry {
	ctx := context.Background()
	getter := func() *doubles.Getter { return &doubles.Getter{Default: w.endBytes} }
	locate := func(el *eventlog.CryptoAgileLog) error {
		for _, evts := range exel.RIMEventsFromEventLog(el) {
			for _, evt := range evts {
				if _, err := exel.Locate(evt.RIMLocatorType, evt.RIMLocator.Data, &exel.LocateOptions{Getter: getter(), UEFIVariableReader: exel.MakeEfiVarFSReader(w.efiRoot)}); err != nil {
					return err
				}
			}
		}
		return nil
	}
	parsed := func(b []byte) *epb.VMLaunchEndorsement {
		e := &epb.VMLaunchEndorsement{}
		if proto.Unmarshal(b, e) != nil {
			return nil
		}
		return e
	}
	switch g {
	case "eventlog":
		return []concEntry{
			{"CryptoAgileLog.Unmarshal+Locate", func(w *world, gi int, st step, k int) error {
			b := st.b
				el := &eventlog.CryptoAgileLog{}
				if err := el.Unmarshal(bytes.NewReader(b)); err != nil {
					return err
				}
				return locate(el)
			}},
			{"TCGPCClientPCREvent.Unmarshal", func(w *world, gi int, st step, k int) error {
			b := st.b
				return (&eventlog.TCGPCClientPCREvent{}).Unmarshal(bytes.NewReader(b))
			}},
			{"extract.Endorsement/eventlog", func(w *world, gi int, st step, k int) error {
			b := st.b
				p := filepath.Join(w.dir, fmt.Sprintf("concurrent_event_log_%d", gi))
				if err := os.WriteFile(p, b, 0o644); err != nil {
					panic(err)
				}
				_, err := extract.Endorsement(&extract.Options{EventLogLocation: p, UEFIVariableReader: exel.MakeEfiVarFSReader(w.efiRoot), Getter: getter(), FirmwareManufacturer: gceManufacturer})
				return err
			}},
		}
	case "event2":
		return []concEntry{{"TCGPCREvent2.Unmarshal", func(w *world, gi int, st step, k int) error {
			b := st.b
			return (&eventlog.TCGPCREvent2{}).Unmarshal(bytes.NewReader(b))
		}}}
	case "eventdata":
		return []concEntry{{"TCGEventData.Unmarshal", func(w *world, gi int, st step, k int) error {
			b := st.b
			return (&eventlog.TCGEventData{}).Unmarshal(bytes.NewReader(b))
		}}}
	case "sp800155":
		return []concEntry{{"SP800155Event3.UnmarshalFromBytes", func(w *world, gi int, st step, k int) error {
			b := st.b
			return (&eventlog.SP800155Event3{}).UnmarshalFromBytes(b)
		}}}
	case "locator":
		return []concEntry{{"exel.Locate", func(w *world, gi int, st step, k int) error {
			b := st.b
			lt := []uint32{3, 0, 1, 3, 2, 4}[k%6]
			if st.tag == 'V' {
				lt = st.loc
			}
			_, err := exel.Locate(lt, b, &exel.LocateOptions{Getter: getter(), UEFIVariableReader: exel.MakeEfiVarFSReader(w.efiRoot)})
			return err
		}}}
	case "endorsement":
		return []concEntry{
			{"verify.Endorsement", func(w *world, gi int, st step, k int) error {
			b := st.b
				o := &verify.Options{RootsOfTrust: w.pool, Now: w.now}
				if k%2 == 1 {
					o.SNP, o.ExpectedUefiSha384 = &verify.SNPOptions{Measurement: w.m4, ExpectedLaunchVMSAs: 4}, w.golden.Digest
				}
				return verify.Endorsement(b, o)
			}},
			{"verify.SNPValidateFunc", func(w *world, gi int, st step, k int) error {
			b := st.b
				o := &verify.Options{RootsOfTrust: w.pool, Now: w.now}
				if k%2 == 1 {
					o.Getter = &doubles.Getter{Default: b}
					return verify.SNPValidateFunc(o)(w.snpAttestation(false), nil)
				}
				return verify.SNPValidateFunc(o)(w.snpAttestation(false), b)
			}},
			{"SevPolicy+TdxPolicy", func(w *world, gi int, st step, k int) error {
			b := st.b
				e := parsed(b)
				if e == nil {
					return fmt.Errorf("not an endorsement")
				}
				_, err := gcetcbendorsement.SevPolicy(ctx, e, &gcetcbendorsement.SevPolicyOptions{LaunchVmsas: []uint32{0, 4, 1}[k%3], AllowUnspecifiedVmsas: true})
				_, err2 := gcetcbendorsement.TdxPolicy(ctx, e, &gcetcbendorsement.TdxPolicyOptions{RAMGiB: []int{0, 16}[k%2]})
				if err == nil {
					err = err2
				}
				return err
			}},
			{"Inspect", func(w *world, gi int, st step, k int) error {
			b := st.b
				e := parsed(b)
				if e == nil {
					return fmt.Errorf("not an endorsement")
				}
				ictx := gcetcbendorsement.WithInspect(ctx, &gcetcbendorsement.Inspect{Writer: &sink{term: k%2 == 0}, Form: gcetcbendorsement.BytesForm(k % 5)})
				err := gcetcbendorsement.InspectMask(ictx, e, &fmpb.FieldMask{Paths: []string{maskPaths[k%len(maskPaths)], "timestamp"}})
				gcetcbendorsement.InspectPayload(ictx, e)
				gcetcbendorsement.InspectSignature(ictx, e)
				return err
			}},
			{"SevValidate+TdxValidate/endorsement-option", func(w *world, gi int, st step, k int) error {
			b := st.b
				e := parsed(b)
				if e == nil {
					return fmt.Errorf("not an endorsement")
				}
				err := gcetcbendorsement.SevValidate(ctx, w.snpAttestation(true), &gcetcbendorsement.SevValidateOptions{Endorsement: e, RootsOfTrust: w.pool, Now: w.now, ExpectedLaunchVmsas: 4})
				err2 := gcetcbendorsement.TdxValidate(ctx, w.tdxQuote, &gcetcbendorsement.TdxValidateOptions{Endorsement: e, RootsOfTrust: w.pool, Now: w.now, ExpectedRAMGiB: 16})
				if err == nil {
					err = err2
				}
				return err
			}},
		}
	case "quote":
		return []concEntry{
			{"extract.Attestation+FromCertTable", func(w *world, gi int, st step, k int) error {
			b := st.b
				_, err := extract.Attestation(b)
				extractsev.FromCertTable(b)
				return err
			}},
			{"extract.Endorsement/quote", func(w *world, gi int, st step, k int) error {
			b := st.b
				_, err := extract.Endorsement(&extract.Options{Quote: b, Getter: &doubles.Getter{Default: w.endBytes, Fail: k%2 == 0}, ForceFetch: k%3 == 0})
				return err
			}},
			{"SevValidate/attestation+TdxValidate/quote", func(w *world, gi int, st step, k int) error {
			b := st.b
				err := gcetcbendorsement.TdxValidate(ctx, b, &gcetcbendorsement.TdxValidateOptions{Endorsement: w.end, RootsOfTrust: w.pool, Now: w.now, ExpectedRAMGiB: 16, Overwrite: true})
				a, aerr := extract.Attestation(b)
				if aerr != nil || a.GetSevSnpAttestation() == nil {
					return err
				}
				return gcetcbendorsement.SevValidate(ctx, a.GetSevSnpAttestation(), &gcetcbendorsement.SevValidateOptions{RootsOfTrust: w.pool, Now: w.now, Getter: getter(), ExpectedLaunchVmsas: 4})
			}},
		}
	}
	return nil
}

type concPanic struct{ msg, site, gen string }

// vary returns a well-formed input of the group that differs from every other by a free field.
func (w *world) vary(g string, salt uint32) step {
	name := fmt.Sprintf("V%08x", salt)
	varLoc := append(efiGUIDBytes(varGUID), ucs2(name)...)
	strs := genuineStrs
	strs[4] = fmt.Sprintf("1.%d", salt)
	rim := sp800155With(strs, 3, varLoc, nil, true)
	st := step{gname: fmt.Sprintf("varied/%s[%08x]", g, salt), tag: 'V'}
	b := &builder{}
	switch g {
	case "locator":
		if salt&1 == 0 {
			st.b, st.loc = varLoc, 3
		} else {
			st.b, st.loc = []byte("https://storage.googleapis.com/gce_tcb_integrity/ovmf_x64_csm/"+name+".binarypb"), 1
		}
		return st
	case "sp800155":
		st.b = rim[16:]
		return st
	case "eventdata":
		b.u32("", uint32(len(rim)))
		b.raw(rim)
	case "event2":
		eventWithDigests(b, 1+int(salt%5), 3, rim)
	case "eventlog":
		b.pcClientHeader()
		eventWithDigests(b, 2, 8, le32(salt))
		eventWithDigests(b, 3, 3, rim)
	case "endorsement":
		gm := proto.Clone(w.golden).(*epb.VMGoldenMeasurement)
		gm.ClSpec = uint64(salt) + 1
		st.b = mustMarshal(w.endorse(gm))
		return st
	case "quote":
		switch salt % 3 {
		case 0:
			st.b = putLE(w.byName["snp-raw"].data, 0x50, 4, uint64(salt))
		case 1:
			st.b = putLE(w.tdxQuote, 0x238, 4, uint64(salt))
		default:
			es := parseTable(w.byName["cert-table"].data)
			var extra tableEntry
			copy(extra.guid[:], efiGUIDBytes(fmt.Sprintf("%08x-0000-4000-8000-00000000000c", salt)))
			extra.blob = le32(salt)
			st.b = certTable(append(es, extra))
		}
		return st
	}
	st.b = append([]byte{}, b.buf.Bytes()...)
	return st
}

func (d *dimRun) runConcurrent(i int, ds dimSpec, r *rand.Rand) {
	g := sessionGroups[ds.a]
	w := d.w
	// every goroutine owns its inputs: a genuine one and mutants
	inputs := make([][]step, concGoroutines)
	total := 0
	for gi := range inputs {
		for k := 0; k < concInputs; k++ {
			var st step
			if k == gi%concInputs {
				st.b, st.gname = d.genuineOf(g, r)
			} else {
				st.b, st.gname = d.poolInput(g, r)
			}
			st.b = append([]byte{}, st.b...) // nobody else's bytes
			total += len(st.b)
			inputs[gi] = append(inputs[gi], st)
		}
	}
	rounds := concRounds(g)
	// every second call gets an input nobody has seen before (a well-formed object with a varied
	// free field), so that whatever the library remembers per input is written all the time
	varied := make([][]step, concGoroutines)
	nvaried, totalVaried := 0, 0
	for gi := range varied {
		varied[gi] = make([]step, rounds*concInputs)
		for round := 0; round < rounds; round++ {
			for k := 0; k < concInputs; k++ {
				if (k+round)%2 == 1 {
					varied[gi][round*concInputs+k] = w.vary(g, uint32(ds.v)<<20|uint32(gi)<<16|uint32(round)<<8|uint32(k))
					totalVaried += len(varied[gi][round*concInputs+k].b)
					nvaried++
				}
			}
		}
	}
	d.c.Count("concurrent/fresh-well-formed-inputs", nvaried)
	for _, ce := range concEntries(g, w) {
		name := "concurrent:" + ce.name
		d.names[name] = true
		if d.deaths[name] >= deathCap {
			d.c.Count("suppressed-after-repeated-deaths/"+name, 1)
			continue
		}
		gname := fmt.Sprintf("concurrent/%s batch %d: %d goroutines x %d inputs x %d rounds (goroutine 0: %s, %s, ...)", g, ds.v, concGoroutines, concInputs, rounds, short(inputs[0][0].gname), short(inputs[0][1].gname))
		d.c.Begin(i, gname, name, nil)
		bd := core.Budget{CPU: time.Duration(concGoroutines) * cpuBase, Alloc: uint64(concGoroutines*allocBase + allocPerB*(total*rounds+totalVaried))}
		var inflight, maxInflight, oks, errs, freshOK atomic.Int64
		var mu sync.Mutex
		var panics []concPanic
		d.lim.enter(bd.Alloc)
		d.c.Guard(i, name, gname, bd, func() {
			var wg sync.WaitGroup
			start := make(chan struct{})
			for gi := 0; gi < concGoroutines; gi++ {
				wg.Add(1)
				go func(gi int) {
					defer wg.Done()
					cur := ""
					defer func() {
						if rec := recover(); rec != nil {
							mu.Lock()
							panics = append(panics, concPanic{fmt.Sprint(rec), core.PanicSite(debug.Stack()), cur})
							mu.Unlock()
							inflight.Add(-1)
						}
					}()
					<-start
					for round := 0; round < rounds; round++ {
						for k, st := range inputs[gi] {
							cur = st.gname
							n := inflight.Add(1)
							for {
								m := maxInflight.Load()
								if n <= m || maxInflight.CompareAndSwap(m, n) {
									break
								}
							}
							if v := varied[gi][round*concInputs+k]; v.b != nil {
								st = v
							}
							cur = st.gname
							err := ce.f(w, gi, st, k+round)
							inflight.Add(-1)
							if err == nil {
								oks.Add(1)
								if st.tag == 'V' {
									freshOK.Add(1)
								}
							} else {
								errs.Add(1)
							}
						}
					}
				}(gi)
			}
			close(start)
			wg.Wait()
		})
		d.lim.leave()
		for _, p := range panics {
			d.c.Count("panics/"+name, 1)
			d.c.Violate(core.Violation{Kind: "panic", Entry: name, Site: p.site, Gen: gname + " while decoding " + p.gen, Case: i, Detail: p.msg})
		}
		n := int(oks.Load() + errs.Load())
		d.c.Eval(max(n-1, 0))
		d.c.Count("calls/"+name, n)
		d.c.Count("errors/"+name, int(errs.Load()))
		d.c.Max("concurrent/max-calls-in-flight", maxInflight.Load())
		if maxInflight.Load() >= 2 {
			d.floor("concurrent/calls-overlapped")
		}
		d.c.Count("concurrent/fresh-well-formed-inputs-accepted/"+ce.name, int(freshOK.Load()))
		if freshOK.Load() > 0 {
			d.floor("concurrent/fresh-well-formed-inputs-accepted/" + g)
		}
		for _, o := range []struct {
			n    int64
			name string
		}{{oks.Load(), "ok"}, {errs.Load(), "error"}} {
			if o.n > 0 {
				d.c.Cell("concurrent|%s|%s|%s", g, ce.name, o.name)
			}
		}
	}
}
