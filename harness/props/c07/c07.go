// Package c07: relying-party decoders are total on untrusted bytes (no panic, no runaway CPU, no
// allocation out of proportion to the input), monitored with the guarded-call resource monitor.
package c07

import (
	"bufio"
	"bytes"
	"context"
	"encoding/json"
	"flag"
	"fmt"
	"math/rand/v2"
	"os"
	"path/filepath"
	"sort"
	"strings"
	"testing/iotest"
	"time"

	"github.com/google/gce-tcb-verifier/eventlog"
	"github.com/google/gce-tcb-verifier/extract"
	exel "github.com/google/gce-tcb-verifier/extract/eventlog"
	"github.com/google/gce-tcb-verifier/extract/extractsev"
	"github.com/google/gce-tcb-verifier/gcetcbendorsement"
	epb "github.com/google/gce-tcb-verifier/proto/endorsement"
	"github.com/google/gce-tcb-verifier/verify"
	cpb "github.com/google/go-sev-guest/proto/check"
	spb "github.com/google/go-sev-guest/proto/sevsnp"
	tcpb "github.com/google/go-tdx-guest/proto/checkconfig"
	"google.golang.org/protobuf/proto"
	fmpb "google.golang.org/protobuf/types/known/fieldmaskpb"

	"verifharness/core"
	"verifharness/doubles"
)

const (
	mib        = 1 << 20
	maxInput   = 1 * mib
	cpuBase    = 2 * time.Second
	cpuPerMiB  = 1 * time.Second
	allocBase  = 64 * mib
	allocPerB  = 4096
	ulimitVKiB = 6 << 20 // 6 GiB of address space: a process-fatal allocation dies here, after the case was logged
)

func init() {
	core.Register(&core.Info{
		ID: "C07", Level: "exploration",
		Rule: "case = (genuine seed object, mutation operator, parameters) -> one byte string (<= 1 MiB) that is handed to every decoder a verifier would apply to that kind of data " +
			"(native entry points of the seed kind; every 4th structural case and all random/stacked cases are cross-fed to ALL entry points). Seeds: signed endorsement, SNP attestation / report / TDX quote protos, " +
			"raw SNP report+certificate table, certificate table, raw TDX quote, their hex/base64 forms, TCG crypto-agile event logs with SP800-155 Event3 events of every locator type, the log's sub-structures, RIM locators. " +
			"Operators: every (thorough) / 64 sampled (quick) truncation lengths; every declared length/count/offset/type field set to a boundary table; every-offset u8/u16/u32 boundary sweep of the small binary seeds; " +
			"protobuf wire-level operators on every field (delete, duplicate, length prefix, wire type, field number, value, groups, deep nesting); re-signed golden-measurement variants with each optional sub-message removed or degenerate; " +
			"directed RIM-locator shapes (empty, GUID only, GUID + terminator only, 16..21 bytes, odd lengths, terminator in the middle / missing, unpaired surrogates, path-like names, 0/1-byte URI and device-path locators, undefined locator types) handed to exel.Locate with every locator type and embedded with consistent length fields in an otherwise genuine SP800-155 payload, event data, event and event log; " +
			"PEM-bundle grammar: re-signed endorsements whose sev_snp.ca_bundle (and ca_bundle, cert) holds 0..3 well-formed CERTIFICATE blocks with bytes that are not a complete block before, between and after them (nothing, white space, text, every kind of partial block, blocks of other types, a whole further block, truncations of a further block: 12 lengths quick / every length thorough), in three carriers, with the options under which policy derivation reaches the bundle; " +
			"signature-dispatched event payloads: event data = 16-byte signature + payload for every signature of a dictionary (the TCG PC Client Platform Firmware Profile signatures, every 16-byte constant found in the eventlog sources of the tree under test, unknown ones) x 32 payload lengths from 0 (every small boundary) x 6 fills, with consistent size fields, as event data, TCG_PCR_EVENT2, header event, and inside a whole log in event and in header position; " +
			"bit flips; stacked random edits; random bytes and patterns; textual re-encodings; inputs near 1 MiB. " +
			"Appended families (dims.go; case numbers continue after the list above): chunk = declared sizes and counts on internal-buffer boundaries (2^k-1, 2^k, 2^k+1 for k = 7..17 (19 thorough), 255-byte strings, 7..1025 digests, up to 4097 events, whole-input lengths) with the declared data present, in every carrier; " +
			"textenc = prefix x body encoding x suffix grammar of textual quotes (0x, BOM, '#', white space, separators, line breaks, padding; bodies from nothing to a genuine quote); efifile = UEFI variable files of 0..5 bytes / degenerate data behind a variable locator; " +
			"optmatrix = the full cross product of the caller's options of SevPolicy, TdxPolicy, verify.Endorsement, verify.SNPValidateFunc, SevValidate, TdxValidate, extract.Endorsement (nil / empty / filled sub-options, every boolean with every other, zero / named / unendorsed counts, absent / failing collaborators) over the genuine endorsement, every signed golden variant and broken ones; " +
			"session = one set of long-lived values (decode receivers, validator closures, options values, getter, variable reader, a receive buffer refilled in place) serving a sequence of inputs of one kind, with the same input twice in a row and again after another one, and receivers refilled with growing and shrinking arrays; " +
			"concurrent = 8 goroutines starting the same entry point together, each on its own inputs (half of them fresh well-formed objects in every call) with its own receivers and collaborators, judged for panics (recovered per goroutine), fatal runtime errors, the batch allocation budget and non-termination; " +
			"amplify = well-formed encoded containers of high expansion ratio (gzip, zlib, raw DEFLATE, LZW in both bit orders, bzip2, a zip archive; decoding to 64 KiB .. 128 MiB (192 MiB thorough) of zeros, 0xff, the genuine endorsement once / repeated / followed by a huge unknown field, a genuine quote or event log; gzip also with forged ISIZE, flipped CRC, cut trailer, 16 members, all optional header fields, nested twice), each verified by the harness's own constant-memory decoder, " +
			"as the bytes themselves (cross-fed to all entry points), as the GCE entry of the certificate table (attestation proto extras, TPM wrapper, raw report + table, table alone, base64 text), as raw RIM locator of an event log, and served by the Getter / a UEFI variable file / a raw locator to extraction followed by verify.Endorsement; every call is paired with a control twin (same entry point, options and position; the same container holding PRNG bytes stored uncompressed, never shorter than the stream) and rule `amplification` fires when the call allocated more than 64 MiB + 64 x max(input size, allocation of the control twin's call); " +
			"certzoo = every certificate slot of the golden measurement (cert as DER, ca_bundle and sev_snp.ca_bundle as PEM) holding a well-formed X.509 certificate of every key algorithm and size (RSA 512..4096 and e=3, ECDSA P-224..P-521, Ed25519, X25519 / unknown algorithm with no parsed key), issued by the root, by a stranger, expired, not yet valid, a CA, with 6 signature shapes, in three carriers; " +
			"tdxextract = TdxValidate without an endorsement from the caller (the extraction branch) while the process's default HTTP transport is a double answering 200 with a body chosen by the case, over TDX quotes in proto form with every populated field of the message tree absent / empty / of 1, 8, n-1, n+1, 2n bytes / maximal (bare and inside a TPM attestation), the genuine TDX seeds and mutants of them. Monitor: core.Guard per call: panic, thread CPU > 2 s + 1 s/MiB, allocated bytes > 64 MiB + 4096*len(input); " +
			"process-fatal failures (out of memory under ulimit -v 6 GiB, stack overflow) are attributed by the supervisor to the case logged before the call. " +
			"non-trivial = a call on a non-genuine input that returned; distinct cells = (seed, operator class, entry point, returned ok|error)",
		Assumptions: []string{
			"the budgets are the check's reading of 'out of proportion to the size of its input': CPU 2 s + 1 s/MiB, allocation 64 MiB + 4096 bytes per input byte; genuine inputs need 3 orders of magnitude less (genuine_* maxima in evidence)",
			"a panic or runaway allocation inside a dependency (go-sev-guest, go-tdx-guest, protobuf, crypto/x509) counts when it is reached through one of the listed repository entry points: C07 is about what the relying party's call does",
			"proto-typed entry points (SevPolicy, TdxPolicy, Inspect*, SevValidate with an endorsement option) receive proto.Unmarshal(input) as the CLI does; inputs that do not unmarshal are counted as not applicable for them",
			"TdxValidate and extract.Endorsement are given an endorsement / a recording getter and never a quote provider, so no call reaches the network, /sys or a TEE device; exel.Locate reads variables from a scratch efivarfs look-alike. The one exception is the tdxextract family: TdxValidate without an endorsement builds extract.DefaultOptions(), i.e. it tries to read /sys/kernel/security/tpm0/binary_bios_measurements (absent on the test machine; if present its content would be parsed) and uses go-sev-guest's default getter (http.Get), which the harness serves by replacing http.DefaultTransport for the duration of the call with a double that always answers 200",
			"certzoo family: a certificate whose signature is not valid or whose key nobody holds is still a byte string a peer can send; RSA-shaped keys of the zoo are random odd moduli, the X25519 / unknown-algorithm certificates are Ed25519 certificates with a rewritten algorithm identifier (well-formed for the parser, PublicKey == nil)",
			"EfiVarFSReader.ReadVariable is driven only through exel.Locate (the function applied to untrusted locator bytes)",
			"the genuine endorsement is signed with fixed embedded test keys and a deterministic salt stream so that every input is a function of (seed, case index) only",
			"InspectMask is exercised with a fixed list of well-formed field paths; hostile paths belong to C19",
			"state kept by the caller between calls (a refilled receiver, a long-lived validator closure or options value) and calls of other goroutines are part of 'every function ... returns a value or an error for every byte string': the property does not restrict the process in which the function is applied; only totality is judged there (results under concurrency are C09's, codec results on reused receivers C18's)",
			"the caller's options are not untrusted, but totality has to hold under every option combination the API accepts; nil *options pointers*, a nil context and a nil TerminalWriter are API misuse and are not produced; extract.Options without a UEFIVariableReader is produced, observed and not judged (see judgeNilVariableReader)",
			"amplify family: 'in proportion to the size of its input' is read as: two inputs of the same size in the same position under the same options cost about the same; the call on a high-ratio container may allocate 64 MiB + 64 x max(its input size, what the control twin needed) (the unchanged tree needs at most 33 bytes per input byte over all families, see alloc_b/* maxima); the general budget (64 MiB + 4096 B/B) applies to these calls as to all others",
			"the event-signature dictionary is extended with the 16-byte constants of <tree under test>/eventlog and /extract/eventlog (the replace target recorded in the worker's build info), so the case list is a function of (seed, tier, tree); when the sources cannot be read only the specification's signatures are used (see notes)",
		},
		ShardsQuick: 16, ShardsThor: 16, TimeoutS: 600, TimeoutThor: 3000, UlimitVKB: ulimitVKiB, Run: run,
	})
}

func budget(n int) core.Budget {
	return core.Budget{CPU: cpuBase + time.Duration(int64(cpuPerMiB)*int64(n)/mib), Alloc: uint64(allocBase + allocPerB*n)}
}

// sink is a TerminalWriter that only counts.
type sink struct {
	n    int
	term bool
}

func (s *sink) Write(p []byte) (int, error) { s.n += len(p); return len(p), nil }
func (s *sink) IsTerminal() bool            { return s.term }

var maskPaths = []string{"timestamp", "cl_spec", "commit", "cert", "digest", "ca_bundle", "sev_snp", "sev_snp.svn", "sev_snp.measurements",
	"sev_snp.family_id", "sev_snp.image_id", "sev_snp.policy", "sev_snp.ca_bundle", "sev_snp.svsm_measurement", "tdx", "tdx.svn", "tdx.measurements",
	"sev_snp.measurements[4]", "tdx.measurements[0]"}

// env is one input together with the per-case parameters of the calls.
type env struct {
	w            *world
	b            []byte
	end          *epb.VMLaunchEndorsement // proto.Unmarshal(b), nil when it does not parse
	vmsas        uint32
	ram          int
	form         gcetcbendorsement.BytesForm
	terminal     bool
	masks        []string
	forceFetch   bool
	manufacturer string
	locType      uint32
	overwrite    bool
	withBase     bool
	getterFails  bool
	el           *eventlog.CryptoAgileLog // set by the CryptoAgileLog.Unmarshal entry when it succeeds
}

type entry struct {
	name  string
	kinds []string // seed kinds this entry point is a native consumer of
	// call returns ran=false when the entry point is not applicable to the input.
	call func(e *env) (ran bool, err error)
}

func (en *entry) native(kind string) bool {
	for _, k := range en.kinds {
		if k == kind {
			return true
		}
	}
	return false
}

func entries() []*entry {
	ctx := context.Background()
	vopts := func(e *env) *verify.Options { return &verify.Options{RootsOfTrust: e.w.pool, Now: e.w.now} }
	sevBase := func(e *env) *cpb.Policy {
		if !e.withBase {
			return nil
		}
		return &cpb.Policy{Policy: 0x30000, MinimumGuestSvn: 1, Measurement: e.w.m4, MinimumVersion: "0.0"}
	}
	tdxBase := func(e *env) *tcpb.Policy {
		if !e.withBase {
			return nil
		}
		return &tcpb.Policy{TdQuoteBodyPolicy: &tcpb.TDQuoteBodyPolicy{AnyMrTd: [][]byte{e.w.mrtd}}}
	}
	return []*entry{
		{"verify.Endorsement", []string{"endorsement"}, func(e *env) (bool, error) {
			return true, verify.Endorsement(e.b, vopts(e))
		}},
		{"verify.Endorsement+SNP", []string{"endorsement"}, func(e *env) (bool, error) {
			o := vopts(e)
			o.SNP = &verify.SNPOptions{Measurement: e.w.m4, ExpectedLaunchVMSAs: e.vmsas}
			o.ExpectedUefiSha384 = e.w.golden.Digest
			return true, verify.Endorsement(e.b, o)
		}},
		{"verify.SNPValidateFunc/argument", []string{"endorsement"}, func(e *env) (bool, error) {
			o := vopts(e)
			o.SNP = &verify.SNPOptions{ExpectedLaunchVMSAs: e.vmsas}
			return true, verify.SNPValidateFunc(o)(e.w.snpAttestation(false), e.b)
		}},
		{"verify.SNPValidateFunc/getter", []string{"endorsement"}, func(e *env) (bool, error) {
			o := vopts(e)
			o.Getter = &doubles.Getter{Default: e.b}
			return true, verify.SNPValidateFunc(o)(e.w.snpAttestation(false), nil)
		}},
		{"extract.Attestation", []string{"snp", "tdx", "certtable"}, func(e *env) (bool, error) {
			_, err := extract.Attestation(e.b)
			return true, err
		}},
		{"extractsev.FromCertTable", []string{"certtable"}, func(e *env) (bool, error) {
			_, err := extractsev.FromCertTable(e.b)
			return true, err
		}},
		{"extractsev.FromAttestation", []string{"snp"}, func(e *env) (bool, error) {
			at := &spb.Attestation{}
			if proto.Unmarshal(e.b, at) != nil {
				return false, nil
			}
			_, err := extractsev.FromAttestation(at)
			return true, err
		}},
		{"extract.Endorsement/quote", []string{"snp", "tdx", "certtable"}, func(e *env) (bool, error) {
			_, err := extract.Endorsement(&extract.Options{Quote: e.b, Getter: &doubles.Getter{Default: e.w.endBytes, Fail: e.getterFails}, ForceFetch: e.forceFetch})
			return true, err
		}},
		{"extract.Endorsement/eventlog", []string{"eventlog"}, func(e *env) (bool, error) {
			// without a quote, and with a getter that fails, only the event log can produce the answer
			_, err := extract.Endorsement(&extract.Options{EventLogLocation: e.w.elPath, UEFIVariableReader: exel.MakeEfiVarFSReader(e.w.efiRoot),
				Getter: &doubles.Getter{Default: e.w.endBytes, Fail: e.getterFails}, FirmwareManufacturer: e.manufacturer})
			return true, err
		}},
		{"SevPolicy", []string{"endorsement"}, func(e *env) (bool, error) {
			if e.end == nil {
				return false, nil
			}
			_, err := gcetcbendorsement.SevPolicy(ctx, e.end, &gcetcbendorsement.SevPolicyOptions{Base: sevBase(e), LaunchVmsas: e.vmsas, Overwrite: e.overwrite, AllowUnspecifiedVmsas: e.vmsas == 0})
			return true, err
		}},
		{"TdxPolicy", []string{"endorsement"}, func(e *env) (bool, error) {
			if e.end == nil {
				return false, nil
			}
			_, err := gcetcbendorsement.TdxPolicy(ctx, e.end, &gcetcbendorsement.TdxPolicyOptions{Base: tdxBase(e), RAMGiB: e.ram, Overwrite: e.overwrite})
			return true, err
		}},
		{"SevValidate/attestation", []string{"snp", "certtable"}, func(e *env) (bool, error) {
			a, err := extract.Attestation(e.b)
			if err != nil || a.GetSevSnpAttestation() == nil {
				return false, nil
			}
			return true, gcetcbendorsement.SevValidate(ctx, a.GetSevSnpAttestation(), &gcetcbendorsement.SevValidateOptions{RootsOfTrust: e.w.pool, Now: e.w.now,
				Getter: &doubles.Getter{Default: e.w.endBytes}, ExpectedLaunchVmsas: e.vmsas, BasePolicy: sevBase(e), Overwrite: e.overwrite})
		}},
		{"SevValidate/endorsement-option", []string{"endorsement"}, func(e *env) (bool, error) {
			if e.end == nil {
				return false, nil
			}
			return true, gcetcbendorsement.SevValidate(ctx, e.w.snpAttestation(true), &gcetcbendorsement.SevValidateOptions{Endorsement: e.end, RootsOfTrust: e.w.pool, Now: e.w.now, ExpectedLaunchVmsas: e.vmsas})
		}},
		{"SevValidate/getter", []string{"endorsement"}, func(e *env) (bool, error) {
			return true, gcetcbendorsement.SevValidate(ctx, e.w.snpAttestation(false), &gcetcbendorsement.SevValidateOptions{RootsOfTrust: e.w.pool, Now: e.w.now,
				Getter: &doubles.Getter{Default: e.b}, ExpectedLaunchVmsas: e.vmsas})
		}},
		{"TdxValidate/quote", []string{"tdx"}, func(e *env) (bool, error) {
			return true, gcetcbendorsement.TdxValidate(ctx, e.b, &gcetcbendorsement.TdxValidateOptions{Endorsement: e.w.end, RootsOfTrust: e.w.pool, Now: e.w.now, ExpectedRAMGiB: e.ram, BasePolicy: tdxBase(e), Overwrite: true})
		}},
		{"TdxValidate/endorsement-option", []string{"endorsement"}, func(e *env) (bool, error) {
			if e.end == nil {
				return false, nil
			}
			return true, gcetcbendorsement.TdxValidate(ctx, e.w.tdxQuote, &gcetcbendorsement.TdxValidateOptions{Endorsement: e.end, RootsOfTrust: e.w.pool, Now: e.w.now, ExpectedRAMGiB: e.ram})
		}},
		{"InspectSignature", []string{"endorsement"}, func(e *env) (bool, error) {
			if e.end == nil {
				return false, nil
			}
			return true, gcetcbendorsement.InspectSignature(gcetcbendorsement.WithInspect(ctx, &gcetcbendorsement.Inspect{Writer: &sink{term: e.terminal}, Form: e.form}), e.end)
		}},
		{"InspectPayload", []string{"endorsement"}, func(e *env) (bool, error) {
			if e.end == nil {
				return false, nil
			}
			return true, gcetcbendorsement.InspectPayload(gcetcbendorsement.WithInspect(ctx, &gcetcbendorsement.Inspect{Writer: &sink{term: e.terminal}, Form: e.form}), e.end)
		}},
		{"InspectMask", []string{"endorsement"}, func(e *env) (bool, error) {
			if e.end == nil {
				return false, nil
			}
			return true, gcetcbendorsement.InspectMask(gcetcbendorsement.WithInspect(ctx, &gcetcbendorsement.Inspect{Writer: &sink{term: e.terminal}, Form: e.form}), e.end, &fmpb.FieldMask{Paths: e.masks})
		}},
		{"CryptoAgileLog.Unmarshal", []string{"eventlog", "pcclient"}, func(e *env) (bool, error) {
			el := &eventlog.CryptoAgileLog{}
			err := el.Unmarshal(bytes.NewReader(e.b))
			if err == nil {
				e.el = el
			}
			return true, err
		}},
		{"CryptoAgileLog.Unmarshal/one-byte-reader", []string{"eventlog"}, func(e *env) (bool, error) {
			return true, (&eventlog.CryptoAgileLog{}).Unmarshal(iotest.OneByteReader(bytes.NewReader(e.b)))
		}},
		{"exel.RIMEventsFromEventLog", []string{"eventlog", "pcclient"}, func(e *env) (bool, error) {
			if e.el == nil {
				return false, nil
			}
			m := exel.RIMEventsFromEventLog(e.el)
			// what extract.fromEventLog does with the result
			for _, evts := range m {
				for _, evt := range evts {
					if _, err := exel.Locate(evt.RIMLocatorType, evt.RIMLocator.Data, &exel.LocateOptions{Getter: &doubles.Getter{Default: e.w.endBytes}, UEFIVariableReader: exel.MakeEfiVarFSReader(e.w.efiRoot)}); err != nil {
						return true, err
					}
				}
			}
			return true, nil
		}},
		{"TCGPCClientPCREvent.Unmarshal", []string{"pcclient", "eventlog"}, func(e *env) (bool, error) {
			return true, (&eventlog.TCGPCClientPCREvent{}).Unmarshal(bytes.NewReader(e.b))
		}},
		{"TCGPCREvent2.Unmarshal", []string{"event2"}, func(e *env) (bool, error) {
			return true, (&eventlog.TCGPCREvent2{}).Unmarshal(bytes.NewReader(e.b))
		}},
		{"TCGEventData.Unmarshal", []string{"eventdata"}, func(e *env) (bool, error) {
			return true, (&eventlog.TCGEventData{}).Unmarshal(bytes.NewReader(e.b))
		}},
		{"SP800155Event3.UnmarshalFromBytes", []string{"sp800155"}, func(e *env) (bool, error) {
			return true, (&eventlog.SP800155Event3{}).UnmarshalFromBytes(e.b)
		}},
		{"exel.Locate", []string{"locator"}, func(e *env) (bool, error) {
			_, err := exel.Locate(e.locType, e.b, &exel.LocateOptions{Getter: &doubles.Getter{Default: e.w.endBytes}, UEFIVariableReader: exel.MakeEfiVarFSReader(e.w.efiRoot)})
			return true, err
		}},
	}
}

// ---- case list ----

type spec struct {
	seed  int // index into world.seeds; -1 = none
	op    string
	a, b  int
	cross bool
}

func (w *world) specs(c *core.Ctx) []spec {
	var out []spec
	r := c.RandNamed("specs")
	thorough := c.Thorough()
	add := func(s spec) { out = append(out, s) }
	structural := 0
	addS := func(s spec) { // every 4th structural case is cross-fed
		structural++
		s.cross = structural%4 == 0
		add(s)
	}
	// genuine objects first (floors and baselines): native, then cross-fed
	for i := range w.seeds {
		add(spec{seed: i, op: "genuine"})
		add(spec{seed: i, op: "genuine", cross: true})
	}
	// golden-measurement variants, re-signed, in three carriers
	for v := range goldenVariants {
		for carrier := 0; carrier < 3; carrier++ {
			add(spec{seed: -1, op: "golden", a: v, b: carrier, cross: true})
		}
	}
	// directed locator shapes in every carrier
	for v := range w.shapes {
		for carrier := range locCarriers {
			add(spec{seed: -1, op: "locshape", a: v, b: carrier})
		}
	}
	for i, s := range w.seeds {
		n := len(s.data)
		// truncations
		var lens []int
		if thorough {
			lim := n
			if n > 4096 {
				lim = 2048
			}
			for k := 0; k < lim; k++ {
				lens = append(lens, k)
			}
			for k := 0; n > 4096 && k < 1024; k++ {
				lens = append(lens, lim+r.IntN(n-lim))
			}
		} else {
			lens = []int{0, 1, 2, n - 1, n - 2, n / 2}
			for len(lens) < 64 {
				lens = append(lens, r.IntN(n))
			}
		}
		for _, l := range lens {
			if l >= 0 && l < n {
				addS(spec{seed: i, op: "trunc", a: l})
			}
		}
		// declared fields x boundary table
		for fi, f := range s.fields {
			nv := len(boundary(f.width, readLE(s.data, f.off, f.width), n-f.off-f.width, n))
			for vi := 0; vi < nv; vi++ {
				if thorough || vi < 6 || r.IntN(3) == 0 {
					addS(spec{seed: i, op: "field", a: fi, b: vi})
				}
			}
		}
		// every-offset sweep of the small binary seeds (and the structural windows of the large ones)
		if !s.proto && !s.text {
			var offs []int
			switch {
			case n <= 2048:
				for k := 0; k < n; k++ {
					offs = append(offs, k)
				}
			case s.name == "tdx-raw":
				for k := 0; k < 0x30; k++ {
					offs = append(offs, k)
				}
				for k := 0x270; k < 0x310 && k < n; k++ {
					offs = append(offs, k)
				}
				for k := 0x4B8; k < 0x4F0 && k < n; k++ {
					offs = append(offs, k)
				}
			default: // snp-raw, cert-table: report header and the certificate table header
				base := 0
				if s.name == "snp-raw" {
					base = 0x4A0
					for k := 0; k < 0x50; k++ {
						offs = append(offs, k)
					}
				}
				for k := base; k < base+200 && k < n; k++ {
					offs = append(offs, k)
				}
			}
			for _, off := range offs {
				for _, wd := range []int{1, 2, 4} {
					nv := len(keyValues(wd, n-off-wd))
					for vi := 0; vi < nv; vi++ {
						if thorough || r.IntN(40) == 0 {
							addS(spec{seed: i, op: fmt.Sprintf("off%d", wd*8), a: off, b: vi})
						}
					}
				}
			}
		}
		// wire-level operators on every field of the proto seeds
		if s.nodes != nil {
			for k, t := range pwTypes(s.nodes) {
				for v := 0; v < pwVariants; v++ {
					if pwApplies(t, v) && (thorough || r.IntN(8) == 0) {
						addS(spec{seed: i, op: "pw", a: k, b: v})
					}
				}
			}
		}
		// bit flips: every byte of the small seeds, sampled on the large ones
		if thorough && n <= 2048 {
			for k := 0; k < n; k++ {
				addS(spec{seed: i, op: "bitflip", a: k})
			}
		} else {
			for k := 0; k < c.N(24, 1500); k++ {
				addS(spec{seed: i, op: "bitflip", a: r.IntN(n)})
			}
		}
		// stacked random edits (always cross-fed) and re-encoded mutants of the raw seeds
		for k := 0; k < c.N(20, 1000); k++ {
			add(spec{seed: i, op: "stack", cross: true})
		}
		if !s.proto && !s.text && (s.kind == "snp" || s.kind == "tdx" || s.kind == "certtable") {
			for k := 0; k < c.N(30, 400); k++ {
				addS(spec{seed: i, op: "reenc", a: k})
			}
		}
	}
	for k := 0; k < c.N(150, 10000); k++ {
		add(spec{seed: -1, op: "random", cross: true})
	}
	for k := 0; k < len(patterns); k++ {
		add(spec{seed: -1, op: "pattern", a: k, cross: true})
	}
	for k := 0; k < nBig; k++ {
		add(spec{seed: -1, op: "big", a: k, cross: true})
	}
	// grammar-directed cases (appended, so that the indices of the cases above do not move)
	for k := range w.pemCases {
		for carrier := range carrierNames {
			if thorough || k%len(carrierNames) == carrier {
				add(spec{seed: -1, op: "pem", a: k, b: carrier, cross: k%8 == 0})
			}
		}
	}
	for k := range w.sigCases {
		for carrier := range sigCarriers {
			add(spec{seed: -1, op: "sigpayload", a: k, b: carrier, cross: k%16 == 0 && carrier == 0})
		}
	}
	return out
}

var patterns = []struct {
	name string
	f    func() []byte
}{
	{"empty", func() []byte { return nil }},
	{"zero-1", func() []byte { return []byte{0} }},
	{"zeros-64", func() []byte { return make([]byte, 64) }},
	{"zeros-4k", func() []byte { return make([]byte, 4096) }},
	{"ff-64", func() []byte { return bytes.Repeat([]byte{0xff}, 64) }},
	{"ff-4k", func() []byte { return bytes.Repeat([]byte{0xff}, 4096) }},
	{"hex-zeros", func() []byte { return bytes.Repeat([]byte("0"), 4096) }},
	{"base64-A", func() []byte { return bytes.Repeat([]byte("A"), 4096) }},
	{"base64-padding", func() []byte { return []byte("====") }},
	{"newline", func() []byte { return []byte("\n") }},
	{"pem", func() []byte { return []byte("-----BEGIN CERTIFICATE-----\nAAAA\n-----END CERTIFICATE-----\n") }},
	{"varint-overlong", func() []byte { return bytes.Repeat([]byte{0x80}, 64) }},
	{"group-open-4k", func() []byte { return bytes.Repeat([]byte{0x0b}, 4096) }},
	{"len-prefixed-huge", func() []byte { return []byte{0x0a, 0xff, 0xff, 0xff, 0xff, 0x0f} }},
}

// materialize produces the input of a case: bytes, generator path, operator class, seed name, seed kind.
func (w *world) materialize(s spec, r *rand.Rand) (b []byte, gname, class, sname, kind string) {
	sname, kind = "none", "none"
	var sd *seed
	if s.seed >= 0 {
		sd = w.seeds[s.seed]
		sname, kind = sd.name, sd.kind
	}
	switch s.op {
	case "genuine":
		return sd.data, sname + "/genuine", "genuine", sname, kind
	case "golden":
		v := goldenVariants[s.a]
		b, carrier := w.goldenVariant(s.a, s.b)
		kind = "endorsement"
		if s.b > 0 {
			kind = "snp"
		}
		return b, fmt.Sprintf("golden/%s in %s", v.name, carrier), "golden-variant", "golden-" + carrier, kind
	case "trunc":
		return sd.data[:s.a], fmt.Sprintf("%s/trunc[%d of %d]", sname, s.a, len(sd.data)), "trunc", sname, kind
	case "field":
		f := sd.fields[s.a]
		vals := boundary(f.width, readLE(sd.data, f.off, f.width), len(sd.data)-f.off-f.width, len(sd.data))
		v := vals[s.b%len(vals)]
		return putLE(sd.data, f.off, f.width, v), fmt.Sprintf("%s/field[%s@%#x:=%#x]", sname, f.name, f.off, v), "field", sname, kind
	case "off8", "off16", "off32":
		wd := map[string]int{"off8": 1, "off16": 2, "off32": 4}[s.op]
		vals := keyValues(wd, len(sd.data)-s.a-wd)
		v := vals[s.b%len(vals)]
		return putLE(sd.data, s.a, wd, v), fmt.Sprintf("%s/%s[@%#x:=%#x]", sname, s.op, s.a, v), "offset-sweep", sname, kind
	case "pw":
		b, name := pwMutate(sd.nodes, s.a, s.b)
		return b, fmt.Sprintf("%s/%s[field#%d v%d]", sname, name, s.a, s.b), name, sname, kind
	case "bitflip":
		o := append([]byte(nil), sd.data...)
		bit := r.IntN(8)
		o[s.a] ^= 1 << uint(bit)
		return o, fmt.Sprintf("%s/bitflip[@%#x bit %d]", sname, s.a, bit), "bitflip", sname, kind
	case "stack":
		b = sd.data
		n := 1 + r.IntN(3)
		path := ""
		for k := 0; k < n; k++ {
			var op string
			b, op = blind(r, b)
			path += "+" + op
		}
		if len(b) > maxInput {
			b = b[:maxInput]
		}
		return b, fmt.Sprintf("%s/stack[%s]", sname, path[1:]), "stack", sname, kind
	case "reenc":
		b = sd.data
		inner := "genuine"
		switch r.IntN(4) {
		case 0:
		case 1:
			if len(sd.fields) > 0 {
				f := sd.fields[r.IntN(len(sd.fields))]
				vals := boundary(f.width, readLE(b, f.off, f.width), len(b)-f.off-f.width, len(b))
				b = putLE(b, f.off, f.width, vals[r.IntN(len(vals))])
				inner = "field:" + f.name
			}
		default:
			b, inner = blind(r, b)
		}
		enc, form := reencode(b, r.IntN(6))
		if r.IntN(3) == 0 { // damage the text itself
			enc, _ = blind(r, enc)
			form += "+damaged"
		}
		return enc, fmt.Sprintf("%s/reenc[%s of %s]", sname, form, inner), "reencode", sname, kind
	case "random":
		n := r.IntN(65)
		if r.IntN(8) == 0 {
			n = r.IntN(8192)
		}
		return randomBytes(r, n), fmt.Sprintf("random[%d bytes]", n), "random", "random", "none"
	case "pattern":
		p := patterns[s.a]
		return p.f(), "pattern/" + p.name, "pattern", "pattern", "none"
	case "locshape":
		b, gname, kind, _ := w.locShapeInput(s.a, s.b)
		shape := w.shapes[s.a].name
		if k := strings.IndexByte(shape, '/'); k > 0 {
			shape = shape[:k]
		}
		return b, gname, "locator-shape", "locshape-" + shape + "-in-" + locCarriers[s.b].name, kind
	case "pem":
		b, gname, sname, kind := w.pemInput(s.a, s.b)
		return b, gname, "pem-bundle", sname, kind
	case "sigpayload":
		b, gname, sname, kind := w.sigInput(s.a, s.b, r)
		return b, gname, "signature-payload", sname, kind
	case "big":
		b, name, k := w.big(s.a)
		return b, "big/" + name, "big", "big-" + name, k
	}
	panic("unknown op " + s.op)
}

type tally struct{ GenuineOK, MutantOK, MutantErr int }

const deathCap = 4

// deathsByEntry reads this shard's own event log (the supervisor appends a restart record after
// every death; the case record before it names the entry point that was running).
func deathsByEntry() map[string]int {
	out := map[string]int{}
	f := flag.Lookup("log")
	if f == nil || f.Value.String() == "" {
		return out
	}
	fh, err := os.Open(f.Value.String())
	if err != nil {
		return out
	}
	defer fh.Close()
	sc := bufio.NewScanner(fh)
	sc.Buffer(make([]byte, 1<<20), 64<<20)
	last := ""
	for sc.Scan() {
		l := sc.Bytes()
		switch {
		case bytes.Contains(l, []byte(`"ev":"case"`)):
			var rec struct {
				Entry string `json:"entry"`
			}
			// the input is the bulk of the line; the entry is all that is needed
			if i := bytes.Index(l, []byte(`"entry":"`)); i >= 0 {
				rest := l[i+9:]
				if j := bytes.IndexByte(rest, '"'); j >= 0 {
					rec.Entry = string(rest[:j])
				}
			}
			last = rec.Entry
		case len(l) < 200 && bytes.Contains(l, []byte(`"restart"`)): // written by the supervisor (Python JSON spacing)
			if last != "" {
				out[last]++
			}
		}
	}
	return out
}

func run(c *core.Ctx) {
	w := mkWorld()
	w.fresh = c.SkipTo == 0
	w.scratch()
	defer w.cleanup()
	w.mkPemCases(c.Thorough())
	w.mkSigCases()
	if w.scanDir != "" {
		c.Note("event-signature dictionary: %d signatures (%d 16-byte constants scanned from %s/{eventlog,extract/eventlog}, %d of them not in the specification list)", len(w.sigs), w.scanned, w.scanDir, w.scannedNew)
	} else {
		c.Note("event-signature dictionary: %d signatures (sources of the tree under test not found: specification list only)", len(w.sigs))
	}
	c.Max("event-signatures-in-dictionary", int64(len(w.sigs)))
	c.Max("event-signatures-scanned-from-tree", int64(w.scanned))
	specs := w.specs(c)
	ents := entries()
	// An entry point that killed the worker process deathCap times in this shard is not called again in
	// this shard (each death is already a violation; a decoder that dies on most inputs would otherwise
	// cost one process restart per case). The suppression is visible as a floor and a counter.
	deaths := map[string]int{}
	if c.SkipTo > 0 {
		deaths = deathsByEntry()
	}
	lim := newASLimiter()
	if lim.active {
		c.Note("allocation budget is also enforced as a per-call soft RLIMIT_AS (current size + budget + 512 MiB, hard limit %d MiB)", lim.hard/mib)
	}
	tallies := map[string]*tally{}
	for _, en := range ents {
		tallies[en.name] = &tally{}
	}
	// A worker that is restarted after a process-fatal case continues the floors of its predecessors
	// (their summaries are lost with them): the three booleans per entry point are kept in the scratch directory.
	tallyPath := filepath.Join(w.dir, "floors.json")
	if c.SkipTo > 0 {
		if b, err := os.ReadFile(tallyPath); err == nil {
			old := map[string]*tally{}
			if json.Unmarshal(b, &old) == nil {
				for n, t := range old {
					if tallies[n] != nil {
						*tallies[n] = *t
					}
				}
			}
		}
	}
	var pemAccepted, pemTailRejected, sigDecoded, sigEmptyRejected bool
	sigDecoders := map[string]bool{"TCGEventData.Unmarshal": true, "TCGPCREvent2.Unmarshal": true, "TCGPCClientPCREvent.Unmarshal": true, "CryptoAgileLog.Unmarshal": true}
	saved := ""
	lastSig := -1
	saveTallies := func() {
		sig := 0
		for _, t := range tallies {
			sig += min(t.GenuineOK, 1) + min(t.MutantOK, 1) + min(t.MutantErr, 1)
		}
		if sig == lastSig { // the booleans only ever go from false to true
			return
		}
		lastSig = sig
		m := map[string]*tally{}
		for n, t := range tallies {
			m[n] = &tally{GenuineOK: min(t.GenuineOK, 1), MutantOK: min(t.MutantOK, 1), MutantErr: min(t.MutantErr, 1)}
		}
		if b, err := json.Marshal(m); err == nil && string(b) != saved {
			if os.WriteFile(tallyPath, b, 0o644) == nil {
				saved = string(b)
			}
		}
	}
	c.Count("cases-total", 0)
	for i, s := range specs {
		if !c.Mine(i) {
			continue
		}
		r := c.Rand(i)
		b, gname, class, sname, kind := w.materialize(s, r)
		if len(b) > maxInput {
			b = b[:maxInput]
		}
		// endorsement-shaped mutants: half of them are re-signed over the mutated payload, so that the
		// code behind the signature check sees them too
		if kind == "endorsement" && class != "genuine" && class != "golden-variant" && class != "big" && class != "pem-bundle" && r.IntN(2) == 0 {
			e := &epb.VMLaunchEndorsement{}
			if proto.Unmarshal(b, e) == nil && len(e.SerializedUefiGolden) > 0 && !bytes.Equal(e.SerializedUefiGolden, w.end.SerializedUefiGolden) {
				e.Signature = w.sign(e.SerializedUefiGolden)
				b = mustMarshal(e)
				gname += "+resigned"
			}
		}
		e := &env{w: w, b: b}
		pe := &epb.VMLaunchEndorsement{}
		if proto.Unmarshal(b, pe) == nil {
			e.end = pe
		}
		genuine := class == "genuine"
		if !genuine && s.seed >= 0 && bytes.Equal(b, w.seeds[s.seed].data) {
			// the operator wrote what was already there: not a mutant, and not counted as one
			genuine = true
			c.Count("cases-identical-to-genuine", 1)
		}
		// per-case parameters
		e.vmsas = []uint32{0, 1, 4, 4, 2, 7}[r.IntN(6)]
		e.ram = []int{0, 16, 16, 32, 64}[r.IntN(5)]
		e.form = gcetcbendorsement.BytesForm(r.IntN(5))
		e.terminal = r.IntN(2) == 0
		e.forceFetch = r.IntN(4) == 0
		e.manufacturer = []string{"", gceManufacturer}[r.IntN(2)]
		e.overwrite = r.IntN(3) == 0
		e.withBase = r.IntN(4) == 0
		e.getterFails = r.IntN(2) == 0
		e.masks = nil
		for k := 0; k < 1+r.IntN(3); k++ {
			e.masks = append(e.masks, maskPaths[r.IntN(len(maskPaths))])
		}
		e.locType = []uint32{0, 1, 2, 3, 3, 3, 4, 0xffffffff}[r.IntN(8)]
		if s.seed >= 0 && w.seeds[s.seed].kind == "locator" && (genuine || r.IntN(5) != 0) {
			e.locType = w.seeds[s.seed].loc
		}
		if s.op == "locshape" {
			_, _, _, e.locType = w.locShapeInput(s.a, s.b)
		}
		if class == "pem-bundle" { // the options under which policy derivation gets as far as the CA bundle
			e.vmsas = []uint32{0, 1, 4}[r.IntN(3)]
			e.withBase = false
		}
		if genuine { // the genuine calls are the ones that must succeed: fixed friendly parameters
			e.vmsas, e.ram, e.forceFetch, e.manufacturer, e.overwrite, e.withBase, e.getterFails = 4, 16, false, gceManufacturer, false, false, true
			e.masks = []string{"timestamp", "sev_snp.measurements[4]", "tdx.measurements"}
		}
		c.Count("cases-total", 1)
		c.Count("cases/"+class, 1)
		elWritten := false
		first := true
		for _, en := range ents {
			if !s.cross && !en.native(kind) {
				continue
			}
			if deaths[en.name] >= deathCap {
				c.Count("suppressed-after-repeated-deaths/"+en.name, 1)
				continue
			}
			if en.name == "extract.Endorsement/eventlog" && !elWritten {
				if err := os.WriteFile(w.elPath, b, 0o644); err != nil {
					panic(err)
				}
				elWritten = true
			}
			// The input goes into the case record of the first call (flushed before the call). In the thorough
			// tier inputs above 4 KiB are not logged (hundreds of MB otherwise): the generator path is an exact
			// recipe and `--replay` regenerates the bytes from (seed, case index).
			var in []byte
			if first && (!c.Thorough() || len(b) <= 4096) {
				in = b
				if in == nil {
					in = []byte{}
				}
			}
			first = false
			c.Begin(i, gname, en.name, in)
			var ran bool
			var err error
			bd := budget(len(b))
			lim.enter(bd.Alloc)
			m := c.Guard(i, en.name, gname, bd, func() { ran, err = en.call(e) })
			lim.leave()
			if m.Panicked {
				c.Count("panics/"+en.name, 1)
				continue
			}
			if !ran {
				c.Count("not-applicable/"+en.name, 1)
				continue
			}
			c.Count("calls/"+en.name, 1)
			t := tallies[en.name]
			outcome := "ok"
			if err != nil {
				outcome = "error"
				c.Count("errors/"+en.name, 1)
			}
			if genuine {
				c.Max("genuine_alloc_b/"+en.name, int64(m.Alloc))
				c.Max("genuine_cpu_us/"+en.name, int64(m.CPU/time.Microsecond))
				if en.native(kind) {
					if err == nil {
						t.GenuineOK++
					} else {
						c.Note("genuine seed %s rejected by native entry %s: %v", sname, en.name, err)
					}
					if uint64(m.Alloc)*10 > bd.Alloc || m.CPU*10 > bd.CPU {
						c.Note("headroom: genuine %s in %s used alloc=%d cpu=%v of budget alloc=%d cpu=%v", sname, en.name, m.Alloc, m.CPU, bd.Alloc, bd.CPU)
					}
				}
				continue
			}
			if err == nil {
				t.MutantOK++
			} else {
				t.MutantErr++
			}
			// what the grammar-directed cases are there for must have been reached
			switch {
			case class == "pem-bundle" && en.name == "SevPolicy":
				pc := w.pemCases[s.a]
				tail := len(w.pemTails[pc.tail].b)
				if pc.target == 0 && pc.k >= 1 && pc.k <= 2 && tail == 0 && err == nil {
					pemAccepted = true
				}
				if pc.target == 0 && pc.k == 2 && tail > 0 && err != nil {
					pemTailRejected = true
					c.Count("pem/two-certificates-then-tail-rejected-by-SevPolicy", 1)
				}
			case class == "signature-payload" && sigDecoders[en.name]:
				sc := w.sigCases[s.a]
				if sc.sig == 0 && sc.length == -1 && err == nil {
					sigDecoded = true
				}
				if sc.sig == 0 && sc.length == 0 && err != nil {
					sigEmptyRejected = true
				}
				if sc.length == 0 {
					c.Count("signature-payload/empty-payload-calls", 1)
				}
			}
			c.Cell("%s|%s|%s|%s", sname, class, en.name, outcome)
		}
		if i%211 == 0 {
			c.Sample(map[string]any{"case": i, "gen": gname, "input_len": len(b), "cross_fed": s.cross})
		}
		c.End(i)
		saveTallies()
	}
	// the appended workload dimensions (dims.go): case numbers continue after the list above
	w.runDims(c, specs, ents, lim, deaths)
	if st, err := os.ReadFile("/proc/self/status"); err == nil {
		for _, l := range bytes.Split(st, []byte("\n")) {
			var kb int64
			if n, _ := fmt.Sscanf(string(l), "VmPeak: %d kB", &kb); n == 1 {
				c.Max("worker_vm_peak_kib", kb)
			}
			if n, _ := fmt.Sscanf(string(l), "VmHWM: %d kB", &kb); n == 1 {
				c.Max("worker_rss_peak_kib", kb)
			}
		}
	}
	c.Floor("pem-bundle/one-or-two-certificates-accepted-by-SevPolicy", pemAccepted)
	c.Floor("pem-bundle/two-certificates-then-tail-rejected-by-SevPolicy", pemTailRejected)
	c.Floor("signature-payload/genuine-SP800-155-payload-decoded", sigDecoded)
	c.Floor("signature-payload/empty-SP800-155-payload-rejected", sigEmptyRejected)
	names := make([]string, 0, len(tallies))
	for n := range tallies {
		names = append(names, n)
	}
	sort.Strings(names)
	for _, n := range names {
		t := tallies[n]
		if n != "CryptoAgileLog.Unmarshal/one-byte-reader" { // r.Read is not io.ReadFull in the repository: short reads are refused (C18's subject), so no genuine accept here
			c.Floor("genuine-accepted/"+n, t.GenuineOK > 0)
		}
		c.Floor("mutant-returned/"+n, t.MutantOK+t.MutantErr > 0)
		if n != "InspectSignature" && n != "InspectPayload" { // these two cannot fail on a parsed endorsement
			c.Floor("mutant-rejected/"+n, t.MutantErr > 0)
		}
		c.Count("mutants-accepted/"+n, t.MutantOK)
		c.Floor("not-suppressed/"+n, deaths[n] < deathCap)
	}
}
