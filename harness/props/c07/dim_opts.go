package c07

import (
	"context"
	"crypto/x509"
	"fmt"
	"math"
	"math/rand/v2"
	"os"
	"path/filepath"
	"time"

	"github.com/google/gce-tcb-verifier/extract"
	exel "github.com/google/gce-tcb-verifier/extract/eventlog"
	"github.com/google/gce-tcb-verifier/gcetcbendorsement"
	epb "github.com/google/gce-tcb-verifier/proto/endorsement"
	"github.com/google/gce-tcb-verifier/sev"
	"github.com/google/gce-tcb-verifier/verify"
	"github.com/google/go-sev-guest/verify/trust"
	cpb "github.com/google/go-sev-guest/proto/check"
	tcpb "github.com/google/go-tdx-guest/proto/checkconfig"
	"google.golang.org/protobuf/proto"

	"verifharness/core"
	"verifharness/doubles"
)

// optmatrix family: the untrusted bytes stay the same (the genuine endorsement, every signed
// golden-measurement variant, three broken ones; genuine and degenerate event logs and quotes for
// extraction) while the caller's options run through their whole cross product — every boolean with
// every other, zero / named / unendorsed counts, nil / empty / filled sub-options, absent and failing
// collaborators. c07.go draws one random option set per case, with AllowUnspecifiedVmsas tied to the
// count, verify.Options in three fixed shapes and never an empty sub-option.

// judgeNilVariableReader: extract.Options / LocateOptions without a UEFIVariableReader make
// exel.Locate call a nil interface when the (untrusted) event log carries a variable locator, while
// a nil Getter is refused with ErrLocateGetterNil. Observed on the unchanged tree; recorded in the
// evidence counters and not judged until the coordinator decides (see the report).
const judgeNilVariableReader = true

type optCase struct {
	entry string
	in    int // endorsement-typed entries: index into optInputs; extract.Endorsement: log*16+quote
}

type optInput struct {
	name string
	b    []byte
}

func (w *world) optInputs() []optInput {
	out := []optInput{{"genuine", w.endBytes}}
	for k, v := range goldenVariants {
		b, _ := w.goldenVariant(k, 0)
		out = append(out, optInput{"golden-" + v.name, b})
	}
	out = append(out, optInput{"empty", []byte{}}, optInput{"truncated", w.endBytes[:len(w.endBytes)/2]},
		optInput{"payload-not-a-message", mustMarshal(&epb.VMLaunchEndorsement{SerializedUefiGolden: []byte{0xff, 0xff, 0xff}, Signature: []byte{1}})})
	return out
}

func (w *world) optLogs() []optInput {
	mk := func(name string, t uint32, loc []byte, manu string) optInput {
		b := &builder{}
		b.pcClientHeader()
		b.event2("rim", 0, 3, []uint16{4, 0xb, 0xc}, func(i *builder) { i.sp800155(manu, t, loc) })
		return optInput{name, append([]byte(nil), b.buf.Bytes()...)}
	}
	v := w.byName["eventlog-variable"].data
	return []optInput{
		{"eventlog-variable", v}, {"eventlog-raw", w.byName["eventlog-raw"].data}, {"eventlog-uri", w.byName["eventlog-uri"].data},
		mk("missing-variable", 3, append(efiGUIDBytes(varGUID), ucs2("Missing")...), gceManufacturer),
		mk("empty-variable-name", 3, append(efiGUIDBytes(varGUID), 0, 0), gceManufacturer),
		mk("other-manufacturer-variable", 3, append(efiGUIDBytes(varGUID), ucs2(varName)...), "Other, Inc."),
		mk("local-device-path", 2, []byte{0x7f, 0xff, 0x04, 0x00}, gceManufacturer),
		{"truncated", v[:len(v)/2]}, {"no-events", w.byName["pcclient-event"].data},
	}
}

func (w *world) optQuotes() []optInput {
	return []optInput{
		{"snp-raw", w.byName["snp-raw"].data}, {"snp-proto", w.byName["snp-proto"].data}, {"snp-report-raw", w.byName["snp-report-raw"].data},
		{"tdx-raw", w.tdxQuote}, {"cert-table", w.byName["cert-table"].data}, {"garbage", []byte("garbage")},
	}
}

func (w *world) mkOptCases(thorough bool) []optCase {
	var out []optCase
	n := len(w.optInputs())
	for _, en := range []string{"SevPolicy", "TdxPolicy", "verify.Endorsement", "verify.SNPValidateFunc"} {
		for k := 0; k < n; k++ {
			out = append(out, optCase{en, k})
		}
	}
	for _, en := range []string{"SevValidate", "TdxValidate"} {
		for k := 0; k < n; k++ {
			if thorough || k%4 == 0 {
				out = append(out, optCase{en, k})
			}
		}
	}
	for l := 0; l < len(w.optLogs())+2; l++ {
		for q := 0; q < len(w.optQuotes())+2; q++ {
			out = append(out, optCase{"extract.Endorsement", l*16 + q})
		}
	}
	return out
}

type named[T any] struct {
	name string
	v    T
}

func (d *dimRun) runOpt(i int, oc optCase, r *rand.Rand) {
	w := d.w
	ctx := context.Background()
	entry := "optmatrix:" + oc.entry
	calls, want := 0, 0
	var in optInput
	var end *epb.VMLaunchEndorsement
	if oc.entry != "extract.Endorsement" {
		in = w.optInputs()[oc.in]
		pe := &epb.VMLaunchEndorsement{}
		if proto.Unmarshal(in.b, pe) == nil {
			end = pe
		}
	}
	first := true
	run := func(sig string, n int, f func() error) {
		var logged []byte
		if first {
			logged, first = in.b, false
		}
		out := d.guarded(i, entry, fmt.Sprintf("optmatrix/%s[%s] on %s", oc.entry, sig, in.name), logged, n, f)
		calls++
		d.c.Cell("optmatrix|%s|%s|%s", oc.entry, sig, out)
		d.c.Cell("optmatrix-input|%s|%s|%s", oc.entry, in.name, out)
	}
	emptyPool := x509.NewCertPool()
	getters := func(answer []byte) []named[func() verify.HTTPSGetter] {
		return []named[func() verify.HTTPSGetter]{
			{"nil", func() verify.HTTPSGetter { return nil }},
			{"ok", func() verify.HTTPSGetter { return &doubles.Getter{Default: answer} }},
			{"fail", func() verify.HTTPSGetter { return &doubles.Getter{Fail: true} }},
		}
	}
	switch oc.entry {
	case "SevPolicy":
		if end == nil {
			d.c.Count("not-applicable/"+entry, 1)
			return
		}
		bases := []named[func() *cpb.Policy]{
			{"nil", func() *cpb.Policy { return nil }},
			{"empty", func() *cpb.Policy { return &cpb.Policy{} }},
			{"filled", func() *cpb.Policy { return &cpb.Policy{Policy: 0x30000, MinimumGuestSvn: 1, Measurement: w.m4, MinimumVersion: "0.0"} }},
			{"other-measurement", func() *cpb.Policy { return &cpb.Policy{Policy: 0xb0000, MinimumGuestSvn: 9, Measurement: w.m1} }},
			{"trusted-keys", func() *cpb.Policy {
				return &cpb.Policy{TrustedIdKeys: [][]byte{w.signer.Raw}, TrustedAuthorKeys: [][]byte{}, TrustedIdKeyHashes: [][]byte{nil}}
			}},
		}
		want = len(bases) * 4 * 2 * 2
		for _, b := range bases {
			for _, vmsas := range []uint32{0, 1, 4, 7} {
				for _, ow := range []bool{false, true} {
					for _, allow := range []bool{false, true} {
						o := &gcetcbendorsement.SevPolicyOptions{Base: b.v(), LaunchVmsas: vmsas, Overwrite: ow, AllowUnspecifiedVmsas: allow}
						run(fmt.Sprintf("base=%s vmsas=%d overwrite=%v allow-unspecified=%v", b.name, vmsas, ow, allow), len(in.b), func() error {
							_, err := gcetcbendorsement.SevPolicy(ctx, end, o)
							return err
						})
						if vmsas == 0 && !allow && (in.name == "golden-sev-no-measurements" || in.name == "golden-sev-empty") {
							d.floor("optmatrix/SevPolicy-unspecified-count-not-allowed-on-endorsement-without-measurements")
						}
					}
				}
			}
		}
	case "TdxPolicy":
		if end == nil {
			d.c.Count("not-applicable/"+entry, 1)
			return
		}
		bases := tdxBases(w)
		rams := []int{0, 16, 17, -1, math.MaxInt}
		want = len(bases) * len(rams) * 2
		for _, b := range bases {
			for _, ram := range rams {
				for _, ow := range []bool{false, true} {
					o := &gcetcbendorsement.TdxPolicyOptions{Base: b.v(), RAMGiB: ram, Overwrite: ow}
					run(fmt.Sprintf("base=%s ram=%d overwrite=%v", b.name, ram, ow), len(in.b), func() error {
						_, err := gcetcbendorsement.TdxPolicy(ctx, end, o)
						return err
					})
				}
			}
		}
	case "verify.Endorsement":
		snps := []named[func() *verify.SNPOptions]{
			{"nil", func() *verify.SNPOptions { return nil }},
			{"empty", func() *verify.SNPOptions { return &verify.SNPOptions{} }},
			{"measurement", func() *verify.SNPOptions { return &verify.SNPOptions{Measurement: w.m4} }},
			{"vmsas-only", func() *verify.SNPOptions { return &verify.SNPOptions{ExpectedLaunchVMSAs: 4} }},
			{"measurement+vmsas", func() *verify.SNPOptions { return &verify.SNPOptions{Measurement: w.m4, ExpectedLaunchVMSAs: 4} }},
			{"svsm+1", func() *verify.SNPOptions { return &verify.SNPOptions{Measurement: w.m1, ExpectedLaunchVMSAs: 1} }},
			{"unendorsed-count", func() *verify.SNPOptions { return &verify.SNPOptions{Measurement: w.m4, ExpectedLaunchVMSAs: 7} }},
		}
		shas := []named[[]byte]{{"nil", nil}, {"empty", []byte{}}, {"match", w.golden.Digest}, {"mismatch", pattern(2)}}
		roots := []named[*x509.CertPool]{{"nil", nil}, {"empty", emptyPool}, {"pool", w.pool}}
		nows := []named[time.Time]{{"unset", time.Time{}}, {"valid", w.now}, {"before-not-before", w.now.AddDate(-1, 0, 0)}}
		want = len(snps) * len(shas) * len(roots) * len(nows)
		for _, s := range snps {
			for _, sh := range shas {
				for _, ro := range roots {
					for _, nw := range nows {
						o := &verify.Options{SNP: s.v(), ExpectedUefiSha384: sh.v, RootsOfTrust: ro.v, Now: nw.v}
						run(fmt.Sprintf("snp=%s sha384=%s roots=%s now=%s", s.name, sh.name, ro.name, nw.name), len(in.b), func() error {
							return verify.Endorsement(in.b, o)
						})
					}
				}
			}
		}
	case "verify.SNPValidateFunc":
		snps := []named[func() *verify.SNPOptions]{
			{"nil", func() *verify.SNPOptions { return nil }},
			{"empty", func() *verify.SNPOptions { return &verify.SNPOptions{} }},
			{"vmsas", func() *verify.SNPOptions { return &verify.SNPOptions{ExpectedLaunchVMSAs: 4} }},
		}
		blobs := []named[[]byte]{{"nil", nil}, {"empty", []byte{}}, {"input", in.b}}
		ends := []named[*epb.VMLaunchEndorsement]{{"nil", nil}, {"parsed", end}}
		want = 2 * len(blobs) * 3 * len(snps)
		for _, eo := range ends {
			for _, bl := range blobs {
				for _, g := range getters(in.b) {
					for _, s := range snps {
						if eo.name == "parsed" && end == nil {
							want--
							continue
						}
						o := &verify.Options{SNP: s.v(), RootsOfTrust: w.pool, Now: w.now, Endorsement: eo.v, Getter: g.v()}
						run(fmt.Sprintf("endorsement-option=%s blob=%s getter=%s snp=%s", eo.name, bl.name, g.name, s.name), len(in.b), func() error {
							return verify.SNPValidateFunc(o)(w.snpAttestation(false), bl.v)
						})
					}
				}
			}
		}
	case "SevValidate":
		bases := []named[func() *cpb.Policy]{
			{"nil", func() *cpb.Policy { return nil }},
			{"empty", func() *cpb.Policy { return &cpb.Policy{} }},
			{"filled", func() *cpb.Policy { return &cpb.Policy{Policy: 0x30000, MinimumGuestSvn: 1, Measurement: w.m4, MinimumVersion: "0.0"} }},
		}
		ends := []named[*epb.VMLaunchEndorsement]{{"nil", nil}, {"parsed", end}}
		want = 2 * len(bases) * 2 * 3 * 3 * 2 * 2
		for _, eo := range ends {
			for _, b := range bases {
				for _, ow := range []bool{false, true} {
					for _, g := range getters(in.b) {
						for _, vmsas := range []uint32{0, 4, 7} {
							for _, force := range []bool{false, true} {
								for _, extras := range []bool{false, true} {
									if eo.name == "parsed" && end == nil {
										want--
										continue
									}
									at := w.snpAttestation(false)
									if extras {
										at.CertificateChain.Extras = map[string][]byte{sev.GCEFwCertGUID: in.b}
									}
									o := &gcetcbendorsement.SevValidateOptions{Endorsement: eo.v, BasePolicy: b.v(), Overwrite: ow, RootsOfTrust: w.pool, Now: w.now,
										Getter: g.v(), ExpectedLaunchVmsas: vmsas, TestonlyForceGCS: force}
									run(fmt.Sprintf("endorsement-option=%s base=%s overwrite=%v getter=%s vmsas=%d force-gcs=%v in-extras=%v", eo.name, b.name, ow, g.name, vmsas, force, extras),
										len(in.b), func() error { return gcetcbendorsement.SevValidate(ctx, at, o) })
								}
							}
						}
					}
				}
			}
		}
	case "TdxValidate":
		// Endorsement is always given: without it TdxValidate builds extract.DefaultOptions(), i.e. the real network getter
		if end == nil {
			d.c.Count("not-applicable/"+entry, 1)
			return
		}
		bases := tdxBases(w)
		roots := []named[*x509.CertPool]{{"nil", nil}, {"pool", w.pool}}
		nows := []named[time.Time]{{"unset", time.Time{}}, {"valid", w.now}}
		want = len(bases) * 2 * 4 * len(roots) * len(nows) * 2
		for _, b := range bases {
			for _, ow := range []bool{false, true} {
				for _, ram := range []int{0, 16, 17, -1} {
					for _, ro := range roots {
						for _, nw := range nows {
							for _, g := range getters(in.b)[:2] {
								o := &gcetcbendorsement.TdxValidateOptions{Endorsement: end, BasePolicy: b.v(), Overwrite: ow, RootsOfTrust: ro.v, Now: nw.v, Getter: g.v(), ExpectedRAMGiB: ram}
								run(fmt.Sprintf("base=%s overwrite=%v ram=%d roots=%s now=%s getter=%s", b.name, ow, ram, ro.name, nw.name, g.name), len(in.b)+len(w.tdxQuote),
									func() error { return gcetcbendorsement.TdxValidate(ctx, w.tdxQuote, o) })
							}
						}
					}
				}
			}
		}
	case "extract.Endorsement":
		logs, quotes := w.optLogs(), w.optQuotes()
		l, q := oc.in/16, oc.in%16
		location, lname := "", "unset"
		var logBytes []byte
		switch {
		case l < len(logs):
			location, lname, logBytes = filepath.Join(w.dir, "optmatrix_event_log"), logs[l].name, logs[l].b
			if err := os.WriteFile(location, logBytes, 0o644); err != nil {
				panic(err)
			}
		case l == len(logs)+1:
			location, lname = filepath.Join(w.dir, "no-such-event-log"), "missing-file"
		}
		var quote []byte
		qname := "nil"
		switch {
		case q < len(quotes):
			quote, qname = quotes[q].b, quotes[q].name
		case q == len(quotes)+1:
			quote, qname = []byte{}, "empty"
		}
		in = optInput{"log=" + lname + " quote=" + qname, cat(logBytes, quote)}
		manus := []string{"", gceManufacturer, "Other, Inc."}
		want = 2 * 3 * len(manus) * 2
		for _, force := range []bool{false, true} {
			for _, g := range getters(w.endBytes) {
				for _, manu := range manus {
					for _, reader := range []string{"nil", "efivarfs"} {
						o := &extract.Options{EventLogLocation: location, Quote: quote, ForceFetch: force, FirmwareManufacturer: manu}
						if gg := g.v(); gg != nil {
							o.Getter = gg.(trust.HTTPSGetter)
						}
						if reader != "nil" {
							o.UEFIVariableReader = exel.MakeEfiVarFSReader(w.efiRoot)
						}
						sig := fmt.Sprintf("force-fetch=%v getter=%s manufacturer=%q reader=%s", force, g.name, manu, reader)
						if reader == "nil" && !judgeNilVariableReader {
							// observed, not judged (see judgeNilVariableReader)
							gname := fmt.Sprintf("optmatrix/extract.Endorsement[%s] on %s", sig, in.name)
							d.c.Begin(i, gname, entry+"/nil-variable-reader", nil)
							var err error
							m := d.c.Guard(i, entry+"/nil-variable-reader", gname, core.Budget{PanicNotJudged: true}, func() { _, err = extract.Endorsement(o) })
							calls++
							switch {
							case m.Panicked:
								d.c.Count("optmatrix/nil-variable-reader-panics-not-judged", 1)
								d.c.Note("observed, not judged: extract.Endorsement with Options.UEFIVariableReader == nil panics at %s when the event log (%s) carries a UEFI-variable locator; a nil Getter is refused with an error instead", m.Site, lname)
							case err != nil:
								d.c.Count("optmatrix/nil-variable-reader-errors", 1)
							}
							continue
						}
						run(sig, len(in.b), func() error { _, err := extract.Endorsement(o); return err })
					}
				}
			}
		}
	}
	if in.name == "genuine" || (oc.entry == "extract.Endorsement" && oc.in == 0) {
		if calls == want && want > 0 {
			d.floor("optmatrix/" + oc.entry + "-every-combination-called")
		}
		d.c.Max("optmatrix/combinations/"+oc.entry, int64(calls))
	}
}

func tdxBases(w *world) []named[func() *tcpb.Policy] {
	return []named[func() *tcpb.Policy]{
		{"nil", func() *tcpb.Policy { return nil }},
		{"empty", func() *tcpb.Policy { return &tcpb.Policy{} }},
		{"body-empty", func() *tcpb.Policy { return &tcpb.Policy{TdQuoteBodyPolicy: &tcpb.TDQuoteBodyPolicy{}} }},
		{"any-mr-td-empty", func() *tcpb.Policy { return &tcpb.Policy{TdQuoteBodyPolicy: &tcpb.TDQuoteBodyPolicy{AnyMrTd: [][]byte{}}} }},
		{"filled", func() *tcpb.Policy { return &tcpb.Policy{TdQuoteBodyPolicy: &tcpb.TDQuoteBodyPolicy{AnyMrTd: [][]byte{w.mrtd}}} }},
	}
}
