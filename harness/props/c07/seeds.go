package c07

import (
	"bytes"
	"crypto"
	"crypto/rsa"
	"crypto/sha256"
	"crypto/x509"
	"crypto/x509/pkix"
	"encoding/base64"
	"encoding/binary"
	"encoding/hex"
	"encoding/pem"
	"flag"
	"fmt"
	"math/big"
	"os"
	"path/filepath"
	"time"
	"unicode/utf16"

	epb "github.com/google/gce-tcb-verifier/proto/endorsement"
	"github.com/google/gce-tcb-verifier/sev"
	spb "github.com/google/go-sev-guest/proto/sevsnp"
	tabi "github.com/google/go-tdx-guest/abi"
	tpb "github.com/google/go-tdx-guest/proto/tdx"
	tpmpb "github.com/google/go-tpm-tools/proto/attest"
	"google.golang.org/protobuf/proto"
	tspb "google.golang.org/protobuf/types/known/timestamppb"

	"verifharness/gen"
)

// detReader is a deterministic byte stream (SHA-256 in counter mode) used as the "randomness" of
// certificate creation and PSS salts, so that the genuine seeds are the same bytes in every process.
type detReader struct {
	key [32]byte
	ctr uint64
	buf []byte
}

func newDetReader(label string) *detReader { return &detReader{key: sha256.Sum256([]byte(label))} }

func (d *detReader) Read(p []byte) (int, error) {
	for i := range p {
		if len(d.buf) == 0 {
			var in [40]byte
			copy(in[:], d.key[:])
			binary.LittleEndian.PutUint64(in[32:], d.ctr)
			d.ctr++
			s := sha256.Sum256(in[:])
			d.buf = s[:]
		}
		p[i] = d.buf[0]
		d.buf = d.buf[1:]
	}
	return len(p), nil
}

// field marks a length / count / type / offset field inside a binary seed.
type field struct {
	name  string
	off   int
	width int
}

// seed is one genuine object.
type seed struct {
	name   string
	kind   string // endorsement | snp | tdx | certtable | eventlog | pcclient | event2 | eventdata | sp800155 | locator
	data   []byte
	fields []field
	proto  bool   // protobuf wire format: the wire-level operators apply
	text   bool   // hex / base64 text
	loc    uint32 // locator type, for kind locator
	nodes  []*pwNode
}

type world struct {
	now       time.Time
	signerKey *rsa.PrivateKey
	root      *x509.Certificate
	signer    *x509.Certificate
	pool      *x509.CertPool
	golden    *epb.VMGoldenMeasurement
	end       *epb.VMLaunchEndorsement
	endBytes  []byte
	m1, m4    []byte
	mrtd      []byte
	vcek      []byte
	tdxQuote  []byte
	seeds     []*seed
	byName    map[string]*seed
	dir       string // scratch directory of this process
	efiRoot   string
	elPath    string
	salt      *detReader
	tmp       bool
	shapes    []locShape
	fresh     bool // first worker of the shard (not a restart after a death)
	// grammar-directed generators (grammar.go)
	pemTails   []pemPiece
	pemCases   []pemCase
	sigs       []eventSig
	sigCases   []sigCase
	scanDir    string // source tree the signature dictionary was extended from ("" = not found)
	scanned    int    // 16-byte constants found there
	scannedNew int    // of which not in the specification's list
}

func parseKey(p string) *rsa.PrivateKey {
	blk, _ := pem.Decode([]byte(p))
	k, err := x509.ParsePKCS8PrivateKey(blk.Bytes)
	if err != nil {
		panic(err)
	}
	return k.(*rsa.PrivateKey)
}

func pattern(b byte) []byte {
	m := make([]byte, 48)
	for i := range m {
		m[i] = b + byte(i)
	}
	return m
}

const (
	gceManufacturer = "Google, Inc."
	varName         = "GceRim"
	varGUID         = "f0e1d2c3-b4a5-9687-7869-5a4b3c2d1e0f"
)

// efiGUIDBytes is the mixed-endian EFI_GUID encoding of a textual GUID (own implementation).
func efiGUIDBytes(s string) []byte {
	h, _ := hex.DecodeString(s[0:8] + s[9:13] + s[14:18] + s[19:23] + s[24:36])
	out := make([]byte, 16)
	out[0], out[1], out[2], out[3] = h[3], h[2], h[1], h[0]
	out[4], out[5] = h[5], h[4]
	out[6], out[7] = h[7], h[6]
	copy(out[8:], h[8:])
	return out
}

func ucs2(s string) []byte {
	var b []byte
	for _, u := range utf16.Encode([]rune(s)) {
		b = append(b, byte(u), byte(u>>8))
	}
	return append(b, 0, 0)
}

// builder writes little-endian structures and records where the interesting fields are.
type builder struct {
	buf    bytes.Buffer
	fields []field
	prefix string
}

func (b *builder) mark(name string, width int) {
	b.fields = append(b.fields, field{b.prefix + name, b.buf.Len(), width})
}
func (b *builder) u8(name string, v uint8) {
	if name != "" {
		b.mark(name, 1)
	}
	b.buf.WriteByte(v)
}
func (b *builder) u16(name string, v uint16) {
	if name != "" {
		b.mark(name, 2)
	}
	b.buf.Write(le16(v))
}
func (b *builder) u32(name string, v uint32) {
	if name != "" {
		b.mark(name, 4)
	}
	b.buf.Write(le32(v))
}
func (b *builder) raw(p []byte) { b.buf.Write(p) }
func (b *builder) cstr(name, s string) {
	b.u8(name+".size", uint8(len(s)+1))
	b.buf.WriteString(s)
	b.buf.WriteByte(0)
}

// sp800155 writes an SP800-155 Event3 payload including its 16-byte signature.
func (b *builder) sp800155(manufacturer string, locType uint32, loc []byte) {
	b.raw([]byte("SP800-155 Event3"))
	b.u32("platformManufacturerID", 11129)
	b.raw(efiGUIDBytes("11112222-3333-4444-5555-666677778888"))
	b.cstr("platformManufacturer", "Google")
	b.cstr("platformModel", "Google Compute Engine")
	b.cstr("platformVersion", "")
	b.cstr("firmwareManufacturer", manufacturer)
	b.u32("firmwareManufacturerID", 11129)
	b.cstr("firmwareVersion", "1.2.3")
	b.u32("rimLocatorType", locType)
	b.u32("rimLocator.size", uint32(len(loc)))
	b.raw(loc)
	b.u32("platformCertLocatorType", 0)
	b.u32("platformCertLocator.size", 0)
	for b.buf.Len()%8 != 0 { // HOB padding, as edk2 reports it
		b.buf.WriteByte(0)
	}
}

func (b *builder) digests(name string, algs ...uint16) {
	b.u32(name+"digests.count", uint32(len(algs)))
	for k, a := range algs {
		b.u16(fmt.Sprintf("%sdigest%d.alg", name, k), a)
		b.raw(bytes.Repeat([]byte{byte(0x11 * (k + 1))}, map[uint16]int{4: 20, 0xb: 32, 0xc: 48}[a]))
	}
}

// event2 writes a TCG_PCR_EVENT2 whose event data is produced by body.
func (b *builder) event2(name string, pcr, typ uint32, algs []uint16, body func(*builder)) {
	old := b.prefix
	b.prefix = old + name + "."
	b.u32("pcr", pcr)
	b.u32("type", typ)
	b.digests("", algs...)
	inner := &builder{}
	body(inner)
	b.u32("eventSize", uint32(inner.buf.Len()))
	base := b.buf.Len()
	for _, f := range inner.fields {
		b.fields = append(b.fields, field{b.prefix + f.name, base + f.off, f.width})
	}
	b.raw(inner.buf.Bytes())
	b.prefix = old
}

// pcClientHeader writes the TCG_PCClientPCREvent that starts a crypto-agile log (Spec ID Event03).
func (b *builder) pcClientHeader() {
	b.u32("hdr.pcr", 0)
	b.u32("hdr.type", 3)
	b.raw(make([]byte, 20))
	inner := &builder{}
	inner.raw([]byte("Spec ID Event03\x00"))
	inner.u32("", 0)              // platformClass
	inner.raw([]byte{0, 2, 0, 2}) // minor, major, errata, uintnSize
	inner.u32("hdr.numberOfAlgorithms", 3)
	for _, a := range [][2]uint16{{4, 20}, {0xb, 32}, {0xc, 48}} {
		inner.u16("", a[0])
		inner.u16("", a[1])
	}
	inner.u8("hdr.vendorInfoSize", 0)
	b.u32("hdr.eventSize", uint32(inner.buf.Len()))
	base := b.buf.Len()
	for _, f := range inner.fields {
		b.fields = append(b.fields, field{f.name, base + f.off, f.width})
	}
	b.raw(inner.buf.Bytes())
}

func (w *world) sign(payload []byte) []byte {
	d := sha256.Sum256(payload)
	sig, err := rsa.SignPSS(w.salt, w.signerKey, crypto.SHA256, d[:], &rsa.PSSOptions{SaltLength: rsa.PSSSaltLengthEqualsHash})
	if err != nil {
		panic(err)
	}
	return sig
}

// endorse signs a golden measurement (the signer certificate is embedded unless the golden
// already says otherwise through keepCert).
func (w *world) endorse(g *epb.VMGoldenMeasurement) *epb.VMLaunchEndorsement {
	b, err := proto.MarshalOptions{Deterministic: true}.Marshal(g)
	if err != nil {
		panic(err)
	}
	return &epb.VMLaunchEndorsement{SerializedUefiGolden: b, Signature: w.sign(b)}
}

func mustMarshal(m proto.Message) []byte {
	b, err := proto.MarshalOptions{Deterministic: true}.Marshal(m)
	if err != nil {
		panic(err)
	}
	return b
}

func mint(rnd *detReader, cn string, serial int64, nb time.Time, isCA bool, pub *rsa.PublicKey, parent *x509.Certificate, signKey *rsa.PrivateKey) *x509.Certificate {
	t := &x509.Certificate{SerialNumber: big.NewInt(serial), Subject: pkix.Name{CommonName: cn}, NotBefore: nb, NotAfter: nb.AddDate(10, 0, 0),
		IsCA: isCA, BasicConstraintsValid: true, SignatureAlgorithm: x509.SHA256WithRSAPSS}
	if isCA {
		t.KeyUsage = x509.KeyUsageCertSign
	} else {
		t.KeyUsage = x509.KeyUsageDigitalSignature
	}
	if parent == nil {
		parent = t
	}
	der, err := x509.CreateCertificate(rnd, t, parent, pub, signKey)
	if err != nil {
		panic(err)
	}
	c, err := x509.ParseCertificate(der)
	if err != nil {
		panic(err)
	}
	return c
}

func (w *world) add(s *seed) {
	if s.proto {
		if ns, ok := pwParse(s.data, 0); ok {
			s.nodes = ns
		}
	}
	w.seeds = append(w.seeds, s)
	w.byName[s.name] = s
}

// snpAttestation is the synthetic attestation go-sev-guest's validator accepts structurally.
func (w *world) snpAttestation(withExtras bool) *spb.Attestation {
	at := gen.SnpAttestation(w.m4, w.vcek)
	if withExtras {
		at.CertificateChain.Extras = map[string][]byte{sev.GCEFwCertGUID: w.endBytes}
	}
	return at
}

func mkWorld() *world {
	nb := time.Date(2025, 1, 1, 0, 0, 0, 0, time.UTC)
	w := &world{now: nb.AddDate(0, 2, 0), byName: map[string]*seed{}, salt: newDetReader("c07 salt")}
	rootKey := parseKey(rootKeyPEM)
	w.signerKey = parseKey(signerKeyPEM)
	rnd := newDetReader("c07 certificates")
	w.root = mint(rnd, "c07 root", 1, nb, true, &rootKey.PublicKey, nil, rootKey)
	w.signer = mint(rnd, "c07 signer", 2, nb, false, &w.signerKey.PublicKey, w.root, rootKey)
	w.pool = x509.NewCertPool()
	w.pool.AddCert(w.root)
	w.m1, w.m4, w.mrtd = pattern(0x10), pattern(0x40), pattern(0x90)
	w.shapes = locShapes()
	w.golden = &epb.VMGoldenMeasurement{Timestamp: &tspb.Timestamp{Seconds: nb.Add(24 * time.Hour).Unix(), Nanos: 5}, ClSpec: 7, Commit: []byte("0123456789abcdef0123"),
		Digest: pattern(1), Cert: w.signer.Raw,
		SevSnp: &epb.VMSevSnp{Svn: 3, Policy: gen.ProdPolicy(), FamilyId: make([]byte, 16), ImageId: make([]byte, 16), SvsmMeasurement: w.m1,
			Measurements: map[uint32][]byte{1: w.m1, 2: pattern(0x20), 4: w.m4, 8: pattern(0x80)}},
		Tdx: &epb.VMTdx{Svn: 1, Measurements: []*epb.VMTdx_Measurement{{RamGib: 16, Mrtd: w.mrtd}, {RamGib: 32, EarlyAccept: true, Mrtd: pattern(0xa0)}}}}
	w.end = w.endorse(w.golden)
	w.endBytes = mustMarshal(w.end)
	w.vcek = gen.Vcek(w.now)
	w.tdxQuote = gen.TdxQuote(w.mrtd)

	// --- endorsement and attestation protos ---
	w.add(&seed{name: "endorsement", kind: "endorsement", data: w.endBytes, proto: true})
	at := w.snpAttestation(true)
	w.add(&seed{name: "snp-proto", kind: "snp", data: mustMarshal(at), proto: true})
	w.add(&seed{name: "tpm-proto", kind: "snp", data: mustMarshal(&tpmpb.Attestation{AkPub: []byte("ak"), TeeAttestation: &tpmpb.Attestation_SevSnpAttestation{SevSnpAttestation: at}}), proto: true})
	w.add(&seed{name: "report-proto", kind: "snp", data: mustMarshal(at.Report), proto: true})
	if q, err := tabi.QuoteToProto(w.tdxQuote); err == nil {
		w.add(&seed{name: "tdx-proto", kind: "tdx", data: mustMarshal(q.(*tpb.QuoteV4)), proto: true})
		w.add(&seed{name: "tpm-tdx-proto", kind: "tdx", data: mustMarshal(&tpmpb.Attestation{TeeAttestation: &tpmpb.Attestation_TdxAttestation{TdxAttestation: q.(*tpb.QuoteV4)}}), proto: true})
	} else {
		panic(err)
	}

	// --- raw SEV-SNP report + certificate table ---
	raw := gen.RawSnpQuote(w.m4, map[string][]byte{sev.GCEFwCertGUID: w.endBytes}, w.now)
	const reportSize = 0x4A0
	var rf []field
	for _, f := range []field{{"report.version", 0, 4}, {"report.guest_svn", 4, 4}, {"report.policy", 8, 8}, {"report.vmpl", 0x30, 4},
		{"report.signature_algo", 0x34, 4}, {"report.current_tcb", 0x38, 8}, {"report.platform_info", 0x40, 8}, {"report.signer_info", 0x48, 4},
		{"report.reported_tcb", 0x180, 8}, {"report.committed_tcb", 0x1E0, 8}, {"report.build_versions", 0x1E8, 8}, {"report.launch_tcb", 0x1F0, 8}} {
		rf = append(rf, f)
	}
	var tf []field
	tbl := raw[reportSize:]
	for k := 0; (k+1)*24 <= len(tbl); k++ {
		tf = append(tf, field{fmt.Sprintf("certtable.entry%d.guid", k), k * 24, 4}, field{fmt.Sprintf("certtable.entry%d.offset", k), k*24 + 16, 4},
			field{fmt.Sprintf("certtable.entry%d.length", k), k*24 + 20, 4})
		if bytes.Equal(tbl[k*24:k*24+24], make([]byte, 24)) {
			break
		}
	}
	all := append([]field(nil), rf...)
	for _, f := range tf {
		all = append(all, field{f.name, f.off + reportSize, f.width})
	}
	w.add(&seed{name: "snp-raw", kind: "snp", data: raw, fields: all})
	w.add(&seed{name: "snp-report-raw", kind: "snp", data: raw[:reportSize], fields: rf})
	w.add(&seed{name: "cert-table", kind: "certtable", data: tbl, fields: tf})

	// --- raw TDX quote ---
	q := w.tdxQuote
	qf := []field{{"quote.version", 0, 2}, {"quote.attestationKeyType", 2, 2}, {"quote.teeType", 4, 4}, {"quote.signedDataSize", 0x278, 4},
		{"quote.certificationDataType", 0x2FC, 2}, {"quote.certificationDataSize", 0x2FE, 4}, {"quote.qeAuthDataSize", 0x4C2, 2}}
	if len(q) > 0x4C4 {
		a := int(binary.LittleEndian.Uint16(q[0x4C2:]))
		if 0x4C4+a+6 <= len(q) {
			qf = append(qf, field{"quote.pckCertChainType", 0x4C4 + a, 2}, field{"quote.pckCertChainSize", 0x4C4 + a + 2, 4})
		}
	}
	w.add(&seed{name: "tdx-raw", kind: "tdx", data: q, fields: qf})

	// --- textual re-encodings ---
	w.add(&seed{name: "snp-raw-hex", kind: "snp", data: []byte(hex.EncodeToString(raw)), text: true})
	w.add(&seed{name: "snp-raw-base64", kind: "snp", data: []byte(base64.StdEncoding.EncodeToString(raw)), text: true})
	w.add(&seed{name: "cert-table-hex", kind: "certtable", data: []byte(hex.EncodeToString(tbl)), text: true})
	w.add(&seed{name: "tdx-raw-hex", kind: "tdx", data: []byte(hex.EncodeToString(q)), text: true})
	w.add(&seed{name: "tdx-raw-base64", kind: "tdx", data: []byte(base64.StdEncoding.EncodeToString(q)), text: true})

	// --- locators ---
	locVar := append(efiGUIDBytes(varGUID), ucs2(varName)...)
	locURI := []byte("https://storage.googleapis.com/gce_tcb_integrity/ovmf_x64_csm/sevsnp/" + hex.EncodeToString(w.m4) + ".binarypb")
	locRaw := []byte("raw reference integrity manifest")
	w.add(&seed{name: "loc-variable", kind: "locator", data: locVar, loc: 3})
	w.add(&seed{name: "loc-uri", kind: "locator", data: locURI, loc: 1})
	w.add(&seed{name: "loc-raw", kind: "locator", data: locRaw, loc: 0})

	// --- event logs and their parts ---
	sha := []uint16{4, 0xb, 0xc}
	mkLog := func(name string, locs ...struct {
		t uint32
		l []byte
	}) {
		b := &builder{}
		b.pcClientHeader()
		b.event2("ev0", 0, 8, []uint16{4, 0xb}, func(i *builder) { i.raw(ucs2("GCE Virtual Firmware v2")) })
		for k, l := range locs {
			l := l
			b.event2(fmt.Sprintf("rim%d", k), 0, 3, sha, func(i *builder) { i.sp800155(gceManufacturer, l.t, l.l) })
		}
		b.event2("sep", 7, 4, sha, func(i *builder) { i.raw([]byte{0, 0, 0, 0}) })
		w.add(&seed{name: name, kind: "eventlog", data: append([]byte(nil), b.buf.Bytes()...), fields: b.fields})
	}
	type tl = struct {
		t uint32
		l []byte
	}
	mkLog("eventlog-variable", tl{3, locVar}, tl{1, locURI})
	mkLog("eventlog-raw", tl{1, locURI}, tl{0, locRaw})
	mkLog("eventlog-uri", tl{1, locURI}, tl{2, []byte("\x04\x01\x2a\x00 device path")})

	b := &builder{}
	b.pcClientHeader()
	w.add(&seed{name: "pcclient-event", kind: "pcclient", data: append([]byte(nil), b.buf.Bytes()...), fields: b.fields})
	b = &builder{}
	b.event2("ev", 0, 3, sha, func(i *builder) { i.sp800155(gceManufacturer, 3, locVar) })
	w.add(&seed{name: "event2", kind: "event2", data: append([]byte(nil), b.buf.Bytes()...), fields: b.fields})
	inner := &builder{}
	inner.sp800155(gceManufacturer, 3, locVar)
	b = &builder{}
	b.u32("eventSize", uint32(inner.buf.Len()))
	for _, f := range inner.fields {
		b.fields = append(b.fields, field{f.name, 4 + f.off, f.width})
	}
	b.raw(inner.buf.Bytes())
	w.add(&seed{name: "eventdata", kind: "eventdata", data: append([]byte(nil), b.buf.Bytes()...), fields: b.fields})
	var spf []field
	for _, f := range inner.fields {
		spf = append(spf, field{f.name, f.off - 16, f.width})
	}
	w.add(&seed{name: "sp800155", kind: "sp800155", data: append([]byte(nil), inner.buf.Bytes()[16:]...), fields: spf})
	return w
}

// scratch prepares the per-process scratch directory: an efivarfs look-alike and the event-log file.
func (w *world) scratch() {
	// The scratch directory lives next to the event log of this shard (the supervisor removes the log
	// directory after the run, and a worker restarted after a death reuses it); without a log path
	// (direct invocation) a temporary directory is used and removed at the end.
	d := ""
	if f := flag.Lookup("log"); f != nil && f.Value.String() != "" {
		d = f.Value.String() + ".scratch"
		if w.fresh {
			os.RemoveAll(d)
		}
		if err := os.MkdirAll(d, 0o755); err != nil {
			d = ""
		}
	}
	if d == "" {
		t, err := os.MkdirTemp("", "verif-c07-")
		if err != nil {
			panic(err)
		}
		d, w.tmp = t, true
	}
	w.dir = d
	w.efiRoot = filepath.Join(d, "efivars")
	w.elPath = filepath.Join(d, "binary_bios_measurements")
	must := func(err error) {
		if err != nil {
			panic(err)
		}
	}
	must(os.MkdirAll(w.efiRoot, 0o755))
	attr := []byte{7, 0, 0, 0}
	must(os.WriteFile(filepath.Join(w.efiRoot, varName+"-"+varGUID), append(attr, w.endBytes...), 0o644))
	must(os.WriteFile(filepath.Join(w.efiRoot, "Short-"+varGUID), []byte{7, 0}, 0o644))
	must(os.MkdirAll(filepath.Join(w.efiRoot, "Dir-"+varGUID), 0o755))
	must(os.WriteFile(filepath.Join(d, "outside-"+varGUID), append(attr, []byte("outside the efivarfs root")...), 0o644))
	os.Symlink(filepath.Join(d, "outside-"+varGUID), filepath.Join(w.efiRoot, "Link-"+varGUID))
	os.Symlink("Loop-"+varGUID, filepath.Join(w.efiRoot, "Loop-"+varGUID))
	must(os.WriteFile(w.elPath, nil, 0o644))
}

func (w *world) cleanup() {
	if w.dir != "" {
		os.RemoveAll(w.dir)
	}
	_ = w.tmp
}
