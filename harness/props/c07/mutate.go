package c07

import (
	"encoding/base64"
	"encoding/binary"
	"encoding/hex"
	"math/rand/v2"
	"strings"

	"google.golang.org/protobuf/encoding/protowire"
)

// ---- boundary tables ----

// boundary returns the values a length / count / offset / type field of the given width (bytes)
// is replaced with. orig is the genuine value, rem the number of bytes that follow the field in
// the seed, total the seed length. Values are truncated to the width; duplicates are removed.
func boundary(width int, orig uint64, rem, total int) []uint64 {
	var v []uint64
	switch width {
	case 1:
		v = []uint64{0, 1, 2, 0x7f, 0x80, 0xfe, 0xff}
	case 2:
		v = []uint64{0, 1, 2, 0x7f, 0x80, 0xff, 0x100, 0x7fff, 0x8000, 0xfffe, 0xffff}
	case 4:
		v = []uint64{0, 1, 2, 3, 4, 0x7f, 0x80, 0xff, 0x100, 0xffff, 0x10000, 0xffffff, 0x1000000,
			0x10000000, 0x15555556, 0x20000000, 0x40000000, 0x7fffffff, 0x80000000, 0xfffffff0, 0xfffffffe, 0xffffffff,
			(1 << 32) - orig, (1 << 32) - orig + 16} // off+len wraps to 0 / 16
	default:
		v = []uint64{0, 1, 0xff, 0xffff, 0x7fffffff, 0x80000000, 0xffffffff, 0x100000000, 1 << 40, 1<<63 - 1, 1 << 63, 1<<64 - 4096, 1<<64 - 1}
	}
	v = append(v, orig-1, orig+1, orig*2, uint64(rem), uint64(rem)+1, uint64(rem)-1, uint64(total), uint64(total)+1)
	mask := uint64(1)<<(8*uint(width)) - 1
	if width == 8 {
		mask = ^uint64(0)
	}
	seen := map[uint64]bool{orig & mask: true}
	out := v[:0]
	for _, x := range v {
		x &= mask
		if !seen[x] {
			seen[x] = true
			out = append(out, x)
		}
	}
	return out
}

// keyValues is the short table used by the every-offset sweep.
func keyValues(width int, rem int) []uint64 {
	switch width {
	case 1:
		return []uint64{0, 0x7f, 0x80, 0xff}
	case 2:
		return []uint64{0, 1, 0x7fff, 0x8000, 0xffff, uint64(rem) & 0xffff}
	default:
		return []uint64{0, 1, 0xffff, 0x20000000, 0x7fffffff, 0x80000000, 0xffffffff, uint64(rem), uint64(rem) + 1}
	}
}

func readLE(b []byte, off, width int) uint64 {
	var x uint64
	for k := 0; k < width && off+k < len(b); k++ {
		x |= uint64(b[off+k]) << (8 * uint(k))
	}
	return x
}

func putLE(b []byte, off, width int, v uint64) []byte {
	o := append([]byte(nil), b...)
	for k := 0; k < width && off+k < len(o); k++ {
		o[off+k] = byte(v >> (8 * uint(k)))
	}
	return o
}

// ---- blind byte-level operators ----

var blindOps = []string{"trunc", "bitflip", "setbyte", "le16", "le32", "le64", "cut", "dup", "insert", "tail", "swap"}

// blind applies one random byte-level operator and returns the result with the operator's name.
func blind(r *rand.Rand, seed []byte) ([]byte, string) {
	b := append([]byte(nil), seed...)
	op := blindOps[r.IntN(len(blindOps))]
	if len(b) == 0 {
		return randomBytes(r, 1+r.IntN(32)), "insert"
	}
	switch op {
	case "trunc":
		b = b[:r.IntN(len(b))]
	case "bitflip":
		for k := 0; k < 1+r.IntN(3); k++ {
			b[r.IntN(len(b))] ^= 1 << uint(r.IntN(8))
		}
	case "setbyte":
		b[r.IntN(len(b))] = []byte{0, 0xff, 0x7f, 0x80, 0x01}[r.IntN(5)]
	case "le16", "le32", "le64":
		w := map[string]int{"le16": 2, "le32": 4, "le64": 8}[op]
		off := r.IntN(len(b))
		vals := boundary(w, readLE(b, off, w), len(b)-off-w, len(b))
		b = putLE(b, off, w, vals[r.IntN(len(vals))])
	case "cut":
		i, j := r.IntN(len(b)), r.IntN(len(b))
		if i > j {
			i, j = j, i
		}
		b = append(b[:i:i], b[j:]...)
	case "dup":
		i, j := r.IntN(len(b)), r.IntN(len(b))
		if i > j {
			i, j = j, i
		}
		if j-i > 4096 {
			j = i + 4096
		}
		o := append([]byte(nil), b[:j]...)
		o = append(o, b[i:j]...)
		b = append(o, b[j:]...)
	case "insert":
		i := r.IntN(len(b) + 1)
		ins := randomBytes(r, 1+r.IntN(16))
		o := append([]byte(nil), b[:i]...)
		o = append(o, ins...)
		b = append(o, b[i:]...)
	case "tail":
		b = append(b, randomBytes(r, 1+r.IntN(64))...)
	case "swap":
		i, j := r.IntN(len(b)), r.IntN(len(b))
		b[i], b[j] = b[j], b[i]
	}
	return b, op
}

func randomBytes(r *rand.Rand, n int) []byte {
	b := make([]byte, n)
	for i := range b {
		b[i] = byte(r.UintN(256))
	}
	return b
}

// reencode wraps bytes into one of the textual forms extract.Attestation sniffs.
func reencode(b []byte, form int) ([]byte, string) {
	switch form % 6 {
	case 0:
		return []byte(hex.EncodeToString(b)), "hex"
	case 1:
		return []byte(strings.ToUpper(hex.EncodeToString(b))), "HEX"
	case 2:
		return []byte(hex.EncodeToString(b) + "\n"), "hex+nl"
	case 3:
		return []byte(base64.StdEncoding.EncodeToString(b)), "base64"
	case 4:
		s := base64.StdEncoding.EncodeToString(b)
		var sb strings.Builder
		for i := 0; i < len(s); i += 76 {
			e := i + 76
			if e > len(s) {
				e = len(s)
			}
			sb.WriteString(s[i:e])
			sb.WriteString("\r\n")
		}
		return []byte(sb.String()), "base64-lines"
	default:
		return []byte(base64.RawURLEncoding.EncodeToString(b)), "base64url"
	}
}

// ---- protobuf wire-level operators ----

type pwNode struct {
	num  protowire.Number
	typ  protowire.Type
	v    uint64    // varint / fixed value
	val  []byte    // bytes content (BytesType) or raw group body
	kids []*pwNode // val parsed as a message, when it parses completely
}

// pwParse splits a message into fields; ok=false when b is not a sequence of well-formed fields.
func pwParse(b []byte, depth int) ([]*pwNode, bool) {
	var out []*pwNode
	for len(b) > 0 {
		num, typ, n := protowire.ConsumeTag(b)
		if n < 0 || num <= 0 {
			return nil, false
		}
		b = b[n:]
		nd := &pwNode{num: num, typ: typ}
		switch typ {
		case protowire.VarintType:
			v, m := protowire.ConsumeVarint(b)
			if m < 0 {
				return nil, false
			}
			nd.v, b = v, b[m:]
		case protowire.Fixed32Type:
			v, m := protowire.ConsumeFixed32(b)
			if m < 0 {
				return nil, false
			}
			nd.v, b = uint64(v), b[m:]
		case protowire.Fixed64Type:
			v, m := protowire.ConsumeFixed64(b)
			if m < 0 {
				return nil, false
			}
			nd.v, b = v, b[m:]
		case protowire.BytesType:
			v, m := protowire.ConsumeBytes(b)
			if m < 0 {
				return nil, false
			}
			nd.val, b = append([]byte(nil), v...), b[m:]
			if depth < 6 && len(v) >= 2 {
				if kids, ok := pwParse(v, depth+1); ok {
					nd.kids = kids
				}
			}
		default:
			return nil, false
		}
		out = append(out, nd)
	}
	return out, true
}

func pwCount(ns []*pwNode) int {
	n := 0
	for _, x := range ns {
		n += 1 + pwCount(x.kids)
	}
	return n
}

// pwTypes lists the wire types of all fields in preorder.
func pwTypes(ns []*pwNode) []protowire.Type {
	var out []protowire.Type
	for _, x := range ns {
		out = append(out, x.typ)
		out = append(out, pwTypes(x.kids)...)
	}
	return out
}

// pwApplies reports whether variant v changes a field of wire type t.
func pwApplies(t protowire.Type, v int) bool {
	switch {
	case v >= 14 && v < 26:
		return t != protowire.BytesType
	case v >= 26:
		return t == protowire.BytesType
	}
	return true
}

func pwAppend(dst []byte, nd *pwNode) []byte {
	dst = protowire.AppendTag(dst, nd.num, nd.typ)
	switch nd.typ {
	case protowire.VarintType:
		dst = protowire.AppendVarint(dst, nd.v)
	case protowire.Fixed32Type:
		dst = protowire.AppendFixed32(dst, uint32(nd.v))
	case protowire.Fixed64Type:
		dst = protowire.AppendFixed64(dst, nd.v)
	case protowire.BytesType:
		body := nd.val
		if nd.kids != nil {
			body = pwEncode(nd.kids, nil)
		}
		dst = protowire.AppendBytes(dst, body)
	}
	return dst
}

// pwVariants is the number of mutation variants of a single field.
const pwVariants = 44

var pwVarints = []uint64{0, 1, 0x7f, 0x80, 0x3fff, 0x7fffffff, 0x80000000, 0xffffffff, 0x100000000, 1<<63 - 1, 1 << 63, 1<<64 - 1}
var pwLens = []int64{0, 1, -1, +1, -2, 0x7f, 0x80, 0x3fff, 0x4000, 0x7fffffff, 0x80000000, 0xffffffff, 1 << 40, 1<<63 - 1}

// pwMutant re-encodes the message with field number `target` (preorder) replaced by its variant.
// Enclosing length prefixes are recomputed, so only the addressed field is malformed.
func pwEncode(ns []*pwNode, mut func(dst []byte, nd *pwNode, idx int) ([]byte, bool)) []byte {
	idx := 0
	var rec func(ns []*pwNode) []byte
	rec = func(ns []*pwNode) []byte {
		var dst []byte
		for _, nd := range ns {
			me := idx
			idx++
			if mut != nil {
				if o, done := mut(dst, nd, me); done {
					dst = o
					idx += pwCount(nd.kids)
					continue
				}
			}
			if nd.kids != nil {
				dst = protowire.AppendTag(dst, nd.num, nd.typ)
				dst = protowire.AppendBytes(dst, rec(nd.kids))
			} else {
				dst = pwAppend(dst, nd)
			}
		}
		return dst
	}
	return rec(ns)
}

func pwBody(nd *pwNode) []byte {
	if nd.kids != nil {
		return pwEncode(nd.kids, nil)
	}
	return nd.val
}

// pwMutate applies variant v to the target-th field. The returned name classifies the operator.
func pwMutate(ns []*pwNode, target, v int) ([]byte, string) {
	name := "pw-noop"
	out := pwEncode(ns, func(dst []byte, nd *pwNode, idx int) ([]byte, bool) {
		if idx != target {
			return nil, false
		}
		switch {
		case v == 0:
			name = "pw-delete"
			return dst, true
		case v == 1:
			name = "pw-duplicate"
			dst = pwAppend(dst, nd)
			return pwAppend(dst, nd), true
		case v == 2: // another wire type in front of the same payload bytes
			name = "pw-wiretype"
			alt := map[protowire.Type]protowire.Type{protowire.VarintType: protowire.BytesType, protowire.BytesType: protowire.VarintType,
				protowire.Fixed32Type: protowire.BytesType, protowire.Fixed64Type: protowire.VarintType}[nd.typ]
			full := pwAppend(nil, nd)
			_, _, n := protowire.ConsumeTag(full)
			dst = protowire.AppendTag(dst, nd.num, alt)
			return append(dst, full[n:]...), true
		case v == 3:
			name = "pw-wiretype"
			full := pwAppend(nil, nd)
			_, _, n := protowire.ConsumeTag(full)
			dst = protowire.AppendTag(dst, nd.num, protowire.Fixed64Type)
			return append(dst, full[n:]...), true
		case v == 4: // start-group that never ends
			name = "pw-group"
			dst = protowire.AppendTag(dst, nd.num, protowire.StartGroupType)
			return append(dst, pwBody(nd)...), true
		case v == 5: // stray end-group
			name = "pw-group"
			return protowire.AppendTag(dst, nd.num, protowire.EndGroupType), true
		case v == 6: // deeply nested groups
			name = "pw-group-deep"
			for k := 0; k < 300; k++ {
				dst = protowire.AppendTag(dst, nd.num, protowire.StartGroupType)
			}
			for k := 0; k < 300; k++ {
				dst = protowire.AppendTag(dst, nd.num, protowire.EndGroupType)
			}
			return dst, true
		case v == 7: // the field nested in itself many times (recursion limit)
			name = "pw-nest-deep"
			body := pwBody(nd)
			for k := 0; k < 120; k++ {
				body = protowire.AppendBytes(protowire.AppendTag(nil, nd.num, protowire.BytesType), body)
			}
			return append(dst, body...), true
		case v >= 8 && v < 12:
			name = "pw-fieldnum"
			m := *nd
			m.num = []protowire.Number{1000, 19000, 1<<29 - 1, nd.num + 1}[v-8]
			if m.kids != nil {
				m.val, m.kids = pwEncode(m.kids, nil), nil
			}
			return pwAppend(dst, &m), true
		case v == 12: // field number 0 (illegal tag)
			name = "pw-fieldnum"
			full := pwAppend(nil, nd)
			_, _, n := protowire.ConsumeTag(full)
			dst = protowire.AppendVarint(dst, uint64(nd.typ))
			return append(dst, full[n:]...), true
		case v == 13: // over-long (11 byte) tag varint
			name = "pw-fieldnum"
			dst = append(dst, 0xff, 0xff, 0xff, 0xff, 0xff, 0xff, 0xff, 0xff, 0xff, 0xff, 0x01)
			return dst, true
		case v >= 14 && v < 14+len(pwVarints):
			if nd.typ == protowire.BytesType {
				name = "pw-noop"
				return nil, false
			}
			name = "pw-value"
			m := *nd
			m.v = pwVarints[v-14]
			return pwAppend(dst, &m), true
		case v >= 26 && v < 26+len(pwLens):
			if nd.typ != protowire.BytesType {
				name = "pw-noop"
				return nil, false
			}
			name = "pw-length"
			body := pwBody(nd)
			l := pwLens[v-26]
			if l == -1 || l == +1 || l == -2 {
				l += int64(len(body))
				if l < 0 {
					l = 0
				}
			}
			dst = protowire.AppendTag(dst, nd.num, nd.typ)
			dst = protowire.AppendVarint(dst, uint64(l))
			return append(dst, body...), true
		case v == 40 || v == 41 || v == 42 || v == 43:
			if nd.typ != protowire.BytesType {
				name = "pw-noop"
				return nil, false
			}
			name = "pw-content"
			body := pwBody(nd)
			m := pwNode{num: nd.num, typ: nd.typ}
			switch v {
			case 40:
				m.val = nil
			case 41:
				m.val = []byte{0}
			case 42:
				if len(body) > 0 {
					m.val = body[:len(body)-1]
				}
			case 43:
				m.val = append(append([]byte(nil), body...), 0)
			}
			return pwAppend(dst, &m), true
		}
		name = "pw-noop"
		return nil, false
	})
	return out, name
}

// le helpers for the seed writers (independent of the repository's codecs).
func le16(v uint16) []byte { b := make([]byte, 2); binary.LittleEndian.PutUint16(b, v); return b }
func le32(v uint32) []byte { b := make([]byte, 4); binary.LittleEndian.PutUint32(b, v); return b }
