package c07

import (
	"bytes"
	"context"
	"crypto/ecdsa"
	"crypto/ed25519"
	"crypto/elliptic"
	"crypto/rsa"
	"crypto/x509"
	"crypto/x509/pkix"
	"fmt"
	"io"
	"math/big"
	"math/rand/v2"
	"net/http"
	"time"

	"github.com/google/gce-tcb-verifier/gcetcbendorsement"
	epb "github.com/google/gce-tcb-verifier/proto/endorsement"
	"github.com/google/gce-tcb-verifier/sev"
	tabi "github.com/google/go-tdx-guest/abi"
	tcpb "github.com/google/go-tdx-guest/proto/checkconfig"
	tpb "github.com/google/go-tdx-guest/proto/tdx"
	tpmpb "github.com/google/go-tpm-tools/proto/attest"
	"google.golang.org/protobuf/proto"
	"google.golang.org/protobuf/reflect/protoreflect"
)

// Fifth-round families. Both are about WELL-FORMED objects of a variant the genuine seeds never
// show, which truncation, field mutation and byte flips of genuine objects cannot produce (the
// result either keeps the genuine variant or stops being well formed):
//
//	certzoo     every certificate slot of the golden measurement (cert as DER; ca_bundle and
//	            sev_snp.ca_bundle as PEM) holds a well-formed X.509 certificate of every public-key
//	            algorithm and size Go's parser knows (RSA 512..4096 / e=3, ECDSA P-224..P-521, Ed25519,
//	            X25519 and an unknown algorithm: PublicKey == nil), issued by the verifier's root, by a
//	            stranger, expired / not yet valid / a CA; with endorsement signatures of every shape
//	            (RSA-PSS by the genuine signer, empty, one byte, DER ECDSA shaped, 64 bytes, zeros);
//	            in the three carriers, handed to every native entry point of the carrier's kind.
//	            The genuine seeds only ever hold RSA-2048 certificates.
//	tdxextract  TdxValidate WITHOUT an endorsement from the caller (TdxValidateOptions.Endorsement ==
//	            nil): the branch that extracts the endorsement for the attestation. Until this round
//	            every TdxValidate call passed an endorsement because the branch builds
//	            extract.DefaultOptions(), whose getter is the process's default HTTP client; here the
//	            process's network is a double (http.DefaultTransport replaced for the duration of the
//	            call by a RoundTripper that answers every request with status 200 and a body chosen
//	            by the case: genuine endorsement, signed variant, garbage, nothing). Attestations:
//	            the TDX quote in PROTO form with every populated field of the message tree in turn
//	            absent / present but empty / (bytes) of 1, 8, n-1, n+1, 2n bytes / (numbers) maximal,
//	            bare and inside a go-tpm-tools Attestation; every genuine TDX seed; mutants of the TDX
//	            seeds drawn from the case list of c07.go.
//
// Judged by the same monitor as every other family (core.Guard: panic, CPU, allocation budget).

// ---- certzoo ----

type zooCert struct {
	name string
	der  []byte
	key  string // what x509.ParseCertificate must report as PublicKey ("" = nil)
}

func detBytes(rnd *detReader, n int) []byte {
	b := make([]byte, n)
	rnd.Read(b)
	return b
}

// rsaShapedKey is a well-formed RSA public key of the given size (an odd modulus with the top bit
// set: nobody holds its factors, and nobody needs to: only parsing and verification see it).
func rsaShapedKey(rnd *detReader, bits, e int) *rsa.PublicKey {
	b := detBytes(rnd, bits/8)
	b[0] |= 0x80
	b[len(b)-1] |= 1
	return &rsa.PublicKey{N: new(big.Int).SetBytes(b), E: e}
}

func ecdsaKey(rnd *detReader, c elliptic.Curve) *ecdsa.PublicKey {
	k := detBytes(rnd, (c.Params().BitSize+7)/8-1) // below the group order for every curve
	x, y := c.ScalarBaseMult(k)
	return &ecdsa.PublicKey{Curve: c, X: x, Y: y}
}

func (w *world) mkCertZoo() (zoo []zooCert, wrong []string) {
	rnd := newDetReader("c07 certificate zoo")
	rootKey := parseKey(rootKeyPEM)
	nb := w.root.NotBefore
	serial := int64(100)
	stranger := &x509.Certificate{Subject: pkix.Name{CommonName: "c07 stranger CA"}}
	mk := func(name, key string, pub any, byRoot bool, alg x509.SignatureAlgorithm, from, to time.Time, isCA bool) {
		serial++
		t := &x509.Certificate{SerialNumber: big.NewInt(serial), Subject: pkix.Name{CommonName: "c07 zoo " + name}, NotBefore: from, NotAfter: to,
			IsCA: isCA, BasicConstraintsValid: true, SignatureAlgorithm: alg, KeyUsage: x509.KeyUsageDigitalSignature}
		if isCA {
			t.KeyUsage = x509.KeyUsageCertSign
		}
		parent, signKey := w.root, rootKey
		if !byRoot {
			parent, signKey = stranger, w.signerKey
		}
		der, err := x509.CreateCertificate(rnd, t, parent, pub, signKey)
		if err != nil {
			panic(fmt.Sprintf("certificate zoo: %s: %v", name, err))
		}
		zoo = append(zoo, zooCert{name, der, key})
	}
	end := nb.AddDate(10, 0, 0)
	pss, v15 := x509.SHA256WithRSAPSS, x509.SHA256WithRSA
	zoo = append(zoo, zooCert{"genuine-signer", w.signer.Raw, "*rsa.PublicKey"})
	for _, bits := range []int{512, 1024, 3072, 4096} {
		mk(fmt.Sprintf("rsa-%d", bits), "*rsa.PublicKey", rsaShapedKey(rnd, bits, 65537), true, pss, nb, end, false)
	}
	mk("rsa-2048-e3", "*rsa.PublicKey", rsaShapedKey(rnd, 2048, 3), true, v15, nb, end, false)
	for _, c := range []elliptic.Curve{elliptic.P224(), elliptic.P256(), elliptic.P384(), elliptic.P521()} {
		mk("ecdsa-"+c.Params().Name, "*ecdsa.PublicKey", ecdsaKey(rnd, c), true, pss, nb, end, false)
	}
	edPub := ed25519.NewKeyFromSeed(detBytes(rnd, 32)).Public()
	mk("ed25519", "ed25519.PublicKey", edPub, true, v15, nb, end, false)
	// CreateCertificate only writes keys it can sign for: the other algorithms of the parser are made by
	// rewriting the algorithm identifier of an Ed25519 SubjectPublicKeyInfo (same key length)
	otherAlg := func(name, key string, last byte, byRoot bool) {
		mk(name, key, edPub, byRoot, v15, nb, end, false)
		z := &zoo[len(zoo)-1]
		if k := bytes.Index(z.der, []byte{0x06, 0x03, 0x2b, 0x65, 0x70}); k >= 0 {
			z.der = append([]byte(nil), z.der...)
			z.der[k+4] = last
		}
	}
	otherAlg("x25519", "", 0x6e, true) // id-X25519 (1.3.101.110): not a certificate key algorithm for the parser, PublicKey == nil
	// 1.3.101.127: a well-formed SubjectPublicKeyInfo of an algorithm nobody knows (PublicKey == nil)
	unknownAlg := func(name string, byRoot bool) { otherAlg(name, "", 0x7f, byRoot) }
	unknownAlg("unknown-algorithm", true)
	mk("stranger-rsa-2048", "*rsa.PublicKey", &w.signerKey.PublicKey, false, pss, nb, end, false)
	mk("stranger-ecdsa-P-256", "*ecdsa.PublicKey", ecdsaKey(rnd, elliptic.P256()), false, v15, nb, end, false)
	mk("stranger-ed25519", "ed25519.PublicKey", ed25519.NewKeyFromSeed(detBytes(rnd, 32)).Public(), false, pss, nb, end, false)
	unknownAlg("stranger-unknown-algorithm", false)
	zoo = append(zoo, zooCert{"the-root-itself", w.root.Raw, "*rsa.PublicKey"})
	mk("expired-rsa-2048", "*rsa.PublicKey", &w.signerKey.PublicKey, true, pss, nb.AddDate(-2, 0, 0), nb.AddDate(-1, 0, 0), false)
	mk("not-yet-valid-ecdsa-P-384", "*ecdsa.PublicKey", ecdsaKey(rnd, elliptic.P384()), true, pss, nb.AddDate(5, 0, 0), end, false)
	mk("ca-ecdsa-P-256", "*ecdsa.PublicKey", ecdsaKey(rnd, elliptic.P256()), true, pss, nb, end, true)
	// the harness's own check that every animal is what its name says (a floor, not a verdict)
	for _, z := range zoo {
		c, err := x509.ParseCertificate(z.der)
		got := ""
		if err == nil && c.PublicKey != nil {
			got = fmt.Sprintf("%T", c.PublicKey)
		}
		if err != nil || got != z.key {
			wrong = append(wrong, fmt.Sprintf("%s: parsed to %q (%v), want %q", z.name, got, err, z.key))
		}
	}
	return zoo, wrong
}

var zooSigs = []string{"rsa-pss-by-the-genuine-signer", "empty", "one-byte", "der-ecdsa-shaped", "64-bytes", "256-zero-bytes"}

func (w *world) zooSignature(shape int, payload []byte, rnd *detReader) []byte {
	switch shape {
	case 0:
		return w.sign(payload)
	case 1:
		return nil
	case 2:
		return []byte{1}
	case 3:
		r, s := detBytes(rnd, 32), detBytes(rnd, 32)
		r[0], s[0] = r[0]&0x7f|1, s[0]&0x7f|1
		return cat([]byte{0x30, 0x44, 0x02, 0x20}, r, []byte{0x02, 0x20}, s)
	case 4:
		return detBytes(rnd, 64)
	}
	return make([]byte, 256)
}

var zooSlots = []string{"cert", "ca_bundle", "sev_snp.ca_bundle"}

type zooCase struct{ cert, slot, sig, carrier int }

func mkZooCases(n int) []zooCase {
	var out []zooCase
	k := 0
	for c := 0; c < n; c++ {
		for s := range zooSigs {
			out = append(out, zooCase{c, 0, s, 0})
			if k%3 != 0 { // two of three also inside an attestation (proto extras / raw certificate table)
				out = append(out, zooCase{c, 0, s, k % 3})
			}
			k++
		}
		for slot := 1; slot < len(zooSlots); slot++ {
			out = append(out, zooCase{c, slot, 0, 0}, zooCase{c, slot, 0, 1 + (c+slot)%2})
		}
	}
	return out
}

// zooInput builds the endorsement of a case in its carrier.
func (w *world) zooInput(zc zooCase, zoo []zooCert) (b []byte, gname, sname, kind string) {
	z := zoo[zc.cert]
	g := proto.Clone(w.golden).(*epb.VMGoldenMeasurement)
	switch zc.slot {
	case 0:
		g.Cert = z.der
	case 1:
		g.CaBundle = cat(pemBlock("CERTIFICATE", z.der), pemBlock("CERTIFICATE", w.root.Raw))
	default:
		g.SevSnp.CaBundle = cat(pemBlock("CERTIFICATE", z.der), pemBlock("CERTIFICATE", w.root.Raw))
	}
	payload := mustMarshal(g)
	rnd := newDetReader(fmt.Sprintf("c07 zoo signature %d %d %d", zc.cert, zc.slot, zc.sig))
	eb := mustMarshal(&epb.VMLaunchEndorsement{SerializedUefiGolden: payload, Signature: w.zooSignature(zc.sig, payload, rnd)})
	kind = "endorsement"
	if zc.carrier > 0 {
		kind = "snp"
	}
	return w.carryBytes(eb, zc.carrier), fmt.Sprintf("certzoo/%s certificate in %s, signature %s, in %s", z.name, zooSlots[zc.slot], zooSigs[zc.sig], carrierNames[zc.carrier]),
		fmt.Sprintf("zoo-%s-in-%s-in-%s", z.name, zooSlots[zc.slot], carrierNames[zc.carrier]), kind
}

// carryBytes puts endorsement bytes into one of the three carriers of grammar.go.
func (w *world) carryBytes(eb []byte, carrier int) []byte {
	switch carrier {
	case 0:
		return eb
	case 1:
		at := w.snpAttestation(false)
		at.CertificateChain.Extras = map[string][]byte{sev.GCEFwCertGUID: eb}
		return mustMarshal(at)
	}
	raw := w.byName["snp-raw"].data
	es := parseTable(raw[0x4A0:])
	want := efiGUIDBytes(sev.GCEFwCertGUID)
	for k := range es {
		if bytes.Equal(es[k].guid[:], want) {
			es[k].blob = eb
		}
	}
	return append(append([]byte(nil), raw[:0x4A0]...), certTable(es)...)
}

func (d *dimRun) runZoo(i int, zc zooCase, r *rand.Rand) {
	z := d.zoo[zc.cert]
	b, gname, sname, kind := d.w.zooInput(zc, d.zoo)
	if zc.slot == 2 { // the options under which policy derivation gets as far as the CA bundle
		d.tweak = func(e *env) {
			e.vmsas = []uint32{0, 1, 4}[int(e.vmsas)%3]
			e.withBase = false
		}
		defer func() { d.tweak = nil }()
	}
	d.feed(i, b, gname, "certificate-zoo", sname, kind, r, false, func(en string, err error) {
		if en != "verify.Endorsement" || zc.slot != 0 {
			return
		}
		switch {
		case z.name == "genuine-signer" && zc.sig == 0 && err == nil:
			d.floor("certzoo/genuine-certificate-and-signature-accepted-by-verify.Endorsement")
		case z.key != "*rsa.PublicKey" && err != nil:
			d.floor("certzoo/certificate-with-a-key-that-is-not-RSA-refused-by-verify.Endorsement")
			d.c.Count("certzoo/non-rsa-certificates-refused", 1)
		}
	})
}

// ---- tdxextract ----

// netDouble is the network of the process while a tdxextract call runs.
type netDouble struct {
	body  []byte
	calls int
}

func (n *netDouble) RoundTrip(req *http.Request) (*http.Response, error) {
	n.calls++
	return &http.Response{Status: "200 OK", StatusCode: 200, Proto: "HTTP/1.1", ProtoMajor: 1, ProtoMinor: 1, Header: http.Header{},
		Body: io.NopCloser(bytes.NewReader(n.body)), ContentLength: int64(len(n.body)), Request: req}, nil
}

type pbEdit struct {
	path    []protoreflect.FieldDescriptor
	name    string
	variant string
}

// pbEdits lists, in descriptor order, every populated field of the message tree with the variants
// that apply to its type.
func pbEdits(m protoreflect.Message, path []protoreflect.FieldDescriptor, prefix string, out *[]pbEdit) {
	fds := m.Descriptor().Fields()
	for k := 0; k < fds.Len(); k++ {
		fd := fds.Get(k)
		if !m.Has(fd) {
			continue
		}
		p := append(append([]protoreflect.FieldDescriptor(nil), path...), fd)
		name := prefix + string(fd.Name())
		add := func(v string) { *out = append(*out, pbEdit{p, name, v}) }
		add("absent")
		switch {
		case fd.IsList() || fd.IsMap():
		case fd.Kind() == protoreflect.MessageKind:
			add("empty")
			pbEdits(m.Get(fd).Message(), p, name+".", out)
		case fd.Kind() == protoreflect.BytesKind:
			for _, v := range []string{"1-byte", "8-bytes", "one-byte-short", "one-byte-long", "doubled"} {
				add(v)
			}
		case fd.Kind() == protoreflect.Uint32Kind || fd.Kind() == protoreflect.Uint64Kind:
			add("maximal")
		}
	}
}

func (e pbEdit) apply(root proto.Message) proto.Message {
	out := proto.Clone(root)
	m := out.ProtoReflect()
	for _, fd := range e.path[:len(e.path)-1] {
		m = m.Mutable(fd).Message()
	}
	fd := e.path[len(e.path)-1]
	switch e.variant {
	case "absent":
		m.Clear(fd)
	case "empty":
		m.Set(fd, m.NewField(fd))
	case "maximal":
		if fd.Kind() == protoreflect.Uint32Kind {
			m.Set(fd, protoreflect.ValueOfUint32(^uint32(0)))
		} else {
			m.Set(fd, protoreflect.ValueOfUint64(^uint64(0)))
		}
	default:
		old := m.Get(fd).Bytes()
		var nb []byte
		switch e.variant {
		case "1-byte":
			nb = cat(old, []byte{0})[:1]
		case "8-bytes":
			nb = cat(old, make([]byte, 8))[:8]
		case "one-byte-short":
			nb = old[:len(old)-1]
		case "one-byte-long":
			nb = cat(old, []byte{0x5a})
		default:
			nb = cat(old, old)
		}
		m.Set(fd, protoreflect.ValueOfBytes(append([]byte(nil), nb...)))
	}
	return out
}

type tdxxCase struct {
	kind    string // edit | genuine | pool
	a       int
	carrier int
}

var tdxxCarriers = []string{"quote-proto", "tpm-attestation-proto"}

func (d *dimRun) mkTdxxCases() []tdxxCase {
	q, err := tabi.QuoteToProto(d.w.tdxQuote)
	if err != nil {
		panic(err)
	}
	d.tdxProto = q.(*tpb.QuoteV4)
	pbEdits(d.tdxProto.ProtoReflect(), nil, "", &d.tdxEdits)
	var out []tdxxCase
	for k := range d.tdxEdits {
		for c := range tdxxCarriers {
			out = append(out, tdxxCase{"edit", k, c})
		}
	}
	for k, s := range d.w.seeds {
		if s.kind == "tdx" {
			out = append(out, tdxxCase{"genuine", k, 0})
		}
	}
	for k := 0; k < d.c.N(64, 1200); k++ {
		out = append(out, tdxxCase{"pool", k, 0})
	}
	return out
}

const tdxxEntry = "TdxValidate/no-endorsement"

func (d *dimRun) runTdxx(i int, tc tdxxCase, r *rand.Rand) {
	w := d.w
	var b []byte
	var gname, sname string
	genuine := false
	switch tc.kind {
	case "edit":
		e := d.tdxEdits[tc.a]
		q := e.apply(d.tdxProto).(*tpb.QuoteV4)
		if tc.carrier == 0 {
			b = mustMarshal(q)
		} else {
			b = mustMarshal(&tpmpb.Attestation{TeeAttestation: &tpmpb.Attestation_TdxAttestation{TdxAttestation: q}})
		}
		gname = fmt.Sprintf("tdxextract/%s with %s %s", tdxxCarriers[tc.carrier], e.name, e.variant)
		sname = "tdxproto-" + e.name + "-in-" + tdxxCarriers[tc.carrier]
	case "genuine":
		s := w.seeds[tc.a]
		b, gname, sname, genuine = s.data, "tdxextract/"+s.name+"/genuine", s.name, true
	default:
		idx := d.byKind["tdx-only"]
		j := idx[r.IntN(len(idx))]
		var g string
		b, g, _, sname, _ = w.materialize(d.specs[j], r)
		if len(b) > 64<<10 {
			b = b[:64<<10]
			g += "[:64KiB]"
		}
		gname = fmt.Sprintf("tdxextract/#%d:%s", j, g)
	}
	// the directed quotes also go to the entry points that are given an endorsement
	if tc.kind == "edit" {
		d.feed(i, b, gname, "tdx-proto-field", sname, "tdx", r, false, nil)
	}
	// what the network serves
	answers := []named[func() []byte]{
		{"genuine-endorsement", func() []byte { return w.endBytes }},
		{"nothing", func() []byte { return nil }},
		{"garbage", func() []byte { return randomBytes(r, 64) }},
		{"truncated-endorsement", func() []byte { return w.endBytes[:r.IntN(len(w.endBytes))] }},
		{"signed-variant", func() []byte { v, _ := w.goldenVariant(r.IntN(len(goldenVariants)), 0); return v }},
	}
	ans := answers[r.IntN(len(answers))]
	ram, withBase, overwrite := []int{0, 16, 16, 32, 64}[r.IntN(5)], r.IntN(4) == 0, r.IntN(3) != 0
	if genuine {
		ans, ram, withBase, overwrite = answers[0], 16, false, true
	}
	net := &netDouble{body: ans.v()}
	o := &gcetcbendorsement.TdxValidateOptions{RootsOfTrust: w.pool, Now: w.now, ExpectedRAMGiB: ram, Overwrite: overwrite}
	if withBase {
		o.BasePolicy = &tcpb.Policy{TdQuoteBodyPolicy: &tcpb.TDQuoteBodyPolicy{AnyMrTd: [][]byte{w.mrtd}}}
	}
	old := http.DefaultTransport
	http.DefaultTransport = net
	out := d.guarded(i, tdxxEntry, gname+" [network serves "+ans.name+"]", b, len(b)+len(net.body), func() error {
		return gcetcbendorsement.TdxValidate(context.Background(), b, o)
	})
	http.DefaultTransport = old
	d.c.Cell("%s|tdx-no-endorsement|%s|%s|%s", sname, tdxxEntry, ans.name, out)
	if net.calls > 0 {
		d.c.Count("tdxextract/requests-answered-by-the-network-double", net.calls)
		d.floor("tdxextract/endorsement-requested-from-the-network-double")
	}
	switch {
	case genuine && out == "ok":
		d.floor("tdxextract/genuine-quote-validated-with-the-endorsement-served-by-the-network-double")
	case tc.kind == "edit" && d.tdxEdits[tc.a].variant == "absent" && out == "error":
		d.floor("tdxextract/proto-quote-with-an-absent-field-refused")
	}
	if tc.kind == "edit" && out == "ok" {
		d.c.Count("tdxextract/edited-proto-quotes-validated", 1)
	}
}

func kindFloors() []string {
	return []string{
		"certzoo/every-certificate-parses-to-the-key-type-its-name-says",
		"certzoo/genuine-certificate-and-signature-accepted-by-verify.Endorsement",
		"certzoo/certificate-with-a-key-that-is-not-RSA-refused-by-verify.Endorsement",
		"tdxextract/endorsement-requested-from-the-network-double",
		"tdxextract/genuine-quote-validated-with-the-endorsement-served-by-the-network-double",
		"tdxextract/proto-quote-with-an-absent-field-refused",
	}
}
