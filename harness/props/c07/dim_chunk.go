package c07

import (
	"encoding/base64"
	"encoding/hex"
	"fmt"
)

// chunk family: declared sizes and counts that sit on the boundaries of internal buffers (a 2^k
// scratch or read buffer, bytes.Buffer's 512-byte read step, io.Copy's 32 KiB, a 4 KiB page, the
// 255-byte limit of a byte-sized string) with the declared data really present, so that the
// decoders get past the length check and through the copy loop. Field mutation of the genuine
// seeds sets such sizes too, but without the data behind them (a truncation error at once), and
// its boundary table has no 2^k between 2^8 and 2^16.

type chunkCase struct {
	shape   string // eventdata-size | locator-size | platformcert-size | digest-count | event-count | cstr-size | quote-length
	n       int
	carrier int
	variant int
}

var chunkCarriers = map[string][]string{
	"eventdata-size":    {"eventdata", "event2", "pcclient-event", "eventlog-event"},
	"locator-size":      {"sp800155", "eventdata", "eventlog-event"},
	"platformcert-size": {"sp800155"},
	"digest-count":      {"event2", "eventlog-event"},
	"event-count":       {"eventlog-empty-events", "eventlog-small-events"},
	"cstr-size":         {"sp800155", "eventlog-event"},
	"quote-length":      {"tdx-raw+tail", "snp-raw+extra-entry", "cert-table+extra-entry", "hex-of-n-bytes", "base64-of-n-bytes"},
}

func chunkSizes(thorough bool) []int {
	var s []int
	hi := 17
	if thorough {
		hi = 19
	}
	for k := 7; k <= hi; k++ {
		s = append(s, 1<<k-1, 1<<k, 1<<k+1)
		if thorough {
			s = append(s, 1<<k-2, 1<<k+2, 3<<(k-1))
		}
	}
	return append(s, 1000, 10000, 100000)
}

var chunkCounts = []int{7, 8, 9, 15, 16, 17, 31, 32, 33, 63, 64, 65, 127, 128, 129, 255, 256, 257, 1023, 1024, 1025}

func (w *world) mkChunkCases(thorough bool) []chunkCase {
	var out []chunkCase
	sizes := chunkSizes(thorough)
	for _, n := range sizes {
		for ci := range chunkCarriers["eventdata-size"] {
			for v := 0; v < 2; v++ {
				out = append(out, chunkCase{"eventdata-size", n, ci, v})
			}
		}
		for ci := range chunkCarriers["locator-size"] {
			out = append(out, chunkCase{"locator-size", n, ci, 0})
		}
		out = append(out, chunkCase{"platformcert-size", n, 0, 0})
		for ci := range chunkCarriers["quote-length"] {
			out = append(out, chunkCase{"quote-length", n, ci, 0})
		}
	}
	for _, n := range chunkCounts {
		for ci := range chunkCarriers["digest-count"] {
			out = append(out, chunkCase{"digest-count", n, ci, 0})
		}
	}
	for _, n := range append(append([]int(nil), chunkCounts...), 4095, 4096, 4097) {
		for ci := range chunkCarriers["event-count"] {
			out = append(out, chunkCase{"event-count", n, ci, 0})
		}
	}
	for field := 0; field < 5; field++ {
		for _, n := range []int{1, 2, 127, 128, 254, 255} {
			for ci := range chunkCarriers["cstr-size"] {
				out = append(out, chunkCase{"cstr-size", n, ci, field})
			}
		}
	}
	return out
}

func countFill(n int) []byte {
	p := make([]byte, n)
	for i := range p {
		p[i] = byte(i*7 + 1)
	}
	return p
}

// sp800155With writes an SP800-155 Event3 payload (with signature) whose five strings, RIM locator
// and platform certificate locator are given.
func sp800155With(strs [5]string, locType uint32, loc []byte, certLoc []byte, pad bool) []byte {
	b := &builder{}
	b.raw([]byte("SP800-155 Event3"))
	b.u32("", 11129)
	b.raw(efiGUIDBytes("11112222-3333-4444-5555-666677778888"))
	b.cstr("", strs[0])
	b.cstr("", strs[1])
	b.cstr("", strs[2])
	b.cstr("", strs[3])
	b.u32("", 11129)
	b.cstr("", strs[4])
	b.u32("", locType)
	b.u32("", uint32(len(loc)))
	b.raw(loc)
	b.u32("", 0)
	b.u32("", uint32(len(certLoc)))
	b.raw(certLoc)
	for pad && b.buf.Len()%8 != 0 {
		b.buf.WriteByte(0)
	}
	return append([]byte(nil), b.buf.Bytes()...)
}

var genuineStrs = [5]string{"Google", "Google Compute Engine", "", gceManufacturer, "1.2.3"}

// eventWithDigests writes a TCG_PCR_EVENT2 with n digests (algorithms cycling) and the given data.
func eventWithDigests(b *builder, n int, typ uint32, data []byte) {
	algs := make([]uint16, n)
	for k := range algs {
		algs[k] = []uint16{4, 0xb, 0xc}[k%3]
	}
	b.event2("e", 0, typ, algs, func(i *builder) { i.raw(data) })
}

// inEventCarrier wraps event data (signature + payload) into the named carrier.
func inEventCarrier(carrier string, data []byte) ([]byte, string) {
	b := &builder{}
	sha := []uint16{4, 0xb, 0xc}
	switch carrier {
	case "sp800155": // the payload without its signature
		return append([]byte(nil), data[16:]...), "sp800155"
	case "eventdata":
		b.u32("", uint32(len(data)))
		b.raw(data)
		return append([]byte(nil), b.buf.Bytes()...), "eventdata"
	case "event2":
		b.event2("ev", 0, 3, sha, func(i *builder) { i.raw(data) })
		return append([]byte(nil), b.buf.Bytes()...), "event2"
	case "pcclient-event":
		b.headerEvent(data)
		return append([]byte(nil), b.buf.Bytes()...), "pcclient"
	default: // eventlog-event
		b.pcClientHeader()
		b.event2("ev0", 0, 8, []uint16{4, 0xb}, func(i *builder) { i.raw(ucs2("GCE Virtual Firmware v2")) })
		b.event2("x", 0, 3, sha, func(i *builder) { i.raw(data) })
		b.event2("sep", 7, 4, sha, func(i *builder) { i.raw([]byte{0, 0, 0, 0}) })
		return append([]byte(nil), b.buf.Bytes()...), "eventlog"
	}
}

// chunkInput materializes a chunk case: bytes, generator path, seed name, seed kind.
func (w *world) chunkInput(cc chunkCase) (out []byte, gname, sname, kind string) {
	car := chunkCarriers[cc.shape][cc.carrier]
	gname = fmt.Sprintf("chunk/%s=%d in %s", cc.shape, cc.n, car)
	sname = fmt.Sprintf("chunk-%s-in-%s", cc.shape, car)
	switch cc.shape {
	case "eventdata-size": // the whole event data (signature + payload) is exactly n bytes
		var data []byte
		if cc.variant == 0 {
			data = cat([]byte("Not A Signature!"), countFill(cc.n-16))
			gname += " unknown signature"
		} else { // a genuine SP800-155 payload whose raw locator is sized so that the event data is n bytes (n >= 128), else zero padded / cut
			base := sp800155With(genuineStrs, 0, nil, nil, false)
			if cc.n >= len(base) {
				data = sp800155With(genuineStrs, 0, countFill(cc.n-len(base)), nil, false)
			} else {
				data = base[:cc.n]
			}
			gname += " SP800-155 Event3"
			sname += "-sp800155"
		}
		out, kind = inEventCarrier(car, data)
	case "locator-size":
		out, kind = inEventCarrier(car, sp800155With(genuineStrs, 0, countFill(cc.n), nil, true))
	case "platformcert-size":
		out, kind = inEventCarrier(car, sp800155With(genuineStrs, 3, append(efiGUIDBytes(varGUID), ucs2(varName)...), countFill(cc.n), true))
	case "cstr-size": // string number `variant` has exactly n bytes including its terminator
		strs := genuineStrs
		s := make([]byte, cc.n-1)
		for i := range s {
			s[i] = 'a' + byte(i%26)
		}
		strs[cc.variant] = string(s)
		gname += fmt.Sprintf(" string#%d", cc.variant)
		out, kind = inEventCarrier(car, sp800155With(strs, 0, []byte("raw reference integrity manifest"), nil, true))
	case "digest-count":
		b := &builder{}
		if car == "event2" {
			eventWithDigests(b, cc.n, 3, sp800155With(genuineStrs, 0, []byte("rim"), nil, true))
			kind = "event2"
		} else {
			b.pcClientHeader()
			eventWithDigests(b, cc.n, 3, sp800155With(genuineStrs, 0, []byte("rim"), nil, true))
			eventWithDigests(b, 3, 4, []byte{0, 0, 0, 0})
			kind = "eventlog"
		}
		out = append([]byte(nil), b.buf.Bytes()...)
	case "event-count":
		b := &builder{}
		b.pcClientHeader()
		for k := 0; k < cc.n; k++ {
			if car == "eventlog-empty-events" {
				eventWithDigests(b, 0, 4, nil)
			} else if k == cc.n-1 { // the RIM event is the last one
				eventWithDigests(b, 1, 3, sp800155With(genuineStrs, 0, []byte("rim"), nil, true))
			} else {
				eventWithDigests(b, 1, 4, []byte{byte(k), byte(k >> 8), 0, 0})
			}
		}
		out, kind = append([]byte(nil), b.buf.Bytes()...), "eventlog"
	case "quote-length": // the whole input is exactly n bytes (n above the genuine length), or text decoding to n bytes
		switch car {
		case "tdx-raw+tail":
			q := w.tdxQuote
			if cc.n > len(q) {
				out = append(append([]byte(nil), q...), make([]byte, cc.n-len(q))...)
			} else {
				out = append([]byte(nil), q[:cc.n]...)
			}
			kind = "tdx"
		case "snp-raw+extra-entry", "cert-table+extra-entry":
			raw := w.byName["snp-raw"].data
			es := parseTable(raw[0x4A0:])
			var extra tableEntry
			copy(extra.guid[:], efiGUIDBytes("0badc0de-0000-4000-8000-00000000000c"))
			es = append(es, extra)
			prefix := raw[:0x4A0]
			kind = "snp"
			if car == "cert-table+extra-entry" {
				prefix, kind = nil, "certtable"
			}
			have := len(prefix) + len(certTable(es))
			if cc.n > have {
				es[len(es)-1].blob = countFill(cc.n - have)
			}
			out = append(append([]byte(nil), prefix...), certTable(es)...)
			if cc.n < len(out) {
				out = out[:cc.n]
			}
		case "hex-of-n-bytes":
			out, kind = []byte(hex.EncodeToString(countFill(cc.n))), "snp"
		default:
			out, kind = []byte(base64.StdEncoding.EncodeToString(countFill(cc.n))), "tdx"
		}
	}
	return out, gname, sname, kind
}
