package c07

import "fmt"

// Directed RIM-locator shapes: degenerate and boundary locators for every locator type an
// SP800-155 Event3 can carry (raw, URI, local device path, UEFI variable), each pushed through
// exel.Locate with every locator type and embedded — with consistent length fields, so that the
// decoders reach the locator code — in an otherwise genuine SP800-155 payload, event data, event
// and event log. Blind field mutation never produces e.g. "GUID + 00 00" (an empty variable name).

type locShape struct {
	name string
	typ  uint32 // the locator type the shape is written for
	data []byte
}

// locCarriers: 0..4 = bare locator handed to exel.Locate with that locator type (4 = unsupported
// type); then the shape inside a genuine structure, with its own type.
var locCarriers = []struct{ name, kind string }{
	{"bare/raw", "locator"}, {"bare/uri", "locator"}, {"bare/local", "locator"}, {"bare/variable", "locator"}, {"bare/type4", "locator"},
	{"eventlog", "eventlog"}, {"event2", "event2"}, {"eventdata", "eventdata"}, {"sp800155", "sp800155"},
}

func u16s(units ...uint16) []byte {
	var b []byte
	for _, u := range units {
		b = append(b, byte(u), byte(u>>8))
	}
	return b
}

func cat(parts ...[]byte) []byte {
	var b []byte
	for _, p := range parts {
		b = append(b, p...)
	}
	return b
}

func locShapes() []locShape {
	g := efiGUIDBytes(varGUID)
	zg := make([]byte, 16)
	name := func(s string) []byte { b := ucs2(s); return b[:len(b)-2] } // without terminator
	term := []byte{0, 0}
	var out []locShape
	v := func(n string, parts ...[]byte) { out = append(out, locShape{"variable/" + n, 3, cat(parts...)}) }
	// --- UEFI variable locators: 16-byte EFI GUID + 00 00-terminated UCS-2 name ---
	v("empty")
	v("1-byte", []byte{0})
	v("2-bytes-terminator-only", term)
	v("guid-15-bytes", g[:15])
	v("guid-only-16", g)
	v("guid-only-16-zero", zg)
	v("17-guid+00", g, []byte{0})
	v("17-guid+char-byte", g, []byte{'G'})
	v("18-guid+terminator-only", g, term) // empty variable name
	v("18-zero-guid+terminator-only", zg, term)
	v("18-guid+one-unit-no-terminator", g, name("G"))
	v("19-guid+odd", g, []byte{'G', 0, 0})
	v("19-guid+terminator+1", g, term, []byte{0})
	v("20-guid+one-unit+terminator", g, name("G"), term)
	v("20-guid+two-units-no-terminator", g, name("GH"))
	v("20-guid+double-terminator", g, term, term)
	v("20-guid+terminator-then-unit", g, term, name("G"))
	v("21-guid+odd", g, name("GH"), []byte{0})
	v("terminator-in-the-middle", g, name("Gce"), term, name("Rim"), term)
	v("terminator-in-the-middle-no-final", g, name("Gce"), term, name("Rim"))
	v("half-terminator", g, name("GceRim"), []byte{0})
	v("terminator-misaligned", g, []byte{'G'}, term, []byte{0})
	v("high-surrogate-alone", g, u16s(0xD800), term)
	v("low-surrogate-alone", g, u16s(0xDC00), term)
	v("high-surrogate-last-unit", g, name("G"), u16s(0xDBFF), term)
	v("high-surrogate-no-terminator", g, u16s(0xD800))
	v("surrogates-reversed", g, u16s(0xDC00, 0xD800), term)
	v("surrogate-pair-U+10000", g, u16s(0xD800, 0xDC00), term)
	v("bom", g, u16s(0xFEFF), term)
	v("bom-swapped", g, u16s(0xFFFE), term)
	v("noncharacter-ffff", g, u16s(0xFFFF), term)
	v("replacement-char", g, u16s(0xFFFD), term)
	v("nul-then-name", g, u16s(0, 'G'), term)
	v("slash", g, name("/"), term)
	v("dot", g, name("."), term)
	v("dotdot", g, name(".."), term)
	v("dotdot-slash-outside", g, name("../outside"), term)
	v("absolute-path", g, name("/etc/hostname"), term)
	v("genuine", g, name(varName), term)
	v("genuine-wrong-guid", zg, name(varName), term)
	v("short-file", g, name("Short"), term)
	v("directory", g, name("Dir"), term)
	v("symlink-outside", g, name("Link"), term)
	v("symlink-loop", g, name("Loop"), term)
	v("missing-variable", g, name("Missing"), term)
	long := make([]uint16, 255)
	for i := range long {
		long[i] = 'n'
	}
	v("name-255-units", g, u16s(long...), term)
	// --- URI locators ---
	u := func(n string, d []byte) { out = append(out, locShape{"uri/" + n, 1, d}) }
	u("empty", nil)
	u("1-byte", []byte("h"))
	u("1-byte-nul", []byte{0})
	u("scheme-only", []byte("https://"))
	u("nul-inside", []byte("https://x/\x00y"))
	u("nul-terminated", []byte("https://storage.googleapis.com/x\x00"))
	u("not-utf8", []byte{0xff, 0xfe, 0xfd})
	u("newline", []byte("https://x/\r\nHost: y"))
	u("file-scheme", []byte("file:///etc/hostname"))
	// --- local device paths ---
	l := func(n string, d []byte) { out = append(out, locShape{"local/" + n, 2, d}) }
	l("empty", nil)
	l("1-byte", []byte{0x7f})
	l("end-node", []byte{0x7f, 0xff, 0x04, 0x00})
	l("node-length-0", []byte{0x04, 0x04, 0x00, 0x00})
	l("node-length-ffff", []byte{0x04, 0x04, 0xff, 0xff, 'x', 0})
	l("file-path-node", cat([]byte{0x04, 0x04, 0x0e, 0x00}, name("\\rim"), term, []byte{0x7f, 0xff, 0x04, 0x00}))
	// --- raw data ---
	r := func(n string, d []byte) { out = append(out, locShape{"raw/" + n, 0, d}) }
	r("empty", nil)
	r("1-byte", []byte{0})
	r("guid-only", g)
	// --- locator types the profile does not define ---
	out = append(out, locShape{"type4/empty", 4, nil}, locShape{"type4/1-byte", 4, []byte{1}},
		locShape{"type-ffffffff/empty", 0xffffffff, nil}, locShape{"type-ffffffff/variable-shaped", 0xffffffff, cat(g, term)},
		locShape{"type-80000003/variable-shaped", 0x80000003, cat(g, term)})
	return out
}

// locShapeInput puts shape idx into carrier and returns the bytes, the generator path, the seed
// kind and the locator type a bare call uses.
func (w *world) locShapeInput(idx, carrier int) ([]byte, string, string, uint32) {
	sh := w.shapes[idx]
	c := locCarriers[carrier]
	gname := fmt.Sprintf("locshape/%s[%d bytes] in %s", sh.name, len(sh.data), c.name)
	if carrier < 5 {
		return append([]byte{}, sh.data...), gname, c.kind, uint32(carrier)
	}
	b := &builder{}
	body := func(i *builder) { i.sp800155(gceManufacturer, sh.typ, sh.data) }
	switch c.name {
	case "eventlog": // a single RIM event, so that extract.Endorsement has to use this locator
		b.pcClientHeader()
		b.event2("ev0", 0, 8, []uint16{4, 0xb}, func(i *builder) { i.raw(ucs2("GCE Virtual Firmware v2")) })
		b.event2("rim", 0, 3, []uint16{4, 0xb, 0xc}, body)
		b.event2("sep", 7, 4, []uint16{4, 0xb, 0xc}, func(i *builder) { i.raw([]byte{0, 0, 0, 0}) })
	case "event2":
		b.event2("ev", 0, 3, []uint16{4, 0xb, 0xc}, body)
	case "eventdata":
		inner := &builder{}
		body(inner)
		b.u32("", uint32(inner.buf.Len()))
		b.raw(inner.buf.Bytes())
	default: // sp800155 payload without its 16-byte signature
		inner := &builder{}
		body(inner)
		b.raw(inner.buf.Bytes()[16:])
	}
	return append([]byte{}, b.buf.Bytes()...), gname, c.kind, sh.typ
}
