package c07

import (
	"go/ast"
	"go/parser"
	"go/token"
	"path/filepath"
	"runtime/debug"
	"sort"
	"strconv"
	"strings"
)

// scanSignatures builds the part of the event-signature dictionary that comes from the tree under
// test: every 16-byte constant (a 16-element literal of character / integer constants, or a string
// literal of 16 bytes) in the non-test sources of the repository's event-log packages. The tree is
// the directory the worker was built from (the `replace` target recorded in the build info), so a
// decoder registered under a signature this file has never heard of still receives the boundary
// payloads. Returns nothing when the sources cannot be found: the specification's list remains.
func scanSignatures() (out []eventSig, dir string) {
	bi, ok := debug.ReadBuildInfo()
	if !ok {
		return nil, ""
	}
	for _, d := range bi.Deps {
		if d.Path == "github.com/google/gce-tcb-verifier" && d.Replace != nil {
			dir = d.Replace.Path
		}
	}
	if dir == "" || !filepath.IsAbs(dir) {
		return nil, ""
	}
	add := func(b []byte, where string) {
		var s eventSig
		copy(s.sig[:], b)
		s.name = "scanned-" + strings.Map(func(r rune) rune {
			if r >= 'a' && r <= 'z' || r >= 'A' && r <= 'Z' || r >= '0' && r <= '9' {
				return r
			}
			return '-'
		}, strings.TrimRight(string(b), "\x00"))
		_ = where
		out = append(out, s)
	}
	for _, sub := range []string{"eventlog", "extract/eventlog"} {
		files, _ := filepath.Glob(filepath.Join(dir, sub, "*.go"))
		sort.Strings(files)
		for _, f := range files {
			if strings.HasSuffix(f, "_test.go") {
				continue
			}
			fset := token.NewFileSet()
			tree, err := parser.ParseFile(fset, f, nil, parser.SkipObjectResolution)
			if err != nil {
				continue
			}
			ast.Inspect(tree, func(n ast.Node) bool {
				switch x := n.(type) {
				case *ast.ImportSpec:
					return false
				case *ast.BasicLit:
					if x.Kind == token.STRING {
						if s, err := strconv.Unquote(x.Value); err == nil && len(s) == 16 {
							add([]byte(s), f)
						}
					}
				case *ast.CompositeLit:
					if len(x.Elts) != 16 {
						return true
					}
					var b []byte
					for _, e := range x.Elts {
						l, ok := e.(*ast.BasicLit)
						if !ok {
							return true
						}
						switch l.Kind {
						case token.CHAR:
							s, err := strconv.Unquote(l.Value)
							if err != nil || len(s) != 1 {
								return true
							}
							b = append(b, s[0])
						case token.INT:
							v, err := strconv.ParseUint(l.Value, 0, 8)
							if err != nil {
								return true
							}
							b = append(b, byte(v))
						default:
							return true
						}
					}
					add(b, f)
					return false
				}
				return true
			})
		}
	}
	return out, dir
}
