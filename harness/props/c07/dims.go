package c07

import (
	"fmt"
	"math/rand/v2"
	"os"
	"sort"
	"strings"
	"time"

	"github.com/google/gce-tcb-verifier/gcetcbendorsement"
	epb "github.com/google/gce-tcb-verifier/proto/endorsement"
	tpb "github.com/google/go-tdx-guest/proto/tdx"
	"google.golang.org/protobuf/proto"

	"verifharness/core"
)

// Workload dimensions beyond "one fresh call per byte string" (audit of the recurring blind spots
// of the seeded-change rounds). Every family is appended after the case list of c07.go (case
// number = len(specs) + position), draws only from c.Rand(i), and is judged by the same monitor
// (core.Guard: panic, CPU and allocation budget; process deaths attributed by the supervisor).
//
//	chunk       sized fields and counts at the boundaries of internal buffers (2^k-1, 2^k, 2^k+1,
//	            k = 7..17; 255-byte strings) WITH the declared data present, in every carrier
//	textenc     prefix x body encoding x suffix grammar of textual quotes (0x, BOM, white space,
//	            separators, line breaks, padding; the body possibly empty)
//	efifile     UEFI variable files of 0..5 bytes and with degenerate data behind a variable locator
//	optmatrix   every combination of the options of the proto-typed and validating entry points
//	            (nil / empty / filled sub-options, every boolean with every other, zero / named counts)
//	session     state carried by values the caller keeps: one decode receiver refilled by a sequence
//	            of inputs (also growing and shrinking arrays), one validator closure / options value /
//	            getter / variable reader / quote buffer (refilled in place) serving a sequence, with
//	            the same input repeated directly and after another one
//	concurrent  the same entry point running on 8 goroutines at once, each with its own inputs and
//	            its own fresh receivers: only the library's process-wide state is shared
//	amplify     well-formed compressed containers (gzip, zlib, DEFLATE, LZW, bzip2, zip) of high
//	            expansion ratio in every position of an endorsement or quote, each call paired
//	            with a control twin of the same length (dim_amp.go)

type dimSpec struct {
	family  string
	a, b, v int
}

type dimRun struct {
	c      *core.Ctx
	w      *world
	lim    *asLimiter
	deaths map[string]int
	ents   []*entry
	specs  []spec // the case list of c07.go (pool of inputs for sessions and concurrent batches)
	byKind map[string][]int
	flo    map[string]bool
	names  map[string]bool // entry names used (for the not-suppressed floors)

	chunk []chunkCase
	text  []textCase
	efi   []efiCase
	opt   []optCase
	amp   []ampCase

	// fifth round (dim_kinds.go)
	zoo      []zooCert
	zooCases []zooCase
	tdxProto *tpb.QuoteV4
	tdxEdits []pbEdit
	tdxx     []tdxxCase
	tweak    func(*env) // per-case adjustment of the drawn parameters in feed (nil = none)
}

func (d *dimRun) floor(name string) { d.flo[name] = true }

// specKind is the seed kind materialize() reports for a spec, without materializing it.
func (w *world) specKind(s spec) string {
	switch s.op {
	case "golden", "pem":
		if s.b > 0 {
			return "snp"
		}
		return "endorsement"
	case "locshape":
		return locCarriers[s.b].kind
	case "sigpayload":
		return sigCarriers[s.b].kind
	case "random", "pattern", "big":
		return "none"
	}
	if s.seed >= 0 {
		return w.seeds[s.seed].kind
	}
	return "none"
}

// group maps a seed kind to the group of entry points that consume it in sessions and batches.
func group(kind string) string {
	switch kind {
	case "snp", "tdx", "certtable":
		return "quote"
	case "pcclient":
		return "eventlog"
	}
	return kind
}

func (d *dimRun) dimSpecs() []dimSpec {
	var out []dimSpec
	for k := range d.chunk {
		out = append(out, dimSpec{family: "chunk", a: k})
	}
	for k := range d.text {
		out = append(out, dimSpec{family: "textenc", a: k})
	}
	for k := range d.efi {
		out = append(out, dimSpec{family: "efifile", a: k})
	}
	for k := range d.opt {
		out = append(out, dimSpec{family: "optmatrix", a: k})
	}
	for gi := range sessionGroups {
		for p := range sessionPatterns {
			for k := 0; k < d.c.N(6, 60); k++ {
				out = append(out, dimSpec{family: "session", a: gi, b: p, v: k})
			}
		}
		for k := 0; k < len(resizePairs); k++ {
			out = append(out, dimSpec{family: "session-resize", a: gi, b: k})
		}
	}
	for gi := range sessionGroups {
		for k := 0; k < d.c.N(12, 120); k++ {
			out = append(out, dimSpec{family: "concurrent", a: gi, v: k})
		}
	}
	// appended in the fourth round (dim_amp.go); new families go below so that the numbers above stay
	for k := range d.amp {
		out = append(out, dimSpec{family: "amplify", a: k})
	}
	// appended in the fifth round (dim_kinds.go)
	for k := range d.zooCases {
		out = append(out, dimSpec{family: "certzoo", a: k})
	}
	for k := range d.tdxx {
		out = append(out, dimSpec{family: "tdxextract", a: k})
	}
	return out
}

// runDims runs the appended families. base is the number of cases of c07.go.
func (w *world) runDims(c *core.Ctx, specs []spec, ents []*entry, lim *asLimiter, deaths map[string]int) {
	d := &dimRun{c: c, w: w, lim: lim, deaths: deaths, ents: ents, specs: specs, byKind: map[string][]int{}, flo: map[string]bool{}, names: map[string]bool{}}
	for j, s := range specs {
		if s.op == "big" || s.op == "genuine" {
			continue
		}
		g := group(w.specKind(s))
		d.byKind[g] = append(d.byKind[g], j)
	}
	d.chunk = w.mkChunkCases(c.Thorough())
	d.text = w.mkTextCases(c.Thorough())
	d.efi = w.mkEfiCases()
	d.opt = w.mkOptCases(c.Thorough())
	d.amp = mkAmpCases(c.Thorough())
	for j, s := range specs {
		if s.op != "big" && s.op != "genuine" && w.specKind(s) == "tdx" {
			d.byKind["tdx-only"] = append(d.byKind["tdx-only"], j)
		}
	}
	var zooWrong []string
	d.zoo, zooWrong = w.mkCertZoo()
	if len(zooWrong) == 0 {
		d.floor("certzoo/every-certificate-parses-to-the-key-type-its-name-says")
	} else {
		c.Note("certificate zoo: %v", zooWrong)
	}
	d.zooCases = mkZooCases(len(d.zoo))
	d.tdxx = d.mkTdxxCases()
	dspecs := d.dimSpecs()
	base := len(specs)
	c.Max("appended-dimension-cases", int64(len(dspecs)))
	for k, ds := range dspecs {
		i := base + k
		if !c.Mine(i) {
			continue
		}
		r := c.Rand(i)
		c.Count("cases-total", 1)
		c.Count("cases/"+ds.family, 1)
		switch ds.family {
		case "chunk":
			cc := d.chunk[ds.a]
			b, gname, sname, kind := w.chunkInput(cc)
			d.feed(i, b, gname, "chunk", sname, kind, r, ds.a%8 == 0, func(en string, err error) {
				if err == nil && cc.n&(cc.n-1) == 0 && (en == "TCGEventData.Unmarshal" || en == "SP800155Event3.UnmarshalFromBytes" || en == "TCGPCREvent2.Unmarshal" || en == "CryptoAgileLog.Unmarshal") {
					d.floor(fmt.Sprintf("chunk/%s-of-exactly-%d-decoded", cc.shape, cc.n))
				}
			})
		case "textenc":
			tc := d.text[ds.a]
			b, gname, sname, kind := w.textInput(tc)
			d.feed(i, b, gname, "text-encoding", sname, kind, r, ds.a%16 == 0, func(en string, err error) {
				if en == "extract.Attestation" {
					if err == nil && tc.body > 2 {
						d.floor("textenc/encoded-genuine-quote-accepted")
					}
					if tc.body == 0 {
						c.Count("textenc/empty-body-calls", 1)
						d.floor("textenc/prefix-and-suffix-around-an-empty-body-fed")
					}
				}
			})
		case "efifile":
			d.runEfi(i, d.efi[ds.a], r)
		case "optmatrix":
			d.runOpt(i, d.opt[ds.a], r)
		case "session":
			d.runSession(i, ds, r)
		case "session-resize":
			d.runResize(i, ds, r)
		case "concurrent":
			d.runConcurrent(i, ds, r)
		case "amplify":
			d.runAmp(i, d.amp[ds.a], r)
		case "certzoo":
			d.runZoo(i, d.zooCases[ds.a], r)
		case "tdxextract":
			d.runTdxx(i, d.tdxx[ds.a], r)
		}
		if k%97 == 0 {
			c.Sample(map[string]any{"case": i, "family": ds.family})
		}
		c.End(i)
	}
	// floors of the appended families: what each dimension is there for must have been produced
	for _, n := range d.wantFloors() {
		c.Floor(n, d.flo[n])
	}
	names := make([]string, 0, len(d.names))
	for n := range d.names {
		names = append(names, n)
	}
	sort.Strings(names)
	for _, n := range names {
		c.Floor("not-suppressed/"+n, deaths[n] < deathCap)
	}
}

func (d *dimRun) wantFloors() []string {
	out := []string{
		"textenc/encoded-genuine-quote-accepted", "textenc/prefix-and-suffix-around-an-empty-body-fed",
		"efifile/attribute-header-only-variable-read", "efifile/variable-shorter-than-its-header-refused",
		"optmatrix/SevPolicy-every-combination-called", "optmatrix/TdxPolicy-every-combination-called",
		"optmatrix/verify.Endorsement-every-combination-called", "optmatrix/verify.SNPValidateFunc-every-combination-called",
		"optmatrix/SevValidate-every-combination-called", "optmatrix/TdxValidate-every-combination-called",
		"optmatrix/extract.Endorsement-every-combination-called",
		"optmatrix/SevPolicy-unspecified-count-not-allowed-on-endorsement-without-measurements",
		"session/receiver-refilled-after-a-success", "session/receiver-refilled-after-a-failure",
		"session/receiver-refilled-with-a-longer-array", "session/receiver-refilled-with-a-shorter-array",
		"session/closure-same-rejected-blob-twice-in-a-row", "session/closure-same-undecodable-blob-twice-in-a-row", "session/closure-genuine-accepted-after-a-rejection",
		"session/quote-buffer-refilled-in-place", "session/options-value-reused-with-changed-fields",
		"concurrent/calls-overlapped",
	}
	for _, g := range sessionGroups {
		out = append(out, "concurrent/fresh-well-formed-inputs-accepted/"+g)
	}
	for k := 7; k <= 17; k++ {
		out = append(out, fmt.Sprintf("chunk/eventdata-size-of-exactly-%d-decoded", 1<<k))
	}
	for _, n := range []int{8, 16, 64, 256, 1024} {
		out = append(out, fmt.Sprintf("chunk/digest-count-of-exactly-%d-decoded", n))
	}
	return append(append(out, ampFloors()...), kindFloors()...)
}

// guarded is one monitored call of the appended families: case record first, budget of the input
// size, panic / budget violations by core.Guard. Returns "ok", "error", "panic" or "suppressed".
func (d *dimRun) guarded(i int, entry, gname string, in []byte, n int, f func() error) string {
	d.names[entry] = true
	if d.deaths[entry] >= deathCap {
		d.c.Count("suppressed-after-repeated-deaths/"+entry, 1)
		return "suppressed"
	}
	if in != nil && d.c.Thorough() && len(in) > 4096 {
		in = nil
	}
	d.c.Begin(i, gname, entry, in)
	bd := budget(n)
	d.lim.enter(bd.Alloc)
	var err error
	m := d.c.Guard(i, entry, gname, bd, func() { err = f() })
	d.lim.leave()
	if m.Panicked {
		d.c.Count("panics/"+entry, 1)
		return "panic"
	}
	d.c.Count("calls/"+entry, 1)
	if err != nil {
		d.c.Count("errors/"+entry, 1)
		return "error"
	}
	return "ok"
}

// params draws the per-call parameters the way run() does for a mutant.
func (d *dimRun) params(e *env, r *rand.Rand) {
	e.vmsas = []uint32{0, 1, 4, 4, 2, 7}[r.IntN(6)]
	e.ram = []int{0, 16, 16, 32, 64}[r.IntN(5)]
	e.form = gcetcbendorsement.BytesForm(r.IntN(5))
	e.terminal = r.IntN(2) == 0
	e.forceFetch = r.IntN(4) == 0
	e.manufacturer = []string{"", gceManufacturer}[r.IntN(2)]
	e.overwrite = r.IntN(3) == 0
	e.withBase = r.IntN(4) == 0
	e.getterFails = r.IntN(2) == 0
	e.masks = nil
	for k := 0; k < 1+r.IntN(3); k++ {
		e.masks = append(e.masks, maskPaths[r.IntN(len(maskPaths))])
	}
	e.locType = []uint32{0, 1, 2, 3, 3, 3, 4, 0xffffffff}[r.IntN(8)]
}

func (d *dimRun) mkEnv(b []byte, r *rand.Rand) *env {
	e := &env{w: d.w, b: b}
	pe := &epb.VMLaunchEndorsement{}
	if proto.Unmarshal(b, pe) == nil {
		e.end = pe
	}
	d.params(e, r)
	return e
}

// feed hands one input to the fresh-call entry points of c07.go (native ones of its kind, or all).
func (d *dimRun) feed(i int, b []byte, gname, class, sname, kind string, r *rand.Rand, cross bool, seen func(entry string, err error)) {
	if len(b) > maxInput {
		b = b[:maxInput]
	}
	e := d.mkEnv(b, r)
	if d.tweak != nil {
		d.tweak(e)
	}
	elWritten, first := false, true
	for _, en := range d.ents {
		if !cross && !en.native(kind) {
			continue
		}
		if d.deaths[en.name] >= deathCap {
			d.c.Count("suppressed-after-repeated-deaths/"+en.name, 1)
			continue
		}
		if en.name == "extract.Endorsement/eventlog" && !elWritten {
			if err := os.WriteFile(d.w.elPath, b, 0o644); err != nil {
				panic(err)
			}
			elWritten = true
		}
		var in []byte
		if first && (!d.c.Thorough() || len(b) <= 4096) {
			in = b
			if in == nil {
				in = []byte{}
			}
		}
		first = false
		d.c.Begin(i, gname, en.name, in)
		var ran bool
		var err error
		bd := budget(len(b))
		d.lim.enter(bd.Alloc)
		m := d.c.Guard(i, en.name, gname, bd, func() { ran, err = en.call(e) })
		d.lim.leave()
		if m.Panicked {
			d.c.Count("panics/"+en.name, 1)
			continue
		}
		if !ran {
			d.c.Count("not-applicable/"+en.name, 1)
			continue
		}
		d.c.Count("calls/"+en.name, 1)
		outcome := "ok"
		if err != nil {
			outcome = "error"
			d.c.Count("errors/"+en.name, 1)
		}
		if seen != nil {
			seen(en.name, err)
		}
		d.c.Cell("%s|%s|%s|%s", sname, class, en.name, outcome)
	}
}

// poolInput materializes a random case of c07.go's list whose kind belongs to the group (re-signed
// like there when it is an endorsement-shaped mutant). Returns bytes and the generator path.
func (d *dimRun) poolInput(g string, r *rand.Rand) ([]byte, string) {
	idx := d.byKind[g]
	j := idx[r.IntN(len(idx))]
	s := d.specs[j]
	b, gname, class, _, kind := d.w.materialize(s, r)
	if len(b) > 64<<10 {
		b = b[:64<<10]
		gname += "[:64KiB]"
	}
	if kind == "endorsement" && class != "golden-variant" && class != "pem-bundle" && r.IntN(2) == 0 {
		e := &epb.VMLaunchEndorsement{}
		if proto.Unmarshal(b, e) == nil && len(e.SerializedUefiGolden) > 0 {
			e.Signature = d.w.sign(e.SerializedUefiGolden)
			b = mustMarshal(e)
			gname += "+resigned"
		}
	}
	return b, fmt.Sprintf("#%d:%s", j, gname)
}

// genuineOf returns a genuine seed of the group.
func (d *dimRun) genuineOf(g string, r *rand.Rand) ([]byte, string) {
	var c []*seed
	for _, s := range d.w.seeds {
		if group(s.kind) == g && !(g == "eventlog" && s.kind == "pcclient") {
			c = append(c, s)
		}
	}
	s := c[r.IntN(len(c))]
	return s.data, s.name + "/genuine"
}

func short(s string) string {
	if k := strings.IndexByte(s, '['); k > 0 {
		return s[:k]
	}
	return s
}

var _ = time.Second
