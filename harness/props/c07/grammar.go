package c07

import (
	"bytes"
	"fmt"
	"math/rand/v2"

	epb "github.com/google/gce-tcb-verifier/proto/endorsement"
	"github.com/google/gce-tcb-verifier/sev"
	"google.golang.org/protobuf/proto"
)

// Two grammar-directed generators. Both put hostile bytes at every *structural position* of a
// container whose parts are found by scanning rather than by a length field, which blind byte
// mutation of a genuine seed does not produce:
//
//   - PEM bundles (the text container inside an endorsement: sev_snp.ca_bundle, ca_bundle, and PEM
//     where DER is expected): k = 0..3 well-formed CERTIFICATE blocks, with bytes that are not a
//     complete block before the first block, between blocks and — most importantly — after the last
//     one (nothing, white space, text, every kind of partial block, blocks of other types, a whole
//     further block, truncations of a further block). The genuine seed has no CA bundle at all, and
//     the hand-written golden variants stop at "whole third block".
//   - signature-dispatched event payloads: event data = 16-byte signature + payload, for every
//     signature of the dictionary (TCG PC Client Platform Firmware Profile signatures, the 16-byte
//     constants found in the eventlog sources of the tree under test, and unknown ones), with
//     payload lengths 0, 1, 2, ... around every small boundary and several fills, with consistent
//     size fields, as bare event data, as a TCG_PCR_EVENT2, as the log header event, and inside a
//     whole event log in header and in event position. Field mutation of the genuine seeds only
//     ever reaches the SP800-155 Event3 decoder and never hands a decoder an empty payload.

// ---- PEM bundles ----

type pemPiece struct {
	name  string
	group string // coarse class, used in the cell name
	b     []byte
	dense bool // one of the every-length truncations of the thorough tier: only combined with pre=none, sep=none
}

type pemCase struct {
	target    int // index into pemTargets
	k         int // number of well-formed CERTIFICATE blocks
	pre, sep  int // index into pemGaps: before the first block / between blocks
	tail      int // index into world.pemTails
}

var pemTargets = []string{"sev_snp.ca_bundle", "ca_bundle", "cert"}

var pemGaps = []pemPiece{
	{"none", "none", nil, false},
	{"lf", "whitespace", []byte("\n"), false},
	{"crlf", "whitespace", []byte("\r\n"), false},
	{"text", "text", []byte("subject=CN = c07 signer\nissuer=CN = c07 root\n"), false},
}

func (w *world) pemBlocks() [3][]byte {
	return [3][]byte{pemBlock("CERTIFICATE", w.signer.Raw), pemBlock("CERTIFICATE", w.root.Raw), pemBlock("CERTIFICATE", w.signer.Raw)}
}

// mkPemTails lists what may follow the last block. `third` is a whole further block.
func mkPemTails(third []byte, thorough bool) []pemPiece {
	end := bytes.Index(third, []byte("-----END"))
	firstNL := bytes.IndexByte(third, '\n')
	t := []pemPiece{
		{"none", "none", nil, false},
		{"lf", "whitespace", []byte("\n"), false},
		{"crlf", "whitespace", []byte("\r\n"), false},
		{"cr", "whitespace", []byte("\r"), false},
		{"space", "whitespace", []byte(" "), false},
		{"tab", "whitespace", []byte("\t"), false},
		{"lf-x3", "whitespace", []byte("\n\n\n"), false},
		{"nul", "bytes", []byte{0}, false},
		{"ff", "bytes", []byte{0xff, 0xfe, 0xfd}, false},
		{"text", "text", []byte("bad cert"), false},
		{"text-lf", "text", []byte("trailing text\n"), false},
		{"dash", "partial-block", []byte("-"), false},
		{"dashes-5", "partial-block", []byte("-----"), false},
		{"begin-word", "partial-block", []byte("-----BEGIN"), false},
		{"begin-no-dashes", "partial-block", []byte("-----BEGIN CERTIFICATE"), false},
		{"begin-line", "partial-block", third[:firstNL], false},
		{"begin-line-lf", "partial-block", third[:firstNL+1], false},
		{"begin-line-x2", "partial-block", cat(third[:firstNL+1], third[:firstNL+1]), false},
		{"body-half", "partial-block", third[:end/2], false},
		{"no-end-line", "partial-block", third[:end], false},
		{"end-word", "partial-block", third[:end+8], false},
		{"end-no-dashes", "partial-block", third[:len(third)-6], false},
		{"end-one-dash-short", "partial-block", third[:len(third)-2], false},
		{"end-no-lf", "whole-block", third[:len(third)-1], false},
		{"end-other-type", "partial-block", cat(third[:end], []byte("-----END X509 CRL-----\n")), false},
		{"end-line-only", "partial-block", third[end:], false},
		{"end-then-begin", "partial-block", cat(third[end:], third[:firstNL+1]), false},
		{"body-bad-base64", "partial-block", []byte("-----BEGIN CERTIFICATE-----\n!!!!\n-----END CERTIFICATE-----\n"), false},
		{"body-empty", "whole-block", []byte("-----BEGIN CERTIFICATE-----\n-----END CERTIFICATE-----\n"), false},
		{"headers-no-blank-line", "partial-block", []byte("-----BEGIN CERTIFICATE-----\nK: v\nAAAA\n-----END CERTIFICATE-----\n"), false},
		{"headers", "whole-block", []byte("-----BEGIN CERTIFICATE-----\nK: v\n\nAAAA\n-----END CERTIFICATE-----\n"), false},
		{"type-private-key", "whole-block", pemBlock("PRIVATE KEY", []byte{1, 2, 3}), false},
		{"type-empty", "whole-block", []byte("-----BEGIN -----\nAAAA\n-----END -----\n"), false},
		{"whole-block", "whole-block", third, false},
		{"whole-block-lf", "whole-block", cat(third, []byte("\n")), false},
		{"whole-block-text", "whole-block", cat(third, []byte("bad cert")), false},
	}
	// truncations of a further block: every length (thorough) / 12 spread lengths (quick)
	step := len(third) / 12
	for p := 1; p < len(third); p++ {
		if (p-1)%step == 0 {
			t = append(t, pemPiece{fmt.Sprintf("block[:%d]", p), "truncated-block", third[:p], false})
		} else if thorough {
			t = append(t, pemPiece{fmt.Sprintf("block[:%d]", p), "truncated-block", third[:p], true})
		}
	}
	return t
}

func (w *world) mkPemCases(thorough bool) {
	w.pemTails = mkPemTails(w.pemBlocks()[2], thorough)
	for k := 0; k <= 3; k++ {
		for pre := range pemGaps {
			for sep := range pemGaps {
				if k < 2 && sep != 0 { // no gap between blocks to fill
					continue
				}
				for tail, t := range w.pemTails {
					if t.dense && (pre != 0 || sep != 0) {
						continue
					}
					w.pemCases = append(w.pemCases, pemCase{target: 0, k: k, pre: pre, sep: sep, tail: tail})
				}
			}
		}
	}
	// the other two fields that hold certificates: the tails only
	for target := 1; target <= 2; target++ {
		for k := 0; k <= 3; k++ {
			for tail, t := range w.pemTails {
				if !t.dense {
					w.pemCases = append(w.pemCases, pemCase{target: target, k: k, tail: tail})
				}
			}
		}
	}
}

func (w *world) pemBundle(pc pemCase) ([]byte, string) {
	blocks := w.pemBlocks()
	var b []byte
	b = append(b, pemGaps[pc.pre].b...)
	for i := 0; i < pc.k; i++ {
		if i > 0 {
			b = append(b, pemGaps[pc.sep].b...)
		}
		b = append(b, blocks[i]...)
	}
	b = append(b, w.pemTails[pc.tail].b...)
	return b, fmt.Sprintf("pem[%s: pre=%s, %d CERTIFICATE blocks sep=%s, tail=%s (%d bytes)]", pemTargets[pc.target], pemGaps[pc.pre].name, pc.k,
		pemGaps[pc.sep].name, w.pemTails[pc.tail].name, len(w.pemTails[pc.tail].b))
}

var carrierNames = []string{"endorsement", "snp-proto-extras", "snp-raw-certtable"}

// carry signs a golden measurement and puts the endorsement into one of three carriers.
func (w *world) carry(g *epb.VMGoldenMeasurement, carrier int) []byte {
	eb := mustMarshal(w.endorse(g))
	switch carrier {
	case 0:
		return eb
	case 1:
		at := w.snpAttestation(false)
		at.CertificateChain.Extras = map[string][]byte{sev.GCEFwCertGUID: eb}
		return mustMarshal(at)
	default:
		raw := w.byName["snp-raw"].data
		es := parseTable(raw[0x4A0:])
		want := efiGUIDBytes(sev.GCEFwCertGUID)
		for k := range es {
			if bytes.Equal(es[k].guid[:], want) {
				es[k].blob = eb
			}
		}
		return append(append([]byte(nil), raw[:0x4A0]...), certTable(es)...)
	}
}

// pemInput materializes PEM case idx in a carrier: bytes, generator path, seed name, seed kind.
func (w *world) pemInput(idx, carrier int) (b []byte, gname, sname, kind string) {
	pc := w.pemCases[idx]
	bundle, desc := w.pemBundle(pc)
	g := proto.Clone(w.golden).(*epb.VMGoldenMeasurement)
	switch pc.target {
	case 0:
		g.SevSnp.CaBundle = bundle
	case 1:
		g.CaBundle = bundle
	default:
		g.Cert = bundle
	}
	kind = "endorsement"
	if carrier > 0 {
		kind = "snp"
	}
	return w.carry(g, carrier), "golden/" + desc + " in " + carrierNames[carrier],
		fmt.Sprintf("pem-%s-k%d-tail-%s-in-%s", pemTargets[pc.target], pc.k, w.pemTails[pc.tail].group, carrierNames[carrier]), kind
}

// ---- signature-dispatched event payloads ----

type eventSig struct {
	name string
	sig  [16]byte
}

func sig16(s string) (o [16]byte) {
	if len(s) != 16 {
		panic("signature is not 16 bytes: " + s)
	}
	copy(o[:], s)
	return
}

// specSignatures: the 16-byte event-data signatures of the TCG PC Client Platform Firmware Profile
// (and of its predecessors), plus three that no decoder can know.
var specSignatures = []eventSig{
	{"SP800-155-Event3", sig16("SP800-155 Event3")},
	{"SP800-155-Event2", sig16("SP800-155 Event2")},
	{"SP800-155-Event", sig16("SP800-155 Event\x00")},
	{"Spec-ID-Event03", sig16("Spec ID Event03\x00")},
	{"Spec-ID-Event02", sig16("Spec ID Event02\x00")},
	{"Spec-ID-Event00", sig16("Spec ID Event00\x00")},
	{"StartupLocality", sig16("StartupLocality\x00")},
	{"SPDM-Device-Sec", sig16("SPDM Device Sec\x00")},
	{"SPDM-Device-Sec2", sig16("SPDM Device Sec2")},
	{"NvIndexInstance", sig16("NvIndexInstance\x00")},
	{"NvIndexDynamic", sig16("NvIndexDynamic\x00\x00")},
	{"unknown-text", sig16("Not A Signature!")},
	{"unknown-zeros", [16]byte{}},
	{"unknown-ff", [16]byte{0xff, 0xff, 0xff, 0xff, 0xff, 0xff, 0xff, 0xff, 0xff, 0xff, 0xff, 0xff, 0xff, 0xff, 0xff, 0xff}},
}

var sigLengths = []int{0, 1, 2, 3, 4, 5, 7, 8, 9, 15, 16, 17, 19, 20, 21, 23, 24, 25, 31, 32, 33, 63, 64, 65, 127, 128, 129, 255, 256, 257, 1024, 4096}

var sigFills = []string{"zeros", "ff", "count", "sp800155", "lengths", "random"}

var sigCarriers = []struct{ name, kind string }{
	{"eventdata", "eventdata"}, {"event2", "event2"}, {"pcclient-event", "pcclient"}, {"eventlog-event", "eventlog"}, {"eventlog-header", "eventlog"},
}

type sigCase struct {
	sig, length, fill int // length: index into sigLengths, or -1 = the length of the genuine SP800-155 payload
}

func (w *world) mkSigCases() {
	w.sigs = append([]eventSig(nil), specSignatures...)
	seen := map[[16]byte]bool{}
	for _, s := range w.sigs {
		seen[s.sig] = true
	}
	scanned, dir := scanSignatures()
	w.scanDir = dir
	for _, s := range scanned {
		w.scanned++
		if !seen[s.sig] {
			seen[s.sig] = true
			w.sigs = append(w.sigs, s)
			w.scannedNew++
		}
	}
	for si := range w.sigs {
		w.sigCases = append(w.sigCases, sigCase{si, 0, 0}) // the empty payload has no fill
		for li := 1; li < len(sigLengths); li++ {
			for fi := range sigFills {
				w.sigCases = append(w.sigCases, sigCase{si, li, fi})
			}
		}
		w.sigCases = append(w.sigCases, sigCase{si, -1, 3}) // signature + the whole genuine SP800-155 payload
	}
}

// sp800155Payload is a genuine SP800-155 Event3 payload without its signature.
func (w *world) sp800155Payload() []byte { return w.byName["sp800155"].data }

func (w *world) sigPayload(sc sigCase, r *rand.Rand) ([]byte, string) {
	genuine := w.sp800155Payload()
	if sc.length < 0 {
		return append([]byte(nil), genuine...), fmt.Sprintf("genuine SP800-155 payload (%d bytes)", len(genuine))
	}
	n := sigLengths[sc.length]
	p := make([]byte, n)
	switch sigFills[sc.fill] {
	case "zeros":
	case "ff":
		for i := range p {
			p[i] = 0xff
		}
	case "count":
		for i := range p {
			p[i] = byte(i + 1)
		}
	case "sp800155": // the genuine payload cut to n bytes, or padded with zeros
		copy(p, genuine)
	case "lengths": // every aligned u32 says "as many bytes as the payload has"; every byte of a u8 size says the same modulo 256
		for i := 0; i+4 <= n; i += 4 {
			copy(p[i:], le32(uint32(n)))
		}
	default:
		for i := range p {
			p[i] = byte(r.UintN(256))
		}
	}
	return p, fmt.Sprintf("%d bytes %s", n, sigFills[sc.fill])
}

// headerEvent writes a TCG_PCClientPCREvent (the first event of a crypto-agile log) with the given event data.
func (b *builder) headerEvent(data []byte) {
	b.u32("", 0)
	b.u32("", 3)
	b.raw(make([]byte, 20))
	b.u32("", uint32(len(data)))
	b.raw(data)
}

func lenBucket(n int) string {
	switch {
	case n == 0:
		return "0"
	case n <= 8:
		return "1-8"
	case n <= 64:
		return "9-64"
	}
	return "65+"
}

// sigInput materializes signature case idx in a carrier: bytes, generator path, seed name, seed kind.
func (w *world) sigInput(idx, carrier int, r *rand.Rand) (out []byte, gname, sname, kind string) {
	sc := w.sigCases[idx]
	s := w.sigs[sc.sig]
	payload, pdesc := w.sigPayload(sc, r)
	data := cat(s.sig[:], payload)
	sha := []uint16{4, 0xb, 0xc}
	b := &builder{}
	car := sigCarriers[carrier]
	switch car.name {
	case "eventdata":
		b.u32("", uint32(len(data)))
		b.raw(data)
	case "event2":
		b.event2("ev", 0, 3, sha, func(i *builder) { i.raw(data) })
	case "pcclient-event":
		b.headerEvent(data)
	case "eventlog-event":
		b.pcClientHeader()
		b.event2("ev0", 0, 8, []uint16{4, 0xb}, func(i *builder) { i.raw(ucs2("GCE Virtual Firmware v2")) })
		b.event2("sig", 0, 3, sha, func(i *builder) { i.raw(data) })
		b.event2("sep", 7, 4, sha, func(i *builder) { i.raw([]byte{0, 0, 0, 0}) })
	default: // eventlog-header
		b.headerEvent(data)
		b.event2("ev0", 0, 8, []uint16{4, 0xb}, func(i *builder) { i.raw(ucs2("GCE Virtual Firmware v2")) })
		b.event2("rim", 0, 3, sha, func(i *builder) { i.sp800155(gceManufacturer, 0, []byte("raw reference integrity manifest")) })
		b.event2("sep", 7, 4, sha, func(i *builder) { i.raw([]byte{0, 0, 0, 0}) })
	}
	return append([]byte{}, b.buf.Bytes()...), fmt.Sprintf("sigpayload/%s[%q + %s] in %s", s.name, string(s.sig[:]), pdesc, car.name),
		fmt.Sprintf("sig-%s-len%s-in-%s", s.name, lenBucket(len(payload)), car.name), car.kind
}
