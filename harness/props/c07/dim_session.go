package c07

import (
	"bytes"
	"context"
	"fmt"
	"math/rand/v2"
	"os"
	"path/filepath"

	"github.com/google/gce-tcb-verifier/eventlog"
	"github.com/google/gce-tcb-verifier/extract"
	exel "github.com/google/gce-tcb-verifier/extract/eventlog"
	"github.com/google/gce-tcb-verifier/extract/extractsev"
	"github.com/google/gce-tcb-verifier/gcetcbendorsement"
	epb "github.com/google/gce-tcb-verifier/proto/endorsement"
	"github.com/google/gce-tcb-verifier/verify"
	cpb "github.com/google/go-sev-guest/proto/check"
	spb "github.com/google/go-sev-guest/proto/sevsnp"
	tcpb "github.com/google/go-tdx-guest/proto/checkconfig"
	tpmpb "github.com/google/go-tpm-tools/proto/attest"
	"google.golang.org/protobuf/proto"
	fmpb "google.golang.org/protobuf/types/known/fieldmaskpb"

	"verifharness/doubles"
)

// session family: a verifier is a long-lived process. It keeps a validator closure, an options
// value, a getter, a variable reader, a receive buffer and sometimes a decode receiver, and serves
// one peer after another with them. Every call of c07.go is made with fresh values. Here one set of
// long-lived values serves a sequence of inputs of one kind; the sequence patterns put the same
// input twice in a row and again after a different one, genuine inputs after rejected ones and the
// reverse; the resize sub-family refills one receiver with arrays that grow and shrink.
// Each call is judged like any other (panic, CPU and allocation budget of its own input).

var sessionGroups = []string{"eventlog", "event2", "eventdata", "sp800155", "endorsement", "quote", "locator"}

// G = a genuine input, A / B = two different mutants, E = the empty input, U = a genuine input cut
// short (for endorsements: cut so that it is not even a protobuf message).
var sessionPatterns = []string{"AA", "GAG", "AGA", "ABA", "GAAG", "EGE", "AEA", "GG", "ABBA", "UU", "GUUG", "UGU", "AUUA"}

type step struct {
	b     []byte
	gname string
	tag   byte
	loc   uint32 // locator type, for varied locator inputs
}

func (d *dimRun) sessionSteps(g, pattern string, r *rand.Rand) []step {
	memo := map[byte]step{}
	var out []step
	for k := 0; k < len(pattern); k++ {
		t := pattern[k]
		s, ok := memo[t]
		if !ok {
			switch t {
			case 'G':
				s.b, s.gname = d.genuineOf(g, r)
			case 'E':
				s.b, s.gname = []byte{}, "empty"
			case 'U':
				gb, gn := d.genuineOf(g, r)
				cut := 1 + r.IntN(len(gb)-1)
				for try := 0; g == "endorsement" && try < 20 && proto.Unmarshal(gb[:cut], &epb.VMLaunchEndorsement{}) == nil; try++ {
					cut = 1 + r.IntN(len(gb)-1)
				}
				s.b, s.gname = gb[:cut], fmt.Sprintf("%s[:%d]", gn, cut)
			default:
				s.b, s.gname = d.poolInput(g, r)
			}
			s.tag = t
			memo[t] = s
		}
		out = append(out, s)
	}
	return out
}

// sessionState is the set of long-lived values of one session.
type sessionState struct {
	d     *dimRun
	i     int
	g     string
	label string
	// decode receivers
	cel  eventlog.CryptoAgileLog
	hdr  eventlog.TCGPCClientPCREvent
	ev2  eventlog.TCGPCREvent2
	evd  eventlog.TCGEventData
	sp   eventlog.SP800155Event3
	prev map[string]string // entry -> outcome of the previous step
	// collaborators and options
	getter   *doubles.Getter
	reader   *exel.EfiVarFSReader
	locOpts  *exel.LocateOptions
	exOpts   *extract.Options
	elPath   string
	vArg     func(*spb.Attestation, []byte) error
	vGet     func(*spb.Attestation, []byte) error
	vGetter  *doubles.Getter
	vOpts    *verify.Options
	sevPol   *gcetcbendorsement.SevPolicyOptions
	tdxPol   *gcetcbendorsement.TdxPolicyOptions
	sevVal   *gcetcbendorsement.SevValidateOptions
	sevValQ  *gcetcbendorsement.SevValidateOptions
	tdxVal   *gcetcbendorsement.TdxValidateOptions
	tdxValQ  *gcetcbendorsement.TdxValidateOptions
	inspect  *gcetcbendorsement.Inspect
	ictx     context.Context
	buf      []byte // the receive buffer, refilled in place
	prevAt   *spb.Attestation
	lastBlob []byte
}

func (d *dimRun) newSession(i int, g, label string) *sessionState {
	w := d.w
	s := &sessionState{d: d, i: i, g: g, label: label, prev: map[string]string{}}
	s.getter = &doubles.Getter{Default: w.endBytes}
	s.reader = exel.MakeEfiVarFSReader(w.efiRoot)
	s.locOpts = &exel.LocateOptions{Getter: s.getter, UEFIVariableReader: s.reader}
	s.elPath = filepath.Join(w.dir, "session_event_log")
	s.exOpts = &extract.Options{Getter: s.getter, UEFIVariableReader: s.reader, FirmwareManufacturer: gceManufacturer}
	s.vArg = verify.SNPValidateFunc(&verify.Options{RootsOfTrust: w.pool, Now: w.now, SNP: &verify.SNPOptions{ExpectedLaunchVMSAs: 4}})
	s.vGetter = &doubles.Getter{}
	s.vGet = verify.SNPValidateFunc(&verify.Options{RootsOfTrust: w.pool, Now: w.now, Getter: s.vGetter})
	s.vOpts = &verify.Options{RootsOfTrust: w.pool, Now: w.now}
	s.sevPol = &gcetcbendorsement.SevPolicyOptions{Base: &cpb.Policy{MinimumVersion: "0.0"}}
	s.tdxPol = &gcetcbendorsement.TdxPolicyOptions{Base: &tcpb.Policy{}}
	s.sevVal = &gcetcbendorsement.SevValidateOptions{RootsOfTrust: w.pool, Now: w.now, Getter: s.getter}
	s.sevValQ = &gcetcbendorsement.SevValidateOptions{RootsOfTrust: w.pool, Now: w.now, Getter: s.getter, ExpectedLaunchVmsas: 4}
	s.tdxVal = &gcetcbendorsement.TdxValidateOptions{RootsOfTrust: w.pool, Now: w.now}
	s.tdxValQ = &gcetcbendorsement.TdxValidateOptions{Endorsement: w.end, RootsOfTrust: w.pool, Now: w.now, Overwrite: true}
	s.inspect = &gcetcbendorsement.Inspect{Writer: &sink{}}
	s.ictx = gcetcbendorsement.WithInspect(context.Background(), s.inspect)
	s.buf = make([]byte, 0, 1024)
	return s
}

// call is one monitored call inside a session; the cell records what the same long-lived value saw before.
func (s *sessionState) call(entry string, st step, k int, repeat string, f func() error) string {
	name := "session:" + entry
	gname := fmt.Sprintf("session/%s step %d of %s: %s", s.g, k, s.label, st.gname)
	out := s.d.guarded(s.i, name, gname, st.b, len(st.b), f)
	prev := s.prev[entry]
	if prev == "" {
		prev = "first"
	}
	s.d.c.Cell("session|%s|%s|%s->%s|%s", s.g, entry, prev, out, repeat)
	s.prev[entry] = out
	return out
}

func (s *sessionState) refill(b []byte) []byte {
	if len(s.buf) > 0 {
		s.d.floor("session/quote-buffer-refilled-in-place")
	}
	if cap(s.buf) < len(b) {
		s.buf = make([]byte, 0, 2*len(b))
	}
	s.buf = s.buf[:len(b)]
	copy(s.buf, b)
	return s.buf
}

// step runs one input through every long-lived value of the group.
func (s *sessionState) step(st step, k int, steps []step, r *rand.Rand) {
	d, w := s.d, s.d.w
	repeat := "new"
	if k > 0 && steps[k-1].tag == st.tag {
		repeat = "same-as-previous"
	} else {
		for _, p := range steps[:k] {
			if p.tag == st.tag {
				repeat = "seen-before"
			}
		}
	}
	b := st.b
	refilled := func(entry, out string) {
		switch s.prev[entry+"#before"] {
		case "ok":
			d.floor("session/receiver-refilled-after-a-success")
		case "error":
			d.floor("session/receiver-refilled-after-a-failure")
		}
		s.prev[entry+"#before"] = out
	}
	switch s.g {
	case "eventlog":
		out := s.call("CryptoAgileLog.Unmarshal/reused-receiver", st, k, repeat, func() error { return s.cel.Unmarshal(bytes.NewReader(b)) })
		refilled("cel", out)
		s.call("exel.RIMEventsFromEventLog/reused-log", st, k, repeat, func() error {
			for _, evts := range exel.RIMEventsFromEventLog(&s.cel) {
				for _, evt := range evts {
					if _, err := exel.Locate(evt.RIMLocatorType, evt.RIMLocator.Data, s.locOpts); err != nil {
						return err
					}
				}
			}
			return nil
		})
		s.call("TCGPCClientPCREvent.Unmarshal/reused-receiver", st, k, repeat, func() error { return s.hdr.Unmarshal(bytes.NewReader(b)) })
		if err := os.WriteFile(s.elPath, b, 0o644); err != nil {
			panic(err)
		}
		s.exOpts.EventLogLocation, s.exOpts.Quote = s.elPath, nil
		s.getter.Fail = r.IntN(2) == 0
		s.exOpts.ForceFetch = false
		s.call("extract.Endorsement/eventlog/reused-options", st, k, repeat, func() error { _, err := extract.Endorsement(s.exOpts); return err })
		s.getter.Fail = false
	case "event2":
		out := s.call("TCGPCREvent2.Unmarshal/reused-receiver", st, k, repeat, func() error { return s.ev2.Unmarshal(bytes.NewReader(b)) })
		refilled("ev2", out)
	case "eventdata":
		out := s.call("TCGEventData.Unmarshal/reused-receiver", st, k, repeat, func() error { return s.evd.Unmarshal(bytes.NewReader(b)) })
		refilled("evd", out)
	case "sp800155":
		out := s.call("SP800155Event3.UnmarshalFromBytes/reused-receiver", st, k, repeat, func() error { return s.sp.UnmarshalFromBytes(b) })
		refilled("sp", out)
	case "locator":
		lt := []uint32{0, 1, 2, 3, 3, 3, 4}[r.IntN(7)]
		s.getter.Fail = r.IntN(3) == 0
		s.call("exel.Locate/reused-options", st, k, repeat, func() error { _, err := exel.Locate(lt, b, s.locOpts); return err })
		s.getter.Fail = false
	case "endorsement":
		at := w.snpAttestation(false)
		out := s.call("verify.SNPValidateFunc/argument/long-lived-closure", st, k, repeat, func() error { return s.vArg(at, b) })
		if out == "error" && repeat == "same-as-previous" && s.prev["closure#before"] == "error" {
			d.floor("session/closure-same-rejected-blob-twice-in-a-row")
			if st.tag == 'U' {
				d.floor("session/closure-same-undecodable-blob-twice-in-a-row")
			}
		}
		if out == "ok" && st.tag == 'G' && s.prev["closure#rejected"] == "yes" {
			d.floor("session/closure-genuine-accepted-after-a-rejection")
		}
		if out == "error" {
			s.prev["closure#rejected"] = "yes"
		}
		s.prev["closure#before"] = out
		// the getter's answer lives in one buffer that is refilled in place
		s.vGetter.Default = s.refill(b)
		s.call("verify.SNPValidateFunc/getter/long-lived-closure", st, k, repeat, func() error { return s.vGet(at, nil) })
		// one options value, fields changed between calls
		if k%2 == 1 {
			s.vOpts.SNP, s.vOpts.ExpectedUefiSha384 = &verify.SNPOptions{Measurement: w.m4, ExpectedLaunchVMSAs: 4}, w.golden.Digest
		} else {
			s.vOpts.SNP, s.vOpts.ExpectedUefiSha384 = nil, nil
		}
		if k > 0 {
			d.floor("session/options-value-reused-with-changed-fields")
		}
		s.call("verify.Endorsement/reused-options", st, k, repeat, func() error { return verify.Endorsement(b, s.vOpts) })
		end := &epb.VMLaunchEndorsement{}
		if proto.Unmarshal(b, end) != nil {
			d.c.Count("not-applicable/session:proto-typed-entries", 1)
			return
		}
		ctx := context.Background()
		s.sevPol.LaunchVmsas = []uint32{0, 1, 4, 7}[r.IntN(4)]
		s.sevPol.AllowUnspecifiedVmsas, s.sevPol.Overwrite = r.IntN(2) == 0, r.IntN(2) == 0
		s.call("SevPolicy/reused-options", st, k, repeat, func() error { _, err := gcetcbendorsement.SevPolicy(ctx, end, s.sevPol); return err })
		s.tdxPol.RAMGiB, s.tdxPol.Overwrite = []int{0, 16, 32, 17}[r.IntN(4)], r.IntN(2) == 0
		s.call("TdxPolicy/reused-options", st, k, repeat, func() error { _, err := gcetcbendorsement.TdxPolicy(ctx, end, s.tdxPol); return err })
		s.sevVal.Endorsement, s.sevVal.ExpectedLaunchVmsas = end, []uint32{0, 4}[r.IntN(2)]
		s.call("SevValidate/endorsement-option/reused-options", st, k, repeat, func() error { return gcetcbendorsement.SevValidate(ctx, w.snpAttestation(true), s.sevVal) })
		s.tdxVal.Endorsement, s.tdxVal.ExpectedRAMGiB = end, []int{0, 16}[r.IntN(2)]
		s.call("TdxValidate/endorsement-option/reused-options", st, k, repeat, func() error { return gcetcbendorsement.TdxValidate(ctx, w.tdxQuote, s.tdxVal) })
		s.inspect.Form = gcetcbendorsement.BytesForm(r.IntN(5))
		mask := &fmpb.FieldMask{Paths: []string{maskPaths[r.IntN(len(maskPaths))], maskPaths[r.IntN(len(maskPaths))]}}
		s.call("InspectMask/reused-inspect", st, k, repeat, func() error { return gcetcbendorsement.InspectMask(s.ictx, end, mask) })
		s.call("InspectPayload/reused-inspect", st, k, repeat, func() error { return gcetcbendorsement.InspectPayload(s.ictx, end) })
		s.call("InspectSignature/reused-inspect", st, k, repeat, func() error { return gcetcbendorsement.InspectSignature(s.ictx, end) })
	case "quote":
		ctx := context.Background()
		// the attestation decoded in the previous step is used after its source buffer was refilled
		prevAt := s.prevAt
		q := s.refill(b)
		if prevAt != nil {
			s.call("SevValidate/attestation-of-previous-step/reused-options", st, k, repeat, func() error { return gcetcbendorsement.SevValidate(ctx, prevAt, s.sevValQ) })
		}
		s.prevAt = nil
		s.call("extract.Attestation/refilled-buffer", st, k, repeat, func() error {
			a, err := extract.Attestation(q)
			if err == nil {
				if sa, ok := a.TeeAttestation.(*tpmpb.Attestation_SevSnpAttestation); ok {
					s.prevAt = sa.SevSnpAttestation
				}
			}
			return err
		})
		s.call("extractsev.FromCertTable/refilled-buffer", st, k, repeat, func() error {
			blob, err := extractsev.FromCertTable(q)
			if err == nil {
				s.lastBlob = blob
			}
			return err
		})
		s.exOpts.EventLogLocation, s.exOpts.Quote, s.exOpts.ForceFetch = "", q, r.IntN(4) == 0
		s.getter.Fail = r.IntN(2) == 0
		s.call("extract.Endorsement/quote/reused-options", st, k, repeat, func() error { _, err := extract.Endorsement(s.exOpts); return err })
		s.getter.Fail = false
		s.tdxValQ.ExpectedRAMGiB = []int{0, 16}[r.IntN(2)]
		s.call("TdxValidate/quote/reused-options", st, k, repeat, func() error { return gcetcbendorsement.TdxValidate(ctx, q, s.tdxValQ) })
	}
}

func (d *dimRun) runSession(i int, ds dimSpec, r *rand.Rand) {
	g, pattern := sessionGroups[ds.a], sessionPatterns[ds.b]
	steps := d.sessionSteps(g, pattern, r)
	s := d.newSession(i, g, "pattern "+pattern)
	for k, st := range steps {
		s.step(st, k, steps, r)
	}
}

// ---- resize: one receiver refilled with arrays that grow and shrink ----

// resizePairs are (first, second) element counts / byte lengths.
var resizePairs = [][2]int{{3, 4}, {3, 5}, {3, 8}, {1, 2}, {2, 3}, {5, 9}, {0, 1}, {1, 0}, {4, 3}, {8, 3}, {9, 5}, {16, 17}, {17, 16}, {3, 3}, {64, 65}, {2, 64}}

func (d *dimRun) runResize(i int, ds dimSpec, r *rand.Rand) {
	g := sessionGroups[ds.a]
	p := resizePairs[ds.b]
	mk := func(n int) (step, bool) {
		b := &builder{}
		rim := sp800155With(genuineStrs, 0, countFill(n), nil, true)
		switch g {
		case "event2": // n digests
			eventWithDigests(b, n, 3, rim)
		case "eventlog": // a log of n events, the last of which is the RIM event, each with n digests (at most 3 kinds)
			b.pcClientHeader()
			for k := 0; k < n; k++ {
				if k == n-1 {
					eventWithDigests(b, n, 3, rim)
				} else {
					eventWithDigests(b, n, 4, []byte{byte(k), 0, 0, 0})
				}
			}
		case "eventdata": // event data of 16+n bytes: an unknown signature for even n, an SP800-155 payload with an n-byte locator for odd n
			data := cat([]byte("Not A Signature!"), countFill(n))
			if n%2 == 1 {
				data = rim
			}
			b.u32("", uint32(len(data)))
			b.raw(data)
		case "sp800155": // strings and locators of n bytes
			strs := genuineStrs
			strs[1], strs[4] = string(bytes.Repeat([]byte("m"), n)), string(bytes.Repeat([]byte("v"), n))
			b.raw(sp800155With(strs, 0, countFill(n), countFill(n), true)[16:])
		default:
			return step{}, false
		}
		return step{b: append([]byte{}, b.buf.Bytes()...), gname: fmt.Sprintf("resize/%s with %d elements", g, n), tag: byte('0' + n%10)}, true
	}
	a, ok := mk(p[0])
	if !ok {
		d.c.Count("not-applicable/session-resize", 1)
		return
	}
	b, _ := mk(p[1])
	third := a
	steps := []step{a, b, third}
	s := d.newSession(i, g, fmt.Sprintf("resize %d->%d->%d", p[0], p[1], p[0]))
	for k, st := range steps {
		s.step(st, k, steps, r)
	}
	if p[1] > p[0] {
		d.floor("session/receiver-refilled-with-a-longer-array")
	}
	if p[1] < p[0] {
		d.floor("session/receiver-refilled-with-a-shorter-array")
	}
}
