package c07

import (
	"encoding/base64"
	"encoding/hex"
	"fmt"
	"math/rand/v2"
	"os"
	"path/filepath"
	"strings"

	exel "github.com/google/gce-tcb-verifier/extract/eventlog"

	"verifharness/doubles"
)

// textenc family: a grammar of textual quotes = prefix + encoded body + suffix, each part possibly
// empty. The random re-encodings of c07.go always wrap a non-empty body in one of six clean forms;
// what text tools really write (0x prefixes, byte-order marks, separators, line breaks of both
// kinds, padding) and the degenerate members of the grammar (a prefix or suffix around nothing) are
// produced here.

type textCase struct{ prefix, body, enc, suffix int }

var textPrefixes = []struct {
	name string
	b    []byte
}{
	{"none", nil}, {"0x", []byte("0x")}, {"0X", []byte("0X")}, {"bom", []byte{0xEF, 0xBB, 0xBF}}, {"lf", []byte("\n")}, {"space", []byte(" ")}, {"crlf", []byte("\r\n")},
	// "0x" alone is a well-formed protobuf message (field 6 = 120) and never reaches the text decoders; these are not
	{"hash", []byte("#")}, {"backslash-x", []byte("\\x")}, {"hex-colon", []byte("hex:")},
}

var textSuffixes = []struct {
	name string
	b    []byte
}{
	{"none", nil}, {"lf", []byte("\n")}, {"crlf", []byte("\r\n")}, {"lf-x3", []byte("\n\n\n")}, {"cr", []byte("\r")}, {"space", []byte(" ")}, {"nul", []byte{0}}, {"pad", []byte("=")}, {"h", []byte("h")},
}

var textBodies = []string{"empty", "1-byte", "2-bytes", "snp-report-raw", "cert-table", "tdx-raw", "snp-raw"}

var textEncs = []string{"hex", "HEX", "hex-spaced", "hex-colons", "hex-lines-32", "base64", "base64-raw", "base64-url", "base64-crlf-76"}

func (w *world) mkTextCases(thorough bool) []textCase {
	var out []textCase
	for b := range textBodies {
		for e := range textEncs {
			if b == 0 && e > 0 { // every encoding of nothing is nothing
				continue
			}
			for p := range textPrefixes {
				for s := range textSuffixes {
					// the large bodies: every prefix and every suffix once (quick), everything (thorough)
					if b >= 3 && !thorough && p != 0 && s != 0 {
						continue
					}
					out = append(out, textCase{p, b, e, s})
				}
			}
		}
	}
	return out
}

func (w *world) textInput(tc textCase) (out []byte, gname, sname, kind string) {
	var body []byte
	kind = "snp"
	switch textBodies[tc.body] {
	case "empty":
	case "1-byte":
		body = []byte{0x0a}
	case "2-bytes":
		body = []byte{0x30, 0x78}
	case "tdx-raw":
		body, kind = w.tdxQuote, "tdx"
	case "cert-table":
		body, kind = w.byName["cert-table"].data, "certtable"
	default:
		body = w.byName[textBodies[tc.body]].data
	}
	var text string
	switch textEncs[tc.enc] {
	case "hex":
		text = hex.EncodeToString(body)
	case "HEX":
		text = strings.ToUpper(hex.EncodeToString(body))
	case "hex-spaced", "hex-colons":
		sep := " "
		if textEncs[tc.enc] == "hex-colons" {
			sep = ":"
		}
		h := hex.EncodeToString(body)
		var sb strings.Builder
		for i := 0; i < len(h); i += 2 {
			if i > 0 {
				sb.WriteString(sep)
			}
			sb.WriteString(h[i : i+2])
		}
		text = sb.String()
	case "hex-lines-32":
		h := hex.EncodeToString(body)
		var sb strings.Builder
		for i := 0; i < len(h); i += 64 {
			sb.WriteString(h[i:min(i+64, len(h))])
			sb.WriteString("\n")
		}
		text = sb.String()
	case "base64":
		text = base64.StdEncoding.EncodeToString(body)
	case "base64-raw":
		text = base64.RawStdEncoding.EncodeToString(body)
	case "base64-url":
		text = base64.URLEncoding.EncodeToString(body)
	default:
		s := base64.StdEncoding.EncodeToString(body)
		var sb strings.Builder
		for i := 0; i < len(s); i += 76 {
			sb.WriteString(s[i:min(i+76, len(s))])
			sb.WriteString("\r\n")
		}
		text = sb.String()
	}
	out = cat(textPrefixes[tc.prefix].b, []byte(text), textSuffixes[tc.suffix].b)
	if out == nil {
		out = []byte{}
	}
	gname = fmt.Sprintf("textenc[prefix=%s %s(%s) suffix=%s]", textPrefixes[tc.prefix].name, textEncs[tc.enc], textBodies[tc.body], textSuffixes[tc.suffix].name)
	sname = fmt.Sprintf("text-%s-%s", textBodies[tc.body], textEncs[tc.enc])
	return out, gname, sname, kind
}

// ---- efifile family ----

// A UEFI variable file starts with a 4-byte attribute header; what follows is the endorsement the
// firmware left there. The scratch efivarfs of c07.go holds one genuine variable and one 2-byte
// file; here the variable a locator names has 0..5 bytes, or a header followed by degenerate data.

type efiCase struct {
	name    string
	content []byte
	carrier int // 0 = bare locator to exel.Locate, 1 = inside an event log to extract.Endorsement
}

func (w *world) mkEfiCases() []efiCase {
	attr := []byte{7, 0, 0, 0}
	files := []struct {
		name string
		b    []byte
	}{
		{"Len0", nil}, {"Len1", []byte{7}}, {"Len3", attr[:3]}, {"Len4", attr}, {"Len5Nul", cat(attr, []byte{0})}, {"Len5", cat(attr, []byte{0x0a})},
		{"Zeros", cat(attr, make([]byte, 64))}, {"Ones", cat(attr, []byte{0xff, 0xff, 0xff, 0xff})}, {"HeaderFF", []byte{0xff, 0xff, 0xff, 0xff}},
		{"NulTail", cat(attr, w.endBytes, []byte{0, 0, 0})}, {"Garbage", cat(attr, []byte("not an endorsement"))},
	}
	var out []efiCase
	for _, f := range files {
		for carrier := 0; carrier < 2; carrier++ {
			out = append(out, efiCase{f.name, f.b, carrier})
		}
	}
	return out
}

func (d *dimRun) runEfi(i int, ec efiCase, r *rand.Rand) {
	w := d.w
	path := filepath.Join(w.efiRoot, ec.name+"-"+varGUID)
	if err := os.WriteFile(path, ec.content, 0o644); err != nil {
		panic(err)
	}
	name16 := ucs2(ec.name)
	loc := append(efiGUIDBytes(varGUID), name16...)
	gname := fmt.Sprintf("efifile/variable file of %d bytes (%s)", len(ec.content), ec.name)
	var outcome string
	if ec.carrier == 0 {
		outcome = d.guarded(i, "exel.Locate", gname+" behind a bare variable locator", loc, len(loc)+len(ec.content), func() error {
			_, err := exel.Locate(3, loc, &exel.LocateOptions{Getter: &doubles.Getter{Fail: true}, UEFIVariableReader: exel.MakeEfiVarFSReader(w.efiRoot)})
			return err
		})
	} else {
		b := &builder{}
		b.pcClientHeader()
		b.event2("rim", 0, 3, []uint16{4, 0xb, 0xc}, func(x *builder) { x.sp800155(gceManufacturer, 3, loc) })
		log := append([]byte(nil), b.buf.Bytes()...)
		if err := os.WriteFile(w.elPath, log, 0o644); err != nil {
			panic(err)
		}
		e := d.mkEnv(log, r)
		e.manufacturer, e.getterFails = gceManufacturer, true
		for _, en := range d.ents {
			if en.name == "extract.Endorsement/eventlog" {
				outcome = d.guarded(i, en.name, gname+" behind an event-log locator", log, len(log)+len(ec.content), func() error { _, err := en.call(e); return err })
			}
		}
	}
	if len(ec.content) == 4 && outcome == "ok" {
		d.floor("efifile/attribute-header-only-variable-read")
	}
	if len(ec.content) < 4 && outcome == "error" {
		d.floor("efifile/variable-shorter-than-its-header-refused")
	}
	d.c.Cell("efifile-%s|variable-file|%s|%s", ec.name, []string{"exel.Locate", "extract.Endorsement/eventlog"}[ec.carrier], outcome)
}
