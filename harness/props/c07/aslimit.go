package c07

import (
	"bytes"
	"os"
	"strconv"
	"syscall"
)

// asLimiter turns the allocation budget of a guarded call into an address-space limit of the
// process for the duration of the call: soft RLIMIT_AS = current size + budget + slack (never above
// the hard limit the supervisor set with `ulimit -v`). A decoder that asks for gigabytes on behalf
// of a few input bytes then fails at once with `fatal error: out of memory` — which the supervisor
// attributes to the case logged just before, with the allocating function as the site — instead of
// being handed memory that it (or the next such call, when the runtime clears the recycled span)
// really touches. Without it a tree that has such a defect makes every shard hold 4 GiB resident.
// It is inactive when there is no hard limit (race builds, direct invocation).
type asLimiter struct {
	hard   uint64
	active bool
	page   uint64
}

const asSlack = 512 * mib // arena reservations (64 MiB each), GC and stack growth during a call

func newASLimiter() *asLimiter {
	var r syscall.Rlimit
	l := &asLimiter{page: uint64(os.Getpagesize())}
	if err := syscall.Getrlimit(syscall.RLIMIT_AS, &r); err == nil && r.Max != ^uint64(0) && r.Max < 1<<46 {
		l.hard, l.active = r.Max, true
	}
	return l
}

func vmSize(page uint64) uint64 {
	b, err := os.ReadFile("/proc/self/statm")
	if err != nil {
		return 0
	}
	if i := bytes.IndexByte(b, ' '); i > 0 {
		if n, err := strconv.ParseUint(string(b[:i]), 10, 64); err == nil {
			return n * page
		}
	}
	return 0
}

// enter lowers the soft limit for a call with the given allocation budget.
func (l *asLimiter) enter(budget uint64) {
	if !l.active {
		return
	}
	cur := vmSize(l.page)
	if cur == 0 {
		return
	}
	soft := cur + budget + asSlack
	if soft > l.hard {
		soft = l.hard
	}
	syscall.Setrlimit(syscall.RLIMIT_AS, &syscall.Rlimit{Cur: soft, Max: l.hard})
}

// leave restores the supervisor's limit.
func (l *asLimiter) leave() {
	if l.active {
		syscall.Setrlimit(syscall.RLIMIT_AS, &syscall.Rlimit{Cur: l.hard, Max: l.hard})
	}
}
