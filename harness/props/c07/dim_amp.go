package c07

import (
	"archive/zip"
	"bytes"
	"compress/bzip2"
	"compress/flate"
	"compress/gzip"
	"compress/lzw"
	"compress/zlib"
	"encoding/base64"
	"encoding/hex"
	"fmt"
	"io"
	"math/rand/v2"
	"os"
	"path/filepath"

	"github.com/google/gce-tcb-verifier/extract"
	exel "github.com/google/gce-tcb-verifier/extract/eventlog"
	epb "github.com/google/gce-tcb-verifier/proto/endorsement"
	"github.com/google/gce-tcb-verifier/sev"
	"github.com/google/gce-tcb-verifier/verify"
	tpmpb "github.com/google/go-tpm-tools/proto/attest"
	"google.golang.org/protobuf/proto"

	"verifharness/core"
	"verifharness/doubles"
)

// amplify family: the untrusted bytes are a WELL-FORMED ENCODED CONTAINER whose decoded form is
// orders of magnitude larger than the bytes themselves (every stream format the Go standard library
// can decode: gzip, zlib, raw DEFLATE, LZW in both bit orders, bzip2, a zip archive with one deflated
// member), placed in every position where a verifier receives an endorsement or a quote from its
// peer: the bytes themselves, the GCE entry of the certificate table (proto extras, TPM wrapper, raw
// report + table, table alone, its base64 text), the object the Getter serves, the UEFI variable
// file and the raw RIM locator of an event log. All other families derive their inputs from genuine
// objects by truncation, field and byte mutation and random bytes: none of them ever starts with
// the magic of such a container with a valid stream behind it, so a decoder that looks for one
// (and expands it without bound) was never driven. What a stream inflates to varies too: zeros,
// 0xff, the genuine endorsement (a compressed genuine object), the genuine endorsement repeated (a
// valid message: protobuf merges), the genuine endorsement followed by one huge unknown field,
// genuine quote and event log; the gzip container also with a forged ISIZE trailer, a flipped CRC,
// a missing trailer, 16 members, all optional header fields, and nested in a second gzip stream.
//
// Judging. Every call is a guarded call with the budget of every other family (panic, CPU,
// 64 MiB + 4096 bytes per input byte). In addition each call has a CONTROL TWIN: the same entry
// point, options and carrier, but the container holds incompressible (PRNG) data stored without
// compression, so that control and bomb have about the same length (the control is never shorter).
// "Memory in proportion to the size of the input" means that two inputs of the same size in the same
// position cost about the same; rule `amplification` fires when the call on the bomb allocated more
// than 64 MiB + 64 x max(size of its input, what the control twin's call allocated). The unchanged
// tree needs 0.02 .. 33 bytes per input byte for every input of every family (alloc_b/* maxima).
const (
	ampBase = 64 * mib
	ampPerB = 64
)

type ampCase struct {
	format  string
	payload string
	n       int // what the payload generator is asked for (bytes after inflation; 0 for the genuine objects)
	variant string
}

var ampStreamFormats = []string{"gzip", "zlib", "deflate", "lzw-lsb", "lzw-msb", "zip"}

// bzip2 streams (the standard library has no bzip2 writer): bzip2 -9 of 16 MiB and of 128 MiB of zeros.
var ampBzip2 = map[int]string{
	16 << 20:  "425a683931415926535952853e25008080c000c000000820003080291a0100d20100e2ee48a70a120a50a7c4a0",
	128 << 20: "425a68393141592653590e09e2df015f8e4000c0000008200030804d4642a025a90a80973141592653590e09e2df015f8e4000c0000008200030804d4642a025a90a809731415926535981f39ae30144e74000c4000008200030cc0529a65454426c5515109e2ee48a70a1214b8fa842",
}

func mkAmpCases(thorough bool) []ampCase {
	var out []ampCase
	const big = 128 << 20
	sizes := []int{64 << 10, 4 << 20, big}
	if thorough {
		sizes = append(sizes, 1<<20, 32<<20, 192<<20)
	}
	for _, f := range ampStreamFormats {
		for _, n := range sizes {
			out = append(out, ampCase{f, "zeros", n, "plain"})
		}
	}
	out = append(out, ampCase{"bzip2", "zeros", 16 << 20, "plain"}, ampCase{"bzip2", "zeros", big, "plain"})
	for _, p := range []string{"ff", "genuine-repeated", "genuine+unknown-field-of-zeros"} {
		for _, n := range []int{4 << 20, big} {
			out = append(out, ampCase{"gzip", p, n, "plain"})
		}
	}
	out = append(out, ampCase{"zlib", "genuine-repeated", big, "plain"})
	for _, f := range ampStreamFormats {
		out = append(out, ampCase{f, "genuine", 0, "plain"})
	}
	out = append(out, ampCase{"gzip", "genuine-snp-raw", 0, "plain"}, ampCase{"gzip", "genuine-eventlog", 0, "plain"})
	for _, v := range []string{"isize-forged", "crc-flipped", "trailer-cut", "16-members", "header-fields", "nested-twice"} {
		out = append(out, ampCase{"gzip", "zeros", big, v})
	}
	out = append(out, ampCase{"gzip", "genuine", 0, "isize-forged"}, ampCase{"gzip", "zeros", 64 << 10, "isize-forged"},
		ampCase{"zlib", "zeros", big, "adler-flipped"})
	if thorough {
		for _, f := range []string{"zlib", "deflate", "lzw-lsb", "zip"} {
			out = append(out, ampCase{f, "genuine-repeated", 32 << 20, "plain"}, ampCase{f, "genuine+unknown-field-of-zeros", 32 << 20, "plain"})
		}
	}
	return out
}

// ampPayload writes what the stream inflates to and returns its length.
func (w *world) ampPayload(name string, n int, dst io.Writer) int64 {
	var total int64
	put := func(p []byte) {
		if _, err := dst.Write(p); err != nil {
			panic(err)
		}
		total += int64(len(p))
	}
	fill := func(v byte, n int) {
		chunk := bytes.Repeat([]byte{v}, mib)
		for n > 0 {
			k := min(n, len(chunk))
			put(chunk[:k])
			n -= k
		}
	}
	switch name {
	case "zeros":
		fill(0, n)
	case "ff":
		fill(0xff, n)
	case "genuine":
		put(w.endBytes)
	case "genuine-snp-raw":
		put(w.byName["snp-raw"].data)
	case "genuine-eventlog":
		put(w.byName["eventlog-variable"].data)
	case "genuine-repeated": // a valid VMLaunchEndorsement: the last of repeated scalar fields wins
		for int(total) < n {
			put(w.endBytes)
		}
	case "genuine+unknown-field-of-zeros": // field 15, length-delimited, n bytes: unknown to VMLaunchEndorsement
		put(w.endBytes)
		hdr := []byte{15<<3 | 2}
		for v := uint64(n); ; v >>= 7 {
			if v < 0x80 {
				hdr = append(hdr, byte(v))
				break
			}
			hdr = append(hdr, byte(v)|0x80)
		}
		put(hdr)
		fill(0, n)
	default:
		panic("unknown amplify payload " + name)
	}
	return total
}

type closerFunc func() error

// ampPack compresses (or, for the control, stores) what gen writes.
func ampPack(format string, stored bool, hdr *gzip.Header, gen func(io.Writer)) []byte {
	var buf bytes.Buffer
	level := flate.BestCompression
	if stored {
		level = flate.NoCompression
	}
	var wr io.Writer
	var closeFn closerFunc
	switch format {
	case "gzip":
		zw, err := gzip.NewWriterLevel(&buf, level)
		if err != nil {
			panic(err)
		}
		if hdr != nil {
			zw.Header = *hdr
		}
		wr, closeFn = zw, zw.Close
	case "zlib":
		zw, err := zlib.NewWriterLevel(&buf, level)
		if err != nil {
			panic(err)
		}
		wr, closeFn = zw, zw.Close
	case "deflate":
		zw, err := flate.NewWriter(&buf, level)
		if err != nil {
			panic(err)
		}
		wr, closeFn = zw, zw.Close
	case "lzw-lsb", "lzw-msb": // no stored mode: the control's incompressible payload does not shrink
		o := lzw.LSB
		if format == "lzw-msb" {
			o = lzw.MSB
		}
		zw := lzw.NewWriter(&buf, o, 8)
		wr, closeFn = zw, zw.Close
	case "zip":
		zw := zip.NewWriter(&buf)
		m := zip.Deflate
		if stored {
			m = zip.Store
		}
		f, err := zw.CreateHeader(&zip.FileHeader{Name: "endorsement.binarypb", Method: m})
		if err != nil {
			panic(err)
		}
		wr, closeFn = f, zw.Close
	default:
		panic("unknown amplify format " + format)
	}
	gen(wr)
	if err := closeFn(); err != nil {
		panic(err)
	}
	return buf.Bytes()
}

// ampInflate is the harness's own check of a stream: it is decoded in constant memory and the
// decoded bytes are counted.
func ampInflate(format string, b []byte) (int64, error) {
	var rd io.Reader
	switch format {
	case "gzip":
		zr, err := gzip.NewReader(bytes.NewReader(b))
		if err != nil {
			return 0, err
		}
		rd = zr
	case "zlib":
		zr, err := zlib.NewReader(bytes.NewReader(b))
		if err != nil {
			return 0, err
		}
		rd = zr
	case "deflate":
		rd = flate.NewReader(bytes.NewReader(b))
	case "lzw-lsb":
		rd = lzw.NewReader(bytes.NewReader(b), lzw.LSB, 8)
	case "lzw-msb":
		rd = lzw.NewReader(bytes.NewReader(b), lzw.MSB, 8)
	case "bzip2":
		rd = bzip2.NewReader(bytes.NewReader(b))
	case "zip":
		zr, err := zip.NewReader(bytes.NewReader(b), int64(len(b)))
		if err != nil {
			return 0, err
		}
		if len(zr.File) != 1 {
			return 0, fmt.Errorf("%d members", len(zr.File))
		}
		f, err := zr.File[0].Open()
		if err != nil {
			return 0, err
		}
		defer f.Close()
		rd = f
	}
	return io.Copy(io.Discard, rd)
}

// ampBomb builds the stream of a case: bytes, decoded length, whether the container is deliberately damaged.
func (w *world) ampBomb(ac ampCase) (blob []byte, inflated int64, damaged bool) {
	if ac.format == "bzip2" {
		b, err := hex.DecodeString(ampBzip2[ac.n])
		if err != nil || len(b) == 0 {
			panic("no bzip2 stream of that size")
		}
		return b, int64(ac.n), false
	}
	gen := func(n int) func(io.Writer) {
		return func(dst io.Writer) { inflated += w.ampPayload(ac.payload, n, dst) }
	}
	switch ac.variant {
	case "plain":
		blob = ampPack(ac.format, false, nil, gen(ac.n))
	case "isize-forged", "crc-flipped", "trailer-cut", "adler-flipped":
		blob = append([]byte(nil), ampPack(ac.format, false, nil, gen(ac.n))...)
		damaged = true
		switch ac.variant {
		case "isize-forged": // the declared decoded size (mod 2^32) in the last four bytes
			copy(blob[len(blob)-4:], []byte{0xff, 0xff, 0xff, 0xff})
		case "crc-flipped":
			blob[len(blob)-8] ^= 1
		case "trailer-cut":
			blob = blob[:len(blob)-8]
		case "adler-flipped":
			blob[len(blob)-1] ^= 1
		}
	case "16-members":
		for k := 0; k < 16; k++ {
			blob = append(blob, ampPack(ac.format, false, nil, gen(ac.n/16))...)
		}
	case "header-fields":
		h := &gzip.Header{Extra: bytes.Repeat([]byte{'A', 'p', 4, 0, 1, 2, 3, 4}, 8191), Name: string(bytes.Repeat([]byte("n"), 500)) + ".binarypb", // compress/gzip refuses header strings of 512 bytes and more
			Comment: string(bytes.Repeat([]byte("c"), 511)), OS: 3}
		blob = ampPack(ac.format, false, h, gen(ac.n))
	case "nested-twice":
		inner := ampPack(ac.format, false, nil, gen(ac.n))
		blob = ampPack(ac.format, false, nil, func(dst io.Writer) { dst.Write(inner) })
	default:
		panic("unknown amplify variant " + ac.variant)
	}
	return blob, inflated, damaged
}

// ampControl is the control twin of a stream of n bytes: the same container holding n PRNG bytes
// (stored, where the format can store), hence at least n bytes long and decoding to n bytes.
func ampControl(format string, n int, r *rand.Rand) []byte {
	p := make([]byte, n)
	for i := 0; i+8 <= len(p); i += 8 {
		v := r.Uint64()
		for k := 0; k < 8; k++ {
			p[i+k] = byte(v >> (8 * k))
		}
	}
	if format == "bzip2" { // stream and block magic, then noise (no writer in the standard library)
		return cat([]byte("BZh9\x31\x41\x59\x26\x53\x59"), p)
	}
	return ampPack(format, true, nil, func(dst io.Writer) { dst.Write(p) })
}

type ampCarrier struct {
	name  string
	kind  string
	cross bool
	wrap  func(w *world, x []byte) []byte
}

func (w *world) ampTable(x []byte) []tableEntry {
	es := parseTable(w.byName["snp-raw"].data[0x4A0:])
	found := false
	for k := range es {
		if bytes.Equal(es[k].blob, w.endBytes) {
			es[k].blob, found = x, true
		}
	}
	if !found {
		panic("the genuine certificate table has no GCE entry")
	}
	return es
}

var ampCarriers = []ampCarrier{
	{"the-bytes-themselves", "endorsement", true, func(w *world, x []byte) []byte { return x }},
	{"attestation-proto-extras", "snp", false, func(w *world, x []byte) []byte {
		at := w.snpAttestation(false)
		at.CertificateChain.Extras = map[string][]byte{sev.GCEFwCertGUID: x}
		return mustMarshal(at)
	}},
	{"tpm-attestation-proto-extras", "snp", false, func(w *world, x []byte) []byte {
		at := w.snpAttestation(false)
		at.CertificateChain.Extras = map[string][]byte{sev.GCEFwCertGUID: x}
		return mustMarshal(&tpmpb.Attestation{AkPub: []byte("ak"), TeeAttestation: &tpmpb.Attestation_SevSnpAttestation{SevSnpAttestation: at}})
	}},
	{"raw-report+certificate-table-entry", "snp", false, func(w *world, x []byte) []byte {
		return cat(w.byName["snp-raw"].data[:0x4A0], certTable(w.ampTable(x)))
	}},
	{"certificate-table-entry", "certtable", false, func(w *world, x []byte) []byte { return certTable(w.ampTable(x)) }},
	{"base64-of-raw-report+certificate-table-entry", "snp", false, func(w *world, x []byte) []byte {
		return []byte(base64.StdEncoding.EncodeToString(cat(w.byName["snp-raw"].data[:0x4A0], certTable(w.ampTable(x)))))
	}},
	{"eventlog-raw-rim-locator", "eventlog", false, func(w *world, x []byte) []byte { return ampLog(0, x) }},
}

func ampLog(locType uint32, loc []byte) []byte {
	b := &builder{}
	sha := []uint16{4, 0xb, 0xc}
	b.pcClientHeader()
	b.event2("ev0", 0, 8, []uint16{4, 0xb}, func(i *builder) { i.raw(ucs2("GCE Virtual Firmware v2")) })
	b.event2("rim", 0, 3, sha, func(i *builder) { i.sp800155(gceManufacturer, locType, loc) })
	b.event2("sep", 7, 4, sha, func(i *builder) { i.raw([]byte{0, 0, 0, 0}) })
	return append([]byte(nil), b.buf.Bytes()...)
}

// ampSide is one of the two calls of a pair.
type ampSide struct {
	prep func()
	call func() (bool, error)
	n    int    // bytes of untrusted input handed to the call
	log  []byte // input for the case record (nil: the generator path is the recipe)
}

// ampPair runs the control twin and then the bomb under the guarded-call monitor and applies the
// amplification rule. Returns the bomb call's outcome ("ok", "error", "panic", "not-applicable", "suppressed").
func (d *dimRun) ampPair(i int, entry, gname string, bomb, ctl ampSide) string {
	d.names[entry] = true
	if d.deaths[entry] >= deathCap {
		d.c.Count("suppressed-after-repeated-deaths/"+entry, 1)
		return "suppressed"
	}
	run := func(s ampSide, g string) (core.Measured, bool, error) {
		if s.prep != nil {
			s.prep()
		}
		in := s.log
		if len(in) > 64<<10 || (d.c.Thorough() && len(in) > 4096) {
			in = nil
		}
		d.c.Begin(i, g, entry, in)
		bd := budget(s.n)
		d.lim.enter(bd.Alloc)
		var ran bool
		var err error
		m := d.c.Guard(i, entry, g, bd, func() { ran, err = s.call() })
		d.lim.leave()
		return m, ran, err
	}
	mc, ranC, _ := run(ctl, gname+" [control twin: incompressible data stored in the same container]")
	mb, ranB, errB := run(bomb, gname)
	if mc.Panicked {
		d.c.Count("panics/"+entry, 1)
	}
	if mb.Panicked {
		d.c.Count("panics/"+entry, 1)
		return "panic"
	}
	if !ranB {
		d.c.Count("not-applicable/"+entry, 1)
		return "not-applicable"
	}
	d.c.Count("calls/"+entry, 1)
	d.c.Count("amplify/pairs-judged", 1)
	ref := uint64(bomb.n)
	if ranC && !mc.Panicked {
		d.c.Count("calls/"+entry, 1)
		d.c.Max("amplify/control_alloc_b/"+entry, int64(mc.Alloc))
		ref = max(ref, mc.Alloc)
	}
	d.c.Max("amplify/bomb_alloc_b/"+entry, int64(mb.Alloc))
	if allowance := uint64(ampBase) + ampPerB*ref; mb.Alloc > allowance {
		d.c.Oracle(i, entry, "amplification", gname,
			"the call allocated %d bytes for %d bytes of input; the same call on the control twin (same container and position, %d bytes of input, incompressible content) allocated %d; allowance 64 MiB + 64 x max(input size, control) = %d",
			mb.Alloc, bomb.n, ctl.n, mc.Alloc, allowance)
	}
	if errB != nil {
		d.c.Count("errors/"+entry, 1)
		return "error"
	}
	return "ok"
}

func (d *dimRun) runAmp(i int, ac ampCase, r *rand.Rand) {
	w := d.w
	blob, inflated, damaged := w.ampBomb(ac)
	// the stream is what it claims to be: decoded by the harness in constant memory
	got, err := ampInflate(ac.format, blob)
	switch {
	case ac.variant == "nested-twice":
		if err != nil || got <= 0 || got*64 > inflated {
			panic(fmt.Sprintf("amplify: nested stream %+v decodes to %d bytes (%v)", ac, got, err))
		}
	case damaged:
		if err == nil || (ac.variant != "trailer-cut" && got != inflated) {
			panic(fmt.Sprintf("amplify: damaged stream %+v decodes to %d of %d bytes without the expected error (%v)", ac, got, inflated, err))
		}
	default:
		if err != nil || got != inflated {
			panic(fmt.Sprintf("amplify: stream %+v decodes to %d of %d bytes (%v)", ac, got, inflated, err))
		}
	}
	d.c.Count("amplify/streams-verified-by-the-harness-inflater", 1)
	ratio := inflated / int64(len(blob))
	d.c.Max("amplify/largest-decoded-size", inflated)
	d.c.Max("amplify/largest-expansion-ratio", ratio)
	d.c.Max("amplify/largest-stream-bytes", int64(len(blob)))
	heavy := inflated >= ampBase && ratio >= 500 && !damaged
	if heavy {
		d.floor("amplify/stream-decoding-to-64MiB-or-more-at-ratio-500-or-more-built")
	}
	ctl := ampControl(ac.format, len(blob), r)
	if len(ctl) < len(blob) {
		panic("amplify: control twin shorter than the stream")
	}
	variant := ""
	if ac.variant != "plain" {
		variant = " " + ac.variant
	}
	base := fmt.Sprintf("amplify/%s(%s)%s: %d bytes decoding to %d", ac.format, ac.payload, variant, len(blob), inflated)
	sname := fmt.Sprintf("amplify-%s-%s", ac.format, ac.payload)
	if ac.variant != "plain" {
		sname += "-" + ac.variant
	}
	cell := func(carrier, entry, outcome string) {
		if outcome == "ok" || outcome == "error" {
			d.c.Cell("%s|amplify:%s|%s|%s", sname, carrier, entry, outcome)
		}
	}
	parse := func(b []byte) *epb.VMLaunchEndorsement {
		pe := &epb.VMLaunchEndorsement{}
		if proto.Unmarshal(b, pe) == nil {
			return pe
		}
		return nil
	}
	// --- the fresh-call entry points of c07.go, per carrier ---
	for _, car := range ampCarriers {
		bi, ci := car.wrap(w, blob), car.wrap(w, ctl)
		if len(bi) > maxInput || len(ci) > maxInput {
			d.c.Count("amplify/carrier-above-1MiB-skipped", 1)
			continue
		}
		gname := base + " in " + car.name
		eB := d.mkEnv(bi, r)
		eC := *eB
		eC.b, eC.end, eC.el = ci, parse(ci), nil
		first := true
		for _, en := range d.ents {
			if !car.cross && !en.native(car.kind) {
				continue
			}
			side := func(e *env) ampSide {
				s := ampSide{n: len(e.b), call: func() (bool, error) { return en.call(e) }}
				if en.name == "extract.Endorsement/eventlog" {
					s.prep = func() {
						if err := os.WriteFile(w.elPath, e.b, 0o644); err != nil {
							panic(err)
						}
					}
				}
				return s
			}
			sb, sc := side(eB), side(&eC)
			if first {
				sb.log, first = bi, false
			}
			out := d.ampPair(i, en.name, gname, sb, sc)
			cell(car.name, en.name, out)
			if out == "ok" || out == "error" {
				switch {
				case heavy && en.name == "SevValidate/attestation" && car.kind != "endorsement":
					d.floor("amplify/heavy-stream-in-the-certificate-table-entry-handed-to-SevValidate")
				case heavy && en.name == "SevValidate/getter":
					d.floor("amplify/heavy-stream-served-by-the-getter-to-SevValidate")
				case heavy && en.name == "verify.Endorsement":
					d.floor("amplify/heavy-stream-handed-to-verify.Endorsement")
				case heavy && en.name == "extract.Attestation" && car.kind == "endorsement":
					d.floor("amplify/heavy-stream-handed-to-extract.Attestation")
				case heavy && en.name == "CryptoAgileLog.Unmarshal" && car.kind == "endorsement":
					d.floor("amplify/heavy-stream-handed-to-CryptoAgileLog.Unmarshal")
				case ac.payload == "genuine" && ac.variant == "plain" && en.name == "SevValidate/attestation":
					d.floor("amplify/compressed-genuine-endorsement-in-the-certificate-table-entry-handed-to-SevValidate")
				}
			}
		}
	}
	// --- extraction followed by verification, the blob served by the verifier's collaborators ---
	vopts := func() *verify.Options { return &verify.Options{RootsOfTrust: w.pool, Now: w.now} }
	then := func(out []byte, err error) (bool, error) {
		if err != nil {
			return true, err
		}
		return true, verify.Endorsement(out, vopts())
	}
	attr := []byte{7, 0, 0, 0}
	reader := exel.MakeEfiVarFSReader(w.efiRoot)
	logPath := filepath.Join(w.dir, "amplify_event_log")
	writeFile := func(p string, b []byte) func() {
		return func() {
			if err := os.WriteFile(p, b, 0o644); err != nil {
				panic(err)
			}
		}
	}
	quote := w.byName["snp-raw"].data
	type pipe struct {
		name string
		side func(x []byte, tag string) ampSide
	}
	pipes := []pipe{
		{"amplify:extract.Endorsement(getter)+verify.Endorsement", func(x []byte, tag string) ampSide {
			return ampSide{n: len(x) + len(quote), call: func() (bool, error) {
				return then(extract.Endorsement(&extract.Options{Quote: quote, Getter: &doubles.Getter{Default: x}, ForceFetch: true}))
			}}
		}},
		{"amplify:extract.Endorsement(uefi-variable)+verify.Endorsement", func(x []byte, tag string) ampSide {
			name := "Amp" + tag
			log := ampLog(3, append(efiGUIDBytes(varGUID), ucs2(name)...))
			file := writeFile(filepath.Join(w.efiRoot, name+"-"+varGUID), cat(attr, x))
			return ampSide{n: len(x) + 4 + len(log), prep: func() { file(); writeFile(logPath, log)() }, call: func() (bool, error) {
				return then(extract.Endorsement(&extract.Options{EventLogLocation: logPath, UEFIVariableReader: reader, Getter: &doubles.Getter{Fail: true}, FirmwareManufacturer: gceManufacturer}))
			}}
		}},
		{"amplify:extract.Endorsement(raw-rim-locator)+verify.Endorsement", func(x []byte, tag string) ampSide {
			log := ampLog(0, x)
			return ampSide{n: len(log), prep: writeFile(logPath, log), call: func() (bool, error) {
				return then(extract.Endorsement(&extract.Options{EventLogLocation: logPath, UEFIVariableReader: reader, Getter: &doubles.Getter{Fail: true}, FirmwareManufacturer: gceManufacturer}))
			}}
		}},
		{"amplify:exel.Locate(uefi-variable)+verify.Endorsement", func(x []byte, tag string) ampSide {
			name := "AmpL" + tag
			loc := append(efiGUIDBytes(varGUID), ucs2(name)...)
			return ampSide{n: len(x) + 4 + len(loc), prep: writeFile(filepath.Join(w.efiRoot, name+"-"+varGUID), cat(attr, x)), call: func() (bool, error) {
				return then(exel.Locate(3, loc, &exel.LocateOptions{Getter: &doubles.Getter{Fail: true}, UEFIVariableReader: reader}))
			}}
		}},
	}
	for _, p := range pipes {
		if len(blob) > maxInput/2 {
			continue
		}
		out := d.ampPair(i, p.name, base+" behind "+p.name[len("amplify:"):], p.side(blob, "Bomb"), p.side(ctl, "Control"))
		cell("collaborator", p.name, out)
		if heavy && (out == "ok" || out == "error") {
			d.floor("amplify/heavy-stream-extracted-through-a-collaborator-and-verified")
		}
	}
}

func ampFloors() []string {
	return []string{
		"amplify/stream-decoding-to-64MiB-or-more-at-ratio-500-or-more-built",
		"amplify/heavy-stream-in-the-certificate-table-entry-handed-to-SevValidate",
		"amplify/heavy-stream-served-by-the-getter-to-SevValidate",
		"amplify/heavy-stream-handed-to-verify.Endorsement",
		"amplify/heavy-stream-handed-to-extract.Attestation",
		"amplify/heavy-stream-handed-to-CryptoAgileLog.Unmarshal",
		"amplify/compressed-genuine-endorsement-in-the-certificate-table-entry-handed-to-SevValidate",
		"amplify/heavy-stream-extracted-through-a-collaborator-and-verified",
	}
}
