package c07

import (
	"bytes"
	"encoding/base64"
	"encoding/pem"
	"fmt"
	"math"

	epb "github.com/google/gce-tcb-verifier/proto/endorsement"
	"github.com/google/gce-tcb-verifier/sev"
	"google.golang.org/protobuf/encoding/protowire"
	"google.golang.org/protobuf/proto"
	tspb "google.golang.org/protobuf/types/known/timestamppb"
)

type gvariant struct {
	name string
	f    func(w *world, g *epb.VMGoldenMeasurement)
}

func pemBlock(typ string, b []byte) []byte {
	return pem.EncodeToMemory(&pem.Block{Type: typ, Bytes: b})
}

// goldenVariants are golden measurements with one optional part removed or degenerate. Each is
// signed with the genuine key, so the code behind the signature check sees it.
var goldenVariants = []gvariant{
	{"no-timestamp", func(w *world, g *epb.VMGoldenMeasurement) { g.Timestamp = nil }},
	{"timestamp-empty", func(w *world, g *epb.VMGoldenMeasurement) { g.Timestamp = &tspb.Timestamp{} }},
	{"timestamp-max", func(w *world, g *epb.VMGoldenMeasurement) {
		g.Timestamp = &tspb.Timestamp{Seconds: math.MaxInt64, Nanos: math.MaxInt32}
	}},
	{"timestamp-min", func(w *world, g *epb.VMGoldenMeasurement) {
		g.Timestamp = &tspb.Timestamp{Seconds: math.MinInt64, Nanos: math.MinInt32}
	}},
	{"timestamp-provenance-boundary", func(w *world, g *epb.VMGoldenMeasurement) {
		g.Timestamp = &tspb.Timestamp{Seconds: 1722556800, Nanos: 1}
		g.ClSpec, g.Commit = 0, nil
	}},
	{"no-provenance", func(w *world, g *epb.VMGoldenMeasurement) { g.ClSpec, g.Commit = 0, nil }},
	{"no-cert", func(w *world, g *epb.VMGoldenMeasurement) { g.Cert = nil }},
	{"cert-garbage", func(w *world, g *epb.VMGoldenMeasurement) { g.Cert = []byte("not a certificate") }},
	{"cert-truncated", func(w *world, g *epb.VMGoldenMeasurement) { g.Cert = g.Cert[:len(g.Cert)/2] }},
	{"cert-trailing-bytes", func(w *world, g *epb.VMGoldenMeasurement) { g.Cert = append(append([]byte(nil), g.Cert...), 0, 0) }},
	{"cert-is-root", func(w *world, g *epb.VMGoldenMeasurement) { g.Cert = w.root.Raw }},
	{"cert-der-length-huge", func(w *world, g *epb.VMGoldenMeasurement) {
		g.Cert = []byte{0x30, 0x84, 0xff, 0xff, 0xff, 0xff, 0x30, 0x03}
	}},
	{"cert-pem", func(w *world, g *epb.VMGoldenMeasurement) { g.Cert = pemBlock("CERTIFICATE", g.Cert) }},
	{"no-digest", func(w *world, g *epb.VMGoldenMeasurement) { g.Digest = nil }},
	{"digest-1-byte", func(w *world, g *epb.VMGoldenMeasurement) { g.Digest = []byte{1} }},
	{"no-sev", func(w *world, g *epb.VMGoldenMeasurement) { g.SevSnp = nil }},
	{"sev-empty", func(w *world, g *epb.VMGoldenMeasurement) { g.SevSnp = &epb.VMSevSnp{} }},
	{"sev-no-measurements", func(w *world, g *epb.VMGoldenMeasurement) { g.SevSnp.Measurements = nil }},
	{"sev-measurement-key-0", func(w *world, g *epb.VMGoldenMeasurement) { g.SevSnp.Measurements = map[uint32][]byte{0: w.m4} }},
	{"sev-measurement-empty", func(w *world, g *epb.VMGoldenMeasurement) {
		g.SevSnp.Measurements[4] = nil
		g.SevSnp.Measurements[1] = []byte{}
	}},
	{"sev-measurement-47", func(w *world, g *epb.VMGoldenMeasurement) { g.SevSnp.Measurements[4] = w.m4[:47] }},
	{"sev-measurement-49", func(w *world, g *epb.VMGoldenMeasurement) {
		g.SevSnp.Measurements[4] = append(append([]byte(nil), w.m4...), 0)
	}},
	{"sev-measurement-4k", func(w *world, g *epb.VMGoldenMeasurement) { g.SevSnp.Measurements[4] = make([]byte, 4096) }},
	{"sev-measurements-2000", func(w *world, g *epb.VMGoldenMeasurement) {
		for k := uint32(9); k < 2009; k++ {
			g.SevSnp.Measurements[k] = w.m1
		}
	}},
	{"sev-measurement-key-max", func(w *world, g *epb.VMGoldenMeasurement) { g.SevSnp.Measurements[math.MaxUint32] = w.m4 }},
	{"sev-policy-0", func(w *world, g *epb.VMGoldenMeasurement) { g.SevSnp.Policy = 0 }},
	{"sev-policy-max", func(w *world, g *epb.VMGoldenMeasurement) { g.SevSnp.Policy = math.MaxUint64 }},
	{"sev-policy-debug", func(w *world, g *epb.VMGoldenMeasurement) { g.SevSnp.Policy |= 1 << 19 }},
	{"sev-policy-reserved-clear", func(w *world, g *epb.VMGoldenMeasurement) { g.SevSnp.Policy &^= 1 << 17 }},
	{"sev-svn-max", func(w *world, g *epb.VMGoldenMeasurement) { g.SevSnp.Svn = math.MaxUint32 }},
	{"sev-family-id-1-byte", func(w *world, g *epb.VMGoldenMeasurement) {
		g.SevSnp.FamilyId, g.SevSnp.ImageId = []byte{1}, make([]byte, 17)
	}},
	{"sev-svsm-empty", func(w *world, g *epb.VMGoldenMeasurement) { g.SevSnp.SvsmMeasurement = nil }},
	{"sev-svsm-1-byte", func(w *world, g *epb.VMGoldenMeasurement) { g.SevSnp.SvsmMeasurement = []byte{0} }},
	{"sev-ca-garbage", func(w *world, g *epb.VMGoldenMeasurement) { g.SevSnp.CaBundle = []byte("garbage") }},
	{"sev-ca-one-cert", func(w *world, g *epb.VMGoldenMeasurement) { g.SevSnp.CaBundle = pemBlock("CERTIFICATE", w.signer.Raw) }},
	{"sev-ca-two-certs", func(w *world, g *epb.VMGoldenMeasurement) {
		g.SevSnp.CaBundle = append(pemBlock("CERTIFICATE", w.signer.Raw), pemBlock("CERTIFICATE", w.root.Raw)...)
	}},
	{"sev-ca-three-certs", func(w *world, g *epb.VMGoldenMeasurement) {
		g.SevSnp.CaBundle = bytes.Repeat(pemBlock("CERTIFICATE", w.signer.Raw), 3)
	}},
	{"sev-ca-private-key-type", func(w *world, g *epb.VMGoldenMeasurement) {
		g.SevSnp.CaBundle = pemBlock("PRIVATE KEY", []byte{1, 2, 3})
	}},
	{"sev-ca-second-wrong-type", func(w *world, g *epb.VMGoldenMeasurement) {
		g.SevSnp.CaBundle = append(pemBlock("CERTIFICATE", w.signer.Raw), pemBlock("X509 CRL", []byte{1})...)
	}},
	{"sev-ca-trailing-garbage", func(w *world, g *epb.VMGoldenMeasurement) {
		g.SevSnp.CaBundle = append(pemBlock("CERTIFICATE", w.signer.Raw), []byte("trailing")...)
	}},
	{"sev-ca-empty-pem-body", func(w *world, g *epb.VMGoldenMeasurement) {
		g.SevSnp.CaBundle = []byte("-----BEGIN CERTIFICATE-----\n-----END CERTIFICATE-----\n")
	}},
	{"sev-ca-pem-headers", func(w *world, g *epb.VMGoldenMeasurement) {
		g.SevSnp.CaBundle = []byte("-----BEGIN CERTIFICATE-----\nProc-Type: 4,ENCRYPTED\nX: " + string(bytes.Repeat([]byte("y"), 5000)) + "\n\nAAAA\n-----END CERTIFICATE-----\n")
	}},
	{"sev-ca-pem-bad-base64", func(w *world, g *epb.VMGoldenMeasurement) {
		g.SevSnp.CaBundle = []byte("-----BEGIN CERTIFICATE-----\n!!!!\n-----END CERTIFICATE-----\n")
	}},
	{"sev-ca-begin-flood-4k", func(w *world, g *epb.VMGoldenMeasurement) {
		g.SevSnp.CaBundle = bytes.Repeat([]byte("-----BEGIN CERTIFICATE-----\n"), 150)
	}},
	{"sev-ca-garbage-cert-bytes", func(w *world, g *epb.VMGoldenMeasurement) {
		g.SevSnp.CaBundle = append(pemBlock("CERTIFICATE", []byte{0x30, 0x84, 0xff, 0xff, 0xff, 0xff}), pemBlock("CERTIFICATE", nil)...)
	}},
	{"no-tdx", func(w *world, g *epb.VMGoldenMeasurement) { g.Tdx = nil }},
	{"tdx-empty", func(w *world, g *epb.VMGoldenMeasurement) { g.Tdx = &epb.VMTdx{} }},
	{"tdx-empty-entry", func(w *world, g *epb.VMGoldenMeasurement) { g.Tdx.Measurements = []*epb.VMTdx_Measurement{{}} }},
	{"tdx-mrtd-empty", func(w *world, g *epb.VMGoldenMeasurement) { g.Tdx.Measurements[0].Mrtd = nil }},
	{"tdx-mrtd-47", func(w *world, g *epb.VMGoldenMeasurement) { g.Tdx.Measurements[0].Mrtd = w.mrtd[:47] }},
	{"tdx-mrtd-49", func(w *world, g *epb.VMGoldenMeasurement) {
		g.Tdx.Measurements[0].Mrtd = append(append([]byte(nil), w.mrtd...), 0)
	}},
	{"tdx-mrtd-1k", func(w *world, g *epb.VMGoldenMeasurement) { g.Tdx.Measurements[0].Mrtd = make([]byte, 1024) }},
	{"tdx-ram-max", func(w *world, g *epb.VMGoldenMeasurement) { g.Tdx.Measurements[0].RamGib = math.MaxUint32 }},
	{"tdx-ram-0", func(w *world, g *epb.VMGoldenMeasurement) { g.Tdx.Measurements[0].RamGib = 0 }},
	{"tdx-duplicate-ram", func(w *world, g *epb.VMGoldenMeasurement) {
		g.Tdx.Measurements = append(g.Tdx.Measurements, &epb.VMTdx_Measurement{RamGib: 16, Mrtd: pattern(0xb0)})
	}},
	{"tdx-2000-entries", func(w *world, g *epb.VMGoldenMeasurement) {
		for k := 0; k < 2000; k++ {
			g.Tdx.Measurements = append(g.Tdx.Measurements, &epb.VMTdx_Measurement{RamGib: uint32(k), Mrtd: pattern(byte(k))})
		}
	}},
	{"only-cert", func(w *world, g *epb.VMGoldenMeasurement) {
		c := g.Cert
		g.Reset()
		g.Cert = c
	}},
	{"unknown-fields", func(w *world, g *epb.VMGoldenMeasurement) {
		u := protowire.AppendTag(nil, 1000, protowire.BytesType)
		u = protowire.AppendBytes(u, make([]byte, 100))
		u = protowire.AppendTag(u, 1001, protowire.VarintType)
		u = protowire.AppendVarint(u, math.MaxUint64)
		g.ProtoReflect().SetUnknown(u)
	}},
}

type tableEntry struct {
	guid [16]byte
	blob []byte
}

// certTable writes an AMD certificate table (own writer).
func certTable(es []tableEntry) []byte {
	hdr := (len(es) + 1) * 24
	out := make([]byte, hdr)
	off := hdr
	for k, e := range es {
		copy(out[k*24:], e.guid[:])
		copy(out[k*24+16:], le32(uint32(off)))
		copy(out[k*24+20:], le32(uint32(len(e.blob))))
		out = append(out, e.blob...)
		off += len(e.blob)
	}
	return out
}

func parseTable(tbl []byte) []tableEntry {
	var es []tableEntry
	for k := 0; (k+1)*24 <= len(tbl); k++ {
		h := tbl[k*24 : k*24+24]
		if bytes.Equal(h, make([]byte, 24)) {
			break
		}
		off, ln := int(readLE(h, 16, 4)), int(readLE(h, 20, 4))
		var e tableEntry
		copy(e.guid[:], h[:16])
		e.blob = append([]byte(nil), tbl[off:off+ln]...)
		es = append(es, e)
	}
	return es
}

// goldenVariant returns the signed variant inside one of three carriers.
func (w *world) goldenVariant(idx, carrier int) ([]byte, string) {
	g := proto.Clone(w.golden).(*epb.VMGoldenMeasurement)
	goldenVariants[idx].f(w, g)
	eb := mustMarshal(w.endorse(g))
	switch carrier {
	case 0:
		return eb, "endorsement"
	case 1:
		at := w.snpAttestation(false)
		at.CertificateChain.Extras = map[string][]byte{sev.GCEFwCertGUID: eb}
		return mustMarshal(at), "snp-proto-extras"
	default:
		raw := w.byName["snp-raw"].data
		es := parseTable(raw[0x4A0:])
		want := efiGUIDBytes(sev.GCEFwCertGUID)
		for k := range es {
			if bytes.Equal(es[k].guid[:], want) {
				es[k].blob = eb
			}
		}
		return append(append([]byte(nil), raw[:0x4A0]...), certTable(es)...), "snp-raw-certtable"
	}
}

const nBig = 20

// big builds inputs near the 1 MiB bound. Returns bytes, name and the seed kind whose native entry
// points apply (all of them are cross-fed anyway).
func (w *world) big(k int) ([]byte, string, string) {
	signed := func(f func(g *epb.VMGoldenMeasurement)) []byte {
		g := proto.Clone(w.golden).(*epb.VMGoldenMeasurement)
		f(g)
		return mustMarshal(w.endorse(g))
	}
	switch k {
	case 0: // a long genuine event log
		sd := w.byName["eventlog-variable"]
		b := &builder{}
		b.pcClientHeader()
		hdr := b.buf.Len()
		body := sd.data[hdr:]
		out := append([]byte(nil), sd.data[:hdr]...)
		for len(out)+len(body) <= maxInput {
			out = append(out, body...)
		}
		return out, "eventlog-1MiB-genuine", "eventlog"
	case 1:
		return signed(func(g *epb.VMGoldenMeasurement) { g.SevSnp.CaBundle = make([]byte, 1000000) }), "endorsement-ca-bundle-zeros-1MB", "endorsement"
	case 2:
		return signed(func(g *epb.VMGoldenMeasurement) {
			g.SevSnp.CaBundle = bytes.Repeat([]byte("-----BEGIN CERTIFICATE-----\n"), 64<<10/28)
		}), "endorsement-ca-bundle-begin-flood-64KiB", "endorsement"
	case 18: // encoding/pem of Go 1.23 is quadratic on such input (64 KiB: ~0.2 s; 1 MiB would be ~20 s and still terminate, so it is not used)
		return signed(func(g *epb.VMGoldenMeasurement) {
			g.SevSnp.CaBundle = bytes.Repeat([]byte("-----BEGIN A-----\nB: c\n\n"), 64<<10/24)
		}), "endorsement-ca-bundle-header-flood-64KiB", "endorsement"
	case 19: // certificate table whose many entries all name the same large blob: n*len(blob) bytes for n*24+len(blob) of input
		// (12000 entries x 288 KB = 3.4 GB against a budget of 2.4 GB for the 576 KB input)
		const n = 12000
		blob := make([]byte, n*24)
		out := make([]byte, (n+1)*24)
		for i := 0; i < n; i++ {
			copy(out[i*24:], efiGUIDBytes(fmt.Sprintf("%08x-0000-4000-8000-000000000000", i+1)))
			copy(out[i*24+16:], le32(uint32((n+1)*24)))
			copy(out[i*24+20:], le32(uint32(len(blob))))
		}
		return append(out, blob...), "cert-table-12000-aliased-entries", "certtable"
	case 3:
		return signed(func(g *epb.VMGoldenMeasurement) {
			for i := uint32(10); i < 15000; i++ {
				g.SevSnp.Measurements[i] = w.m1
			}
		}), "endorsement-15000-sev-measurements", "endorsement"
	case 4:
		return signed(func(g *epb.VMGoldenMeasurement) {
			for i := 0; i < 15000; i++ {
				g.Tdx.Measurements = append(g.Tdx.Measurements, &epb.VMTdx_Measurement{RamGib: uint32(i), Mrtd: w.mrtd})
			}
		}), "endorsement-15000-tdx-measurements", "endorsement"
	case 5:
		return make([]byte, maxInput), "zeros-1MiB", "none"
	case 6:
		return bytes.Repeat([]byte{0xff}, maxInput), "ff-1MiB", "none"
	case 7:
		return bytes.Repeat([]byte("A"), maxInput), "base64-A-1MiB", "none"
	case 8:
		return bytes.Repeat([]byte("0"), maxInput), "hex-zeros-1MiB", "none"
	case 9:
		at := w.snpAttestation(false)
		at.CertificateChain.Extras = map[string][]byte{sev.GCEFwCertGUID: bytes.Repeat([]byte{0x0a, 0x7f}, 450000)}
		return mustMarshal(at), "snp-proto-extras-900KB-garbage", "snp"
	case 10:
		raw := append(append([]byte(nil), w.byName["snp-raw"].data...), make([]byte, 700000)...)
		return []byte(base64.StdEncoding.EncodeToString(raw)), "snp-raw+700KB-tail-base64", "snp"
	case 11:
		name := bytes.Repeat([]byte{'n', 0}, 500000)
		return append(append(efiGUIDBytes(varGUID), name...), 0, 0), "loc-variable-500k-chars", "locator"
	case 12:
		return bytes.Repeat([]byte("https://x/"), maxInput/10), "loc-uri-1MiB", "locator"
	case 13: // many events with the largest digest count that still fits
		b := &builder{}
		b.pcClientHeader()
		for b.buf.Len() < maxInput-200 {
			b.event2("e", 0, 4, []uint16{4, 0xb, 0xc, 4, 0xb, 0xc}, func(i *builder) {})
		}
		return append([]byte(nil), b.buf.Bytes()...), "eventlog-1MiB-empty-events", "eventlog"
	case 14: // one event with a 1 MiB SP800-155 raw locator
		b := &builder{}
		b.pcClientHeader()
		b.event2("rim", 0, 3, []uint16{0xc}, func(i *builder) { i.sp800155(gceManufacturer, 0, make([]byte, maxInput-600)) })
		return append([]byte(nil), b.buf.Bytes()...), "eventlog-1MiB-raw-locator", "eventlog"
	case 15: // protobuf: 1 MiB of nested length-delimited field 1
		// The nest is written outside-in from the computed lengths (linear). Wrapping a growing body
		// once per level copies it every time: ~6 GB of garbage for this one input, which a worker on an
		// oversubscribed machine did not get collected in time (out of memory inside the generator).
		const widenAt = 200000 // nesting depth grows by one per level; beyond this size widen instead
		var lens []int         // lens[k] = length of the body after k levels
		for l := 0; l <= widenAt; l = 1 + protowire.SizeVarint(uint64(l)) + l {
			lens = append(lens, l)
		}
		var body []byte
		for k := len(lens) - 1; k >= 0; k-- {
			body = protowire.AppendVarint(protowire.AppendTag(body, 1, protowire.BytesType), uint64(lens[k]))
		}
		body = append(body, body...)
		for len(body) < maxInput-16 {
			body = protowire.AppendBytes(protowire.AppendTag(nil, 1, protowire.BytesType), body)
			if len(body) > widenAt {
				body = append(body, body...)
			}
		}
		if len(body) > maxInput {
			body = body[:maxInput]
		}
		return body, "proto-nested-1MiB", "none"
	case 16:
		q := append(append([]byte(nil), w.tdxQuote...), make([]byte, maxInput-len(w.tdxQuote))...)
		return q, "tdx-raw+zero-tail-1MiB", "tdx"
	default:
		// certificate table whose entries are many and small
		var es []tableEntry
		for i := 0; i < 20000; i++ {
			var e tableEntry
			copy(e.guid[:], efiGUIDBytes(fmt.Sprintf("%08x-0000-4000-8000-000000000000", i+1)))
			e.blob = []byte{byte(i)}
			es = append(es, e)
		}
		return certTable(es), "cert-table-20000-entries", "certtable"
	}
}
