package c16

// Independent encoder/decoder for the TCG structures C16 needs, written from the TCG PC Client
// Platform Firmware Profile (crypto-agile log: TCG_PCClientPCREvent header + TCG_PCR_EVENT2
// records) and the SP800-155 Event3 layout; nothing here uses the repository's eventlog package.

import (
	"encoding/binary"
	"errors"
	"fmt"
	"unicode/utf16"
)

const (
	evPostCode      = 0x00000001
	evNoAction      = 0x00000003
	evSeparator     = 0x00000004
	evEFIAction     = 0x80000007
	locRaw          = 0
	locURI          = 1
	locLocal        = 2
	locVariable     = 3
	algSHA1         = 0x0004
	algSHA256       = 0x000B
	algSHA384       = 0x000C
	sp155Event3Sig  = "SP800-155 Event3" // exactly 16 bytes
	specIDEvent03   = "Spec ID Event03\x00"
	startupLocality = "StartupLocality\x00"
)

// sp155 is one SP800-155 Event3 payload (after the 16-byte signature).
type sp155 struct {
	PlatMfrID   uint32
	RimGUID     [16]byte // EFI_GUID wire bytes
	PlatMfrStr  string
	PlatModel   string
	PlatVersion string
	FwMfrStr    string
	FwMfrID     uint32
	FwVersion   string
	LocType     uint32
	Loc         []byte
	CertLocType uint32
	CertLoc     []byte
	Pad         int // trailing zero bytes (HOB padding)
}

func putCStr(b []byte, s string) []byte {
	b = append(b, byte(len(s)+1))
	b = append(b, s...)
	return append(b, 0)
}

func putU32(b []byte, v uint32) []byte { return binary.LittleEndian.AppendUint32(b, v) }
func putU16(b []byte, v uint16) []byte { return binary.LittleEndian.AppendUint16(b, v) }

func putArr32(b, a []byte) []byte {
	b = putU32(b, uint32(len(a)))
	return append(b, a...)
}

// encode returns signature + payload.
func (e *sp155) encode() []byte {
	b := []byte(sp155Event3Sig)
	b = putU32(b, e.PlatMfrID)
	b = append(b, e.RimGUID[:]...)
	b = putCStr(b, e.PlatMfrStr)
	b = putCStr(b, e.PlatModel)
	b = putCStr(b, e.PlatVersion)
	b = putCStr(b, e.FwMfrStr)
	b = putU32(b, e.FwMfrID)
	b = putCStr(b, e.FwVersion)
	b = putU32(b, e.LocType)
	b = putArr32(b, e.Loc)
	b = putU32(b, e.CertLocType)
	b = putArr32(b, e.CertLoc)
	return append(b, make([]byte, e.Pad)...)
}

type rd struct {
	b   []byte
	err error
}

func (r *rd) take(n int) []byte {
	if r.err != nil {
		return nil
	}
	if n < 0 || n > len(r.b) {
		r.err = fmt.Errorf("need %d bytes, have %d", n, len(r.b))
		return nil
	}
	o := r.b[:n]
	r.b = r.b[n:]
	return o
}
func (r *rd) u32() uint32 {
	if b := r.take(4); b != nil {
		return binary.LittleEndian.Uint32(b)
	}
	return 0
}
func (r *rd) u16() uint16 {
	if b := r.take(2); b != nil {
		return binary.LittleEndian.Uint16(b)
	}
	return 0
}
func (r *rd) cstr() string {
	n := r.take(1)
	if n == nil {
		return ""
	}
	d := r.take(int(n[0]))
	if r.err != nil {
		return ""
	}
	if len(d) == 0 || d[len(d)-1] != 0 {
		r.err = errors.New("string without terminator")
		return ""
	}
	return string(d[:len(d)-1])
}
func (r *rd) arr32() []byte {
	n := r.u32()
	return append([]byte(nil), r.take(int(n))...)
}

// decodeSP155 strictly decodes signature + payload.
func decodeSP155(b []byte) (*sp155, error) {
	if len(b) < 16 || string(b[:16]) != sp155Event3Sig {
		return nil, errors.New("not an SP800-155 Event3")
	}
	r := &rd{b: b[16:]}
	e := &sp155{}
	e.PlatMfrID = r.u32()
	copy(e.RimGUID[:], r.take(16))
	e.PlatMfrStr = r.cstr()
	e.PlatModel = r.cstr()
	e.PlatVersion = r.cstr()
	e.FwMfrStr = r.cstr()
	e.FwMfrID = r.u32()
	e.FwVersion = r.cstr()
	e.LocType = r.u32()
	e.Loc = r.arr32()
	e.CertLocType = r.u32()
	e.CertLoc = r.arr32()
	if r.err != nil {
		return nil, r.err
	}
	for _, x := range r.b {
		if x != 0 {
			return nil, errors.New("non-zero trailing bytes")
		}
	}
	e.Pad = len(r.b)
	return e, nil
}

// efiGUID converts the textual GUID aabbccdd-eeff-gghh-iijj-kkllmmnnoopp (16 bytes big-endian
// as printed) to EFI_GUID wire order: first three groups little-endian, the rest as is.
func efiGUID(u [16]byte) [16]byte {
	return [16]byte{u[3], u[2], u[1], u[0], u[5], u[4], u[7], u[6], u[8], u[9], u[10], u[11], u[12], u[13], u[14], u[15]}
}

// guidText prints 16 big-endian-as-printed bytes in canonical lower-case form.
func guidText(u [16]byte) string {
	return fmt.Sprintf("%x-%x-%x-%x-%x", u[0:4], u[4:6], u[6:8], u[8:10], u[10:16])
}

// ucs2 encodes a string as UTF-16LE code units (non-BMP runes become surrogate pairs).
func ucs2(s string) []byte {
	var b []byte
	for _, u := range utf16.Encode([]rune(s)) {
		b = putU16(b, u)
	}
	return b
}

// varLocator is EFI_GUID || CHAR16 name || 0x0000.
func varLocator(guid [16]byte, name string) []byte {
	g := efiGUID(guid)
	b := append([]byte(nil), g[:]...)
	b = append(b, ucs2(name)...)
	return append(b, 0, 0)
}

// logEvent is one TCG_PCR_EVENT2 of the log to write. Algs nil = SHA-256 and SHA-384.
type logEvent struct {
	PCR  uint32
	Type uint32
	Data []byte
	Algs []uint16
}

var algSize = map[uint16]int{algSHA1: 20, algSHA256: 32, algSHA384: 48}

// encodeLog writes a crypto-agile log with a Spec ID Event03 header announcing SHA-1, SHA-256 and SHA-384.
func encodeLog(events []logEvent) []byte {
	spec := []byte(specIDEvent03)
	spec = putU32(spec, 0)          // platformClass
	spec = append(spec, 0, 2, 0, 2) // minor, major, errata, uintnSize
	spec = putU32(spec, 3)          // numberOfAlgorithms
	spec = putU16(putU16(spec, algSHA1), 20)
	spec = putU16(putU16(spec, algSHA256), 32)
	spec = putU16(putU16(spec, algSHA384), 48)
	spec = append(spec, 0) // vendorInfoSize
	b := putU32(nil, 0)
	b = putU32(b, evNoAction)
	b = append(b, make([]byte, 20)...)
	b = putArr32(b, spec)
	for _, e := range events {
		algs := e.Algs
		if algs == nil {
			algs = []uint16{algSHA256, algSHA384}
		}
		b = putU32(b, e.PCR)
		b = putU32(b, e.Type)
		b = putU32(b, uint32(len(algs)))
		for _, a := range algs {
			d := make([]byte, algSize[a])
			if e.Type != evNoAction {
				for i := range d {
					d[i] = byte(int(a)*i) ^ byte(len(e.Data))
				}
			}
			b = append(putU16(b, a), d...)
		}
		b = putArr32(b, e.Data)
	}
	return b
}

// logHeaderSize is the length of the header record encodeLog writes (offsets inside the event
// stream are counted from here).
func logHeaderSize() int { return len(encodeLog(nil)) }

var fillerAlgSets = [][]uint16{{algSHA256, algSHA384}, {algSHA1}, {algSHA256}, {algSHA384}, {algSHA1, algSHA256}, {algSHA1, algSHA256, algSHA384}, {algSHA384, algSHA1}}

// fillerEvents returns n ordinary boot events (never SP800-155 events): mixed digest sets and
// event-data sizes, mostly small, some just below / at / above 4096, 8192 and 65536, so that
// field boundaries fall everywhere relative to 4096-byte multiples of the stream.
func fillerEvents(r interface {
	IntN(int) int
	UintN(uint) uint
}, n int) []logEvent {
	big := 0
	out := make([]logEvent, 0, n)
	for k := 0; k < n; k++ {
		size := r.IntN(96)
		switch r.IntN(40) {
		case 0, 1, 2:
			size = 200 + r.IntN(1500)
		case 3:
			if big < 3 {
				big++
				size = []int{4096, 8192, 65536}[r.IntN(3)] + r.IntN(9) - 4
			}
		case 4:
			size = 4096 - 80 + r.IntN(160)
		}
		d := make([]byte, size)
		for i := range d {
			d[i] = byte(r.UintN(256))
		}
		typ := []uint32{evPostCode, evSeparator, evEFIAction, 0x80000001, 0x80000002, 0x80000003, 0x0000000D, evNoAction}[r.IntN(8)]
		if typ == evNoAction { // a no-action event of another kind
			d = append([]byte(startupLocality), byte(r.IntN(5)))
		}
		out = append(out, logEvent{PCR: uint32(r.IntN(16)), Type: typ, Data: d, Algs: fillerAlgSets[r.IntN(len(fillerAlgSets))]})
	}
	return out
}
