package c16

// Part (a): object names and URLs are an injective, technology-separated function of the
// measurement.

import (
	"bytes"
	"fmt"
	"math/rand/v2"
	"strings"

	"github.com/google/gce-tcb-verifier/extract/extractsev"
	"github.com/google/gce-tcb-verifier/extract/extracttdx"
	"github.com/google/gce-tcb-verifier/verify"

	"verifharness/core"
)

const (
	gceUefiFamilyID = "f73a6949-e8f3-473b-9553-e40e056fa3a2"
	entryNames      = "GCETcbObjectName/GCETcbURL"
)

// decodeName is the monitor's inverse: family/technology/<hex>.binarypb -> (family, technology, bytes).
func decodeName(name string) (family, tech string, m []byte, err error) {
	parts := strings.Split(name, "/")
	if len(parts) != 3 {
		return "", "", nil, fmt.Errorf("%d path segments", len(parts))
	}
	h, ok := strings.CutSuffix(parts[2], ".binarypb")
	if !ok {
		return "", "", nil, fmt.Errorf("no .binarypb suffix")
	}
	if len(h)%2 != 0 {
		return "", "", nil, fmt.Errorf("odd number of hex digits")
	}
	m = make([]byte, 0, len(h)/2)
	for i := 0; i < len(h); i += 2 {
		hi, lo := strings.IndexByte(hexdigits, h[i]), strings.IndexByte(hexdigits, h[i+1])
		if hi < 0 || lo < 0 {
			return "", "", nil, fmt.Errorf("not lower-case hex")
		}
		m = append(m, byte(hi<<4|lo))
	}
	return parts[0], parts[1], m, nil
}

func mutateMeasurement(r *rand.Rand, m []byte) (string, []byte) {
	o := append([]byte(nil), m...)
	switch r.IntN(8) {
	case 0:
		if len(o) > 0 {
			o[len(o)-1] ^= 1 << r.UintN(8)
			return "last-byte-bit", o
		}
	case 1:
		if len(o) > 0 {
			o[0] ^= 1 << r.UintN(8)
			return "first-byte-bit", o
		}
	case 2:
		return "append-zero", append(o, 0)
	case 3:
		if len(o) > 0 {
			return "drop-last", o[:len(o)-1]
		}
	case 4:
		if len(o) > 1 { // nibble swap inside one byte
			p := r.IntN(len(o))
			if o[p]>>4 != o[p]&15 {
				o[p] = o[p]<<4 | o[p]>>4
				return "nibble-swap", o
			}
		}
	case 5:
		if len(o) > 1 {
			p := r.IntN(len(o) - 1)
			if o[p] != o[p+1] {
				o[p], o[p+1] = o[p+1], o[p]
				return "byte-swap", o
			}
		}
	case 6:
		if len(o) > 0 { // case of a hex letter: 0xab vs 0xAB has no byte meaning, so flip 0x0a <-> 0xa0 instead
			p := r.IntN(len(o))
			o[p] ^= 0x20
			return "bit5", o
		}
	}
	return "independent", randBytes(r, len(m))
}

func runNames(c *core.Ctx, i int, st *struct{ pairs, sep int }) {
	r := c.Rand(i)
	var m []byte
	lenClass := "48"
	switch r.IntN(10) {
	case 0:
		m, lenClass = randBytes(r, r.IntN(48)), "short"
	case 1:
		m, lenClass = randBytes(r, 49+r.IntN(32)), "long"
	case 2:
		m = make([]byte, 48)
	case 3:
		m = bytes.Repeat([]byte{0xff}, 48)
	case 4:
		m = []byte(strings.Repeat("../a", 12)) // path metacharacters as measurement bytes
	default:
		m = randBytes(r, 48)
	}
	rel, m2 := mutateMeasurement(r, m)
	gen := fmt.Sprintf("names/len=%s/pair=%s", lenClass, rel)
	c.Begin(i, gen, entryNames, append(append(append([]byte(nil), m...), '|'), m2...))
	var snp, snpAlt, tdx, snp2, tdx2, snpAgain string
	var uSnp, uTdx string
	c.Guard(i, entryNames, gen, core.Budget{}, func() {
		snp = extractsev.GCETcbObjectName(gceUefiFamilyID, m)
		snpAlt = extractsev.GCETcbObjectName(gceFwCertGUID, m)
		tdx = extracttdx.GCETcbObjectName(m)
		snp2 = extractsev.GCETcbObjectName(gceUefiFamilyID, m2)
		tdx2 = extracttdx.GCETcbObjectName(m2)
		snpAgain = extractsev.GCETcbObjectName(gceUefiFamilyID, append([]byte(nil), m...))
		uSnp, uTdx = verify.GCETcbURL(snp), verify.GCETcbURL(tdx)
	})
	c.Eval(7)
	// model: exact name
	if snp != modelName("snp", m) || snpAlt != modelName("snp", m) {
		c.Oracle(i, entryNames, "snp-name-differs-from-model", gen, "m=%x: got %q / %q want %q", m, snp, snpAlt, modelName("snp", m))
	}
	if tdx != modelName("tdx", m) {
		c.Oracle(i, entryNames, "tdx-name-differs-from-model", gen, "m=%x: got %q want %q", m, tdx, modelName("tdx", m))
	}
	// decode(name(m)) = m
	for _, x := range []struct{ tech, name string }{{"sevsnp", snp}, {"tdx", tdx}} {
		_, tech, back, err := decodeName(x.name)
		if err != nil || tech != x.tech || !bytes.Equal(back, m) {
			c.Oracle(i, entryNames, "name-does-not-decode-to-measurement", gen, "m=%x name=%q decodes to tech=%q m=%x err=%v", m, x.name, tech, back, err)
		}
	}
	// injective
	if !bytes.Equal(m, m2) {
		st.pairs++
		if snp == snp2 || tdx == tdx2 {
			c.Oracle(i, entryNames, "not-injective", gen, "m=%x and m'=%x share a name: %q / %q", m, m2, snp, tdx)
		}
	}
	if snp != snpAgain {
		c.Oracle(i, entryNames, "not-deterministic", gen, "m=%x twice: %q vs %q", m, snp, snpAgain)
	}
	// technology separated: for equal bytes and for the related pair
	if snp == tdx || snp == tdx2 || snp2 == tdx {
		c.Oracle(i, entryNames, "technologies-share-a-name", gen, "m=%x: snp %q tdx %q", m, snp, tdx)
	} else {
		st.sep++
	}
	// URL = bucket base + name
	if uSnp != bucketBase+snp || uTdx != bucketBase+tdx {
		c.Oracle(i, entryNames, "url-is-not-bucket-plus-name", gen, "got %q / %q", uSnp, uTdx)
	}
	if st.pairs == 1 {
		c.Sample(map[string]any{"family": "names", "m": lowerHex(m), "related": rel, "snp": snp, "tdx": tdx, "url": uSnp})
	}
	c.Cell("names|len=%s|pair=%s", lenClass, rel)
	c.End(i)
}
