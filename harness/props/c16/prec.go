package c16

// Part (c): source precedence, local-first and the URL discipline of extract.Endorsement and of
// the `extract` command, over the product of event-log shapes, quote formats, provider
// behaviours, getter behaviours and the forced-fetch switch.

import (
	"bytes"
	"errors"
	"fmt"
	"math/rand/v2"
	"os"
	"path/filepath"
	"strings"

	"github.com/google/gce-tcb-verifier/extract"
	exel "github.com/google/gce-tcb-verifier/extract/eventlog"

	"verifharness/core"
	"verifharness/doubles"
)

const (
	bucketBase  = "https://storage.googleapis.com/gce_tcb_integrity/"
	googleMfr   = "Google, Inc."
	foreignMfr  = "Acme Firmware Corp."
	entryDirect = "extract.Endorsement"
	entryCLI    = "gcetcbendorsement extract"
)

// modelName is the monitor's own statement of the object name: family prefix / technology /
// lower-case hex of the measurement + ".binarypb".
func modelName(tech string, m []byte) string {
	dir := map[string]string{"snp": "sevsnp", "tdx": "tdx"}[tech]
	return "ovmf_x64_csm/" + dir + "/" + lowerHex(m) + ".binarypb"
}

func modelURL(tech string, m []byte) string { return bucketBase + modelName(tech, m) }

// ---- event-log shapes ----

type evd struct {
	mfr    string
	loc    uint32
	vstate string // for variable locators: present | absent | short | noterm | odd
}

type elShape struct {
	name   string
	file   string // "" = events | absent | missing | short-header | empty-file | bad-cstr | trailing-garbage
	events []evd
}

var elShapes = []elShape{
	{name: "absent", file: "absent"},
	{name: "missing-file", file: "missing"},
	{name: "corrupt-short-header", file: "short-header"},
	{name: "corrupt-empty-file", file: "empty-file"},
	{name: "corrupt-event3-string", file: "bad-cstr"},
	{name: "corrupt-event3-trailing", file: "trailing-garbage"},
	{name: "no-rim-events"},
	{name: "raw", events: []evd{{googleMfr, locRaw, ""}}},
	{name: "variable-present", events: []evd{{googleMfr, locVariable, "present"}}},
	{name: "variable-absent", events: []evd{{googleMfr, locVariable, "absent"}}},
	{name: "variable-short-file", events: []evd{{googleMfr, locVariable, "short"}}},
	{name: "variable-unterminated", events: []evd{{googleMfr, locVariable, "noterm"}}},
	{name: "variable-odd-length", events: []evd{{googleMfr, locVariable, "odd"}}},
	{name: "uri", events: []evd{{googleMfr, locURI, ""}}},
	{name: "local-device-path", events: []evd{{googleMfr, locLocal, ""}}},
	{name: "foreign-raw", events: []evd{{foreignMfr, locRaw, ""}}},
	{name: "foreign-raw,uri", events: []evd{{foreignMfr, locRaw, ""}, {googleMfr, locURI, ""}}},
	{name: "foreign-variable-present,raw", events: []evd{{foreignMfr, locVariable, "present"}, {googleMfr, locRaw, ""}}},
	{name: "uri,variable-present,raw", events: []evd{{googleMfr, locURI, ""}, {googleMfr, locVariable, "present"}, {googleMfr, locRaw, ""}}},
	{name: "uri,variable-present", events: []evd{{googleMfr, locURI, ""}, {googleMfr, locVariable, "present"}}},
	{name: "uri,variable-absent", events: []evd{{googleMfr, locURI, ""}, {googleMfr, locVariable, "absent"}}},
	{name: "uri,local", events: []evd{{googleMfr, locURI, ""}, {googleMfr, locLocal, ""}}},
	{name: "local,variable-present", events: []evd{{googleMfr, locLocal, ""}, {googleMfr, locVariable, "present"}}},
	{name: "uri,foreign-raw,foreign-variable-present", events: []evd{{googleMfr, locURI, ""}, {foreignMfr, locRaw, ""}, {foreignMfr, locVariable, "present"}}},
}

// provider kinds
var provKinds = []string{"none", "error", "garbage", "snp-raw-report+table/entry", "snp-raw-report+table", "snp-raw-report", "tdx-raw", "snp-table-only/entry", "snp-attestation-proto/entry"}

var getterKinds = []string{"answers", "fails", "nil"}

// quote variants: kind x (entry present?) for the kinds that may carry one.
type qVariant struct {
	kind  quoteKind
	entry bool
}

func quoteVariants() []qVariant {
	var v []qVariant
	for _, k := range quoteKinds {
		v = append(v, qVariant{k, false})
		if k.ext {
			v = append(v, qVariant{k, true})
		}
	}
	return v
}

var qVariants = quoteVariants()

// ---- doubles ----

type recGetter struct {
	fail bool
	urls []string
}

func netAnswer(url string) []byte { return []byte("FROM-NETWORK:" + url) }

func (g *recGetter) Get(url string) ([]byte, error) {
	g.urls = append(g.urls, url)
	if g.fail {
		return nil, fmt.Errorf("getter: injected failure for %s", url)
	}
	return netAnswer(url), nil
}

type provider struct {
	quote []byte
	err   error
	calls int
	vmpl  []uint
}

func (p *provider) IsSupported() bool { return true }
func (p *provider) GetRawQuote(rd [64]byte) ([]uint8, error) {
	p.calls++
	if p.err != nil {
		return nil, p.err
	}
	return append([]byte(nil), p.quote...), nil
}
func (p *provider) GetRawQuoteAtLevel(rd [64]byte, vmpl uint) ([]uint8, error) {
	p.vmpl = append(p.vmpl, vmpl)
	return p.GetRawQuote(rd)
}

// ---- one case ----

type precCase struct {
	shape  elShape
	mfrOpt string
	q      qVariant
	prov   string
	getter string
	force  bool

	mQ, mP       []byte
	blobQ, blobP []byte
	quote        []byte
	provQuote    []byte
	provFull     bool
	provTech     string
	provEntry    bool
	provRecog    bool

	// event-log material
	logBytes  []byte
	haveLog   bool
	large     bool
	decoys    int // events of another type carrying a well-formed SP800-155 Event3 (never reference-manifest events)
	medium    logMedium         // what holds the log file (drawn last, so that the rest of the case does not depend on it)
	rimOffset int               // offset of the first RIM event in the event stream (after the header record)
	varFiles  map[string][]byte // file name under the efivarfs root -> content
	rawBlob   map[int][]byte    // event index -> raw locator
	varBlob   map[int][]byte    // event index -> variable payload (content[4:])
	varName   map[int]string    // event index -> file name of the variable under the efivarfs root
	platOf    map[int]string    // set before build: event index -> platform manufacturer that differs from the firmware manufacturer
	uriOf     map[int]string
}

func randBytes(r *rand.Rand, n int) []byte {
	b := make([]byte, n)
	for i := range b {
		b[i] = byte(r.UintN(256))
	}
	return b
}

func randMeasurement(r *rand.Rand) []byte {
	switch r.IntN(8) {
	case 0:
		return make([]byte, 48)
	case 1:
		return bytes.Repeat([]byte{0xff}, 48)
	case 2: // bytes that are themselves ASCII hex digits / path characters
		return []byte(strings.Repeat("2f2e", 12))
	}
	return randBytes(r, 48)
}

var varNames = []string{"FirmwareRIM", "Rim2", "GceRimΩ", "a b", "x"}

func (pc *precCase) describe() string {
	s := fmt.Sprintf("el=%s mfr=%q quote=%s entry=%v provider=%s getter=%s force=%v", pc.shape.name, pc.mfrOpt, pc.q.kind.name, pc.q.entry, pc.prov, pc.getter, pc.force)
	if pc.haveLog {
		s += " log-on=" + pc.medium.String()
	}
	return s
}

func (pc *precCase) build(r *rand.Rand, id int) {
	pc.mQ, pc.mP = randMeasurement(r), randMeasurement(r)
	if r.IntN(6) == 0 {
		pc.mP = append([]byte(nil), pc.mQ...)
	}
	pc.blobQ = append([]byte(fmt.Sprintf("ENTRY-Q:%d:", id)), randBytes(r, 1+r.IntN(200))...)
	pc.blobP = append([]byte(fmt.Sprintf("ENTRY-P:%d:", id)), randBytes(r, 1+r.IntN(200))...)
	var bq []byte
	if pc.q.entry {
		bq = pc.blobQ
	}
	pc.quote = buildQuote(pc.q.kind, pc.mQ, bq, r.IntN(8))
	kindByName := func(n string) quoteKind {
		for _, k := range quoteKinds {
			if k.name == n {
				return k
			}
		}
		for _, k := range extraQuoteKinds {
			if k.name == n {
				return k
			}
		}
		panic(n)
	}
	switch pc.prov {
	case "none", "error":
	default:
		name, entry, _ := strings.Cut(pc.prov, "/")
		k := kindByName(name)
		var bp []byte
		if entry == "entry" {
			bp = pc.blobP
		}
		pc.provQuote = buildQuote(k, pc.mP, bp, r.IntN(8))
		pc.provFull, pc.provTech, pc.provEntry = k.full, k.tech, bp != nil
		pc.provRecog = k.name != "garbage"
	}
	// event log
	pc.varFiles, pc.rawBlob, pc.varBlob, pc.uriOf, pc.varName = map[string][]byte{}, map[int][]byte{}, map[int][]byte{}, map[int]string{}, map[int]string{}
	guid := [16]byte{}
	copy(guid[:], randBytes(r, 16))
	rim := [16]byte{}
	copy(rim[:], randBytes(r, 16))
	mkEvent := func(idx int, d evd) []byte {
		plat := d.mfr
		if p, ok := pc.platOf[idx]; ok { // the platform manufacturer differs from the firmware manufacturer
			plat = p
		}
		e := &sp155{PlatMfrID: 11129, RimGUID: rim, PlatMfrStr: plat, PlatModel: "Google Compute Engine", PlatVersion: "", FwMfrStr: d.mfr,
			FwMfrID: 11129, FwVersion: "2.7", LocType: d.loc, Pad: []int{0, 0, 4, 7}[r.IntN(4)]}
		switch d.loc {
		case locRaw:
			b := append([]byte(fmt.Sprintf("RAW:%d:%d:", id, idx)), randBytes(r, 1+r.IntN(300))...)
			pc.rawBlob[idx] = b
			e.Loc = b
		case locURI:
			u := fmt.Sprintf("%sovmf_x64_csm/%s.fd.signed", bucketBase, lowerHex(randBytes(r, 48)))
			if r.IntN(3) == 0 {
				u = fmt.Sprintf("https://rim.example.test/%d/%d/manifest?x=%s", id, idx, lowerHex(randBytes(r, 4)))
			}
			pc.uriOf[idx] = u
			e.Loc = []byte(u)
		case locLocal:
			e.Loc = []byte{0x04, 0x04, 0x1c, 0x00, 'r', 0, 'i', 0, 'm', 0, '.', 0, 'b', 0, 'i', 0, 'n', 0, 0, 0, 0x7f, 0xff, 0x04, 0x00}
		case locVariable:
			name := varNames[r.IntN(len(varNames))] + fmt.Sprintf("%d", idx)
			g := guid
			g[15] ^= byte(idx)
			loc := varLocator(g, name)
			payload := append([]byte(fmt.Sprintf("VAR:%d:%d:", id, idx)), randBytes(r, 1+r.IntN(300))...)
			content := append([]byte{7, 0, 0, 0}, payload...)
			fname := name + "-" + guidText(g)
			pc.varName[idx] = fname
			switch d.vstate {
			case "present":
				pc.varFiles[fname] = content
				pc.varBlob[idx] = payload
			case "absent":
			case "short":
				pc.varFiles[fname] = content[:r.IntN(4)]
			case "noterm":
				pc.varFiles[fname] = content
				pc.varBlob[idx] = payload
				loc = loc[:len(loc)-2]
			case "odd":
				pc.varFiles[fname] = content
				pc.varBlob[idx] = payload
				loc = append(loc[:len(loc)-2], 0)
			}
			e.Loc = loc
		}
		return e.encode()
	}
	noise := func() logEvent {
		switch r.IntN(4) {
		case 0:
			return logEvent{PCR: 0, Type: evPostCode, Data: []byte("ACPI DATA")}
		case 1:
			return logEvent{PCR: 0, Type: evNoAction, Data: append([]byte(startupLocality), 0)}
		case 2:
			return logEvent{PCR: 7, Type: evEFIAction, Data: []byte("Exit Boot Services Invocation")}
		}
		return logEvent{PCR: uint32(r.IntN(8)), Type: evSeparator, Data: []byte{0, 0, 0, 0}}
	}
	var evs []logEvent
	firstRIM := -1
	// a quarter of the logs are long: 10-400 ordinary events before and after the RIM events
	pc.large = r.IntN(4) == 0
	// decoys (round 7, C16-r7m1): events of another type than EV_NO_ACTION whose data nevertheless is a well-formed
	// SP800-155 Event3 with a raw or URI locator. Only EV_NO_ACTION events are reference-manifest events, so the model
	// ignores them; an extractor that takes one returns the decoy bytes or asks for a URL no measurement justifies.
	// Drawn from their own PRNG: the other events of every case stay what they were.
	rdec := rand.New(rand.NewPCG(uint64(id), 0xdec0dec0))
	decoy := func() {
		if pc.shape.file != "" || rdec.IntN(3) != 0 {
			return
		}
		typ := []uint32{0x00000006, evEFIAction, evPostCode, 0x0000000D, 0x80000003}[rdec.IntN(5)]
		e := &sp155{PlatMfrID: 11129, RimGUID: rim, PlatMfrStr: googleMfr, PlatModel: "Google Compute Engine", FwMfrStr: googleMfr,
			FwMfrID: 11129, FwVersion: "2.7", LocType: locRaw, Loc: []byte(fmt.Sprintf("DECOY:%d:%d", id, len(evs)))}
		if pc.mfrOpt != "" {
			e.PlatMfrStr, e.FwMfrStr = pc.mfrOpt, pc.mfrOpt
		}
		if rdec.IntN(2) == 0 {
			e.LocType, e.Loc = locURI, []byte(fmt.Sprintf("https://decoy.example.test/%d/%d", id, len(evs)))
		}
		evs = append(evs, logEvent{PCR: uint32(rdec.IntN(8)), Type: typ, Data: e.encode()})
		pc.decoys++
	}
	addNoise := func() {
		decoy()
		if pc.large {
			n := 10 + r.IntN(60)
			if r.IntN(4) == 0 {
				n = 10 + r.IntN(391)
			}
			evs = append(evs, fillerEvents(r, n)...)
			return
		}
		for n := r.IntN(3); n > 0; n-- {
			evs = append(evs, noise())
		}
	}
	finish := func() {
		pc.haveLog, pc.logBytes = true, encodeLog(evs)
		if firstRIM >= 0 {
			pc.rimOffset = len(encodeLog(evs[:firstRIM])) - logHeaderSize()
		}
	}
	switch pc.shape.file {
	case "absent", "missing":
	case "short-header":
		pc.haveLog, pc.logBytes = true, encodeLog(nil)[:1+r.IntN(27)]
	case "empty-file":
		pc.haveLog, pc.logBytes = true, []byte{}
	case "bad-cstr", "trailing-garbage":
		e := &sp155{PlatMfrID: 11129, RimGUID: rim, PlatMfrStr: googleMfr, PlatModel: "Google Compute Engine", FwMfrStr: googleMfr, FwMfrID: 11129, FwVersion: "2.7",
			LocType: locVariable, Loc: varLocator(guid, "FirmwareRIM")}
		b := e.encode()
		if pc.shape.file == "bad-cstr" {
			b[16+4+16+1+len(googleMfr)] = 'X' // terminator of PlatformManufacturerStr
		} else {
			b = append(b, 0, 0, 0x5a, 0)
		}
		addNoise()
		firstRIM = len(evs)
		evs = append(evs, logEvent{Type: evNoAction, Data: b})
		addNoise()
		finish()
	default:
		addNoise()
		for idx, d := range pc.shape.events {
			if firstRIM < 0 {
				firstRIM = len(evs)
			}
			evs = append(evs, logEvent{Type: evNoAction, Data: mkEvent(idx, d)})
			addNoise()
		}
		finish()
	}
	pc.medium = drawMedium(r)
}

// elModel is the documented precedence: among the events whose firmware manufacturer matches
// (all when no manufacturer is asked for) raw > variable > local device path > URI.
// state: nothing | blob | uri | unknown.
func (pc *precCase) elModel() (state string, blob []byte, uri string) {
	if pc.force || !pc.haveLog {
		return "nothing", nil, ""
	}
	if pc.shape.file != "" {
		return "nothing", nil, ""
	}
	for _, class := range []uint32{locRaw, locVariable, locLocal, locURI} {
		for idx, d := range pc.shape.events {
			if d.loc != class || (pc.mfrOpt != "" && d.mfr != pc.mfrOpt) {
				continue
			}
			switch class {
			case locRaw:
				return "blob", pc.rawBlob[idx], ""
			case locVariable:
				switch d.vstate {
				case "present":
					return "blob", pc.varBlob[idx], ""
				case "absent", "short":
					return "nothing", nil, ""
				}
				return "unknown", nil, ""
			case locLocal:
				return "nothing", nil, ""
			case locURI:
				return "uri", nil, pc.uriOf[idx]
			}
		}
	}
	return "nothing", nil, ""
}

// allowedQuoteURLs: the only URLs a quote may justify - the one derived from the 48-byte
// measurement of the quote in hand (the supplied one; the provider's only when the supplied
// material names no full measurement).
func (pc *precCase) allowedQuoteURLs() map[string]bool {
	a := map[string]bool{}
	if pc.q.kind.full {
		a[modelURL(pc.q.kind.tech, pc.mQ)] = true
		if pc.q.kind.doc {
			return a
		}
		// a format without an expectation about recognition may also be passed over for the provider's quote
	}
	if pc.provFull {
		a[modelURL(pc.provTech, pc.mP)] = true
	}
	return a
}

// forcedURL: the object a forced fetch must ask for - that of the 48-byte measurement of the quote
// in hand (the supplied quote; the provider's when the supplied material names no full
// measurement and a provider answers with one). ok=false: no full measurement in hand, or a
// format without an expectation about recognition.
func (pc *precCase) forcedURL() (string, bool) {
	if !pc.q.kind.doc {
		return "", false
	}
	if pc.q.kind.full {
		return modelURL(pc.q.kind.tech, pc.mQ), true
	}
	if pc.provFull {
		return modelURL(pc.provTech, pc.mP), true
	}
	return "", false
}

// localEntry: the certificate-table entry that local-first must return when the event log
// yields nothing. ok=false: no demand.
func (pc *precCase) localEntry() ([]byte, bool) {
	k := pc.q.kind
	if k.doc && k.ext && pc.q.entry {
		return pc.blobQ, true
	}
	if (k.name == "none" || k.name == "empty") && pc.provRecog && pc.provEntry {
		return pc.blobP, true
	}
	return nil, false
}

type outcome struct {
	out      []byte
	err      error
	urls     []string
	panicked bool
}

func (o outcome) key() string {
	e := "ok"
	if o.err != nil {
		e = "err"
	}
	return fmt.Sprintf("%s|%x|%q", e, o.out, o.urls)
}

type scratch struct{ dir string }

func newScratch() *scratch {
	d, err := os.MkdirTemp("", "verif-c16-")
	if err != nil {
		panic(err)
	}
	return &scratch{dir: d}
}
func (s *scratch) close() { os.RemoveAll(s.dir) }

func (pc *precCase) materialise(dir string) (log *placedLog, efiRoot string) {
	efiRoot = filepath.Join(dir, "efivars")
	must(os.MkdirAll(efiRoot, 0o755))
	for n, b := range pc.varFiles {
		must(os.WriteFile(filepath.Join(efiRoot, n), b, 0o644))
	}
	switch {
	case pc.shape.file == "absent":
		log = &placedLog{}
	case pc.shape.file == "missing":
		log = &placedLog{path: filepath.Join(dir, "no-such-log")}
	default:
		log, _ = placeLog(dir, "binary_bios_measurements", pc.logBytes, pc.medium)
		pc.medium = log.medium
	}
	return
}

func must(err error) {
	if err != nil {
		panic(err)
	}
}

func (pc *precCase) runDirect(c *core.Ctx, i int, gen string, log *placedLog, efiRoot string) outcome {
	var o outcome
	g := &recGetter{fail: pc.getter == "fails"}
	opts := &extract.Options{FirmwareManufacturer: pc.mfrOpt, EventLogLocation: log.path, UEFIVariableReader: exel.MakeEfiVarFSReader(efiRoot),
		Quote: pc.quote, ForceFetch: pc.force}
	if pc.getter != "nil" {
		opts.Getter = g
	}
	switch pc.prov {
	case "none":
	case "error":
		opts.Provider = &provider{err: errors.New("provider: no TEE device")}
	default:
		opts.Provider = &provider{quote: pc.provQuote}
	}
	var m core.Measured
	log.serve(func() {
		m = c.Guard(i, entryDirect, gen, core.Budget{}, func() { o.out, o.err = extract.Endorsement(opts) })
	})
	o.urls, o.panicked = g.urls, m.Panicked
	return o
}

func (pc *precCase) runCLI(c *core.Ctx, i int, gen string, log *placedLog, efiRoot string) outcome {
	var o outcome
	g := &recGetter{fail: pc.getter == "fails"}
	io := doubles.NewMemIO()
	cli := &doubles.CLI{IO: io}
	if pc.getter != "nil" {
		cli.Getter = g
	}
	switch pc.prov {
	case "none", "error": // the command always wraps a provider; "none" = a host without a TEE device
		cli.Provider = &provider{err: errors.New("provider: no TEE device")}
	default:
		cli.Provider = &provider{quote: pc.provQuote}
	}
	args := []string{"extract", "--out=out.binarypb", "--eventlog=" + log.path, "--firmware_manufacturer=" + pc.mfrOpt, "--efivarfs=" + efiRoot}
	if pc.force {
		args = append(args, "--force_fetch")
	}
	if pc.q.kind.name != "none" {
		io.Files["quote.bin"] = pc.quote
		args = append(args, "quote.bin")
	}
	var m core.Measured
	log.serve(func() { m = c.Guard(i, entryCLI, gen, core.Budget{}, func() { o.err = cli.Run(args...) }) })
	o.out = io.Files["out.binarypb"]
	o.urls, o.panicked = g.urls, m.Panicked
	return o
}

// judge applies the oracle to one outcome. cli: the "none" provider was replaced by a failing one.
func (pc *precCase) judge(c *core.Ctx, i int, entry, gen string, o outcome) {
	if o.panicked {
		return
	}
	state, blob, uri := pc.elModel()
	allowed := pc.allowedQuoteURLs()
	// 1. URL discipline.
	for _, u := range o.urls {
		switch {
		case state == "uri" && u == uri:
		case allowed[u]:
		case state == "unknown" && !pc.force:
			c.Count("url-under-unmodelled-event-log", 1)
		default:
			site, why := "fetch-without-full-measurement", "is not derived from a 48-byte measurement of the quote in hand"
			isLocator := false
			for _, x := range pc.uriOf {
				isLocator = isLocator || x == u
			}
			obj, inBucket := strings.CutPrefix(u, bucketBase)
			_, _, m, derr := decodeName(obj)
			switch {
			case isLocator:
				site, why = "fetch-of-unselected-uri-locator", "is a URI locator of the event log that the documented precedence does not select here"
			case inBucket && obj == "":
				why = "is the bucket root (empty object name)"
			case inBucket && derr == nil && len(m) == 48:
				site, why = "fetch-for-another-measurement", "names the object of a measurement other than that of the quote in hand"
			case inBucket && derr == nil:
				why = fmt.Sprintf("names an object for a %d-byte measurement", len(m))
			}
			c.Violate(core.Violation{Kind: "oracle", Entry: entry, Site: site, Gen: gen, Case: i,
				Detail:  fmt.Sprintf("getter asked for %q which %s; call returned err=%v out=%.80q; permitted=%v event-log-model=%s", u, why, o.err, o.out, keysOf(allowed), state),
				Witness: map[string]any{"case": pc.describe(), "quote_head_hex": lowerHex(head(pc.quote, 64)), "quote_len": len(pc.quote), "urls": o.urls}})
		}
	}
	if pc.force {
		if len(o.urls) == 0 {
			c.Count("forced/no-fetch", 1)
		} else {
			c.Count("forced/fetched", 1)
		}
		// A forced fetch is performed: with a getter and a full-length measurement in hand the one
		// request is that measurement's object, and what the getter answers is what comes back.
		if want, ok := pc.forcedURL(); ok && pc.getter != "nil" {
			c.Count("forced/judged", 1)
			asked := false
			for _, u := range o.urls {
				asked = asked || u == want
			}
			switch {
			case !asked:
				c.Oracle(i, entry, "forced-fetch-not-performed", gen, "fetch forced, getter present, quote in hand names a 48-byte measurement: want one request for %q; got urls=%v err=%v out=%.60q", want, o.urls, o.err, o.out)
			case len(o.urls) != 1:
				c.Oracle(i, entry, "forced-fetch-not-exactly-one-request", gen, "want [%q]; got %v", want, o.urls)
			case pc.getter == "answers" && (o.err != nil || !bytes.Equal(o.out, netAnswer(want))):
				c.Oracle(i, entry, "forced-fetch-result-is-not-the-fetched-object", gen, "getter answered %q for %q; call returned err=%v out=%.80q", netAnswer(want), want, o.err, o.out)
			}
		}
		return
	}
	// 2. Whatever comes back without any fetch is one of the local evidence items, byte for byte.
	if o.err == nil && len(o.urls) == 0 {
		cands := map[string]bool{}
		switch state {
		case "blob":
			cands[string(blob)] = true
		case "unknown":
			for idx, d := range pc.shape.events {
				if pc.mfrOpt == "" || d.mfr == pc.mfrOpt {
					cands[string(pc.varBlob[idx])] = true
				}
			}
		}
		if pc.q.entry {
			cands[string(pc.blobQ)] = true
		}
		if pc.provEntry {
			cands[string(pc.blobP)] = true
		}
		if !cands[string(o.out)] {
			c.Oracle(i, entry, "returned-bytes-are-no-permitted-local-evidence", gen, "no fetch was made and %d bytes %.60q came back, which are neither the locator the precedence selects (model=%s) nor a certificate-table entry of a quote in hand",
				len(o.out), o.out, state)
		}
	}
	// 3. Local first.
	switch state {
	case "blob":
		if o.err != nil || !bytes.Equal(o.out, blob) || len(o.urls) != 0 {
			c.Oracle(i, entry, "event-log-evidence-not-returned", gen, "event log selects a %s locator; want its %d bytes and no fetch; got err=%v out=%.60q urls=%v",
				map[bool]string{true: "raw", false: "variable"}[bytes.HasPrefix(blob, []byte("RAW"))], len(blob), o.err, o.out, o.urls)
		}
		c.Count("local/event-log", 1)
	case "nothing", "uri":
		want, ok := pc.localEntry()
		if !ok {
			c.Count("no-local-evidence", 1)
			break
		}
		if state == "uri" && pc.getter == "answers" {
			c.Count("uri-locator-answered-before-quote", 1) // documented precedence: event log (any locator) before the quote
			break
		}
		wantURLs := 0
		if state == "uri" && pc.getter == "fails" {
			wantURLs = 1
		}
		if o.err != nil || !bytes.Equal(o.out, want) || len(o.urls) != wantURLs {
			c.Oracle(i, entry, "certificate-table-entry-not-returned", gen, "event log yields nothing and the quote carries the entry (%d bytes); want it with %d fetches; got err=%v out=%.60q urls=%v",
				len(want), wantURLs, o.err, o.out, o.urls)
		}
		c.Count("local/certificate-table", 1)
	case "unknown":
		c.Count("event-log-unmodelled", 1)
	}
}

func keysOf(m map[string]bool) []string {
	var s []string
	for k := range m {
		s = append(s, k)
	}
	return s
}

func head(b []byte, n int) []byte {
	if len(b) > n {
		return b[:n]
	}
	return b
}

// precTotal is the size of the full product.
func precDims() []int {
	return []int{len(elShapes), 2, len(qVariants), len(provKinds), len(getterKinds), 2}
}

func precTotal() int {
	n := 1
	for _, d := range precDims() {
		n *= d
	}
	return n
}

func precDecode(idx int) *precCase {
	d := precDims()
	var x [6]int
	for k := len(d) - 1; k >= 0; k-- {
		x[k] = idx % d[k]
		idx /= d[k]
	}
	return &precCase{shape: elShapes[x[0]], mfrOpt: []string{googleMfr, ""}[x[1]], q: qVariants[x[2]], prov: provKinds[x[3]], getter: getterKinds[x[4]], force: x[5] == 1}
}

type precStats struct {
	local, localDeep, localPipe, entry, fetched, uriSel, cliRuns int
	sampled                                                      map[string]bool
}

// runPrec runs case i (product index idx).
func runPrec(c *core.Ctx, sc *scratch, i, idx int, st *precStats) {
	r := c.Rand(i)
	pc := precDecode(idx)
	viaCLI := r.IntN(3) == 0 // drawn, not i%3: the index is aligned with the product's radix in the thorough tier
	pc.build(r, i)
	dir := filepath.Join(sc.dir, fmt.Sprintf("p%d", i))
	must(os.MkdirAll(dir, 0o755))
	defer os.RemoveAll(dir)
	log, efiRoot := pc.materialise(dir) // settles the medium actually used, which the description names
	gen := "precedence/" + pc.describe()
	c.Begin(i, gen, entryDirect, []byte(pc.describe()))

	o1 := pc.runDirect(c, i, gen, log, efiRoot)
	if log.tainted { // the pipe did not take the log in one piece: nothing about this case is judged
		c.Count("log-medium/pipe-not-served-whole(case-skipped)", 1)
		c.End(i)
		return
	}
	pc.judge(c, i, entryDirect, gen, o1)
	o2 := pc.runDirect(c, i, gen, log, efiRoot)
	if !o1.panicked && !o2.panicked && !log.tainted && o1.key() != o2.key() {
		c.Oracle(i, entryDirect, "not-deterministic", gen, "same inputs, two results: %.200s vs %.200s", o1.key(), o2.key())
	}
	state, _, _ := pc.elModel()
	outc := "err"
	if o1.err == nil {
		outc = "ok"
	}
	pclass := pc.prov
	if k, _, ok := strings.Cut(pc.prov, "-"); ok {
		pclass = k
	}
	c.Cell("prec|el=%s|q=%s/%v|p=%s|f=%v|urls=%d|%s", pc.shape.name, pc.q.kind.name, pc.q.entry, pclass, pc.force, len(o1.urls), outc)
	if !pc.force && state == "blob" && o1.err == nil {
		st.local++
		if pc.rimOffset > 4096 {
			st.localDeep++
		}
	}
	if pc.haveLog {
		c.Count("log-medium/"+pc.medium.String(), 1)
		if !pc.force && pc.medium != mediumRegular {
			c.Cell("prec-log-medium|%s|el=%s|%s/%s|urls=%d", pc.medium, pc.shape.name, state, outc, len(o1.urls))
			if state == "blob" && o1.err == nil && log.served > 0 {
				st.localPipe++
			}
		}
	}
	if pc.decoys > 0 && pc.haveLog {
		c.Count("precedence/logs with events of another type carrying a well-formed SP800-155 Event3 (decoys, not locators)", 1)
	}
	if pc.large && pc.haveLog {
		c.Max("precedence/longest-log-bytes", int64(len(pc.logBytes)))
		c.Cell("prec-long-log|el=%s|rim-at>=%dKiB|f=%v|%s/%s", pc.shape.name, min(pc.rimOffset>>12, 16)<<2, pc.force, state, outc)
	}
	if cat := fmt.Sprintf("%s/urls=%d/%s", state, len(o1.urls), outc); !st.sampled[cat] && len(st.sampled) < 5 {
		if st.sampled == nil {
			st.sampled = map[string]bool{}
		}
		st.sampled[cat] = true
		c.Sample(map[string]any{"family": "precedence", "case": pc.describe(), "event_log_model": state, "urls": o1.urls, "err": fmt.Sprint(o1.err), "out_head": fmt.Sprintf("%.40q", o1.out)})
	}
	if _, ok := pc.localEntry(); ok && !pc.force && state == "nothing" && o1.err == nil {
		st.entry++
	}
	if len(o1.urls) > 0 {
		st.fetched++
	}
	if state == "uri" {
		st.uriSel++
	}
	// the command line front end on a slice of the product
	if viaCLI && pc.prov != "none" { // the command always wraps a provider, so "none" has no counterpart there
		c.Begin(i, gen, entryCLI, []byte(pc.describe()))
		o3 := pc.runCLI(c, i, gen, log, efiRoot)
		if !log.tainted {
			pc.judge(c, i, entryCLI, gen, o3)
		}
		st.cliRuns++
	}
	c.End(i)
}
