package c16

// Part (b): the SP800-155 events a snapshot endorse run writes next to the firmware image.

import (
	"bytes"
	"context"
	"crypto/sha512"
	"fmt"
	"io"
	"math/rand/v2"
	"os"
	"path/filepath"
	"strings"
	"sync"
	"time"

	"github.com/google/gce-tcb-verifier/cmd/output"
	"github.com/google/gce-tcb-verifier/endorse"
	rel "github.com/google/gce-tcb-verifier/eventlog"
	"github.com/google/gce-tcb-verifier/extract"
	exel "github.com/google/gce-tcb-verifier/extract/eventlog"
	"github.com/google/gce-tcb-verifier/keys"
	"github.com/google/gce-tcb-verifier/sev"
	"github.com/google/gce-tcb-verifier/sign/memca"
	"github.com/google/gce-tcb-verifier/testing/fakeovmf"
	"github.com/google/gce-tcb-verifier/testing/nonprod/memkm"
	spb "github.com/google/go-sev-guest/proto/sevsnp"
	"google.golang.org/protobuf/encoding/protowire"

	"verifharness/core"
)

const (
	entryEndorse    = "endorse.VirtualFirmware(snapshot)"
	googleVarGUID   = "a2858e46-a37f-456a-8c79-0c1fe48b65ff"
	firmwareRIMName = "FirmwareRIM"
)

// memVCS keeps what an endorse run writes.
type memVCS struct {
	mu    sync.Mutex
	files map[string][]byte
}

func (v *memVCS) GetChangeOps(context.Context) (endorse.ChangeOps, error) { return &memOps{v}, nil }
func (v *memVCS) RetriableError(error) bool                               { return false }
func (v *memVCS) Result(any, string)                                      {}
func (v *memVCS) ReleasePath(_ context.Context, p string) string          { return "/vcs/" + p }

type memOps struct{ v *memVCS }

func (o *memOps) WriteOrCreateFiles(_ context.Context, files ...*endorse.File) error {
	o.v.mu.Lock()
	defer o.v.mu.Unlock()
	for _, f := range files {
		o.v.files[f.Path] = append([]byte(nil), f.Contents...)
	}
	return nil
}
func (o *memOps) ReadFile(_ context.Context, p string) ([]byte, error) {
	o.v.mu.Lock()
	defer o.v.mu.Unlock()
	if b, ok := o.v.files[p]; ok {
		return append([]byte(nil), b...), nil
	}
	return nil, os.ErrNotExist
}
func (o *memOps) SetBinaryWritable(context.Context, string) error { return nil }
func (o *memOps) IsNotFound(err error) bool                       { return os.IsNotExist(err) }
func (o *memOps) Destroy()                                        {}
func (o *memOps) TryCommit(context.Context) (any, error)          { return nil, nil }

type randReader struct{ r *rand.Rand }

func (r randReader) Read(p []byte) (int, error) {
	for i := range p {
		p[i] = byte(r.r.UintN(256))
	}
	return len(p), nil
}

var _ io.Reader = randReader{}

// splitEvents decodes proto Sp800155Events { repeated bytes events = 1; } with protowire.
func splitEvents(b []byte) ([][]byte, error) {
	var out [][]byte
	for len(b) > 0 {
		num, typ, n := protowire.ConsumeTag(b)
		if n < 0 {
			return nil, protowire.ParseError(n)
		}
		b = b[n:]
		if num != 1 || typ != protowire.BytesType {
			return nil, fmt.Errorf("unexpected field %d type %d", num, typ)
		}
		v, n := protowire.ConsumeBytes(b)
		if n < 0 {
			return nil, protowire.ParseError(n)
		}
		out = append(out, append([]byte(nil), v...))
		b = b[n:]
	}
	return out, nil
}

func runEvents(c *core.Ctx, sc *scratch, i int, ok *int) {
	r := c.Rand(i)
	size := []int{0x2000, 0x4000, 0x10000}[r.IntN(3)]
	fw := randBytes(r, size)
	if r.IntN(4) == 0 {
		fw = make([]byte, size)
		fw[r.IntN(size-0x400)] = byte(1 + r.IntN(255))
	}
	if err := fakeovmf.InitializeSevGUIDTable(fw, 0x20, 0xff0000ff, fakeovmf.DefaultSnpSections()); err != nil {
		panic(err)
	}
	snapDir := []string{"snap", "releases/2025/q1", "s"}[r.IntN(3)]
	imageName := []string{"ovmf_x64_csm.fd", "fw.bin", "dir/OVMF.fd"}[r.IntN(3)]
	svn := uint32(r.IntN(3))
	gen := fmt.Sprintf("events/size=%#x/snapshot=%s/%s/svn=%d", size, snapDir, imageName, svn)
	c.Begin(i, gen, entryEndorse, nil)
	defer c.End(i)

	vcs := &memVCS{files: map[string][]byte{}}
	manager := memkm.TestOnlyT()
	kc := &keys.Context{CA: memca.TestOnlyCertificateAuthority(), Manager: manager, Signer: manager.Signer, Random: randReader{r}}
	ec := &endorse.Context{
		SevSnp: &sev.SnpEndorsementRequest{LaunchVmsas: 1, Product: spb.SevProduct_SEV_PRODUCT_MILAN, Svn: svn},
		ClSpec: uint64(1 + r.IntN(1000)), Image: fw, VCS: vcs, Timestamp: time.Unix(1700000000+int64(r.IntN(1e6)), 0),
		SnapshotDir: snapDir, ImageName: imageName,
	}
	ctx := endorse.NewContext(output.NewContext(keys.NewContext(context.Background(), kc), &output.Options{Overwrite: true, Quiet: true}), ec)
	var err error
	c.Guard(i, entryEndorse, gen, core.Budget{}, func() { err = endorse.VirtualFirmware(ctx) })
	if err != nil {
		c.Count("events/endorse-failed", 1)
		c.Note("endorse run failed: %v", err)
		return
	}
	base := "/vcs/" + snapDir + "/" + imageName
	evs, signed, digest, wantURI, wantVar, guids, okJ := judgeEmitted(c, i, gen, vcs, base, fw)
	if !okJ {
		return
	}
	// Feed the emitted events through a boot event log: the extractor must come back with the variable.
	dir := filepath.Join(sc.dir, fmt.Sprintf("e%d", i))
	efi := filepath.Join(dir, "efivars")
	must(os.MkdirAll(efi, 0o755))
	defer os.RemoveAll(dir)
	must(os.WriteFile(filepath.Join(efi, firmwareRIMName+"-"+googleVarGUID), append([]byte{7, 0, 0, 0}, signed...), 0o644))
	// the boot log around the two events is long: 10-400 ordinary events before and after
	nBefore, nAfter := 10+r.IntN(391), 10+r.IntN(391)
	order := []int{0, 1}
	if r.IntN(2) == 0 {
		order = []int{1, 0}
	}
	var lev []logEvent
	lev = append(lev, logEvent{Type: evPostCode, Data: []byte("POST CODE")})
	lev = append(lev, fillerEvents(r, nBefore)...)
	for _, k := range order {
		lev = append(lev, logEvent{Type: evNoAction, Data: evs[k]})
		if r.IntN(2) == 0 {
			lev = append(lev, fillerEvents(r, r.IntN(12))...)
		}
	}
	lev = append(lev, fillerEvents(r, nAfter)...)
	logLen := len(encodeLog(lev))
	// the log is kept on a regular file, a named pipe (stat size 0, as the securityfs file has) or behind a symbolic link
	medium := drawMedium(r)
	pl, _ := placeLog(dir, "binary_bios_measurements", encodeLog(lev), medium)
	medium = pl.medium
	gen += "/log-on=" + medium.String()
	g := &recGetter{}
	var out []byte
	pl.serve(func() {
		c.Guard(i, entryDirect, gen, core.Budget{}, func() {
			out, err = extract.Endorsement(&extract.Options{Getter: g, FirmwareManufacturer: extract.GCEFirmwareManufacturer, EventLogLocation: pl.path,
				UEFIVariableReader: exel.MakeEfiVarFSReader(efi)})
		})
	})
	if pl.tainted {
		c.Count("log-medium/pipe-not-served-whole(case-skipped)", 1)
		return
	}
	if err != nil || !bytes.Equal(out, signed) || len(g.urls) != 0 {
		c.Oracle(i, entryDirect, "emitted-events-do-not-lead-to-the-variable", gen, "err=%v len(out)=%d want %d urls=%v", err, len(out), len(signed), g.urls)
	}
	// With only the URI event in the log the one fetch is that URI.
	uriIdx := 0
	if m, _ := decodeSP155(evs[1]); m.LocType == locURI {
		uriIdx = 1
	}
	lev = append(fillerEvents(r, nBefore), logEvent{Type: evNoAction, Data: evs[uriIdx]})
	lev = append(lev, fillerEvents(r, nAfter)...)
	pl, _ = placeLog(dir, "binary_bios_measurements", encodeLog(lev), medium)
	g = &recGetter{}
	pl.serve(func() {
		c.Guard(i, entryDirect, gen, core.Budget{}, func() {
			out, err = extract.Endorsement(&extract.Options{Getter: g, FirmwareManufacturer: extract.GCEFirmwareManufacturer, EventLogLocation: pl.path,
				UEFIVariableReader: exel.MakeEfiVarFSReader(efi)})
		})
	})
	if pl.tainted {
		c.Count("log-medium/pipe-not-served-whole(case-skipped)", 1)
		return
	}
	if err != nil || len(g.urls) != 1 || g.urls[0] != wantURI || !bytes.Equal(out, netAnswer(wantURI)) {
		c.Oracle(i, entryDirect, "emitted-uri-event-not-fetched-verbatim", gen, "err=%v urls=%v want [%s]", err, g.urls, wantURI)
	}
	*ok++
	if *ok == 1 {
		c.Sample(map[string]any{"family": "events", "image_sha384": lowerHex(digest[:]), "uri_locator": wantURI, "variable_locator_hex": lowerHex(wantVar), "manifest_guid_wire": lowerHex(guids[0][:]), "events_file": base + ".evts.pb"})
	}
	c.Max("events/longest-log-bytes", int64(logLen))
	c.Count("log-medium/"+medium.String(), 1)
	c.Cell("events|size=%#x|order=%v|svn=%d|dir=%d|log>=%dKiB|on=%s", size, order, svn, strings.Count(snapDir+imageName, "/"), min(logLen>>12, 16)<<2, medium)
}

// judgeEmitted reads what a snapshot endorse run of image fw left under base in vcs and applies
// the rules of part (b) to the emitted events; ok=false: nothing further can be judged.
func judgeEmitted(c *core.Ctx, i int, gen string, vcs *memVCS, base string, fw []byte) (evs [][]byte, signed []byte, digest [48]byte, wantURI string, wantVar []byte, guids [][16]byte, ok bool) {
	evb, okE := vcs.files[base+".evts.pb"]
	var okS bool
	signed, okS = vcs.files[base+".signed"]
	if !okE || !okS {
		c.Oracle(i, entryEndorse, "snapshot-files-missing", gen, "wrote %v", fileNames(vcs.files))
		return
	}
	var perr error
	evs, perr = splitEvents(evb)
	if perr != nil {
		c.Oracle(i, entryEndorse, "events-file-unparseable", gen, "%v", perr)
		return
	}
	digest = sha512.Sum384(fw)
	wantURI = bucketBase + "ovmf_x64_csm/" + lowerHex(digest[:]) + ".fd.signed"
	wantVar = varLocator(parseGUID(googleVarGUID), firmwareRIMName)
	if len(evs) != 2 {
		c.Oracle(i, entryEndorse, "not-exactly-two-events", gen, "%d events", len(evs))
		return
	}
	var nVar, nURI int
	for k, eb := range evs {
		mine, derr := decodeSP155(eb)
		if derr != nil {
			c.Oracle(i, entryEndorse, "event-does-not-parse", gen, "event %d: %v (%x)", k, derr, head(eb, 80))
			return
		}
		if !bytes.Equal(mine.encode(), eb) {
			c.Oracle(i, entryEndorse, "event-reencoding-differs(reference)", gen, "event %d", k)
		}
		// the repository's own decoder must read back exactly what was emitted
		theirs := &rel.SP800155Event3{}
		var uerr, merr error
		var again []byte
		c.Guard(i, "eventlog.SP800155Event3.UnmarshalFromBytes", gen, core.Budget{}, func() {
			uerr = theirs.UnmarshalFromBytes(eb[16:])
			if uerr == nil {
				again, merr = theirs.MarshalToBytes()
			}
		})
		if uerr != nil || merr != nil {
			c.Oracle(i, entryEndorse, "emitted-event-not-accepted-by-decoder", gen, "event %d: unmarshal=%v marshal=%v", k, uerr, merr)
			continue
		}
		if !bytes.Equal(again, eb) {
			c.Oracle(i, entryEndorse, "event-reencoding-differs", gen, "event %d: emitted %x re-encoded %x", k, head(eb, 120), head(again, 120))
		}
		if theirs.RIMLocatorType != mine.LocType || !bytes.Equal(theirs.RIMLocator.Data, mine.Loc) || theirs.FirmwareManufacturerStr.Data != mine.FwMfrStr ||
			theirs.PlatformManufacturerStr.Data != mine.PlatMfrStr || theirs.PlatformManufacturerID != mine.PlatMfrID || efiGUID(mine.RimGUID) != [16]byte(theirs.ReferenceManifestGUID.UUID) {
			c.Oracle(i, entryEndorse, "decoders-disagree", gen, "event %d: reference %+v repository %+v", k, mine, theirs)
		}
		guids = append(guids, mine.RimGUID)
		switch mine.LocType {
		case locVariable:
			nVar++
			if !bytes.Equal(mine.Loc, wantVar) {
				c.Oracle(i, entryEndorse, "variable-locator-wrong", gen, "got %x want %x", mine.Loc, wantVar)
			}
		case locURI:
			nURI++
			if string(mine.Loc) != wantURI {
				c.Oracle(i, entryEndorse, "uri-locator-is-not-the-image-digest-url", gen, "got %q want %q", mine.Loc, wantURI)
			}
		default:
			c.Oracle(i, entryEndorse, "unexpected-locator-type", gen, "event %d type %d", k, mine.LocType)
		}
	}
	if nVar != 1 || nURI != 1 {
		c.Oracle(i, entryEndorse, "not-one-variable-and-one-uri-locator", gen, "variable=%d uri=%d", nVar, nURI)
		return
	}
	if guids[0] != guids[1] {
		c.Oracle(i, entryEndorse, "manifest-guids-differ", gen, "%x vs %x", guids[0], guids[1])
	}
	return evs, signed, digest, wantURI, wantVar, guids, true
}

func fileNames(m map[string][]byte) []string {
	var s []string
	for k := range m {
		s = append(s, k)
	}
	return s
}
