package c16

// Two families appended after events-again (fourth round). They add dimensions that none of the
// earlier families produces; the deciding rules are those of prec.go / confine.go.
//
//   surroundings  the efivarfs root stands in a POPULATED neighbourhood while the variable the log
//                 names is faulty under the root (absent, shorter than its header, a directory, a
//                 dangling link; the root itself missing, a regular file, or empty). Around the
//                 root - in its parent directory, in the directory above that, and in directories
//                 next to the root with the names other layouts of the same data use (the legacy
//                 sysfs "vars/<name>-<guid>/data" and "raw_var", a mount called efivarfs, a backup
//                 copy of the root) - lie files under the very name the log asks for. Whatever a
//                 read returns must be content[4:] of the regular file of that name INSIDE the
//                 root; a faulty variable means the event log yields nothing, and the next local
//                 source (the certificate-table entry of the quote in hand) is what comes back.
//   defaults      the Options value is not made by the caller but handed out by the package's own
//                 constructor: 2-5 independent users in one process (one after the other, or all at
//                 the same time) each take extract.DefaultOptions(), assign ONLY the fields in
//                 which they differ from the documented defaults, and extract. Every call is judged
//                 by its user's sources with the documented defaults in the fields it left alone.

import (
	"bytes"
	"errors"
	"fmt"
	"math/rand/v2"
	"os"
	"path/filepath"
	"strings"
	"sync"

	"github.com/google/gce-tcb-verifier/extract"
	exel "github.com/google/gce-tcb-verifier/extract/eventlog"
	"github.com/google/uuid"

	"verifharness/core"
)

type round4Stats struct {
	nbReadsFaulted  int // direct reads of a faulty variable that failed while files of its name lay around the root
	nbReadsInside   int // direct reads of a whole variable returned from inside the root with files of its name around it
	nbEntryAfter    int // extractions that returned the certificate-table entry after the log's variable proved faulty
	nbBlobAmid      int // extractions that returned the variable inside the root with files of its name around it
	nbDecoys        int
	defUsers        int
	defLeft         int // fields a user left as DefaultOptions() handed them out
	defLeftAfterSet int // of these: fields that an earlier (or simultaneous) user of the case had assigned in its own value
	defTogether     int
	defBare         int
}

const canaryMark = "CANARY-OUTSIDE"

// ---- surroundings ----

// event-log shapes with at least one variable locator whose name is well-formed
var nbShapes = []string{"variable-present", "variable-present", "variable-absent", "variable-short-file", "uri,variable-present", "uri,variable-absent",
	"foreign-variable-present,raw", "local,variable-present", "uri,variable-present,raw", "uri,foreign-raw,foreign-variable-present"}

// what is wrong with a variable (or with the root) at the time of the call
var nbVarFaults = []string{"none", "none", "none", "absent", "absent", "short", "directory", "dangling-link", "dangling-absolute-link"}
var nbRootFaults = []string{"", "", "", "", "", "root-missing", "root-is-a-file", "root-empty"}

// where the root stands below the case's directory (the last mimics /sys/firmware/efi/efivars)
var nbRootParents = []string{"", "efi", "sys/firmware/efi"}

var nbRootSpellings = []string{"", "", "", "trailing-slash", "doubled-slash", "dot-segment", "dotdot-segment", "relative"}

type nbVar struct {
	idx   int
	fname string // <name>-<guid>
	name  string
	guid  [16]byte
	fault string
}

// splitVarFile undoes fname = name + "-" + guidText(guid).
func splitVarFile(fname string) (string, [16]byte) {
	cut := len(fname) - 36
	return fname[:cut-1], parseGUID(fname[cut:])
}

// plantDecoys writes files named fname (and directories named fname that hold the legacy files)
// everywhere around root but never inside it; every one carries the canary mark.
func plantDecoys(r *rand.Rand, caseDir, root, fname string, tag int) int {
	parent := filepath.Dir(root)
	rootName := filepath.Base(root)
	n := 0
	body := func(layout string, header bool) []byte {
		b := []byte(fmt.Sprintf("%s:%d:%s:%x", canaryMark, tag, layout, randBytes(r, 8)))
		if header {
			b = append([]byte{7, 0, 0, 0}, b...)
		}
		return b
	}
	put := func(path, layout string, header bool) {
		if path == root || strings.HasPrefix(path, root+"/") {
			return
		}
		must(os.MkdirAll(filepath.Dir(path), 0o755))
		must(os.WriteFile(path, body(layout, header), 0o644))
		n++
	}
	backup := rootName + []string{".bak", "~", ".old", "-backup", ".orig"}[r.IntN(5)]
	put(filepath.Join(parent, "vars", fname, "data"), "legacy-sysfs-data", false)
	put(filepath.Join(parent, "vars", fname, "raw_var"), "legacy-sysfs-raw_var", true)
	put(filepath.Join(parent, "efivarfs", fname), "other-mount-name", true)
	put(filepath.Join(parent, backup, fname), "backup-of-the-root", true)
	put(filepath.Join(parent, fname), "parent-directory", r.IntN(2) == 0)
	if parent != caseDir {
		up := filepath.Dir(parent)
		put(filepath.Join(up, fname), "directory-above-the-parent", true)
		put(filepath.Join(up, "vars", fname, "data"), "legacy-sysfs-data-above", false)
		put(filepath.Join(up, rootName, fname), "same-root-name-above", true)
	}
	return n
}

func hasCanary(b []byte) bool { return bytes.Contains(b, []byte(canaryMark)) }

func runSurroundings(c *core.Ctx, sc *scratch, i int, st *round4Stats) {
	r := c.Rand(i)
	pc := precDecode(r.IntN(precTotal()))
	pc.shape = shapeNamed(nbShapes[r.IntN(len(nbShapes))])
	pc.force = pc.force && r.IntN(8) == 0
	if r.IntN(2) == 0 { // half of the cases hold a quote whose entry is the next local source
		for !(pc.q.kind.ext && pc.q.entry && pc.q.kind.doc) {
			pc.q = qVariants[r.IntN(len(qVariants))]
		}
	}
	viaCLI := r.IntN(3) == 0
	pc.build(r, i)
	pc.shape.events = append([]evd(nil), pc.shape.events...) // the table's slice is shared

	// faults
	rootFault := nbRootFaults[r.IntN(len(nbRootFaults))]
	var vars []nbVar
	for idx := range pc.shape.events {
		fname, ok := pc.varName[idx]
		if !ok {
			continue
		}
		v := nbVar{idx: idx, fname: fname, fault: nbVarFaults[r.IntN(len(nbVarFaults))]}
		v.name, v.guid = splitVarFile(fname)
		d := &pc.shape.events[idx]
		gone := func() {
			d.vstate = "absent"
			delete(pc.varFiles, fname)
			delete(pc.varBlob, idx)
		}
		switch {
		case rootFault != "":
			v.fault = rootFault
			gone()
		case v.fault == "none":
			v.fault = "none(" + d.vstate + ")"
		case v.fault == "short":
			d.vstate = "short"
			pc.varFiles[fname] = []byte{7, 0, 0, 0}[:r.IntN(4)]
			delete(pc.varBlob, idx)
		default:
			gone()
		}
		vars = append(vars, v)
	}
	var faults []string
	for _, v := range vars {
		faults = append(faults, v.fault)
	}
	pc.shape.name += "(" + strings.Join(faults, ",") + ")"

	dir := filepath.Join(sc.dir, fmt.Sprintf("n%d", i))
	sub := filepath.Join(dir, nbRootParents[r.IntN(len(nbRootParents))])
	must(os.MkdirAll(sub, 0o755))
	defer os.RemoveAll(dir)
	log, efiRoot := pc.materialise(sub)
	switch rootFault {
	case "root-missing":
		must(os.RemoveAll(efiRoot))
	case "root-is-a-file":
		must(os.RemoveAll(efiRoot))
		must(os.WriteFile(efiRoot, []byte("not a directory"), 0o644))
	}
	for _, v := range vars {
		p := filepath.Join(efiRoot, v.fname)
		switch v.fault {
		case "directory":
			must(os.MkdirAll(p, 0o755))
		case "dangling-link":
			must(os.Symlink("gone-"+v.fname, p))
		case "dangling-absolute-link":
			must(os.Symlink("/gone/"+v.fname, p))
		}
		st.nbDecoys += plantDecoys(r, dir, efiRoot, v.fname, i)
	}
	how := nbRootSpellings[r.IntN(len(nbRootSpellings))]
	given := efiRoot
	if how != "" && rootFault != "root-is-a-file" {
		given = spell(how, efiRoot, true)
	} else {
		how = "canonical"
	}
	where, _ := filepath.Rel(dir, efiRoot)
	gen := fmt.Sprintf("surroundings/root=%s(%s)/%s", where, how, pc.describe())

	// 1. the reader itself, for every variable the log names
	c.Begin(i, gen, entryReadVar, []byte(pc.describe()))
	rd := exel.MakeEfiVarFSReader(given)
	for _, v := range vars {
		var out []byte
		var err error
		g := gen + "/read=" + v.fault
		if m := c.Guard(i, entryReadVar, g, core.Budget{}, func() { out, err = rd.ReadVariable(uuid.UUID(v.guid), append(ucs2(v.name), 0, 0)) }); m.Panicked {
			continue
		}
		content, whole := pc.varFiles[v.fname]
		whole = whole && len(content) >= 4
		res := "error"
		switch {
		case err != nil && whole:
			c.Oracle(i, entryReadVar, "present-variable-not-returned", g, "variable file %q exists under the root (%d bytes) but the read failed: %v", v.fname, len(content), err)
		case err != nil:
			st.nbReadsFaulted++
		case hasCanary(out):
			res = "escaped"
			c.Violate(core.Violation{Kind: "oracle", Entry: entryReadVar, Site: "read-outside-efivarfs-root", Gen: g, Case: i,
				Detail:  fmt.Sprintf("variable %q (%s) under root %s returned the content of a file outside the root: %.80q", v.fname, v.fault, given, out),
				Witness: map[string]any{"name": v.name, "guid": guidText(v.guid), "fault": v.fault, "root": where}})
		case !whole || !bytes.Equal(out, content[4:]):
			res = "unknown-bytes"
			c.Oracle(i, entryReadVar, "returned-bytes-are-not-a-variable-inside-the-root", g, "variable %q (%s) returned %d bytes %.60q that are not content[4:] of a regular file of that name inside %s", v.fname, v.fault, len(out), out, given)
		default:
			res = "inside"
			st.nbReadsInside++
		}
		c.Cell("surroundings|read|%s|root=%s|%s|%s", v.fault, nbRootClass(where), how, res)
	}
	c.End(i)

	// 2. through extraction
	c.Begin(i, gen, entryDirect, []byte(pc.describe()))
	defer c.End(i)
	judge := func(entry string, o outcome) {
		if o.panicked {
			return
		}
		if hasCanary(o.out) {
			c.Violate(core.Violation{Kind: "oracle", Entry: entry, Site: "read-outside-efivarfs-root", Gen: gen, Case: i,
				Detail:  fmt.Sprintf("extraction returned the content of a file outside the efivarfs root %s: %.80q (err=%v urls=%v)", given, o.out, o.err, o.urls),
				Witness: map[string]any{"case": pc.describe(), "root": where}})
			return
		}
		pc.judge(c, i, entry, gen, o)
	}
	o1 := pc.runDirect(c, i, gen, log, given)
	if log.tainted {
		c.Count("log-medium/pipe-not-served-whole(case-skipped)", 1)
		return
	}
	judge(entryDirect, o1)
	o2 := pc.runDirect(c, i, gen, log, given)
	if !o1.panicked && !o2.panicked && !log.tainted && o1.key() != o2.key() {
		c.Oracle(i, entryDirect, "not-deterministic", gen, "same inputs, two results: %.200s vs %.200s", o1.key(), o2.key())
	}
	if viaCLI && pc.prov != "none" {
		c.Begin(i, gen, entryCLI, []byte(pc.describe()))
		if o3 := pc.runCLI(c, i, gen, log, given); !log.tainted {
			judge(entryCLI, o3)
		}
	}
	if o1.panicked {
		return
	}
	state, blob, _ := pc.elModel()
	faulted := false
	for _, v := range vars {
		faulted = faulted || !strings.HasPrefix(v.fault, "none(present")
	}
	if want, ok := pc.localEntry(); ok && faulted && !pc.force && state == "nothing" && o1.err == nil && bytes.Equal(o1.out, want) {
		st.nbEntryAfter++
	}
	if !pc.force && state == "blob" && o1.err == nil && bytes.Equal(o1.out, blob) && bytes.HasPrefix(blob, []byte("VAR")) {
		st.nbBlobAmid++
	}
	c.Cell("surroundings|extract|%s|root=%s|f=%v|%s", pc.shape.name, nbRootClass(where), pc.force, outcomeClass(pc, o1))
}

func nbRootClass(where string) string {
	return map[int]string{0: "in-the-case-directory", 1: "one-below", 3: "as-under-sysfs"}[strings.Count(where, "/")]
}

// plantWorldDecoys extends the static confine world (after every draw that made the older files):
// next to the root, base/vars/<name>-<guid>/{data,raw_var} for the names that fail under the root.
func (w *confWorld) plantWorldDecoys(r *rand.Rand) {
	for _, g := range w.guids {
		for _, name := range []string{"Missing", "Dir", "Short", "Empty", "plain", "loop", "Plain", "canary", "x", "FirmwareRIM"} {
			plantDecoys(r, w.base, w.root, name+"-"+guidText(g), 0)
		}
	}
}

// ---- defaults ----

// the documented defaults of extract.DefaultOptions(), stated by the monitor
const kernelEventLog = "/sys/kernel/security/tpm0/binary_bios_measurements"

var hostLogOnce sync.Once
var hostLogAbsent bool

// hostHasNoKernelLog: the default event-log location names nothing on this host, so that a user who
// leaves the location alone is a user whose event log is a missing file.
func hostHasNoKernelLog() bool {
	hostLogOnce.Do(func() {
		_, err := os.Lstat(kernelEventLog)
		hostLogAbsent = errors.Is(err, os.ErrNotExist)
	})
	return hostLogAbsent
}

type defUser struct {
	pc       *precCase
	log      *placedLog
	efiRoot  string
	gen      string
	leaveLog bool
	refill   bool
	g        *recGetter
	opts     *extract.Options
	assigned map[string]bool
	o        outcome
	panics   []string
}

var defFields = []string{"EventLogLocation", "UEFIVariableReader", "FirmwareManufacturer", "Quote", "Provider", "ForceFetch"}

// assign sets in u.opts only what this user means to differ from the defaults in. The getter is
// always assigned (the default one would go to the real network).
func (u *defUser) assign() {
	pc, o := u.pc, u.opts
	u.assigned = map[string]bool{}
	set := func(f string) { u.assigned[f] = true }
	u.g = &recGetter{fail: pc.getter == "fails"}
	o.Getter = nil
	if pc.getter != "nil" {
		o.Getter = u.g
	}
	if !u.leaveLog {
		o.EventLogLocation = u.log.path
		set("EventLogLocation")
	}
	if pc.haveLog { // the default reader (the host's efivarfs) is left alone only where no log can name a variable
		o.UEFIVariableReader = exel.MakeEfiVarFSReader(u.efiRoot)
		set("UEFIVariableReader")
	}
	if pc.mfrOpt != googleMfr {
		o.FirmwareManufacturer = pc.mfrOpt
		set("FirmwareManufacturer")
	}
	if pc.q.kind.name != "none" {
		if u.refill {
			o.Quote = append(o.Quote[:0], pc.quote...)
		} else {
			o.Quote = pc.quote
		}
		set("Quote")
	}
	switch pc.prov {
	case "none":
	case "error":
		o.Provider = &provider{err: errors.New("provider: no TEE device")}
		set("Provider")
	default:
		o.Provider = &provider{quote: pc.provQuote}
		set("Provider")
	}
	if pc.force {
		o.ForceFetch = true
		set("ForceFetch")
	}
}

func (u *defUser) guarded(f func()) {
	defer func() {
		if r := recover(); r != nil {
			u.panics = append(u.panics, fmt.Sprint(r))
			u.o.panicked = true
		}
	}()
	f()
}

func runDefaults(c *core.Ctx, sc *scratch, i int, st *round4Stats) {
	r := c.Rand(i)
	nUsers := 2 + r.IntN(4)
	together := r.IntN(3) == 0
	mode := map[bool]string{true: "together", false: "one-after-another"}[together]
	dir := filepath.Join(sc.dir, fmt.Sprintf("f%d", i))
	defer os.RemoveAll(dir)
	c.Begin(i, "defaults/"+mode, entryDirect, nil)
	defer c.End(i)

	users := make([]*defUser, 0, nUsers+1)
	for k := 0; k <= nUsers; k++ {
		pc := precDecode(r.IntN(precTotal()))
		switch {
		case k == nUsers: // the last user has nothing at all: the bare defaults (but for the log location and the getter)
			pc = &precCase{shape: shapeNamed("absent"), mfrOpt: googleMfr, q: qVariants[0], prov: "none", getter: "answers"}
		default:
			if r.IntN(2) == 0 {
				pc.force, pc.shape = false, drawShape(r)
			}
			if r.IntN(3) == 0 { // "no quote: ask the provider / the event log"
				pc.q = qVariants[0]
			}
			if r.IntN(3) == 0 {
				pc.mfrOpt = googleMfr
			}
			if r.IntN(6) == 0 {
				pc.shape = shapeNamed("missing-file")
			}
		}
		pc.build(r, i*16+k)
		u := &defUser{pc: pc, refill: r.IntN(2) == 0}
		u.leaveLog = pc.shape.file == "missing" && hostHasNoKernelLog() && r.IntN(2) == 0
		d := filepath.Join(dir, fmt.Sprintf("u%d", k))
		must(os.MkdirAll(d, 0o755))
		u.log, u.efiRoot = pc.materialise(d)
		left := ""
		if u.leaveLog {
			left = "/log-location-left-at-the-default"
		}
		u.gen = fmt.Sprintf("defaults/%s/user=%d-of-%d%s/%s", mode, k, nUsers+1, left, pc.describe())
		users = append(users, u)
	}

	call := func(u *defUser) {
		u.log.serve(func() { u.guarded(func() { u.o.out, u.o.err = extract.Endorsement(u.opts) }) })
		u.o.urls = append([]string(nil), u.g.urls...)
	}
	if together {
		// every user takes its defaults, then every user assigns its fields, then all extract at once
		var wg sync.WaitGroup
		phase := func(f func(u *defUser)) {
			for _, u := range users {
				wg.Add(1)
				go func(u *defUser) {
					defer wg.Done()
					f(u)
				}(u)
			}
			wg.Wait()
		}
		phase(func(u *defUser) { u.guarded(func() { u.opts = extract.DefaultOptions() }) })
		phase(func(u *defUser) {
			if u.opts != nil {
				u.assign()
			}
		})
		phase(func(u *defUser) {
			if u.opts != nil {
				call(u)
			}
		})
		st.defTogether++
	} else {
		for _, u := range users {
			u.guarded(func() { u.opts = extract.DefaultOptions() })
			if u.opts == nil {
				continue
			}
			u.assign()
			call(u)
		}
	}

	// judged afterwards, every call by the sources of its user
	assignedBefore := map[string]bool{}
	if together {
		for _, u := range users {
			for f := range u.assigned {
				assignedBefore[f] = true
			}
		}
	}
	for k, u := range users {
		c.Eval(1)
		for _, p := range u.panics {
			c.Violate(core.Violation{Kind: "panic", Entry: entryDirect, Site: "call-on-default-options-panicked", Gen: u.gen, Case: i, Detail: p})
		}
		if u.opts == nil || u.o.panicked {
			continue
		}
		if u.log.tainted {
			c.Count("log-medium/pipe-not-served-whole(case-skipped)", 1)
		} else {
			u.pc.judge(c, i, entryDirect, u.gen, u.o)
			st.defUsers++
			if k == nUsers {
				st.defBare++
			}
			var leftF []string
			for _, f := range defFields {
				if !u.assigned[f] {
					st.defLeft++
					leftF = append(leftF, f)
					if assignedBefore[f] {
						st.defLeftAfterSet++
					}
				}
			}
			c.Count("defaults/calls/"+mode, 1)
			c.Cell("defaults|%s|left=%s|%s", mode, strings.Join(leftF, "+"), outcomeClass(u.pc, u.o))
		}
		if !together {
			for f := range u.assigned {
				assignedBefore[f] = true
			}
		}
	}
}
