package c16

// The medium that holds the boot event log. The log the extractor reads in production
// (/sys/kernel/security/tpm0/binary_bios_measurements) is served by securityfs: like every procfs /
// sysfs / securityfs file, pipe or character device its stat size (0) says nothing about its
// contents, and it may be reached through a symbolic link. The property speaks of "the event log",
// not of a regular file, so every family that feeds a log to extract.Endorsement places it on one
// of: a regular file, a named pipe (stat size 0, not seekable, contents delivered on open), a
// symbolic link to either.
//
// A named pipe is served by a goroutine that opens it for writing (which completes when the
// extractor opens it for reading), raises the pipe capacity to the log length and hands the whole
// log over in ONE write, then closes (= end of file). A write that fits the capacity of an empty
// pipe is made under the pipe lock, so the reader sees nothing or everything and never a short
// read caused by the harness. If the write was not taken in one piece the run is marked
// tainted and nothing that depends on the log is judged.

import (
	"math/rand/v2"
	"os"
	"path/filepath"
	"runtime"
	"sync"
	"syscall"
)

type logMedium int

const (
	mediumRegular logMedium = iota
	mediumFIFO
	mediumLinkRegular
	mediumLinkFIFO
)

func (m logMedium) String() string {
	return [...]string{"regular-file", "named-pipe", "symlink-to-regular-file", "symlink-to-named-pipe"}[m]
}

func (m logMedium) fifo() bool { return m == mediumFIFO || m == mediumLinkFIFO }

// drawMedium: half of the logs stay on a regular file.
func drawMedium(r *rand.Rand) logMedium {
	switch r.IntN(8) {
	case 0, 1:
		return mediumFIFO
	case 2:
		return mediumLinkFIFO
	case 3:
		return mediumLinkRegular
	}
	return mediumRegular
}

const fSetPipeSz, fGetPipeSz = 1031, 1032 // F_SETPIPE_SZ, F_GETPIPE_SZ (linux)

func fcntl(fd int, cmd, arg uintptr) (int, error) {
	for {
		r, _, e := syscall.Syscall(syscall.SYS_FCNTL, uintptr(fd), cmd, arg)
		if e == syscall.EINTR {
			continue
		}
		if e != 0 {
			return 0, e
		}
		return int(r), nil
	}
}

var pipeCapOnce sync.Once
var pipeCapMax int

// pipeCapacity is the largest capacity this process can give a pipe (probed once).
func pipeCapacity() int {
	pipeCapOnce.Do(func() {
		var p [2]int
		if err := syscall.Pipe2(p[:], syscall.O_CLOEXEC); err != nil {
			return
		}
		defer syscall.Close(p[0])
		defer syscall.Close(p[1])
		for _, want := range []int{4 << 20, 1 << 20, 256 << 10} {
			if got, err := fcntl(p[1], fSetPipeSz, uintptr(want)); err == nil && got >= want {
				pipeCapMax = got
				return
			}
		}
		if got, err := fcntl(p[1], fGetPipeSz, 0); err == nil {
			pipeCapMax = got
		}
	})
	return pipeCapMax
}

// placedLog is a boot event log placed on a medium under dir.
type placedLog struct {
	path    string // what the extractor is given
	fifo    string // the named pipe to serve ("" for a regular file)
	data    []byte
	medium  logMedium // the medium actually used (falls back to a regular file when a pipe cannot hold the log)
	tainted bool      // some serve() could not hand the log over in one piece
	served  int       // number of times the pipe was opened by a reader other than the harness
}

// placeLog writes data under dir/name on the asked-for medium. ok=false in fellBack: a named pipe was
// asked for but cannot take the log in one write (or cannot be created); a regular file is used.
func placeLog(dir, name string, data []byte, m logMedium) (pl *placedLog, fellBack bool) {
	pl = &placedLog{data: data, medium: m}
	target := filepath.Join(dir, name)
	if m == mediumLinkRegular || m == mediumLinkFIFO {
		target = filepath.Join(dir, name+".target")
	}
	os.Remove(target)
	if m.fifo() {
		if len(data) > pipeCapacity() || syscall.Mkfifo(target, 0o600) != nil {
			fellBack = true
			if m == mediumFIFO {
				pl.medium = mediumRegular
			} else {
				pl.medium = mediumLinkRegular
			}
		} else {
			pl.fifo = target
		}
	}
	if pl.fifo == "" {
		must(os.WriteFile(target, data, 0o644))
	}
	pl.path = target
	if m == mediumLinkRegular || m == mediumLinkFIFO {
		pl.path = filepath.Join(dir, name)
		os.Remove(pl.path)
		// a relative link, as /sys/kernel/security/tpm0 -> ../... style links are
		must(os.Symlink(name+".target", pl.path))
	}
	return pl, fellBack
}

func openRetry(path string, flags int) (int, error) {
	for {
		fd, err := syscall.Open(path, flags|syscall.O_CLOEXEC, 0)
		if err == syscall.EINTR {
			continue
		}
		return fd, err
	}
}

// serve runs fn while the log is on offer: a regular file needs nothing; a named pipe is fed once
// (one open by a reader gets the whole log followed by end of file).
func (pl *placedLog) serve(fn func()) {
	if pl == nil || pl.fifo == "" {
		fn()
		return
	}
	done := make(chan struct{})
	var whole, readerCame bool
	released := make(chan struct{})
	go func() {
		defer close(done)
		fd, err := openRetry(pl.fifo, syscall.O_WRONLY) // blocks until a reader opens the pipe
		if err != nil {
			return
		}
		defer syscall.Close(fd)
		select {
		case <-released: // the harness opened the pipe to let this goroutine go: nobody is reading
			whole = true
			return
		default:
		}
		readerCame = true
		// from here on never block: a write that the pipe cannot take whole comes back partial and is noticed
		if _, err := fcntl(fd, syscall.F_SETFL, uintptr(syscall.O_WRONLY|syscall.O_NONBLOCK)); err != nil {
			return
		}
		if len(pl.data) == 0 {
			whole = true
			return
		}
		if cur, err := fcntl(fd, fGetPipeSz, 0); err != nil || cur < len(pl.data) {
			if got, err := fcntl(fd, fSetPipeSz, uintptr(len(pl.data))); err != nil || got < len(pl.data) {
				return // not in one piece: leave the reader with an empty log, tainted
			}
		}
		for {
			n, err := syscall.Write(fd, pl.data)
			if err == syscall.EINTR {
				continue
			}
			if err == syscall.EAGAIN { // cannot happen on the empty pipe of a fresh open; treat as not whole
				n, err = 0, nil
			}
			// EPIPE: the reader closed without reading, which is its business
			whole = err == syscall.EPIPE || (err == nil && n == len(pl.data))
			if err == nil && n < len(pl.data) { // hand over the rest so that the reader is not left hanging; the run is tainted
				rest := pl.data[n:]
				for len(rest) > 0 {
					k, e := syscall.Write(fd, rest)
					if e != nil && e != syscall.EINTR && e != syscall.EAGAIN {
						break
					}
					if e == nil {
						rest = rest[k:]
					} else {
						runtime.Gosched()
					}
				}
			}
			return
		}
	}()
	func() {
		defer func() {
			// let the writer go if nobody opened the pipe
			close(released)
			rfd, err := openRetry(pl.fifo, syscall.O_RDONLY|syscall.O_NONBLOCK)
			<-done
			if err == nil {
				syscall.Close(rfd)
			}
		}()
		fn()
	}()
	if !whole {
		pl.tainted = true
	}
	if readerCame {
		pl.served++
	}
}
