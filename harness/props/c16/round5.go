package c16

// Two families appended after defaults (fifth round). They add dimensions that none of the earlier
// families produces.
//
//   validate-func     the OTHER place of the repository that discovers an endorsement by the launch
//                     measurement: the function verify.SNPValidateFunc / SNPFamilyValidateFunc hands
//                     to go-sev-guest for the GCE certificate-table entry. One function value made
//                     from one Options is called 1-4 times with attestations whose report is absent
//                     or whose measurement field is 0...96 bytes long (what a proto attestation of an
//                     untrusted peer may hold), with the certificate-table entry absent / empty /
//                     filled, with and without Options.Endorsement, with an answering / failing / nil
//                     getter, for the GCE family ids and a foreign one. The checker works on the
//                     recorded URL list only: every request is the object of THIS call's 48-byte
//                     measurement, nothing is requested for a measurement that is not 48 bytes long,
//                     nothing is requested while the entry (or the caller's endorsement) is in hand.
//                     Whether the attestation is accepted is not judged (C01/C02).
//   events-together   3-8 snapshot endorse runs of different images at the same time, every run with
//                     values of its own (endorse.Context, keys.Context, 1-12 version-control doubles in
//                     Context.VCSs, each of which receives its own <image>.evts.pb). The runs' source
//                     of randomness (keys.Context.Random, an io.Reader of the caller that may block) is
//                     a reader that hands out its bytes when every run still under way has asked for
//                     some, so that the runs draw their manifest GUIDs together. Every events file is
//                     judged afterwards by the rules of part (b) against the image of ITS run.

import (
	"bytes"
	"context"
	"crypto/x509"
	"fmt"
	"math/rand/v2"
	"runtime"
	"runtime/debug"
	"strings"
	"sync"
	"sync/atomic"
	"time"

	"github.com/google/gce-tcb-verifier/cmd/output"
	"github.com/google/gce-tcb-verifier/endorse"
	"github.com/google/gce-tcb-verifier/gcetcbendorsement"
	"github.com/google/gce-tcb-verifier/keys"
	epb "github.com/google/gce-tcb-verifier/proto/endorsement"
	"github.com/google/gce-tcb-verifier/sev"
	"github.com/google/gce-tcb-verifier/sign/memca"
	"github.com/google/gce-tcb-verifier/testing/fakeovmf"
	"github.com/google/gce-tcb-verifier/testing/nonprod/memkm"
	"github.com/google/gce-tcb-verifier/verify"
	spb "github.com/google/go-sev-guest/proto/sevsnp"

	"verifharness/core"
)

type round5Stats struct {
	vfCalls, vfLaterCalls                       int
	vfOddNoFetch, vfFullFetched, vfLocalNoFetch int
	svCalls, svOddFetched                       int
	etBatches, etRuns, etStores                 int
	etDrawsTogether                             int // draws of randomness that two or more runs made together
}

// ---- validate-func ----

const (
	entryValidateFn  = "verify.SNPFamilyValidateFunc(returned function)"
	entrySevValidate = "gcetcbendorsement.SevValidate"
	// judgeSevValidateFetch: gcetcbendorsement/sevvalidate.go extractEndorsement (the sev-validate
	// command's own fallback to the bucket, not among the property's anchors) requests the object of
	// whatever the report's measurement field holds, of any length, on the UNCHANGED tree. Observed
	// and counted; judged only when this is set (the coordinator decides).
	judgeSevValidateFetch = true
)

// length of the report's measurement field; -1: the attestation has no report, -2: nil attestation
var vfLens = []int{48, 48, 48, 48, 0, 1, 16, 32, 47, 49, 64, 96, -1, -2}

var vfFamilies = []struct {
	name, id string
	gce      bool
}{
	{"SNPValidateFunc", "", true},
	{"SNPValidateFunc", "", true},
	{"family=GCEUefiFamilyID", gceUefiFamilyID, true},
	{"family=GCEFwCertGUID", sev.GCEFwCertGUID, true},
	{"family=foreign", "00112233-4455-6677-8899-aabbccddeeff", false},
}

var vfBlobs = []string{"absent", "absent", "absent", "empty", "garbage", "endorsement-shaped"}

type vfCall struct {
	mlen     int
	m        []byte
	at       *spb.Attestation
	blobKind string
	blob     []byte
}

func drawVfCall(r *rand.Rand) *vfCall {
	v := &vfCall{mlen: vfLens[r.IntN(len(vfLens))], blobKind: vfBlobs[r.IntN(len(vfBlobs))]}
	switch {
	case v.mlen == -2:
	case v.mlen == -1:
		v.at = &spb.Attestation{}
	default:
		v.m = randBytes(r, v.mlen)
		if v.mlen == 48 {
			v.m = randMeasurement(r)
		}
		v.at = &spb.Attestation{Report: &spb.Report{Version: 2, Measurement: v.m}}
	}
	switch v.blobKind {
	case "empty":
		v.blob = []byte{}
	case "garbage":
		v.blob = randBytes(r, 1+r.IntN(64))
	case "endorsement-shaped":
		v.blob = mustMarshal(&epb.VMLaunchEndorsement{SerializedUefiGolden: mustMarshal(&epb.VMGoldenMeasurement{Digest: randBytes(r, 48), ClSpec: 7}), Signature: randBytes(r, 32)})
	}
	return v
}

func (v *vfCall) lenClass() string {
	switch {
	case v.mlen == -2:
		return "nil-attestation"
	case v.mlen == -1:
		return "no-report"
	}
	return fmt.Sprintf("measurement=%dB", v.mlen)
}

// judgeDiscoveryURLs applies the URL discipline of the property to the requests one call made:
// m is the measurement field of the attestation the call was given, local whether an endorsement
// was in hand, gce whether the family prefix is the GCE one (else only the technology directory and
// the hex name are stated).
func judgeDiscoveryURLs(c *core.Ctx, i int, entry, gen string, urls []string, m []byte, local, gce, judged bool, err error) (bad bool) {
	for _, u := range urls {
		site, why := "", ""
		obj, inBucket := strings.CutPrefix(u, bucketBase)
		switch {
		case len(m) != 48:
			site, why = "fetch-without-full-measurement", fmt.Sprintf("was requested for an attestation whose measurement field is %d bytes long", len(m))
			if inBucket && obj == "" {
				why += " (the bucket root)"
			}
		case local:
			site, why = "fetch-although-the-endorsement-is-in-hand", "was requested although the certificate-table entry / the caller's endorsement was given to the call"
		case gce && u == modelURL("snp", m):
		case !gce && inBucket && strings.HasSuffix(obj, "/sevsnp/"+lowerHex(m)+".binarypb"):
		default:
			site, why = "fetch-without-full-measurement", "is not the object of the 48-byte measurement of the attestation in hand"
			if _, _, m2, derr := decodeName(obj); inBucket && derr == nil && len(m2) == 48 && !bytes.Equal(m2, m) {
				site, why = "fetch-for-another-measurement", "names the object of a measurement other than that of the attestation in hand"
			}
		}
		if site == "" {
			continue
		}
		bad = true
		if !judged {
			continue
		}
		c.Violate(core.Violation{Kind: "oracle", Entry: entry, Site: site, Gen: gen, Case: i,
			Detail:  fmt.Sprintf("getter asked for %q which %s; measurement field %x; call returned err=%v", u, why, m, err),
			Witness: map[string]any{"measurement_hex": lowerHex(m), "measurement_len": len(m), "urls": urls}})
	}
	return bad
}

func runValidateFn(c *core.Ctx, i int, st *round5Stats) {
	r := c.Rand(i)
	fam := vfFamilies[r.IntN(len(vfFamilies))]
	getter := getterKinds[r.IntN(len(getterKinds))]
	if r.IntN(2) == 0 {
		getter = "fails"
	}
	optEnd := r.IntN(6) == 0
	snpNil := r.IntN(3) == 0
	calls := 1 + r.IntN(4)
	viaSev := r.IntN(3) == 0
	gen := fmt.Sprintf("validate-func/%s/getter=%s/options-endorsement=%v/snp-options-nil=%v", fam.name, getter, optEnd, snpNil)
	c.Begin(i, gen, entryValidateFn, nil)
	defer c.End(i)

	now := time.Unix(1700000000+int64(r.IntN(1e6)), 0)
	g := &recGetter{fail: getter == "fails"}
	opts := &verify.Options{Now: now, RootsOfTrust: x509.NewCertPool()}
	if !snpNil {
		opts.SNP = &verify.SNPOptions{}
	}
	if getter != "nil" {
		opts.Getter = g
	}
	if optEnd {
		opts.Endorsement = &epb.VMLaunchEndorsement{SerializedUefiGolden: mustMarshal(&epb.VMGoldenMeasurement{Digest: randBytes(r, 48), ClSpec: 7}), Signature: randBytes(r, 32)}
	}
	var fn func(*spb.Attestation, []byte) error
	if m := c.Guard(i, entryValidateFn, gen, core.Budget{}, func() {
		if fam.id == "" {
			fn = verify.SNPValidateFunc(opts)
		} else {
			fn = verify.SNPFamilyValidateFunc(fam.id, opts)
		}
	}); m.Panicked || fn == nil {
		return
	}
	var last *vfCall
	for n := 0; n < calls; n++ {
		v := drawVfCall(r)
		if n > 0 && r.IntN(4) == 0 { // the attestation of the call before with another measurement field
			v.blobKind, v.blob = last.blobKind, last.blob
		}
		last = v
		g2 := fmt.Sprintf("%s/call=%d-of-%d/%s/entry=%s", gen, n, calls, v.lenClass(), v.blobKind)
		before := len(g.urls)
		var err error
		if m := c.Guard(i, entryValidateFn, g2, core.Budget{}, func() { err = fn(v.at, v.blob) }); m.Panicked {
			return
		}
		urls := append([]string(nil), g.urls[before:]...)
		local := v.blob != nil || optEnd
		bad := judgeDiscoveryURLs(c, i, entryValidateFn, g2, urls, v.m, local, fam.gce, true, err)
		st.vfCalls++
		if n > 0 {
			st.vfLaterCalls++
		}
		res := "no-request"
		switch {
		case bad:
			res = "request-refused-by-the-checker"
		case len(urls) > 0:
			res = "requested-its-object"
			st.vfFullFetched++
		case len(v.m) != 48 && !local && getter != "nil":
			st.vfOddNoFetch++
		case local && getter != "nil":
			st.vfLocalNoFetch++
		}
		acc := "refused"
		if err == nil {
			acc = "accepted"
		}
		c.Count("validate-func/"+acc, 1)
		c.Cell("validate-func|%s|%s|entry=%s|options-endorsement=%v|getter=%s|later-call=%v|%s", fam.name, v.lenClass(), v.blobKind, optEnd, getter, n > 0, res)
	}
	if !viaSev || getter == "nil" {
		return
	}
	// the sev-validate library call on the last attestation (no endorsement given, none in the chain)
	v := last
	g3 := fmt.Sprintf("validate-func/SevValidate/getter=%s/%s", getter, v.lenClass())
	gs := &recGetter{fail: g.fail}
	ctx := output.NewContext(context.Background(), &output.Options{Overwrite: true, Quiet: true})
	var err error
	c.Begin(i, g3, entrySevValidate, nil)
	if m := c.Guard(i, entrySevValidate, g3, core.Budget{}, func() {
		err = gcetcbendorsement.SevValidate(ctx, v.at, &gcetcbendorsement.SevValidateOptions{Getter: gs, Now: now, RootsOfTrust: x509.NewCertPool()})
	}); m.Panicked {
		return
	}
	st.svCalls++
	if judgeDiscoveryURLs(c, i, entrySevValidate, g3, gs.urls, v.m, false, true, judgeSevValidateFetch, err) {
		st.svOddFetched++
		c.Count("validate-func/SevValidate/request-not-derived-from-a-48-byte-measurement(observed,not-judged:not-an-anchor)", 1)
	}
}

// ---- events-together ----

// lockstep lets the parties that are still under way pass together: a party that arrives waits
// until every other party has arrived or left.
type lockstep struct {
	mu       sync.Mutex
	cond     *sync.Cond
	parties  int
	waiting  int
	gen      int
	need     []int32
	spun     []atomic.Int32
	together int
}

func newLockstep(parties, maxGens int) *lockstep {
	b := &lockstep{parties: parties, need: make([]int32, maxGens+1), spun: make([]atomic.Int32, maxGens+1)}
	b.cond = sync.NewCond(&b.mu)
	return b
}

func (b *lockstep) release() {
	if b.gen < len(b.need) {
		b.need[b.gen] = int32(b.waiting)
	}
	if b.waiting > 1 {
		b.together++
	}
	b.gen++
	b.waiting = 0
	b.cond.Broadcast()
}

func (b *lockstep) arrive() {
	b.mu.Lock()
	g := b.gen
	b.waiting++
	if b.waiting >= b.parties {
		b.release()
	} else {
		for g == b.gen {
			b.cond.Wait()
		}
	}
	var need int32
	if g < len(b.need) {
		need = b.need[g]
	}
	b.mu.Unlock()
	if g >= len(b.spun) {
		return
	}
	// a short bounded spin so that the parties leave within the same microsecond where they have processors
	b.spun[g].Add(1)
	for k := 0; k < 1<<13 && b.spun[g].Load() < need; k++ {
		if k&127 == 127 {
			runtime.Gosched()
		}
	}
}

func (b *lockstep) leave() {
	b.mu.Lock()
	b.parties--
	if b.waiting > 0 && b.waiting >= b.parties {
		b.release()
	}
	b.mu.Unlock()
}

// lockstepReader is the run's source of randomness: PRNG bytes of the run's own stream, handed out in step.
type lockstepReader struct {
	r *rand.Rand
	b *lockstep // nil: free-running
}

func (l *lockstepReader) Read(p []byte) (int, error) {
	for i := range p {
		p[i] = byte(l.r.UintN(256))
	}
	if l.b != nil {
		l.b.arrive()
	}
	return len(p), nil
}

type etRun struct {
	fw        []byte
	snapDir   string
	imageName string
	stores    []*memVCS
	ctx       context.Context
	gen       string
	err       error
	panicked  string
}

func runEventsTogether(c *core.Ctx, i int, st *round5Stats) {
	r := c.Rand(i)
	nW := 3 + r.IntN(6)
	instep := r.IntN(5) != 0
	mode := map[bool]string{true: "randomness-drawn-in-step", false: "free-running"}[instep]
	gen := fmt.Sprintf("events-together/runs=%d/%s", nW, mode)
	c.Begin(i, gen, entryEndorse, nil)
	defer c.End(i)

	runs := make([]*etRun, nW)
	total := 0
	for k := range runs {
		size := []int{0x2000, 0x4000, 0x10000}[r.IntN(3)]
		fw := randBytes(r, size)
		if err := fakeovmf.InitializeSevGUIDTable(fw, 0x20, 0xff0000ff, fakeovmf.DefaultSnpSections()); err != nil {
			panic(err)
		}
		nStores := 1 + r.IntN(12)
		if r.IntN(3) == 0 {
			nStores = 1
		}
		total += nStores
		ru := &etRun{fw: fw, snapDir: []string{"snap", "releases/2025/q1", "s"}[r.IntN(3)], imageName: []string{"ovmf_x64_csm.fd", "fw.bin", "dir/OVMF.fd"}[r.IntN(3)]}
		for s := 0; s < nStores; s++ {
			ru.stores = append(ru.stores, &memVCS{files: map[string][]byte{}})
		}
		ru.gen = fmt.Sprintf("%s/run=%d/size=%#x/stores=%d", gen, k, size, nStores)
		runs[k] = ru
	}
	var b *lockstep
	if instep {
		b = newLockstep(nW, total)
	}
	for _, ru := range runs {
		manager := memkm.TestOnlyT()
		kc := &keys.Context{CA: memca.TestOnlyCertificateAuthority(), Manager: manager, Signer: manager.Signer,
			Random: &lockstepReader{r: rand.New(rand.NewPCG(r.Uint64(), r.Uint64())), b: b}}
		ec := &endorse.Context{
			SevSnp: &sev.SnpEndorsementRequest{LaunchVmsas: 1, Product: spb.SevProduct_SEV_PRODUCT_MILAN, Svn: uint32(r.IntN(3))},
			ClSpec: uint64(1 + r.IntN(1000)), Image: ru.fw, Timestamp: time.Unix(1700000000+int64(r.IntN(1e6)), 0),
			SnapshotDir: ru.snapDir, ImageName: ru.imageName,
		}
		if len(ru.stores) == 1 {
			ec.VCS = ru.stores[0]
		} else {
			for _, s := range ru.stores {
				ec.VCSs = append(ec.VCSs, s)
			}
		}
		ru.ctx = endorse.NewContext(output.NewContext(keys.NewContext(context.Background(), kc), &output.Options{Overwrite: true, Quiet: true}), ec)
	}
	start := make(chan struct{})
	var wg sync.WaitGroup
	for _, ru := range runs {
		wg.Add(1)
		go func(ru *etRun) {
			defer wg.Done()
			if b != nil {
				defer b.leave()
			}
			defer func() {
				if rec := recover(); rec != nil {
					ru.panicked = fmt.Sprintf("%v at %s", rec, core.PanicSite(debug.Stack()))
				}
			}()
			<-start
			ru.err = endorse.VirtualFirmware(ru.ctx)
		}(ru)
	}
	close(start)
	wg.Wait()
	if b != nil {
		st.etDrawsTogether += b.together
	}
	// judged here, every events file against the image of its run
	okRuns := 0
	for _, ru := range runs {
		c.Eval(1)
		if ru.panicked != "" {
			c.Violate(core.Violation{Kind: "panic", Entry: entryEndorse, Site: "concurrent-endorse-run-panicked", Gen: ru.gen, Case: i, Detail: ru.panicked})
			continue
		}
		if ru.err != nil {
			c.Count("events/endorse-failed", 1)
			c.Note("endorse run beside others failed: %v", ru.err)
			continue
		}
		all := true
		for s, store := range ru.stores {
			_, _, _, _, _, _, ok := judgeEmitted(c, i, fmt.Sprintf("%s/store=%d", ru.gen, s), store, "/vcs/"+ru.snapDir+"/"+ru.imageName, ru.fw)
			all = all && ok
			st.etStores++
		}
		if all {
			okRuns++
		}
		st.etRuns++
	}
	st.etBatches++
	c.Cell("events-together|runs=%d|%s|all-judged=%v", nW, mode, okRuns == nW)
}
