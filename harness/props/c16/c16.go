// Package c16: endorsement discovery is deterministic, local-first and confined.
package c16

import (
	"fmt"

	"verifharness/core"
	"verifharness/doubles"
)

func init() {
	core.Register(&core.Info{
		ID: "C16", Level: "exploration",
		Rule: "twelve case families over one index space (families five to eight appended by the audit of the workload's dimensions, nine and ten in the fourth round, the last two in the fifth; earlier families keep their case numbers). names: (measurement, related measurement) pairs through GCETcbObjectName (SNP, TDX) and GCETcbURL against the monitor's own name model and inverse; " +
			"events: a real snapshot endorse run of a generated image, its <image>.evts.pb decoded by an independent SP800-155 decoder and by the repository's, then fed through a generated boot event log into extract.Endorsement; " +
			"precedence: one point of the product {event-log shape} x {manufacturer filter} x {quote format x entry} x {provider} x {getter} x {forced fetch}, a third of the logs also carrying decoy events (another event type than EV_NO_ACTION whose data is a well-formed SP800-155 Event3 with a raw or URI locator, which is no reference-manifest event), its event log kept on a drawn medium (regular file, named pipe, symbolic link to either), run through extract.Endorsement (twice) and, for a third, through the extract command; " +
			"the checker works on the recorded URL list and the returned bytes; confine: (GUID, UCS-2 name) through EfiVarFSReader.ReadVariable and through an event-log variable locator against a scratch efivarfs tree with symlinks and outside canaries; " +
			"sequences: 3-6 calls of extract.Endorsement that use ONE event-log path, efivarfs root and set of variable names whose contents change between the calls (one source changed per step: same again, forced fetch toggled, variables rewritten / removed / created under their names, log rewritten, quote refilled, provider changed, getter changed, filter changed, all new), through one kept Options / variable reader / getter / provider value of which only the changed fields are re-assigned (quote buffer refilled in place) or through fresh values per call, returned slices edited by the caller or kept and compared after the later calls; " +
			"concurrent: 4-8 independent precedence cases released together on as many goroutines (4 rounds each), beside a tight loop over GCETcbObjectName/GCETcbURL per goroutine and reads through one shared EfiVarFSReader, every call judged afterwards by the sequential rules; " +
			"edges: recognised quote formats whose measurement field is 0/1/47/49/64/96 bytes long (supplied and from the provider), equivalent encodings of documented formats (protobuf field order, padded length varints, upper-case hex, base64 in lines), events whose platform manufacturer is not their firmware manufacturer and a foreign manufacturer filter, the efivarfs root and event-log path respelled (trailing / doubled slash, dot and dot-dot segments, directory symlink, relative; a directory as log), variable names that lead into a directory next to the root whose name starts with the root's; " +
			"events-again: 2-3 snapshot endorse runs of different images into one version-control double (same or another image name) from one kept endorse.Context whose Image is re-assigned, or from fresh Contexts, each run's events judged against that run's image; " +
			"surroundings: an event log with variable locators whose variables are whole or faulty under the root (absent, shorter than the attribute header, a directory, a dangling relative / absolute link; the root itself missing, a regular file, empty) while files and directories of the very name asked for lie AROUND the root (parent directory and the one above, vars/<name>-<guid>/data and raw_var of the legacy sysfs layout, a directory efivarfs, a backup copy of the root), the root standing directly in the case directory, one below, or as under /sys/firmware/efi, spelled canonically or not - every variable read through EfiVarFSReader.ReadVariable, the log through extract.Endorsement (twice) and for a third through the command's --efivarfs; the static tree of the confine family has the same legacy-layout files next to its root; " +
			"defaults: 2-5 independent users in one process plus one with no evidence at all, one after the other or all at the same time (taking, assigning, extracting in three phases), each of which takes extract.DefaultOptions() and assigns only the fields in which it differs from the documented defaults (the getter always; the log location left alone where the host has no kernel event log and the user's log is a missing file), every call judged by the precedence rules on its user's sources; " +
			"validate-func: one function value from verify.SNPValidateFunc / SNPFamilyValidateFunc (GCE family ids and a foreign one) called 1-4 times with attestations whose report is absent or whose measurement field is 0...96 bytes long, the certificate-table entry absent / empty / filled, with and without Options.Endorsement, getter answering / failing / nil - judged on the recorded URL list only (every request is the object of this call's 48-byte measurement; none without one; none with the endorsement in hand); the same attestation through gcetcbendorsement.SevValidate is observed and counted, not judged; " +
			"events-together: 3-8 snapshot endorse runs of different images at the same time, each with its own Context, keys and 1-12 version-control doubles in Context.VCSs, the runs' random readers handing out their bytes in step (four fifths) or freely, every <image>.evts.pb judged by the rules of the events family against the image of its run. " +
			"non-trivial = distinct (family, input class, outcome class) cells in which an oracle rule had something to decide",
		Assumptions: []string{
			"hex(measurement) in the object name is lower case (as the published bucket objects are); the name model is family prefix ovmf_x64_csm / sevsnp|tdx / hex .binarypb",
			"the quote in hand is the supplied quote when it names a 48-byte measurement, else the provider's; only its URL may be fetched",
			"a URI locator selected by the documented precedence (raw > variable > device path > URI among manufacturer-matching events) is fetched verbatim and is not judged as a missed local source",
			"rejections are counted, not judged; under forced fetch with a getter and a 48-byte measurement in hand the request list must be exactly that measurement's URL and a getter answer is what comes back; without such a measurement only the URLs are judged (none may be requested)",
			"boot event logs: three quarters are short, one quarter (and every log of the events family) carries 10-400 ordinary events with SHA-1/256/384 digest sets and data sizes up to 64 KiB before and after the RIM events",
			"the event log is evidence wherever it is kept: half of the generated logs (all three families that feed a log to extract.Endorsement) are on a regular file, the rest on a named pipe - the stand-in for the securityfs file /sys/kernel/security/tpm0/binary_bios_measurements, whose stat size is 0 whatever it holds - or behind a relative symbolic link to either; a pipe hands the whole log over in one write on open and then ends, and a case whose pipe did not take the log whole is skipped and counted, never judged; logs larger than the largest pipe this process may size fall back to a regular file",
			"quotes are built from go-sev-guest's test chain and go-tdx-guest's sample quote in the documented formats; a QuoteV4 proto (not a documented format) carries no expectation about recognition; arbitrary bytes belong to C07",
			"TOCTOU symlink swaps are schedules and are not generated; the scratch tree is static during a case",
			"a call is judged by the sources it was given and by nothing else: what ran before it in the process, what runs beside it on other goroutines (with inputs of their own) and whether its Options / reader / getter / provider / endorse.Context values are fresh or were used before make no difference to what the property demands of it; the quantifier names inputs and configurations, not schedules, so nothing is demanded about an interleaving itself and the scratch files of a call are never changed while it runs",
			"a caller that keeps an Options value re-assigns only the fields it means to change and refills its quote buffer in place; bytes returned to the caller stay what was returned unless the caller writes to them (rule earlier-result-changed-by-a-later-call)",
			"a recognised quote whose measurement field is not exactly 48 bytes long names no object: no URL may be derived from it, and nothing is demanded about an entry it may carry",
			"equivalent encodings carry the expectations of the plain encoding: the same protobuf message with its fields in another order or its lengths as padded varints, hex with upper-case digits, base64 broken into 76-column lines (all accepted by the unchanged decoders)",
			"the manufacturer filter is exact equality with the event's FIRMWARE manufacturer string (as the option's name and the anchors say); the platform manufacturer string does not take part",
			"the efivarfs root and the event-log location are places, not spellings: a trailing or doubled slash, dot segments, a directory symlink on the way or a relative path name the same root / log",
			"a faulty variable (absent, too short, not a regular file, a link to nothing, no root) makes the event log yield nothing, whatever lies around the root: nothing outside the root is the variable, so the next local source answers; files around the root are planted before the call and never changed during it",
			"a value handed out by extract.DefaultOptions() stands for the documented defaults in every field its user did not assign: no quote (the provider is asked), no provider, no forced fetch, the GCE firmware manufacturer as filter, /sys/kernel/security/tpm0/binary_bios_measurements as event-log location; what other users of the process did with the values handed to THEM is not a source of this user's call. The default getter is never left in place (it would reach for the real network)",
			"the function go-sev-guest is given for the GCE certificate-table entry (verify.SNPValidateFunc) discovers the endorsement like the extractor does: the entry it is handed, or the caller's Options.Endorsement, is the local evidence and no request goes out while one is in hand; otherwise the only request is the object of the 48-byte measurement of the attestation of THAT call; for a foreign family id only bucket, technology directory and hex name are judged; acceptance is not judged here",
			"endorse runs at the same time have values of their own (Context, keys, stores, random reader); a random reader is the caller's and may block until it has bytes to give - here until the other runs under way ask too; each run's events are judged by the sequential rules, nothing is demanded of the interleaving",
			"the strace monitor runs in the thorough tier only and is skipped with a note when strace cannot start",
		},
		ShardsQuick: 8, ShardsThor: 16, TimeoutS: 600, TimeoutThor: 3000, Run: run,
	})
}

func run(c *core.Ctx) {
	nNames := c.N(1500, 20000)
	nEvents := c.N(40, 400)
	nConf := c.N(700, 8000)
	total := precTotal()
	nPrec := c.N(9000, total)
	sc := newScratch()
	defer sc.close()

	base := 0
	var ns struct{ pairs, sep int }
	for k := 0; k < nNames; k++ {
		if i := base + k; c.Mine(i) {
			runNames(c, i, &ns)
		}
	}
	base += nNames
	evOK := 0
	for k := 0; k < nEvents; k++ {
		if i := base + k; c.Mine(i) {
			runEvents(c, sc, i, &evOK)
		}
	}
	base += nEvents
	w := buildConfWorld(sc, c.RandNamed("confine-world"))
	w.plantWorldDecoys(c.RandNamed("confine-world-surroundings"))
	var cs struct{ inside, refused, viaLog int }
	var batch []straceCase
	for k := 0; k < nConf; k++ {
		if i := base + k; c.Mine(i) {
			runConfine(c, sc, w, i, k, &cs, &batch)
		}
	}
	if c.Thorough() {
		runStrace(c, sc, w, batch)
	}
	base += nConf
	// precedence: thorough = the whole product; quick = a spread subset (stride coprime to the size)
	off := int(c.RandNamed("prec-offset").Uint64() % uint64(total))
	stride := 1
	if nPrec < total {
		stride = 7919
		for total%stride == 0 {
			stride += 2
		}
	}
	var ps precStats
	for k := 0; k < nPrec; k++ {
		if i := base + k; c.Mine(i) {
			runPrec(c, sc, i, (off+k*stride)%total, &ps)
		}
	}
	c.Count("precedence/command-line-runs", ps.cliRuns)
	base += nPrec
	// families appended by the audit of the workload's dimensions (audit.go)
	var as auditStats
	nSeq, nConc, nEdge := c.N(500, 5000), c.N(64, 480), c.N(2000, 20000)
	for k := 0; k < nSeq; k++ {
		if i := base + k; c.Mine(i) {
			runSeq(c, sc, i, &as)
		}
	}
	base += nSeq
	for k := 0; k < nConc; k++ {
		if i := base + k; c.Mine(i) {
			runConc(c, sc, w, i, &as)
		}
	}
	base += nConc
	for k := 0; k < nEdge; k++ {
		if i := base + k; c.Mine(i) {
			runEdge(c, sc, w, i, k, &as)
		}
	}
	if c.Thorough() {
		runStrace(c, sc, w, as.straceBatch)
	}
	base += nEdge
	nEvAgain := c.N(32, 320)
	for k := 0; k < nEvAgain; k++ {
		if i := base + k; c.Mine(i) {
			runEventsAgain(c, sc, i, &as)
		}
	}
	base += nEvAgain
	// families appended in the fourth round (round4.go)
	var r4 round4Stats
	nNb, nDef := c.N(600, 6000), c.N(300, 3000)
	for k := 0; k < nNb; k++ {
		if i := base + k; c.Mine(i) {
			runSurroundings(c, sc, i, &r4)
		}
	}
	base += nNb
	for k := 0; k < nDef; k++ {
		if i := base + k; c.Mine(i) {
			runDefaults(c, sc, i, &r4)
		}
	}
	base += nDef
	// families appended in the fifth round (round5.go)
	var r5 round5Stats
	nVf, nTog := c.N(1500, 15000), c.N(72, 720)
	for k := 0; k < nVf; k++ {
		if i := base + k; c.Mine(i) {
			runValidateFn(c, i, &r5)
		}
	}
	base += nVf
	for k := 0; k < nTog; k++ {
		if i := base + k; c.Mine(i) {
			runEventsTogether(c, i, &r5)
		}
	}
	c.Count("validate-func/calls-judged", r5.vfCalls)
	c.Count("validate-func/later-calls-of-one-function-value", r5.vfLaterCalls)
	c.Count("validate-func/no-request-for-a-measurement-that-is-not-48-bytes(getter-present,no-endorsement-in-hand)", r5.vfOddNoFetch)
	c.Count("validate-func/no-request-with-the-endorsement-in-hand(getter-present)", r5.vfLocalNoFetch)
	c.Count("validate-func/requested-the-object-of-its-measurement", r5.vfFullFetched)
	c.Count("validate-func/SevValidate/calls", r5.svCalls)
	c.Count("events-together/runs-judged", r5.etRuns)
	c.Count("events-together/events-files-judged", r5.etStores)
	c.Count("events-together/draws-of-randomness-made-by-two-or-more-runs-together", r5.etDrawsTogether)
	c.Count("surroundings/files-planted-around-the-root", r4.nbDecoys)
	c.Count("surroundings/reads-of-a-faulty-variable-refused", r4.nbReadsFaulted)
	c.Count("surroundings/reads-of-a-whole-variable-returned-from-inside", r4.nbReadsInside)
	c.Count("surroundings/entry-returned-after-a-faulty-variable", r4.nbEntryAfter)
	c.Count("defaults/users-judged", r4.defUsers)
	c.Count("defaults/fields-left-as-handed-out", r4.defLeft)
	c.Count("defaults/fields-left-that-another-user-of-the-case-had-assigned-in-its-own-value", r4.defLeftAfterSet)
	c.Count("events-again/later-runs-judged", as.evAgain)
	c.Count("concurrent/object-name-calls-beside-other-goroutines", 3*as.concNames)
	c.Count("concurrent/extractions-judged", as.concCalls)
	c.Count("concurrent/reads-through-the-shared-reader-judged", as.concReads)
	c.Count("sequence/fields-of-a-kept-Options-left-as-the-earlier-call-left-them", as.seqFieldsLeft)
	c.Count("sequence/same-inputs-again-compared", as.seqAgain)
	c.Count("sequence/kept-results-compared-after-later-calls", as.seqKeptResults)
	c.Count("sequence/local-evidence-returned-where-other-evidence-was-before", as.seqReplaced)
	c.Count("sequence/good-call-after-failed-call", as.seqOKAfterFail)
	c.Count("edge/odd-measurement-cases", as.edgeOdd)
	c.Count("edge/sibling-directory-names", as.edgeSibling)
	if c.Shard == 0 && c.Only < 0 {
		probeNilProvider(c)
	}
	c.Max("precedence/product-size", int64(total))
	c.Floor("names/distinct-pairs-and-technology-separation-observed", ns.pairs > 0 && ns.sep > 0)
	c.Floor("events/emitted-events-parsed-and-led-to-the-variable", evOK > 0)
	c.Floor("precedence/event-log-evidence-returned", ps.local > 0)
	c.Floor("precedence/event-log-evidence-returned-from-beyond-4KiB-of-a-long-log", ps.localDeep > 0)
	c.Floor("precedence/event-log-evidence-returned-from-a-log-on-a-named-pipe", ps.localPipe > 0)
	c.Floor("precedence/certificate-table-entry-returned", ps.entry > 0)
	c.Floor("precedence/some-fetch-observed", ps.fetched > 0)
	c.Floor("precedence/uri-locator-selected", ps.uriSel > 0)
	c.Floor("confine/inside-variable-returned", cs.inside > 0)
	c.Floor("confine/hostile-name-refused", cs.refused > 0)
	c.Floor("confine/variable-read-through-event-log", cs.viaLog > 0)
	c.Floor("sequence/kept-Options-called-again-with-some-fields-left-alone", as.seqKeptSteps > 0 && as.seqFieldsLeft > 0)
	c.Floor("sequence/fresh-values-at-reused-places", as.seqFreshSteps > 0)
	c.Floor("sequence/local-evidence-returned-from-a-place-that-held-other-evidence-before", as.seqReplaced > 0)
	c.Floor("sequence/rewritten-variable-returned-under-its-old-name", as.seqReplacedVar > 0)
	c.Floor("sequence/good-call-after-a-failed-call", as.seqOKAfterFail > 0)
	c.Floor("sequence/kept-results-compared-after-later-calls", as.seqKeptResults > 0)
	c.Floor("concurrent/batches-judged", as.concBatches > 0 && as.concCalls > 0 && as.concReads > 0)
	c.Floor("edge/odd-measurement-quotes-run-with-and-without-forced-fetch", as.edgeOdd > 0 && as.edgeOddForced > 0)
	c.Floor("edge/entry-returned-from-an-equivalent-encoding", as.edgeEnc > 0)
	c.Floor("edge/firmware-manufacturer-selected-against-the-platform-manufacturer", as.edgeSplit > 0)
	c.Floor("edge/evidence-returned-under-respelled-places", as.edgeSpelled > 0 && as.edgeSpelledConf > 0)
	c.Floor("edge/names-into-the-sibling-directory-run", as.edgeSibling > 0)
	c.Floor("events-again/second-image-endorsed-from-a-kept-Context-and-its-events-judged", as.evAgainKept > 0)
	c.Floor("surroundings/faulty-variable-refused-and-whole-variable-returned-amid-files-of-its-name-around-the-root", r4.nbReadsFaulted > 0 && r4.nbReadsInside > 0 && r4.nbBlobAmid > 0)
	c.Floor("surroundings/certificate-table-entry-returned-after-a-faulty-variable", r4.nbEntryAfter > 0)
	c.Floor("defaults/users-of-DefaultOptions-judged-with-fields-left-alone-that-another-user-had-assigned", r4.defUsers > 0 && r4.defLeftAfterSet > 0 && r4.defBare > 0)
	c.Floor("defaults/users-at-the-same-time", r4.defTogether > 0)
	c.Floor("validate-func/odd-measurements-and-entries-in-hand-run-with-a-getter-and-a-whole-measurement-requested", r5.vfOddNoFetch > 0 && r5.vfLocalNoFetch > 0 && r5.vfFullFetched > 0 && r5.vfLaterCalls > 0)
	c.Floor("events-together/runs-at-the-same-time-judged", r5.etBatches > 0 && r5.etRuns > 0 && r5.etStores > r5.etRuns && r5.etDrawsTogether > 0)
}

// probeNilProvider records (as a note, never a verdict) what the extract command does on a host
// without a TEE device, where the default backend's provider is nil: the command wraps the nil
// provider in a non-nil adapter, so an unreadable quote ends in a nil dereference. Outside C16.
func probeNilProvider(c *core.Ctx) {
	io := doubles.NewMemIO()
	io.Files["q.bin"] = []byte{0xc0, 0xde}
	cli := &doubles.CLI{IO: io, Getter: &recGetter{fail: true}}
	func() {
		defer func() {
			if r := recover(); r != nil {
				c.Note("observation outside C16: `extract --eventlog= q.bin` with an unreadable quote and a backend whose Provider is nil (non-TEE host) panics: %.120s", fmt.Sprint(r))
			}
		}()
		cli.Run("extract", "--out=o", "--eventlog=", "q.bin")
	}()
}
