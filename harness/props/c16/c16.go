// Package c16: endorsement discovery is deterministic, local-first and confined.
package c16

import (
	"fmt"

	"verifharness/core"
	"verifharness/doubles"
)

func init() {
	core.Register(&core.Info{
		ID: "C16", Level: "exploration",
		Rule: "four case families over one index space. names: (measurement, related measurement) pairs through GCETcbObjectName (SNP, TDX) and GCETcbURL against the monitor's own name model and inverse; " +
			"events: a real snapshot endorse run of a generated image, its <image>.evts.pb decoded by an independent SP800-155 decoder and by the repository's, then fed through a generated boot event log into extract.Endorsement; " +
			"precedence: one point of the product {event-log shape} x {manufacturer filter} x {quote format x entry} x {provider} x {getter} x {forced fetch}, its event log kept on a drawn medium (regular file, named pipe, symbolic link to either), run through extract.Endorsement (twice) and, for a third, through the extract command; " +
			"the checker works on the recorded URL list and the returned bytes; confine: (GUID, UCS-2 name) through EfiVarFSReader.ReadVariable and through an event-log variable locator against a scratch efivarfs tree with symlinks and outside canaries. " +
			"non-trivial = distinct (family, input class, outcome class) cells in which an oracle rule had something to decide",
		Assumptions: []string{
			"hex(measurement) in the object name is lower case (as the published bucket objects are); the name model is family prefix ovmf_x64_csm / sevsnp|tdx / hex .binarypb",
			"the quote in hand is the supplied quote when it names a 48-byte measurement, else the provider's; only its URL may be fetched",
			"a URI locator selected by the documented precedence (raw > variable > device path > URI among manufacturer-matching events) is fetched verbatim and is not judged as a missed local source",
			"rejections are counted, not judged; under forced fetch with a getter and a 48-byte measurement in hand the request list must be exactly that measurement's URL and a getter answer is what comes back; without such a measurement only the URLs are judged (none may be requested)",
			"boot event logs: three quarters are short, one quarter (and every log of the events family) carries 10-400 ordinary events with SHA-1/256/384 digest sets and data sizes up to 64 KiB before and after the RIM events",
			"the event log is evidence wherever it is kept: half of the generated logs (all three families that feed a log to extract.Endorsement) are on a regular file, the rest on a named pipe - the stand-in for the securityfs file /sys/kernel/security/tpm0/binary_bios_measurements, whose stat size is 0 whatever it holds - or behind a relative symbolic link to either; a pipe hands the whole log over in one write on open and then ends, and a case whose pipe did not take the log whole is skipped and counted, never judged; logs larger than the largest pipe this process may size fall back to a regular file",
			"quotes are built from go-sev-guest's test chain and go-tdx-guest's sample quote in the documented formats; a QuoteV4 proto (not a documented format) carries no expectation about recognition; arbitrary bytes belong to C07",
			"TOCTOU symlink swaps are schedules and are not generated; the scratch tree is static during a case",
			"the strace monitor runs in the thorough tier only and is skipped with a note when strace cannot start",
		},
		ShardsQuick: 8, ShardsThor: 16, TimeoutS: 600, TimeoutThor: 3000, Run: run,
	})
}

func run(c *core.Ctx) {
	nNames := c.N(1500, 20000)
	nEvents := c.N(40, 400)
	nConf := c.N(700, 8000)
	total := precTotal()
	nPrec := c.N(9000, total)
	sc := newScratch()
	defer sc.close()

	base := 0
	var ns struct{ pairs, sep int }
	for k := 0; k < nNames; k++ {
		if i := base + k; c.Mine(i) {
			runNames(c, i, &ns)
		}
	}
	base += nNames
	evOK := 0
	for k := 0; k < nEvents; k++ {
		if i := base + k; c.Mine(i) {
			runEvents(c, sc, i, &evOK)
		}
	}
	base += nEvents
	w := buildConfWorld(sc, c.RandNamed("confine-world"))
	var cs struct{ inside, refused, viaLog int }
	var batch []straceCase
	for k := 0; k < nConf; k++ {
		if i := base + k; c.Mine(i) {
			runConfine(c, sc, w, i, k, &cs, &batch)
		}
	}
	if c.Thorough() {
		runStrace(c, sc, w, batch)
	}
	base += nConf
	// precedence: thorough = the whole product; quick = a spread subset (stride coprime to the size)
	off := int(c.RandNamed("prec-offset").Uint64() % uint64(total))
	stride := 1
	if nPrec < total {
		stride = 7919
		for total%stride == 0 {
			stride += 2
		}
	}
	var ps precStats
	for k := 0; k < nPrec; k++ {
		if i := base + k; c.Mine(i) {
			runPrec(c, sc, i, (off+k*stride)%total, &ps)
		}
	}
	c.Count("precedence/command-line-runs", ps.cliRuns)
	if c.Shard == 0 && c.Only < 0 {
		probeNilProvider(c)
	}
	c.Max("precedence/product-size", int64(total))
	c.Floor("names/distinct-pairs-and-technology-separation-observed", ns.pairs > 0 && ns.sep > 0)
	c.Floor("events/emitted-events-parsed-and-led-to-the-variable", evOK > 0)
	c.Floor("precedence/event-log-evidence-returned", ps.local > 0)
	c.Floor("precedence/event-log-evidence-returned-from-beyond-4KiB-of-a-long-log", ps.localDeep > 0)
	c.Floor("precedence/event-log-evidence-returned-from-a-log-on-a-named-pipe", ps.localPipe > 0)
	c.Floor("precedence/certificate-table-entry-returned", ps.entry > 0)
	c.Floor("precedence/some-fetch-observed", ps.fetched > 0)
	c.Floor("precedence/uri-locator-selected", ps.uriSel > 0)
	c.Floor("confine/inside-variable-returned", cs.inside > 0)
	c.Floor("confine/hostile-name-refused", cs.refused > 0)
	c.Floor("confine/variable-read-through-event-log", cs.viaLog > 0)
}

// probeNilProvider records (as a note, never a verdict) what the extract command does on a host
// without a TEE device, where the default backend's provider is nil: the command wraps the nil
// provider in a non-nil adapter, so an unreadable quote ends in a nil dereference. Outside C16.
func probeNilProvider(c *core.Ctx) {
	io := doubles.NewMemIO()
	io.Files["q.bin"] = []byte{0xc0, 0xde}
	cli := &doubles.CLI{IO: io, Getter: &recGetter{fail: true}}
	func() {
		defer func() {
			if r := recover(); r != nil {
				c.Note("observation outside C16: `extract --eventlog= q.bin` with an unreadable quote and a backend whose Provider is nil (non-TEE host) panics: %.120s", fmt.Sprint(r))
			}
		}()
		cli.Run("extract", "--out=o", "--eventlog=", "q.bin")
	}()
}
