package c16

// Families appended after the precedence product. They add dimensions of the workload that the
// four original families never produce; the deciding rules are the ones of prec.go / confine.go /
// names.go (a call is judged by the sources IT was given, whatever happened before or beside it):
//
//   sequences   one extract.Options / variable reader / getter / provider value kept by the caller
//               over 3-6 calls with only the changed fields re-assigned (the quote buffer refilled
//               in place), or fresh values for every call - in both modes every call of the
//               sequence uses the SAME event-log path, efivarfs root and variable names while
//               their contents change between the calls, failing calls stand between good ones,
//               and returned slices are edited or kept and compared again at the end;
//   concurrent  4-8 independent cases (own directory, own Options) released together on as many
//               goroutines, with a tight loop over the object-name functions and reads through
//               ONE shared variable reader running beside them;
//   edges       recognised quote formats whose measurement is not 48 bytes long; equivalent
//               encodings of documented formats; events whose platform manufacturer is not their
//               firmware manufacturer and a foreign manufacturer filter; the efivarfs root and
//               the event-log path spelled other than canonically (trailing slash, dot segments,
//               directory symlink, relative); names that lead into a directory next to the root
//               whose name begins with the root's name.

import (
	"bytes"
	"context"
	"encoding/hex"
	"errors"
	"fmt"
	"math/rand/v2"
	"os"
	"path/filepath"
	"runtime/debug"
	"strings"
	"sync"
	"time"

	"github.com/google/gce-tcb-verifier/cmd/output"
	"github.com/google/gce-tcb-verifier/endorse"
	"github.com/google/gce-tcb-verifier/extract"
	exel "github.com/google/gce-tcb-verifier/extract/eventlog"
	"github.com/google/gce-tcb-verifier/extract/extractsev"
	"github.com/google/gce-tcb-verifier/extract/extracttdx"
	"github.com/google/gce-tcb-verifier/keys"
	"github.com/google/gce-tcb-verifier/sev"
	"github.com/google/gce-tcb-verifier/sign/memca"
	"github.com/google/gce-tcb-verifier/testing/fakeovmf"
	"github.com/google/gce-tcb-verifier/testing/nonprod/memkm"
	"github.com/google/gce-tcb-verifier/verify"
	spb "github.com/google/go-sev-guest/proto/sevsnp"
	"github.com/google/uuid"

	"verifharness/core"
)

type auditStats struct {
	seqKeptSteps, seqFreshSteps                  int
	seqFieldsLeft                                int // fields of a kept Options that a later call found as the earlier call left them
	seqReplaced, seqReplacedVar                  int // local evidence returned from a place that held other evidence at an earlier call
	seqOKAfterFail, seqAgain, seqKeptResults     int
	concBatches, concCalls, concNames, concReads int
	edgeOdd, edgeOddForced, edgeEnc, edgeSplit   int
	edgeSpelled, edgeSpelledConf, edgeSibling    int
	evAgain, evAgainKept                         int          // later runs judged (of these: from a kept endorse.Context)
	straceBatch                                  []straceCase // edge confine cases under the canonical root, repeated under strace in the thorough tier
}

// ---- helpers on precCase ----

func copyMapB[K comparable](m map[K][]byte) map[K][]byte {
	o := make(map[K][]byte, len(m))
	for k, v := range m {
		o[k] = v
	}
	return o
}

func copyMapS[K comparable](m map[K]string) map[K]string {
	o := make(map[K]string, len(m))
	for k, v := range m {
		o[k] = v
	}
	return o
}

// clone copies the case; the maps and the event list are copied, the byte slices shared (never written).
func (pc *precCase) clone() *precCase {
	n := *pc
	n.shape.events = append([]evd(nil), pc.shape.events...)
	n.varFiles, n.rawBlob, n.varBlob = copyMapB(pc.varFiles), copyMapB(pc.rawBlob), copyMapB(pc.varBlob)
	n.uriOf, n.varName, n.platOf = copyMapS(pc.uriOf), copyMapS(pc.varName), copyMapS(pc.platOf)
	return &n
}

func (pc *precCase) adoptLog(from *precCase) {
	f := from.clone()
	pc.shape, pc.platOf = f.shape, f.platOf
	pc.logBytes, pc.haveLog, pc.large, pc.medium, pc.rimOffset = f.logBytes, f.haveLog, f.large, f.medium, f.rimOffset
	pc.varFiles, pc.rawBlob, pc.varBlob, pc.uriOf, pc.varName = f.varFiles, f.rawBlob, f.varBlob, f.uriOf, f.varName
}

func (pc *precCase) adoptQuote(from *precCase) {
	pc.q, pc.mQ, pc.blobQ, pc.quote = from.q, from.mQ, from.blobQ, from.quote
}

func (pc *precCase) adoptProvider(from *precCase) {
	pc.prov, pc.mP, pc.blobP, pc.provQuote = from.prov, from.mP, from.blobP, from.provQuote
	pc.provFull, pc.provTech, pc.provEntry, pc.provRecog = from.provFull, from.provTech, from.provEntry, from.provRecog
}

func shapeNamed(name string) elShape {
	for _, s := range elShapes {
		if s.name == name {
			return s
		}
	}
	panic("no event-log shape " + name)
}

// shapes in which the event log has something to say (or just fails to)
var informativeShapes = []string{"raw", "variable-present", "variable-present", "variable-absent", "uri", "uri,variable-present,raw", "uri,variable-present", "uri,variable-absent",
	"foreign-variable-present,raw", "local,variable-present", "foreign-raw,uri", "corrupt-event3-string", "corrupt-short-header", "no-rim-events", "missing-file", "absent"}

func drawShape(r *rand.Rand) elShape {
	if r.IntN(4) == 0 {
		return elShapes[r.IntN(len(elShapes))]
	}
	return shapeNamed(informativeShapes[r.IntN(len(informativeShapes))])
}

func drawCase(r *rand.Rand, id int) *precCase {
	pc := precDecode(r.IntN(precTotal()))
	if r.IntN(2) == 0 { // half of the fresh cases let the event log speak
		pc.force, pc.shape = false, drawShape(r)
	}
	pc.build(r, id)
	return pc
}

func outcomeClass(pc *precCase, o outcome) string {
	state, _, _ := pc.elModel()
	e := "ok"
	if o.err != nil {
		e = "err"
	}
	return fmt.Sprintf("%s/u%d/%s", state, len(o.urls), e)
}

// ---- sequences ----

var seqOps = []string{"again", "force-toggled", "variable-rewritten", "variable-rewritten", "log-rewritten", "log-rewritten", "quote-refilled", "provider-changed", "getter-changed", "filter-changed", "all-new"}

// seqDerive makes the case of the next call from the previous one by changing one source.
func seqDerive(r *rand.Rand, prev *precCase, op string, id int) (*precCase, string) {
	skeleton := func() *precCase {
		return &precCase{shape: prev.shape, mfrOpt: prev.mfrOpt, q: prev.q, prov: prev.prov, getter: prev.getter, force: prev.force}
	}
	switch op {
	case "again":
		return prev.clone(), op
	case "force-toggled":
		n := prev.clone()
		n.force = !n.force
		return n, op
	case "getter-changed":
		n := prev.clone()
		for n.getter == prev.getter {
			n.getter = getterKinds[r.IntN(len(getterKinds))]
		}
		return n, op
	case "filter-changed":
		n := prev.clone()
		n.mfrOpt = map[string]string{googleMfr: "", "": googleMfr}[prev.mfrOpt]
		return n, op
	case "variable-rewritten":
		if !prev.haveLog || prev.shape.file != "" || len(prev.varName) == 0 {
			return seqDerive(r, prev, "log-rewritten", id)
		}
		n := prev.clone()
		for idx := range n.shape.events { // in event order, so that the draws are reproducible
			fname, ok := n.varName[idx]
			if !ok {
				continue
			}
			d := &n.shape.events[idx]
			payload := append([]byte(fmt.Sprintf("VAR:%d:%d:", id, idx)), randBytes(r, 1+r.IntN(300))...)
			content := append([]byte{7, 0, 0, 0}, payload...)
			flip := r.IntN(4) == 0
			switch {
			case d.vstate == "present" && flip: // the variable vanishes
				d.vstate = "absent"
				delete(n.varFiles, fname)
				delete(n.varBlob, idx)
			case d.vstate == "absent" && !flip, d.vstate == "short" && !flip: // the variable appears (whole)
				d.vstate = "present"
				n.varFiles[fname], n.varBlob[idx] = content, payload
			case d.vstate == "present", d.vstate == "noterm", d.vstate == "odd": // same name, other contents
				n.varFiles[fname], n.varBlob[idx] = content, payload
			}
		}
		n.shape.name = strings.TrimSuffix(n.shape.name, "(variables rewritten)") + "(variables rewritten)"
		return n, op
	case "log-rewritten":
		n := skeleton()
		n.shape = drawShape(r)
		if r.IntN(3) == 0 {
			n.shape = shapeNamed(strings.TrimSuffix(prev.shape.name, "(variables rewritten)")) // the same kind of log with other contents
		}
		n.build(r, id)
		n.adoptQuote(prev)
		n.adoptProvider(prev)
		return n, op
	case "quote-refilled":
		n := skeleton()
		if r.IntN(2) == 0 {
			n.q = qVariants[r.IntN(len(qVariants))]
		}
		n.build(r, id)
		n.adoptLog(prev)
		n.adoptProvider(prev)
		return n, op
	case "provider-changed":
		n := skeleton()
		n.prov = provKinds[r.IntN(len(provKinds))]
		n.build(r, id)
		n.adoptLog(prev)
		n.adoptQuote(prev)
		return n, op
	}
	return drawCase(r, id), "all-new"
}

// placeInto makes dir hold exactly this case's event log and variables (the same paths for every
// call of a sequence).
func (pc *precCase) placeInto(dir string) (*placedLog, string) {
	efiRoot := filepath.Join(dir, "efivars")
	if ents, err := os.ReadDir(efiRoot); err == nil {
		for _, e := range ents {
			if _, keep := pc.varFiles[e.Name()]; !keep {
				os.Remove(filepath.Join(efiRoot, e.Name()))
			}
		}
	}
	return pc.materialise(dir)
}

type keptResult struct {
	step      int
	out, copy []byte
}

func runSeq(c *core.Ctx, sc *scratch, i int, st *auditStats) {
	r := c.Rand(i)
	kept := r.IntN(3) != 0 // two thirds keep their values, one third makes fresh ones for every call (same places)
	editResults := r.IntN(2) == 0
	steps := 3 + r.IntN(4)
	mode := map[bool]string{true: "kept-values", false: "fresh-values"}[kept]
	dir := filepath.Join(sc.dir, fmt.Sprintf("s%d", i))
	must(os.MkdirAll(filepath.Join(dir, "efivars"), 0o755))
	defer os.RemoveAll(dir)
	c.Begin(i, "sequence/"+mode, entryDirect, nil)
	defer c.End(i)

	// the values a caller keeps
	opts := &extract.Options{}
	g := &recGetter{}
	p := &provider{}
	reader := exel.MakeEfiVarFSReader(filepath.Join(dir, "efivars"))
	qbuf := make([]byte, 0, 1<<16)
	var prev *precCase
	var prevOut outcome
	var prevJudged bool
	var results []keptResult
	prevLogPath := ""

	for s := 0; s < steps; s++ {
		var pc *precCase
		op := "first"
		if prev == nil {
			pc = drawCase(r, i*16+s)
		} else {
			pc, op = seqDerive(r, prev, seqOps[r.IntN(len(seqOps))], i*16+s)
		}
		log, efiRoot := pc.placeInto(dir)
		gen := fmt.Sprintf("sequence/%s/step=%d/%s/%s", mode, s, op, pc.describe())
		if len(pc.quote) > cap(qbuf) {
			qbuf = make([]byte, 0, 2*len(pc.quote))
		}

		left := 0
		if !kept || prev == nil {
			opts, g, p = &extract.Options{}, &recGetter{}, &provider{}
			if !kept {
				reader = exel.MakeEfiVarFSReader(efiRoot)
			}
			opts.UEFIVariableReader = reader
			opts.FirmwareManufacturer, opts.EventLogLocation, opts.ForceFetch = pc.mfrOpt, log.path, pc.force
			opts.Quote = nil
			if pc.q.kind.name != "none" {
				opts.Quote = append(qbuf[:0], pc.quote...)
			}
			if pc.getter != "nil" {
				opts.Getter = g
			}
			if pc.prov != "none" {
				opts.Provider = p
			}
		} else {
			// re-assign only what the caller means to change
			set := func(changed bool, f func()) {
				if changed {
					f()
				} else {
					left++
				}
			}
			set(prev.mfrOpt != pc.mfrOpt, func() { opts.FirmwareManufacturer = pc.mfrOpt })
			set(prev.force != pc.force, func() { opts.ForceFetch = pc.force })
			set(prevLogPath != log.path, func() { opts.EventLogLocation = log.path })
			set((prev.q.kind.name == "none") != (pc.q.kind.name == "none") || !bytes.Equal(prev.quote, pc.quote), func() {
				if pc.q.kind.name == "none" {
					opts.Quote = nil
				} else { // the caller's buffer, refilled in place
					opts.Quote = append(qbuf[:0], pc.quote...)
				}
			})
			set((prev.getter == "nil") != (pc.getter == "nil"), func() {
				opts.Getter = nil
				if pc.getter != "nil" {
					opts.Getter = g
				}
			})
			set((prev.prov == "none") != (pc.prov == "none"), func() {
				opts.Provider = nil
				if pc.prov != "none" {
					opts.Provider = p
				}
			})
		}
		// the kept getter / provider objects change their behaviour in place
		g.fail = pc.getter == "fails"
		p.quote, p.err = pc.provQuote, nil
		if pc.prov == "error" {
			p.err = errors.New("provider: no TEE device")
		}
		prevLogPath = log.path

		before := len(g.urls)
		var o outcome
		var m core.Measured
		log.serve(func() {
			m = c.Guard(i, entryDirect, gen, core.Budget{}, func() { o.out, o.err = extract.Endorsement(opts) })
		})
		o.urls, o.panicked = append([]string(nil), g.urls[before:]...), m.Panicked
		if kept {
			st.seqKeptSteps++
		} else {
			st.seqFreshSteps++
		}
		if log.tainted || o.panicked {
			c.Count("log-medium/pipe-not-served-whole(case-skipped)", map[bool]int{true: 1}[log.tainted])
			prev, prevJudged = pc, false
			continue
		}
		pc.judge(c, i, entryDirect, gen, o)
		if op == "again" && prevJudged {
			st.seqAgain++
			if o.key() != prevOut.key() {
				c.Oracle(i, entryDirect, "not-deterministic", gen, "same inputs as the call before, other result: %.200s vs %.200s", prevOut.key(), o.key())
			}
		}
		// the caller's quote buffer is still what the caller put there
		if kept && pc.q.kind.name != "none" && !bytes.Equal(opts.Quote, pc.quote) {
			c.Count("sequence/callers-quote-buffer-changed-by-a-call(restored)", 1)
			opts.Quote = append(qbuf[:0], pc.quote...)
		}
		state, blob, _ := pc.elModel()
		if prev != nil && prevJudged {
			c.Cell("seq|%s|%s|%s->%s", mode, op, outcomeClass(prev, prevOut), outcomeClass(pc, o))
			st.seqFieldsLeft += left
			if prevOut.err != nil && o.err == nil {
				st.seqOKAfterFail++
			}
			if pstate, pblob, _ := prev.elModel(); pstate == "blob" && state == "blob" && prevOut.err == nil && o.err == nil && !bytes.Equal(pblob, blob) && bytes.Equal(o.out, blob) {
				st.seqReplaced++
				if op == "variable-rewritten" {
					st.seqReplacedVar++
				}
			}
		}
		c.Count("sequence/calls/"+mode, 1)
		c.Count("sequence/op/"+op, 1)
		// what the caller does with the result
		kr := keptResult{step: s, out: o.out, copy: append([]byte(nil), o.out...)}
		prevOut = o
		prevOut.out = kr.copy
		if editResults {
			for j := range o.out {
				o.out[j] ^= 0xa5
			}
			if kept && pc.q.kind.name != "none" && !bytes.Equal(opts.Quote, pc.quote) { // the result was the caller's own buffer
				c.Count("sequence/result-aliases-callers-quote(restored)", 1)
				opts.Quote = append(qbuf[:0], pc.quote...)
			}
		} else if len(o.out) > 0 {
			results = append(results, kr)
		}
		prev, prevJudged = pc, true
	}
	for _, kr := range results {
		st.seqKeptResults++
		if !bytes.Equal(kr.out, kr.copy) {
			c.Oracle(i, entryDirect, "earlier-result-changed-by-a-later-call", "sequence/"+mode, "the %d bytes returned by call %d were %.60q and read %.60q after the later calls of the sequence (the caller never wrote to them)",
				len(kr.copy), kr.step, kr.copy, kr.out)
		}
	}
	c.Cell("seq|%s|results-%s|calls=%d", mode, map[bool]string{true: "edited", false: "kept"}[editResults], steps)
}

// ---- concurrent batches ----

type concJob struct {
	pc      *precCase
	log     *placedLog
	efiRoot string
	gen     string
	m       []byte
	outs    []outcome
	nameErr []string
	conf    []confCase
	confOut [][]byte
	confErr []error
	panics  []string
}

func (j *concJob) guarded(f func()) {
	defer func() {
		if r := recover(); r != nil {
			j.panics = append(j.panics, fmt.Sprintf("%v at %s", r, core.PanicSite(debug.Stack())))
		}
	}()
	f()
}

const (
	concNameLoops = 1500
	concRounds    = 4
)

func runConc(c *core.Ctx, sc *scratch, w *confWorld, i int, st *auditStats) {
	r := c.Rand(i)
	nW := 4 + r.IntN(5)
	gen := fmt.Sprintf("concurrent/goroutines=%d", nW)
	c.Begin(i, gen, entryDirect, nil)
	defer c.End(i)
	dir := filepath.Join(sc.dir, fmt.Sprintf("c%d", i))
	defer os.RemoveAll(dir)
	shared := exel.MakeEfiVarFSReader(w.root) // one reader value used by every goroutine of the batch
	jobs := make([]*concJob, nW)
	for k := range jobs {
		j := &concJob{pc: drawCase(r, i*16+k), m: randMeasurement(r)}
		if k > 0 && r.IntN(4) == 0 { // neighbours that differ in one byte
			j.m = append([]byte(nil), jobs[k-1].m...)
			j.m[r.IntN(48)] ^= 1 << r.UintN(8)
		}
		d := filepath.Join(dir, fmt.Sprintf("g%d", k))
		must(os.MkdirAll(d, 0o755))
		j.log, j.efiRoot = j.pc.materialise(d)
		j.gen = fmt.Sprintf("%s/g%d/%s", gen, k, j.pc.describe())
		for n := 0; n < concRounds; n++ {
			j.conf = append(j.conf, w.genCase(r, r.IntN(2*len(confDirected)+200)))
		}
		jobs[k] = j
	}
	start := make(chan struct{})
	var wg sync.WaitGroup
	for _, j := range jobs {
		wg.Add(1)
		go func(j *concJob) {
			defer wg.Done()
			<-start
			wantS, wantT := modelName("snp", j.m), modelName("tdx", j.m)
			j.guarded(func() {
				for n := 0; n < concNameLoops; n++ {
					sn := extractsev.GCETcbObjectName(gceUefiFamilyID, j.m)
					tn := extracttdx.GCETcbObjectName(j.m)
					u := verify.GCETcbURL(sn)
					if (sn != wantS || tn != wantT || u != bucketBase+wantS) && len(j.nameErr) < 3 {
						j.nameErr = append(j.nameErr, fmt.Sprintf("loop %d: snp %q tdx %q url %q", n, sn, tn, u))
					}
				}
			})
			for n := 0; n < concRounds; n++ {
				var o outcome
				g := &recGetter{fail: j.pc.getter == "fails"}
				opts := &extract.Options{FirmwareManufacturer: j.pc.mfrOpt, EventLogLocation: j.log.path, UEFIVariableReader: exel.MakeEfiVarFSReader(j.efiRoot), Quote: j.pc.quote, ForceFetch: j.pc.force}
				if j.pc.getter != "nil" {
					opts.Getter = g
				}
				switch j.pc.prov {
				case "none":
				case "error":
					opts.Provider = &provider{err: errors.New("provider: no TEE device")}
				default:
					opts.Provider = &provider{quote: j.pc.provQuote}
				}
				np := len(j.panics)
				j.log.serve(func() { j.guarded(func() { o.out, o.err = extract.Endorsement(opts) }) })
				o.urls, o.panicked = g.urls, len(j.panics) > np
				j.outs = append(j.outs, o)
				cc := j.conf[n]
				var out []byte
				var err error
				j.guarded(func() { out, err = shared.ReadVariable(uuid.UUID(cc.guid), unitsBytes(cc.units, true)) })
				j.confOut, j.confErr = append(j.confOut, out), append(j.confErr, err)
			}
		}(j)
	}
	close(start)
	wg.Wait()
	// judged here, by the rules of the sequential families
	classes := map[string]bool{}
	for _, j := range jobs {
		c.Eval(2 * concRounds) // the object-name loops are counted in a counter of their own, not as evaluations
		st.concNames += concNameLoops
		for _, p := range j.panics {
			c.Violate(core.Violation{Kind: "panic", Entry: entryDirect, Site: "concurrent-call-panicked", Gen: j.gen, Case: i, Detail: p})
		}
		for _, e := range j.nameErr {
			c.Oracle(i, entryNames, "snp-name-differs-from-model", j.gen, "m=%x beside %d other goroutines: %s; want %q", j.m, nW-1, e, modelName("snp", j.m))
		}
		for n, o := range j.outs {
			if j.log.tainted || o.panicked {
				c.Count("log-medium/pipe-not-served-whole(case-skipped)", map[bool]int{true: 1}[j.log.tainted])
				continue
			}
			j.pc.judge(c, i, entryDirect, j.gen, o)
			if n > 0 && !j.outs[0].panicked && o.key() != j.outs[0].key() {
				c.Oracle(i, entryDirect, "not-deterministic", j.gen, "same inputs, two results beside %d other goroutines: %.200s vs %.200s", nW-1, j.outs[0].key(), o.key())
			}
			st.concCalls++
			classes[outcomeClass(j.pc, o)] = true
		}
		for n, cc := range j.conf {
			if n < len(j.confOut) {
				w.judge(c, i, entryReadVar, j.gen+"/shared-reader/"+cc.label, cc, j.confOut[n], j.confErr[n])
				st.concReads++
			}
		}
	}
	st.concBatches++
	c.Cell("conc|goroutines=%d|outcome-classes=%d", nW, len(classes))
	for k := range classes {
		c.Cell("conc|beside-others|%s", k)
	}
}

// ---- edges ----

var oddLens = []int{0, 1, 47, 49, 64, 96}

var oddKinds = []string{"snp-report-proto:odd-measurement", "snp-attestation-proto:odd-measurement", "tpm-attestation-snp:odd-measurement", "tpm-attestation-tdx:odd-mrtd"}

var encKinds = []string{"snp-attestation-proto:chain-first", "snp-attestation-proto:padded-lengths", "tpm-attestation-snp:tee-first", "snp-raw-report+table-HEX", "snp-raw-report+table-base64-lines", "tdx-raw-HEX"}

type splitShape struct {
	shape elShape
	plat  map[int]string
}

// the platform manufacturer of an event is not its firmware manufacturer (evd.mfr is the FIRMWARE manufacturer)
var splitShapes = []splitShape{
	{elShape{name: "split:raw(platform=google,firmware=foreign)", events: []evd{{foreignMfr, locRaw, ""}}}, map[int]string{0: googleMfr}},
	{elShape{name: "split:raw(platform=foreign,firmware=google)", events: []evd{{googleMfr, locRaw, ""}}}, map[int]string{0: foreignMfr}},
	{elShape{name: "split:raw(platform=google,firmware=foreign),variable-present(platform=foreign,firmware=google)", events: []evd{{foreignMfr, locRaw, ""}, {googleMfr, locVariable, "present"}}},
		map[int]string{0: googleMfr, 1: foreignMfr}},
	{elShape{name: "split:uri(platform=google,firmware=foreign),uri(platform=foreign,firmware=google)", events: []evd{{foreignMfr, locURI, ""}, {googleMfr, locURI, ""}}}, map[int]string{0: googleMfr, 1: foreignMfr}},
	{elShape{name: "split:variable-present(platform=google,firmware=foreign),uri(firmware=google)", events: []evd{{foreignMfr, locVariable, "present"}, {googleMfr, locURI, ""}}}, map[int]string{0: googleMfr}},
	{elShape{name: "split:variable-present(platform=google,firmware=foreign)", events: []evd{{foreignMfr, locVariable, "present"}}}, map[int]string{0: googleMfr}},
}

var foreignFilterShapes = []string{"foreign-raw", "foreign-raw,uri", "foreign-variable-present,raw", "uri,foreign-raw,foreign-variable-present", "raw", "uri,variable-present"}

// spellings of a path that name the same place
var spellings = []string{"trailing-slash", "doubled-slash", "dot-segment", "dotdot-segment", "directory-symlink", "relative"}

var cwdOnce sync.Once
var cwd string

// spell respells path (a directory when isDir; else a file whose directory also holds "efivars").
func spell(how, path string, isDir bool) string {
	d, b := filepath.Dir(path), filepath.Base(path)
	switch how {
	case "trailing-slash":
		if isDir {
			return path + "/"
		}
	case "doubled-slash":
		return d + "//" + b
	case "dot-segment":
		return d + "/./" + b
	case "dotdot-segment":
		if isDir {
			return path + "/../" + b
		}
		return d + "/efivars/../" + b
	case "relative":
		cwdOnce.Do(func() { cwd, _ = os.Getwd() })
		if rel, err := filepath.Rel(cwd, path); err == nil && cwd != "" {
			return rel
		}
	}
	return path
}

func runEdge(c *core.Ctx, sc *scratch, w *confWorld, i, k int, st *auditStats) {
	r := c.Rand(i)
	sub := k % 5
	if sub == 4 {
		runEdgeConfine(c, w, i, k/5, r, st)
		return
	}
	pc := precDecode(r.IntN(precTotal()))
	viaCLI := r.IntN(3) == 0
	family := ""
	efiHow, logHow := "", ""
	switch sub {
	case 0: // a recognised format whose measurement is not 48 bytes long, supplied and / or from the provider
		family = "odd-measurement"
		pc.shape = shapeNamed([]string{"absent", "missing-file", "no-rim-events", "variable-absent", "uri", "raw", "local-device-path", "corrupt-empty-file"}[r.IntN(8)])
		where := r.IntN(3)
		if where != 1 && r.IntN(2) == 0 {
			pc.prov = []string{"none", "error", "snp-raw-report", "tdx-raw", "snp-table-only/entry"}[r.IntN(5)]
		}
		pc.build(r, i)
		if where != 1 {
			kind := extraKind(oddKinds[r.IntN(len(oddKinds))])
			pc.q, pc.mQ = qVariant{kind, false}, randBytes(r, oddLens[r.IntN(len(oddLens))])
			pc.quote = buildQuote(kind, pc.mQ, nil, 0)
		}
		if where != 0 {
			kind := extraKind(oddKinds[r.IntN(len(oddKinds))])
			pc.prov, pc.mP = kind.name, randBytes(r, oddLens[r.IntN(len(oddLens))])
			pc.provQuote = buildQuote(kind, pc.mP, nil, 0)
			pc.provFull, pc.provTech, pc.provEntry, pc.provRecog = false, kind.tech, false, true
		}
		family += fmt.Sprintf("/supplied=%d/provider=%d", map[bool]int{true: len(pc.mQ), false: -1}[where != 1], map[bool]int{true: len(pc.mP), false: -1}[where != 0])
	case 1: // the same message, written another way
		family = "equivalent-encoding"
		kind := extraKind(encKinds[r.IntN(len(encKinds))])
		pc.q = qVariant{kind, kind.ext && r.IntN(3) != 0}
		pc.shape = shapeNamed([]string{"absent", "missing-file", "no-rim-events", "variable-absent", "uri", "corrupt-short-header", "variable-present"}[r.IntN(7)])
		pc.build(r, i)
	case 2: // manufacturer filter: platform vs firmware manufacturer, a foreign filter
		family = "manufacturer"
		if r.IntN(3) != 0 {
			ss := splitShapes[r.IntN(len(splitShapes))]
			pc.shape, pc.platOf = ss.shape, ss.plat
			pc.mfrOpt = []string{googleMfr, googleMfr, "", foreignMfr}[r.IntN(4)]
		} else {
			pc.shape, pc.mfrOpt = shapeNamed(foreignFilterShapes[r.IntN(len(foreignFilterShapes))]), foreignMfr
		}
		pc.force = pc.force && r.IntN(4) == 0
		pc.build(r, i)
	case 3: // the same places under other spellings
		family = "spelled-places"
		pc.shape = shapeNamed([]string{"variable-present", "variable-present", "raw", "uri,variable-present", "foreign-variable-present,raw", "variable-absent", "uri,variable-present,raw", "local,variable-present"}[r.IntN(8)])
		pc.force = pc.force && r.IntN(4) == 0
		pc.build(r, i)
		efiHow = spellings[r.IntN(len(spellings))]
		logHow = []string{"", "doubled-slash", "dot-segment", "dotdot-segment", "directory-symlink", "relative", "is-a-directory"}[r.IntN(7)]
		family += "/efivarfs=" + efiHow + "/eventlog=" + logHow
	}
	dir := filepath.Join(sc.dir, fmt.Sprintf("x%d", i))
	must(os.MkdirAll(dir, 0o755))
	defer os.RemoveAll(dir)
	log, efiRoot := pc.materialise(dir)
	if sub == 3 {
		if efiHow == "directory-symlink" {
			must(os.Symlink("efivars", filepath.Join(dir, "efilink")))
			efiRoot = filepath.Join(dir, "efilink")
		} else {
			efiRoot = spell(efiHow, efiRoot, true)
		}
		switch {
		case log.path == "":
		case logHow == "is-a-directory": // the location names a directory: no event log can be read from it
			must(os.MkdirAll(filepath.Join(dir, "logdir"), 0o755))
			log = &placedLog{path: filepath.Join(dir, "logdir")}
			pc.haveLog = false
		case logHow == "directory-symlink":
			must(os.Symlink(".", filepath.Join(dir, "loglink")))
			log.path = filepath.Join(dir, "loglink", filepath.Base(log.path))
		case logHow != "":
			log.path = spell(logHow, log.path, false)
		}
	}
	gen := "edge/" + family + "/" + pc.describe()
	c.Begin(i, gen, entryDirect, []byte(pc.describe()))
	defer c.End(i)
	o1 := pc.runDirect(c, i, gen, log, efiRoot)
	if log.tainted {
		c.Count("log-medium/pipe-not-served-whole(case-skipped)", 1)
		return
	}
	pc.judge(c, i, entryDirect, gen, o1)
	o2 := pc.runDirect(c, i, gen, log, efiRoot)
	if !o1.panicked && !o2.panicked && !log.tainted && o1.key() != o2.key() {
		c.Oracle(i, entryDirect, "not-deterministic", gen, "same inputs, two results: %.200s vs %.200s", o1.key(), o2.key())
	}
	if viaCLI && pc.prov != "none" {
		c.Begin(i, gen, entryCLI, []byte(pc.describe()))
		if o3 := pc.runCLI(c, i, gen, log, efiRoot); !log.tainted {
			pc.judge(c, i, entryCLI, gen, o3)
		}
	}
	if o1.panicked {
		return
	}
	state, blob, _ := pc.elModel()
	class := outcomeClass(pc, o1)
	switch sub {
	case 0:
		st.edgeOdd++
		if pc.force {
			st.edgeOddForced++
		}
		c.Cell("edge|odd-measurement|q=%s/%d|p=%s/%d|f=%v|%s", pc.q.kind.name, len(pc.mQ), pc.prov, len(pc.mP), pc.force, class)
	case 1:
		if want, ok := pc.localEntry(); ok && !pc.force && state == "nothing" && o1.err == nil && bytes.Equal(o1.out, want) {
			st.edgeEnc++
		}
		c.Cell("edge|equivalent-encoding|q=%s/%v|el=%s|f=%v|%s", pc.q.kind.name, pc.q.entry, pc.shape.name, pc.force, class)
	case 2:
		if !pc.force && state == "blob" && o1.err == nil && bytes.Equal(o1.out, blob) && len(pc.platOf) > 0 {
			st.edgeSplit++
		}
		c.Cell("edge|manufacturer|el=%s|filter=%q|f=%v|%s", pc.shape.name, pc.mfrOpt, pc.force, class)
	case 3:
		if !pc.force && state == "blob" && o1.err == nil && bytes.Equal(o1.out, blob) {
			st.edgeSpelled++
		}
		c.Cell("edge|spelled-places|efivarfs=%s|eventlog=%s|el=%s|%s", efiHow, logHow, pc.shape.name, class)
	}
}

// names that lead (by symlink or lexically) into base/efivars-evil, the directory next to the root
var siblingNames = []string{"LinkSib", "LinkSibAbs", "dsib/canary", "dsib/Plain", "../efivars-evil/canary", "sub/../../efivars-evil/Plain", "dsib/../efivars-evil/canary", "../efivars-evil/Plain"}

var spelledConfNames = []string{"Plain", "FirmwareRIM", "Ωmega", "a b", "sub/Inner", "LinkRelOut", "LinkAbsOut", "dlink/canary", "dabs/canary", "../outside/canary", "../canary", "sub/up/../canary", "LinkIn", "Missing", "Short"}

func runEdgeConfine(c *core.Ctx, w *confWorld, i, k int, r *rand.Rand, st *auditStats) {
	cc := confCase{guid: w.guids[r.IntN(len(w.guids))], class: "spelled-root"}
	how := "canonical"
	root := w.root
	sib := k%2 == 0
	if sib {
		cc.label, cc.class = siblingNames[(k/2)%len(siblingNames)], "sibling-of-root"
		if r.IntN(3) == 0 {
			how = spellings[r.IntN(len(spellings))]
		}
	} else {
		cc.label = spelledConfNames[(k/2)%len(spelledConfNames)]
		how = spellings[r.IntN(len(spellings))]
	}
	switch how {
	case "canonical":
	case "directory-symlink":
		root = filepath.Join(w.base, "rootlink")
	default:
		root = spell(how, w.root, true)
	}
	cc.units = strUnits(cc.label)
	gen := fmt.Sprintf("edge/confine/%s/root=%s/%.40q", cc.class, how, cc.label)
	nameBytes := unitsBytes(cc.units, true)
	c.Begin(i, gen, entryReadVar, append(append([]byte(nil), cc.guid[:]...), nameBytes...))
	defer c.End(i)
	rd := exel.MakeEfiVarFSReader(root)
	var out []byte
	var err error
	if m := c.Guard(i, entryReadVar, gen, core.Budget{}, func() { out, err = rd.ReadVariable(uuid.UUID(cc.guid), nameBytes) }); m.Panicked {
		return
	}
	res := w.judge(c, i, entryReadVar, gen, cc, out, err)
	if how == "canonical" {
		st.straceBatch = append(st.straceBatch, straceCase{I: i, GUID: hex.EncodeToString(cc.guid[:]), Name: hex.EncodeToString(nameBytes), Label: cc.label})
	}
	if sib {
		st.edgeSibling++
	} else if strings.HasPrefix(res, "inside") {
		st.edgeSpelledConf++
	}
	c.Cell("edge|confine|%s|root=%s|%s|%s", cc.class, how, shapeOf(cc.units), res)
}

// ---- the signer's events from a kept endorse.Context (and at an output place used before) ----

// runEventsAgain makes 2-3 snapshot endorse runs of DIFFERENT images that write to one version-control
// double - under the same image name (the files of the earlier run are in the way) or another - from
// one kept endorse.Context / keys.Context / context.Context whose Image (and change number,
// timestamp) the caller re-assigns between the runs, or from fresh values for every run. Each run's
// <image>.evts.pb is judged by the rules of part (b) against the image of THAT run.
func runEventsAgain(c *core.Ctx, sc *scratch, i int, st *auditStats) {
	r := c.Rand(i)
	kept := r.IntN(3) != 0
	mode := map[bool]string{true: "kept-context", false: "fresh-contexts"}[kept]
	runs := 2 + r.IntN(2)
	snapDir := []string{"snap", "releases/2025/q1", "s"}[r.IntN(3)]
	imageName := []string{"ovmf_x64_csm.fd", "fw.bin", "dir/OVMF.fd"}[r.IntN(3)]
	c.Begin(i, "events-again/"+mode, entryEndorse, nil)
	defer c.End(i)
	vcs := &memVCS{files: map[string][]byte{}}
	var ec *endorse.Context
	var ctx context.Context
	newFW := func() []byte {
		size := []int{0x2000, 0x4000, 0x10000}[r.IntN(3)]
		fw := randBytes(r, size)
		if err := fakeovmf.InitializeSevGUIDTable(fw, 0x20, 0xff0000ff, fakeovmf.DefaultSnpSections()); err != nil {
			panic(err)
		}
		return fw
	}
	var lastSigned []byte
	var lastEvs [][]byte
	for n := 0; n < runs; n++ {
		fw := newFW()
		samePlace := n == 0 || r.IntN(3) != 0
		if !samePlace {
			imageName = fmt.Sprintf("run%d/%s", n, filepath.Base(imageName))
		}
		svn := uint32(r.IntN(3))
		clspec, ts := uint64(1+r.IntN(1000)), time.Unix(1700000000+int64(r.IntN(1e6)), 0)
		if ec == nil || !kept {
			manager := memkm.TestOnlyT()
			kc := &keys.Context{CA: memca.TestOnlyCertificateAuthority(), Manager: manager, Signer: manager.Signer, Random: randReader{r}}
			ec = &endorse.Context{SevSnp: &sev.SnpEndorsementRequest{LaunchVmsas: 1, Product: spb.SevProduct_SEV_PRODUCT_MILAN, Svn: svn},
				ClSpec: clspec, Image: fw, VCS: vcs, Timestamp: ts, SnapshotDir: snapDir, ImageName: imageName}
			ctx = endorse.NewContext(output.NewContext(keys.NewContext(context.Background(), kc), &output.Options{Overwrite: true, Quiet: true}), ec)
		} else { // the caller's kept Context: only what changes is assigned
			ec.Image, ec.ClSpec, ec.Timestamp, ec.ImageName = fw, clspec, ts, imageName
			ec.SevSnp.Svn = svn
		}
		gen := fmt.Sprintf("events-again/%s/run=%d/same-place=%v/size=%#x/svn=%d", mode, n, samePlace, len(fw), svn)
		var err error
		if m := c.Guard(i, entryEndorse, gen, core.Budget{}, func() { err = endorse.VirtualFirmware(ctx) }); m.Panicked {
			return
		}
		if err != nil {
			c.Count("events/endorse-failed", 1)
			c.Note("endorse run failed: %v", err)
			return
		}
		evs, signed, _, _, _, _, ok := judgeEmitted(c, i, gen, vcs, "/vcs/"+snapDir+"/"+imageName, fw)
		if !ok {
			return
		}
		if n > 0 {
			st.evAgain++
			if kept {
				st.evAgainKept++
			}
			c.Cell("events-again|%s|run=%d|same-place=%v|svn=%d", mode, min(n, 2), samePlace, svn)
		}
		lastSigned, lastEvs = signed, evs
	}
	// the last run's events in a short boot log lead to that run's endorsement in the variable
	dir := filepath.Join(sc.dir, fmt.Sprintf("ea%d", i))
	efi := filepath.Join(dir, "efivars")
	must(os.MkdirAll(efi, 0o755))
	defer os.RemoveAll(dir)
	must(os.WriteFile(filepath.Join(efi, firmwareRIMName+"-"+googleVarGUID), append([]byte{7, 0, 0, 0}, lastSigned...), 0o644))
	lev := []logEvent{{Type: evPostCode, Data: []byte("POST CODE")}, {Type: evNoAction, Data: lastEvs[0]}, {Type: evNoAction, Data: lastEvs[1]}}
	pl, _ := placeLog(dir, "binary_bios_measurements", encodeLog(lev), mediumRegular)
	g := &recGetter{}
	var out []byte
	var err error
	gen := "events-again/" + mode + "/last-run-through-the-extractor"
	c.Guard(i, entryDirect, gen, core.Budget{}, func() {
		out, err = extract.Endorsement(&extract.Options{Getter: g, FirmwareManufacturer: extract.GCEFirmwareManufacturer, EventLogLocation: pl.path, UEFIVariableReader: exel.MakeEfiVarFSReader(efi)})
	})
	if err != nil || !bytes.Equal(out, lastSigned) || len(g.urls) != 0 {
		c.Oracle(i, entryDirect, "emitted-events-do-not-lead-to-the-variable", gen, "err=%v len(out)=%d want %d urls=%v", err, len(out), len(lastSigned), g.urls)
	}
}
