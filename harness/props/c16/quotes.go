package c16

// Quote material: every attestation format the extractor documents, built from go-sev-guest's
// test certificate chain (ARK/ASK/VCEK) and go-tdx-guest's sample quote, with the launch
// measurement and the certificate-table entry chosen by the case.

import (
	"encoding/base64"
	"encoding/binary"
	"fmt"
	"sync"
	"time"

	sgabi "github.com/google/go-sev-guest/abi"
	spb "github.com/google/go-sev-guest/proto/sevsnp"
	tabi "github.com/google/go-tdx-guest/abi"
	tpb "github.com/google/go-tdx-guest/proto/tdx"
	"google.golang.org/protobuf/encoding/protowire"
	"google.golang.org/protobuf/proto"

	"verifharness/gen"
)

// gceFwCertGUID is the certificate-table key of the GCE firmware endorsement (sev.GCEFwCertGUID);
// spelled out here so that the monitor does not take it from the code under test.
const gceFwCertGUID = "9f4116cd-c503-4f5a-8f6f-fb68882f4ce2"

type chainDER struct{ ark, ask, vcek []byte }

var (
	chainOnce sync.Once
	chain     chainDER
)

func baseChain() chainDER {
	chainOnce.Do(func() {
		raw := gen.RawSnpQuote(make([]byte, 48), nil, time.Date(2025, 1, 1, 0, 0, 0, 0, time.UTC))
		at, err := sgabi.ReportCertsToProto(raw)
		if err != nil {
			panic(err)
		}
		c := at.GetCertificateChain()
		chain = chainDER{ark: c.GetArkCert(), ask: c.GetAskCert(), vcek: c.GetVcekCert()}
		if len(chain.ark) == 0 || len(chain.ask) == 0 || len(chain.vcek) == 0 {
			panic("c16: test chain incomplete")
		}
	})
	return chain
}

func parseGUID(s string) (g [16]byte) {
	var a, b, c, d, e uint64
	if _, err := fmt.Sscanf(s, "%08x-%04x-%04x-%04x-%012x", &a, &b, &c, &d, &e); err != nil {
		panic(err)
	}
	binary.BigEndian.PutUint32(g[0:], uint32(a))
	binary.BigEndian.PutUint16(g[4:], uint16(b))
	binary.BigEndian.PutUint16(g[6:], uint16(c))
	binary.BigEndian.PutUint16(g[8:], uint16(d))
	for i := 0; i < 6; i++ {
		g[10+i] = byte(e >> (8 * (5 - i)))
	}
	return g
}

// certTable writes the AMD extended-report certificate table (GUID, offset, length entries, an
// all-zero terminator, then the blobs) for ARK/ASK/VCEK plus the optional GCE entry.
func certTable(blob []byte) []byte {
	ch := baseChain()
	type ent struct {
		guid [16]byte
		data []byte
	}
	ents := []ent{{parseGUID(sgabi.ArkGUID), ch.ark}, {parseGUID(sgabi.AskGUID), ch.ask}, {parseGUID(sgabi.VcekGUID), ch.vcek}}
	if blob != nil {
		ents = append(ents, ent{parseGUID(gceFwCertGUID), blob})
	}
	hdr := (len(ents) + 1) * 24
	out := make([]byte, hdr)
	off := hdr
	for i, e := range ents {
		copy(out[i*24:], e.guid[:])
		binary.LittleEndian.PutUint32(out[i*24+16:], uint32(off))
		binary.LittleEndian.PutUint32(out[i*24+20:], uint32(len(e.data)))
		out = append(out, e.data...)
		off += len(e.data)
	}
	return out
}

// rawReport is a 0x4A0-byte ATTESTATION_REPORT (version 2) with the measurement at 0x90.
func rawReport(m []byte) []byte {
	r := make([]byte, 0x4A0)
	binary.LittleEndian.PutUint32(r[0x00:], 2)
	binary.LittleEndian.PutUint64(r[0x08:], gen.ProdPolicy())
	binary.LittleEndian.PutUint32(r[0x34:], 1)
	copy(r[0x90:0x90+48], m)
	return r
}

func snpProto(m, blob []byte) *spb.Attestation {
	rep, err := sgabi.ReportToProto(rawReport(m))
	if err != nil {
		panic(err)
	}
	ch := baseChain()
	cc := &spb.CertificateChain{ArkCert: ch.ark, AskCert: ch.ask, VcekCert: ch.vcek}
	if blob != nil {
		cc.Extras = map[string][]byte{gceFwCertGUID: blob}
	}
	return &spb.Attestation{Report: rep, CertificateChain: cc}
}

func mustMarshal(m proto.Message) []byte {
	b, err := proto.MarshalOptions{Deterministic: true}.Marshal(m)
	if err != nil {
		panic(err)
	}
	return b
}

// tpmWrap builds a go-tpm-tools attest.Attestation carrying the TEE attestation in field
// 8 (sev_snp_attestation) or 9 (tdx_attestation), written with protowire.
func tpmWrap(field protowire.Number, inner []byte) []byte {
	b := protowire.AppendTag(nil, 6, protowire.BytesType) // ak_cert
	b = protowire.AppendBytes(b, []byte("not-a-certificate"))
	if inner != nil {
		b = protowire.AppendTag(b, field, protowire.BytesType)
		b = protowire.AppendBytes(b, inner)
	}
	return b
}

const hexdigits = "0123456789abcdef"

func lowerHex(b []byte) string {
	o := make([]byte, 0, 2*len(b))
	for _, x := range b {
		o = append(o, hexdigits[x>>4], hexdigits[x&15])
	}
	return string(o)
}

// quoteKind describes what the workload knows about a quote it built.
type quoteKind struct {
	name string
	tech string // "snp", "tdx" or "" when the material names no technology
	full bool   // carries a 48-byte launch measurement as recognised material
	ext  bool   // may carry the certificate-table entry
	doc  bool   // a format the extractor documents / its tests use; false = no expectation about recognition
}

var quoteKinds = []quoteKind{
	{"none", "", false, false, true},
	{"empty", "", false, false, true},
	{"garbage", "", false, false, true},
	{"snp-attestation-proto", "snp", true, true, true},
	{"snp-raw-report+table", "snp", true, true, true},
	{"snp-raw-report+table-hex", "snp", true, true, true},
	{"snp-raw-report+table-base64", "snp", true, true, true},
	{"tpm-attestation-snp", "snp", true, true, true},
	{"snp-raw-report", "snp", true, false, true},
	{"snp-report-proto", "snp", true, false, true},
	{"snp-table-only", "", false, true, true},
	{"tdx-raw", "tdx", true, false, true},
	{"tdx-raw-hex", "tdx", true, false, true},
	{"tpm-attestation-tdx", "tdx", true, false, true},
	{"tpm-attestation-no-tee", "", false, false, true},
	{"tdx-proto", "tdx", true, false, false},
}

var garbage = [][]byte{{0xc0, 0xde}, []byte("bad quote format"), {0xff, 0xff, 0xff, 0xff, 0xff, 0xff, 0xff, 0xff, 0xff, 0xff, 0xff, 0xff, 0xff, 0xff, 0xff, 0xff}}

// buildQuote returns the bytes of a quote of kind k for measurement m; blob nil = no entry.
func buildQuote(k quoteKind, m, blob []byte, variant int) []byte {
	if !k.ext {
		blob = nil
	}
	switch k.name {
	case "none":
		return nil
	case "empty":
		return []byte{}
	case "garbage":
		return append([]byte(nil), garbage[variant%len(garbage)]...)
	case "snp-attestation-proto":
		return mustMarshal(snpProto(m, blob))
	case "snp-raw-report+table":
		return append(rawReport(m), certTable(blob)...)
	case "snp-raw-report+table-hex":
		return []byte(lowerHex(append(rawReport(m), certTable(blob)...)))
	case "snp-raw-report+table-base64":
		return []byte(base64.StdEncoding.EncodeToString(append(rawReport(m), certTable(blob)...)))
	case "tpm-attestation-snp":
		return tpmWrap(8, mustMarshal(snpProto(m, blob)))
	case "snp-raw-report":
		return rawReport(m)
	case "snp-report-proto":
		return mustMarshal(snpProto(m, nil).Report)
	case "snp-table-only":
		return certTable(blob)
	case "tdx-raw":
		return gen.TdxQuote(m)
	case "tdx-raw-hex":
		return []byte(lowerHex(gen.TdxQuote(m)))
	case "tpm-attestation-tdx", "tdx-proto":
		q, err := tabi.QuoteToProto(gen.TdxQuote(m))
		if err != nil {
			panic(err)
		}
		b := mustMarshal(q.(proto.Message))
		if k.name == "tdx-proto" {
			return b
		}
		return tpmWrap(9, b)
	case "tpm-attestation-no-tee":
		return tpmWrap(0, nil)
	}
	if b, ok := buildExtraQuote(k, m, blob); ok {
		return b
	}
	panic("unknown quote kind " + k.name)
}

// ---- quote kinds outside the precedence product (used by the families appended after it) ----

// extraQuoteKinds: (1) recognised formats whose measurement field is NOT 48 bytes long (the m handed
// to buildQuote has the odd length): full=false, so no URL may be derived from them, and ext=false,
// so nothing is demanded about an entry; (2) equivalent encodings of documented formats - the same
// message with its fields in another order or with padded length varints, hex digits in upper
// case, base64 broken into lines - with the same expectations as the plain encoding.
var extraQuoteKinds = []quoteKind{
	{"snp-report-proto:odd-measurement", "snp", false, false, true},
	{"snp-attestation-proto:odd-measurement", "snp", false, false, true},
	{"tpm-attestation-snp:odd-measurement", "snp", false, false, true},
	{"tpm-attestation-tdx:odd-mrtd", "tdx", false, false, true},
	{"snp-attestation-proto:chain-first", "snp", true, true, true},
	{"snp-attestation-proto:padded-lengths", "snp", true, true, true},
	{"tpm-attestation-snp:tee-first", "snp", true, true, true},
	{"snp-raw-report+table-HEX", "snp", true, true, true},
	{"snp-raw-report+table-base64-lines", "snp", true, true, true},
	{"tdx-raw-HEX", "tdx", true, false, true},
}

func extraKind(name string) quoteKind {
	for _, k := range extraQuoteKinds {
		if k.name == name {
			return k
		}
	}
	panic("unknown extra quote kind " + name)
}

// appendPaddedVarint writes v as a five-byte varint (legal, not minimal).
func appendPaddedVarint(b []byte, v uint64) []byte {
	for i := 0; i < 4; i++ {
		b = append(b, byte(v&0x7f)|0x80)
		v >>= 7
	}
	return append(b, byte(v&0x7f))
}

func upperHex(b []byte) string {
	const digits = "0123456789ABCDEF"
	o := make([]byte, 0, 2*len(b))
	for _, x := range b {
		o = append(o, digits[x>>4], digits[x&15])
	}
	return string(o)
}

func buildExtraQuote(k quoteKind, m, blob []byte) ([]byte, bool) {
	oddSnp := func() *spb.Attestation {
		at := snpProto(make([]byte, 48), nil)
		at.Report.Measurement = append([]byte{}, m...)
		return at
	}
	switch k.name {
	case "snp-report-proto:odd-measurement":
		return mustMarshal(oddSnp().Report), true
	case "snp-attestation-proto:odd-measurement":
		return mustMarshal(oddSnp()), true
	case "tpm-attestation-snp:odd-measurement":
		return tpmWrap(8, mustMarshal(oddSnp())), true
	case "tpm-attestation-tdx:odd-mrtd":
		q, err := tabi.QuoteToProto(gen.TdxQuote(make([]byte, 48)))
		if err != nil {
			panic(err)
		}
		q4 := q.(*tpb.QuoteV4)
		q4.TdQuoteBody.MrTd = append([]byte{}, m...)
		return tpmWrap(9, mustMarshal(q4)), true
	case "snp-attestation-proto:chain-first", "snp-attestation-proto:padded-lengths":
		at := snpProto(m, blob)
		rep, cc := mustMarshal(at.Report), mustMarshal(at.CertificateChain)
		var b []byte
		if k.name == "snp-attestation-proto:chain-first" {
			b = protowire.AppendBytes(protowire.AppendTag(b, 2, protowire.BytesType), cc)
			b = protowire.AppendBytes(protowire.AppendTag(b, 1, protowire.BytesType), rep)
			return b, true
		}
		b = append(appendPaddedVarint(protowire.AppendTag(b, 1, protowire.BytesType), uint64(len(rep))), rep...)
		b = append(appendPaddedVarint(protowire.AppendTag(b, 2, protowire.BytesType), uint64(len(cc))), cc...)
		return b, true
	case "tpm-attestation-snp:tee-first":
		b := protowire.AppendBytes(protowire.AppendTag(nil, 8, protowire.BytesType), mustMarshal(snpProto(m, blob)))
		b = protowire.AppendBytes(protowire.AppendTag(b, 6, protowire.BytesType), []byte("not-a-certificate"))
		return b, true
	case "snp-raw-report+table-HEX":
		return []byte(upperHex(append(rawReport(m), certTable(blob)...))), true
	case "snp-raw-report+table-base64-lines":
		s := base64.StdEncoding.EncodeToString(append(rawReport(m), certTable(blob)...))
		var o []byte
		for len(s) > 76 {
			o = append(append(o, s[:76]...), '\n')
			s = s[76:]
		}
		return append(append(o, s...), '\n'), true
	case "tdx-raw-HEX":
		return []byte(upperHex(gen.TdxQuote(m))), true
	}
	return nil, false
}
