package c16

// Part (d): resolving a UEFI-variable locator never reads outside the efivarfs root.
// In-process oracle: whatever is returned is content[4:] of a regular file that lies inside the
// root. Thorough tier: the same calls are repeated in a child of this binary under strace and
// every path-taking system call between the case markers is resolved by the monitor's own
// symlink walker against the (static) scratch tree.

import (
	"bufio"
	"bytes"
	"encoding/hex"
	"encoding/json"
	"fmt"
	"math/rand/v2"
	"os"
	"os/exec"
	"path/filepath"
	"regexp"
	"runtime"
	"strconv"
	"strings"
	"unicode/utf16"

	"github.com/google/gce-tcb-verifier/extract"
	exel "github.com/google/gce-tcb-verifier/extract/eventlog"
	"github.com/google/uuid"

	"verifharness/core"
)

const (
	entryReadVar = "EfiVarFSReader.ReadVariable"
	helperEnv    = "VERIF_C16_STRACE_HELPER"
)

func init() {
	if p := os.Getenv(helperEnv); p != "" {
		straceHelper(p)
		os.Exit(0)
	}
}

type confWorld struct {
	base, root, outside string
	sibling             string // base/efivars-evil: outside the root, its name starts with the root's
	guids               [][16]byte
	inside              map[string]string // payload -> path of the regular file inside the root
}

// buildConfWorld lays out the scratch tree (static for the whole shard).
func buildConfWorld(sc *scratch, r *rand.Rand) *confWorld {
	w := &confWorld{base: filepath.Join(sc.dir, "d"), inside: map[string]string{}}
	w.root, w.outside = filepath.Join(w.base, "efivars"), filepath.Join(w.base, "outside")
	for _, d := range []string{w.root, w.outside, filepath.Join(w.root, "sub"), filepath.Join(w.root, "outside"), filepath.Join(w.outside, "sub"), filepath.Join(w.root, "etc")} {
		must(os.MkdirAll(d, 0o755))
	}
	g1 := [16]byte{}
	copy(g1[:], randBytes(r, 16))
	w.guids = [][16]byte{parseGUID(googleVarGUID), g1}
	n := 0
	in := func(rel string, short int) {
		n++
		payload := append([]byte(fmt.Sprintf("INSIDE:%d:", n)), randBytes(r, 8+r.IntN(64))...)
		content := append([]byte{7, 0, 0, 0}, payload...)
		if short >= 0 {
			content = content[:short]
		} else {
			w.inside[string(payload)] = rel
		}
		must(os.WriteFile(filepath.Join(w.root, rel), content, 0o644))
	}
	out := func(path string) {
		n++
		must(os.WriteFile(path, append([]byte{7, 0, 0, 0}, []byte(fmt.Sprintf("CANARY-OUTSIDE:%d:%x", n, randBytes(r, 16)))...), 0o644))
	}
	ln := func(target, rel string) { must(os.Symlink(target, filepath.Join(w.root, rel))) }
	for _, g := range w.guids {
		s := "-" + guidText(g)
		for _, name := range []string{"Plain", "FirmwareRIM", "Ωmega", "a b", "sub/Inner", "canary", "outside/canary", "etc/passwd", "😀", "x�y"} {
			in(name+s, -1)
		}
		in("Short"+s, 3)
		in("Empty"+s, 0)
		must(os.MkdirAll(filepath.Join(w.root, "Dir"+s), 0o755))
		out(filepath.Join(w.outside, "canary"+s))
		out(filepath.Join(w.outside, "sub", "canary"+s))
		out(filepath.Join(w.outside, "Plain"+s))
		out(filepath.Join(w.base, "canary"+s))
		out(filepath.Join(w.base, "Plain"+s))
		ln(filepath.Join(w.outside, "canary"+s), "LinkAbsOut"+s)
		ln("../outside/canary"+s, "LinkRelOut"+s)
		ln("Plain"+s, "LinkIn"+s)
		ln("/Plain"+s, "LinkAbsIn"+s)
		ln("loop"+s, "loop"+s)
		ln("c2"+s, "c1"+s)
		ln("../outside/canary"+s, "c2"+s)
		ln("../../outside/canary"+s, "sub/LinkUp2"+s)
	}
	ln("../outside", "dlink")
	ln(w.outside, "dabs")
	ln("lb", "la")
	ln("la", "lb")
	ln("..", "sub/up")
	ln("../../outside", "sub/out")
	ln("..", "dotdot")
	// Appended by the audit (after every draw above, so the tree above and its canaries keep their
	// contents): a directory NEXT TO the root whose name begins with the root's name, links from
	// inside the root to it, and a second name for the root itself.
	w.sibling = filepath.Join(w.base, "efivars-evil")
	must(os.MkdirAll(w.sibling, 0o755))
	for _, g := range w.guids {
		s := "-" + guidText(g)
		out(filepath.Join(w.sibling, "canary"+s))
		out(filepath.Join(w.sibling, "Plain"+s))
		ln("../efivars-evil/canary"+s, "LinkSib"+s)
		ln(filepath.Join(w.sibling, "canary"+s), "LinkSibAbs"+s)
	}
	ln("../efivars-evil", "dsib")
	must(os.Symlink("efivars", filepath.Join(w.base, "rootlink")))
	return w
}

var confDirected = []string{
	"Plain", "FirmwareRIM", "Ωmega", "a b", "sub/Inner", "Short", "Empty", "Dir", "Missing", "plain",
	"LinkAbsOut", "LinkRelOut", "LinkIn", "LinkAbsIn", "loop", "c1", "c2", "sub/LinkUp2",
	"dlink/canary", "dabs/canary", "dlink/sub/canary", "la/x", "lb/Plain", "sub/up/Plain", "sub/up/../canary", "sub/out/canary", "dotdot/canary", "dotdot/outside/canary",
	"../outside/canary", "../canary", "../Plain", "sub/../../outside/canary", "sub/../../canary", "sub/../Plain", "./Plain", "/Plain", "//Plain", "Plain/", "Plain/.", "..", ".", "../", "dlink/..", "dlink/../canary", "dlink/../Plain",
	"dabs/../canary", "dabs/sub/../../canary", "../../../../../../../../../../etc/passwd", "/etc/passwd", "sub/../../../../../../../../etc/passwd",
	"Plain\x00", "Pl\x00ain", "\x00", "../outside/canary\x00x", "dlink/canary\x00",
	"😀", "x😀y", "../outside/😀",
}

var confPool = []string{"..", "..", ".", "", "sub", "dlink", "dabs", "la", "lb", "up", "out", "dotdot", "Plain", "canary", "outside", "Inner", "LinkRelOut", "LinkAbsOut", "c1", "etc", "passwd", "Missing", "Ωmega", "a b"}

type confCase struct {
	guid  [16]byte
	units []uint16 // UCS-2 code units of the name, without terminator
	label string
	class string
}

func strUnits(s string) []uint16 { return utf16.Encode([]rune(s)) }

func unitsBytes(u []uint16, terminate bool) []byte {
	var b []byte
	for _, x := range u {
		b = putU16(b, x)
	}
	if terminate {
		b = append(b, 0, 0)
	}
	return b
}

func (w *confWorld) genCase(r *rand.Rand, k int) confCase {
	cc := confCase{guid: w.guids[r.IntN(len(w.guids))]}
	if r.IntN(16) == 0 { // a GUID for which nothing exists
		copy(cc.guid[:], randBytes(r, 16))
	}
	if k < 2*len(confDirected) {
		s := confDirected[k%len(confDirected)]
		cc.guid = w.guids[(k/len(confDirected))%len(w.guids)]
		cc.units, cc.label, cc.class = strUnits(s), s, "directed"
		return cc
	}
	switch r.IntN(10) {
	case 0: // long
		n := 200 + r.IntN(1800)
		s := strings.Repeat([]string{"A", "../", "sub/", "dlink/"}[r.IntN(4)], n)
		cc.units, cc.label, cc.class = strUnits(s), fmt.Sprintf("%.12s…x%d", s, n), "long"
	case 1: // lone surrogates / arbitrary units
		n := 1 + r.IntN(6)
		for j := 0; j < n; j++ {
			cc.units = append(cc.units, []uint16{0xD800, 0xDFFF, 0xDC00, 'A', '/', '.', 0xFFFE, 0xFFFF, 0x2215, 0xFF0F}[r.IntN(10)])
		}
		cc.label, cc.class = fmt.Sprintf("units %04x", cc.units), "units"
	default:
		n := 1 + r.IntN(5)
		var parts []string
		for j := 0; j < n; j++ {
			parts = append(parts, confPool[r.IntN(len(confPool))])
		}
		s := strings.Join(parts, "/")
		if r.IntN(6) == 0 {
			s = "/" + s
		}
		if r.IntN(8) == 0 {
			p := r.IntN(len(s) + 1)
			s = s[:p] + "\x00" + s[p:]
		}
		cc.units, cc.label, cc.class = strUnits(s), s, "composed"
	}
	return cc
}

// plainName: the name addresses one directory entry of the root without any path semantics.
func plainName(u []uint16) (string, bool) {
	for _, x := range u {
		if x == 0 || x == '/' || (x >= 0xD800 && x <= 0xDFFF) {
			return "", false
		}
	}
	s := string(utf16.Decode(u))
	if s == "" || s == "." || s == ".." || len(s) > 150 {
		return "", false
	}
	return s, true
}

func (w *confWorld) judge(c *core.Ctx, i int, entry, gen string, cc confCase, out []byte, err error) string {
	if err != nil {
		if s, ok := plainName(cc.units); ok {
			p := filepath.Join(w.root, s+"-"+guidText(cc.guid))
			if fi, e := os.Lstat(p); e == nil && fi.Mode().IsRegular() && fi.Size() >= 4 {
				c.Oracle(i, entry, "present-variable-not-returned", gen, "variable file %q exists (%d bytes) but the read failed: %v", p, fi.Size(), err)
			}
		}
		return "error"
	}
	if bytes.Contains(out, []byte("CANARY-OUTSIDE")) {
		c.Violate(core.Violation{Kind: "oracle", Entry: entry, Site: "read-outside-efivarfs-root", Gen: gen, Case: i,
			Detail:  fmt.Sprintf("name %q guid %s under root %s returned the content of a file outside the root: %.60q", cc.label, guidText(cc.guid), w.root, out),
			Witness: map[string]any{"name_ucs2_hex": hex.EncodeToString(unitsBytes(cc.units, true)), "guid": guidText(cc.guid)}})
		return "escaped"
	}
	rel, ok := w.inside[string(out)]
	if !ok {
		c.Oracle(i, entry, "returned-bytes-are-not-a-variable-inside-the-root", gen, "name %q guid %s returned %d bytes %.60q that are no file's content[4:] inside %s", cc.label, guidText(cc.guid), len(out), out, w.root)
		return "unknown-bytes"
	}
	if s, ok := plainName(cc.units); ok {
		want := s + "-" + guidText(cc.guid)
		fi, e := os.Lstat(filepath.Join(w.root, want))
		switch {
		case e != nil:
			c.Oracle(i, entry, "absent-variable-returned-bytes", gen, "no entry %q in the root, yet %q's content came back", want, rel)
		case fi.Mode().IsRegular() && rel != want:
			c.Oracle(i, entry, "wrong-variable-returned", gen, "asked for %q, got the content of %q", want, rel)
		}
	}
	return "inside:" + rel[:min(len(rel), 12)]
}

func runConfine(c *core.Ctx, sc *scratch, w *confWorld, i, k int, st *struct{ inside, refused, viaLog int }, batch *[]straceCase) {
	r := c.Rand(i)
	cc := w.genCase(r, k)
	gen := fmt.Sprintf("confine/%s/%.40q", cc.class, cc.label)
	nameBytes := unitsBytes(cc.units, true)
	c.Begin(i, gen, entryReadVar, append(append([]byte(nil), cc.guid[:]...), nameBytes...))
	defer c.End(i)
	rd := exel.MakeEfiVarFSReader(w.root)
	var out []byte
	var err error
	m := c.Guard(i, entryReadVar, gen, core.Budget{}, func() { out, err = rd.ReadVariable(uuid.UUID(cc.guid), nameBytes) })
	if m.Panicked {
		return
	}
	res := w.judge(c, i, entryReadVar, gen, cc, out, err)
	if strings.HasPrefix(res, "inside") {
		st.inside++
	} else if res == "error" {
		st.refused++
	}
	if (st.inside == 1 && strings.HasPrefix(res, "inside")) || (st.refused == 3 && res == "error") {
		c.Sample(map[string]any{"family": "confine", "name": cc.label, "guid": guidText(cc.guid), "result": res, "err": fmt.Sprint(err)})
	}
	c.Cell("confine|%s|%s|%s", cc.class, shapeOf(cc.units), res)
	*batch = append(*batch, straceCase{I: i, GUID: hex.EncodeToString(cc.guid[:]), Name: hex.EncodeToString(nameBytes), Label: cc.label})

	// the same locator through a boot event log
	g := efiGUID(cc.guid)
	loc := append(append([]byte(nil), g[:]...), nameBytes...)
	if len(loc) > 60000 {
		return
	}
	e := &sp155{PlatMfrID: 11129, PlatMfrStr: googleMfr, PlatModel: "Google Compute Engine", FwMfrStr: googleMfr, FwMfrID: 11129, FwVersion: "2.7", LocType: locVariable, Loc: loc}
	logName := fmt.Sprintf("d%d.log", i)
	pl, _ := placeLog(sc.dir, logName, encodeLog([]logEvent{{Type: evNoAction, Data: e.encode()}}), drawMedium(r))
	defer os.Remove(filepath.Join(sc.dir, logName))
	defer os.Remove(filepath.Join(sc.dir, logName+".target"))
	gen += "/log-on=" + pl.medium.String()
	var out2 []byte
	var err2 error
	pl.serve(func() {
		m = c.Guard(i, entryDirect, gen, core.Budget{}, func() {
			out2, err2 = extract.Endorsement(&extract.Options{FirmwareManufacturer: googleMfr, EventLogLocation: pl.path, UEFIVariableReader: rd})
		})
	})
	if m.Panicked {
		return
	}
	if pl.tainted {
		c.Count("log-medium/pipe-not-served-whole(case-skipped)", 1)
		return
	}
	c.Count("log-medium/"+pl.medium.String(), 1)
	if err2 == nil {
		st.viaLog++
	}
	w.judge(c, i, entryDirect, gen, cc, out2, err2)
	if (err == nil) != (err2 == nil) || !bytes.Equal(out, out2) {
		c.Count("confine/event-log-path-differs-from-direct-read", 1)
	}
}

func shapeOf(u []uint16) string {
	var f []string
	s := string(utf16.Decode(u))
	if strings.Contains(s, "..") {
		f = append(f, "dotdot")
	}
	if strings.Contains(s, "/") {
		f = append(f, "slash")
	}
	if strings.HasPrefix(s, "/") {
		f = append(f, "abs")
	}
	if strings.Contains(s, "\x00") {
		f = append(f, "nul")
	}
	for _, l := range []string{"dlink", "dabs", "Link", "la", "lb", "loop", "c1", "c2", "up", "out", "dotdot/"} {
		if strings.Contains(s, l) {
			f = append(f, "symlink")
			break
		}
	}
	for _, x := range u {
		if x >= 0xD800 && x <= 0xDFFF {
			f = append(f, "surrogate")
			break
		}
	}
	if len(u) > 150 {
		f = append(f, "long")
	}
	if len(f) == 0 {
		return "plain"
	}
	return strings.Join(f, "+")
}

// ---- strace monitor (thorough tier) ----

type straceCase struct {
	I     int    `json:"i"`
	GUID  string `json:"guid"`
	Name  string `json:"name"`
	Label string `json:"label"`
}

type straceSpec struct {
	Root  string       `json:"root"`
	Cases []straceCase `json:"cases"`
}

// straceHelper is the child: it only repeats the reads between marker stats.
func straceHelper(specPath string) {
	b, err := os.ReadFile(specPath)
	must(err)
	var sp straceSpec
	must(json.Unmarshal(b, &sp))
	rd := exel.MakeEfiVarFSReader(sp.Root)
	runtime.LockOSThread() // markers and reads come from one thread; the monitor ignores the others (runtime / libc noise)
	for _, cs := range sp.Cases {
		g, _ := hex.DecodeString(cs.GUID)
		n, _ := hex.DecodeString(cs.Name)
		var gu uuid.UUID
		copy(gu[:], g)
		os.Stat(fmt.Sprintf("/verif-marker/begin/%d", cs.I))
		func() {
			defer func() { recover() }()
			rd.ReadVariable(gu, n)
		}()
		os.Stat(fmt.Sprintf("/verif-marker/end/%d", cs.I))
	}
}

var (
	straceLine = regexp.MustCompile(`^(\d+)\s+(\w+)\((.*)$`)
	resumedRe  = regexp.MustCompile(`^(\d+)\s+<\.\.\. \w+ resumed>(.*)$`)
	quotedArg  = regexp.MustCompile(`"((?:\\x[0-9a-f]{2})*)"`)
)

func unhexEscapes(s string) string {
	var b []byte
	for i := 0; i+4 <= len(s); i += 4 {
		v, _ := strconv.ParseUint(s[i+2:i+4], 16, 8)
		b = append(b, byte(v))
	}
	return string(b)
}

// walk resolves path the way the kernel would on the static scratch tree and reports the first
// location outside root it touches ("" = stayed inside). followFinal: the call follows a final symlink.
func walkOutside(root, path string, followFinal bool) string {
	if !filepath.IsAbs(path) {
		return "relative path " + path
	}
	inRoot := func(p string) bool { return p == root || strings.HasPrefix(p, root+"/") }
	if !inRoot(path) {
		if strings.HasPrefix(root, strings.TrimRight(path, "/")+"/") {
			return "" // an ancestor directory of the root
		}
		return "path " + path
	}
	// descend from the root, component by component
	rest := strings.TrimPrefix(path, root)
	cur := root
	comps := strings.Split(rest, "/")
	hops := 0
	for len(comps) > 0 {
		comp := comps[0]
		comps = comps[1:]
		if comp == "" || comp == "." {
			continue
		}
		if comp == ".." {
			cur = filepath.Dir(cur)
			if !inRoot(cur) {
				return "directory " + cur
			}
			continue
		}
		next := cur + "/" + comp
		fi, err := os.Lstat(next)
		if err != nil {
			return "" // the kernel stops here as well
		}
		final := len(comps) == 0
		if fi.Mode()&os.ModeSymlink != 0 && (!final || followFinal) {
			hops++
			if hops > 40 {
				return ""
			}
			t, err := os.Readlink(next)
			if err != nil {
				return ""
			}
			if filepath.IsAbs(t) {
				// an absolute target restarts at "/": inside only if it re-enters the root lexically
				if !strings.HasPrefix(t, root+"/") && t != root {
					return "symlink target " + t
				}
				cur = root
				comps = append(strings.Split(strings.TrimPrefix(t, root), "/"), comps...)
				continue
			}
			comps = append(strings.Split(t, "/"), comps...)
			continue
		}
		cur = next
		if !fi.IsDir() && !final {
			return ""
		}
	}
	return ""
}

// runStrace repeats the batch under strace and checks every path-taking system call.
func runStrace(c *core.Ctx, sc *scratch, w *confWorld, batch []straceCase) {
	if len(batch) == 0 {
		return
	}
	self, err := os.Executable()
	if err != nil {
		c.Note("strace monitor skipped: %v", err)
		return
	}
	if _, err := exec.LookPath("strace"); err != nil {
		c.Note("strace monitor skipped: strace not installed")
		c.Count("strace/unavailable", 1)
		return
	}
	root, err := filepath.EvalSymlinks(w.root)
	must(err)
	specPath, outPath := filepath.Join(sc.dir, "strace-spec.json"), filepath.Join(sc.dir, "strace.out")
	b, _ := json.Marshal(straceSpec{Root: root, Cases: batch})
	must(os.WriteFile(specPath, b, 0o644))
	cmd := exec.Command("strace", "-f", "-qq", "-xx", "-s", "65536", "-e", "trace=%file", "-o", outPath, self)
	cmd.Env = append(os.Environ(), helperEnv+"="+specPath)
	if o, err := cmd.CombinedOutput(); err != nil {
		c.Note("strace monitor could not run: %v: %.200s", err, o)
		c.Count("strace/unavailable", 1)
		return
	}
	f, err := os.Open(outPath)
	must(err)
	defer f.Close()
	labels := map[int]string{}
	for _, cs := range batch {
		labels[cs.I] = cs.Label
	}
	cur, curPid := -1, ""
	pending := map[string]string{}
	windows, calls := 0, 0
	s := bufio.NewScanner(f)
	s.Buffer(make([]byte, 1<<20), 1<<26)
	for s.Scan() {
		line := s.Text()
		// a call interrupted by another thread's output is printed in two pieces: join them
		if rest, ok := strings.CutSuffix(line, "<unfinished ...>"); ok {
			if pm := straceLine.FindStringSubmatch(rest); pm != nil {
				pending[pm[1]] = rest
			}
			continue
		}
		if rm := resumedRe.FindStringSubmatch(line); rm != nil {
			first, ok := pending[rm[1]]
			if !ok {
				continue
			}
			delete(pending, rm[1])
			line = first + rm[2]
		}
		mm := straceLine.FindStringSubmatch(line)
		if mm == nil {
			continue
		}
		sys, args := mm[2], mm[3]
		q := quotedArg.FindStringSubmatch(args)
		if q == nil {
			continue
		}
		path := unhexEscapes(q[1])
		if rest, ok := strings.CutPrefix(path, "/verif-marker/begin/"); ok {
			cur, _ = strconv.Atoi(rest)
			curPid = mm[1]
			windows++
			continue
		}
		if strings.HasPrefix(path, "/verif-marker/end/") {
			cur = -1
			continue
		}
		if cur < 0 {
			continue
		}
		if mm[1] != curPid {
			c.Count("strace/other-thread-call-ignored", 1)
			continue
		}
		calls++
		follow := true
		switch sys {
		case "lstat", "readlink", "readlinkat":
			follow = false
		}
		if strings.Contains(args, "AT_SYMLINK_NOFOLLOW") || strings.Contains(args, "O_NOFOLLOW") {
			follow = false
		}
		if strings.Contains(args, "AT_FDCWD") || filepath.IsAbs(path) {
			if where := walkOutside(root, path, follow); where != "" {
				gen := fmt.Sprintf("confine/strace/%.40q", labels[cur])
				c.Violate(core.Violation{Kind: "oracle", Entry: entryReadVar, Site: "system-call-leaves-efivarfs-root", Gen: gen, Case: cur,
					Detail: fmt.Sprintf("name %q: %s touches %s (root %s)", labels[cur], strings.TrimSpace(line[:min(len(line), 100)])+"… path="+strconv.Quote(path), where, root)})
			}
		} else {
			c.Count("strace/dirfd-relative-call", 1)
		}
	}
	c.Count("strace/windows", windows)
	c.Count("strace/path-calls-in-windows", calls)
	c.Eval(windows)
	if windows > 0 && calls > 0 {
		c.Cell("confine|strace|windows-observed")
	}
}
