package c13

// Audit cases: dimensions of the workload that the histories of c13.go do not produce. They are
// numbered after all other cases and judged by the same oracle (oracle.go) after every run.
//
//   interleaved   several independent histories, each on its own store, whose runs are in flight at
//                 the same time in one process: either switched deterministically at every call the
//                 library makes on the version-control abstraction (one goroutine runs at a time, a
//                 PRNG picks who goes on), or running in parallel on several cores, kept in lockstep by
//                 meeting before and after each of those calls
//   mixed-callers one store written by two long-lived endorse.Contexts and by fresh ones in turn
//                 (for localnonvcs also through new T values), with dry runs in between and runs
//                 whose context carries no output.Options at all
//   stores-differ runs addressed to two stores (Context.VCSs) that do not hold the same files,
//                 because the second one joined later or some runs went to one of them only
//   faults        a call of the version-control abstraction fails during the run, permanently or
//                 retriably: opening the workspace, reading the candidate file (the existence
//                 check), reading the manifest, and, where the store is transactional or nothing
//                 has been written yet, the writes, the chmod and the commit
//   store-switch  (observed, not judged) a kept Context whose VCS field is pointed at another store

import (
	"context"
	"errors"
	"fmt"
	"math/rand/v2"
	"path"
	"runtime/debug"
	"strings"
	"sync"
	"sync/atomic"
	"time"

	"github.com/google/gce-tcb-verifier/endorse"
	"github.com/google/gce-tcb-verifier/keys"
	"github.com/google/gce-tcb-verifier/sign/memca"
	"github.com/google/gce-tcb-verifier/testing/nonprod/localnonvcs"
	"github.com/google/gce-tcb-verifier/testing/nonprod/memkm"
	"github.com/google/gce-tcb-verifier/testing/testsign"

	"verifharness/core"
)

// judgeStoreSwitch: a kept endorse.Context keeps the store of its first run in VCSs, so a caller
// that points Context.VCS at another store gets a run into the first store that reports success.
// The property text does not vary the store of a run ("any firmware images, candidate names,
// overwrite and snapshot settings"), so this is recorded and not judged.
const judgeStoreSwitch = false

type auditStats struct {
	interleavedRuns int // runs made while other histories were in flight in the same process
	overlapped      int // of those (cooperative mode): calls of another history's run happened inside this run's commit phase
	togetherStarts  int // parallel mode: >= 2 runs in flight released together at a version-control call
	keptAfterOther  int // successful run from a kept Context after another caller changed the store since that Context's previous run
	dryThenReal     int // successful real run from a kept Context whose previous run was a dry run
	noOptsRefused   int // run without output.Options refused on an existing file
	freshTRuns      int // runs through a new localnonvcs.T on a root that a kept T also writes
	laterOnly       int // run without overwrite addressed to two stores of which only the later one holds the file
	storesDiffer    int // runs addressed to two stores in different abstract states
	existFault      int // the existence check of an existing candidate failed with an error in a run without overwrite
	retriedFault    int // run succeeded after a retriable fault of a call other than commit
	faultsFired     int
}

func (a *auditStats) add(o auditStats) {
	a.interleavedRuns += o.interleavedRuns
	a.overlapped += o.overlapped
	a.togetherStarts += o.togetherStarts
	a.keptAfterOther += o.keptAfterOther
	a.dryThenReal += o.dryThenReal
	a.noOptsRefused += o.noOptsRefused
	a.freshTRuns += o.freshTRuns
	a.laterOnly += o.laterOnly
	a.storesDiffer += o.storesDiffer
	a.existFault += o.existFault
	a.retriedFault += o.retriedFault
	a.faultsFired += o.faultsFired
}

// ---- case numbering ----

type auditCounts struct{ inter, mixed, differ, faults, probe int }

func (e *env) auditCounts() auditCounts {
	c := e.c
	return auditCounts{inter: c.N(30, 240), mixed: c.N(48, 384), differ: c.N(24, 192), faults: c.N(36, 288), probe: c.N(4, 16)}
}

func (e *env) auditCases() int {
	n := e.auditCounts()
	return n.inter + n.mixed + n.differ + n.faults + n.probe
}

var auditKinds = []string{"mem-tx", "mem-wt", "local"}

func (e *env) auditCase(i, k int) {
	n := e.auditCounts()
	switch {
	case k < n.inter:
		e.interleaved(i, k%2 == 1)
	case k < n.inter+n.mixed:
		e.mixedCallers(i, auditKinds[k%3])
	case k < n.inter+n.mixed+n.differ:
		e.storesDiffer(i)
	case k < n.inter+n.mixed+n.differ+n.faults:
		e.faulted(i, auditKinds[k%3])
	default:
		e.storeSwitch(i)
	}
}

func (e *env) auditEvidence() {
	c, a := e.c, e.au
	c.Count("audit/interleaved/runs-made-while-other-histories-were-in-flight", a.interleavedRuns)
	c.Count("audit/interleaved/runs-with-another-history's-calls-inside-their-commit-phase", a.overlapped)
	c.Count("audit/interleaved/parallel-runs-met-at-a-version-control-call", a.togetherStarts)
	c.Count("audit/mixed-callers/kept-context-ok-after-another-caller-changed-the-store", a.keptAfterOther)
	c.Count("audit/mixed-callers/kept-context-real-run-ok-right-after-its-dry-run", a.dryThenReal)
	c.Count("audit/mixed-callers/refused-existing-without-any-output-options", a.noOptsRefused)
	c.Count("audit/mixed-callers/runs-through-a-new-localnonvcs.T", a.freshTRuns)
	c.Count("audit/stores-differ/runs-addressed-to-two-stores-in-different-states", a.storesDiffer)
	c.Count("audit/stores-differ/without-overwrite-file-only-in-the-later-store", a.laterOnly)
	c.Count("audit/faults/fired", a.faultsFired)
	c.Count("audit/faults/existence-check-of-an-existing-candidate-failed-without-overwrite", a.existFault)
	c.Count("audit/faults/ok-after-retriable-fault-of-a-non-commit-call", a.retriedFault)
	c.Floor("audit/interleaved-run-had-another-history's-calls-inside-its-commit-phase", a.overlapped > 0)
	c.Floor("audit/parallel-runs-released-together-at-a-version-control-call", a.togetherStarts > 0)
	c.Floor("audit/kept-context-succeeded-after-another-caller-changed-the-store", a.keptAfterOther > 0)
	c.Floor("audit/kept-context-real-run-succeeded-right-after-its-dry-run", a.dryThenReal > 0)
	c.Floor("audit/run-without-any-output-options-refused-on-existing-file", a.noOptsRefused > 0)
	c.Floor("audit/run-without-overwrite-met-the-file-only-in-the-later-of-two-stores", a.laterOnly > 0)
	c.Floor("audit/existence-check-of-an-existing-candidate-failed-in-a-run-without-overwrite", a.existFault > 0)
	c.Floor("audit/run-succeeded-after-retriable-fault-of-a-non-commit-call", a.retriedFault > 0)
}

// ---- helpers shared by the audit generators ----

func contains(s []int, k int) bool {
	for _, v := range s {
		if v == k {
			return true
		}
	}
	return false
}

// vcsFor is the VersionControl a caller puts into a Context for store s.
func vcsFor(s store, a action) endorse.VersionControl {
	if a.freshT {
		if ls, ok := s.(*localStore); ok {
			return &localnonvcs.T{Root: ls.t.Root}
		}
	}
	return s.VCS()
}

// lightGuard is core.Guard without the per-thread measurements, for runs made from several
// goroutines at once: it recovers a panic as a violation and counts one evaluation.
func (e *env) lightGuard(i int, gname string, f func()) (panicked bool) {
	defer func() {
		if r := recover(); r != nil {
			if _, ok := r.(core.CrashSentinel); ok {
				panic(r)
			}
			panicked = true
			e.c.Violate(core.Violation{Kind: "panic", Entry: entryPoint, Site: core.PanicSite(debug.Stack()), Gen: gname, Case: i, Detail: fmt.Sprint(r)})
		}
		e.c.Eval(1)
	}()
	f()
	return false
}

// fork is an environment for one goroutine: own evidence, own signer and certificate authority
// instances (the pool of images is shared and only read).
func (e *env) fork() *env {
	manager := memkm.TestOnlyT()
	return &env{c: e.c, images: e.images, digests: e.digests, names: e.names, acceptedClass: map[string]bool{}, light: true,
		kc: &keys.Context{CA: memca.TestOnlyCertificateAuthority(), Manager: manager, Signer: manager.Signer, Random: testsign.RootRand()}}
}

func (e *env) absorb(o *env) {
	e.st.entriesChecked += o.st.entriesChecked
	e.st.sigValid += o.st.sigValid
	e.st.sigInvalid += o.st.sigInvalid
	if o.st.maxEntries > e.st.maxEntries {
		e.st.maxEntries = o.st.maxEntries
	}
	for k := range o.acceptedClass {
		e.acceptedClass[k] = true
	}
	e.refusals += o.refusals
	e.keptFiles += o.keptFiles
	e.oldMerges += o.oldMerges
	e.reusedChanged += o.reusedChanged
	e.au.add(o.au)
}

// plan draws the runs of one history the way history() does: images, candidate names and output
// directories from small pools, non-monotonic timestamps, one run in ten in snapshot mode.
type plan struct {
	imgs  []int
	names []string
	outs  []string
	pOw   float64
	used  []time.Time
}

func newPlan(r *rand.Rand) *plan {
	return &plan{
		imgs:  pick(r, []int{0, 1, 2, 3, 4, 5, 6, 7}, 2+r.IntN(4)),
		names: pick(r, namePool, 2+r.IntN(4)),
		outs:  pick(r, outDirPool, 1+r.IntN(2)),
		pOw:   []float64{0.25, 0.5, 0.8}[r.IntN(3)],
	}
}

func (p *plan) String() string {
	return fmt.Sprintf("images=%v candidates=%q out_dirs=%q p(overwrite)=%.2f", p.imgs, p.names, p.outs, p.pOw)
}

func (p *plan) next(r *rand.Rand, s int) (action, time.Time) {
	a := action{img: p.imgs[r.IntN(len(p.imgs))], name: p.names[r.IntN(len(p.names))], ow: r.Float64() < p.pOw, outDir: p.outs[0]}
	if len(p.outs) > 1 && r.IntN(5) == 0 {
		a.outDir = p.outs[1]
	}
	when := time.Unix(1700000000+int64(s), 0)
	switch t := r.IntN(20); {
	case t < 5:
		a.tsClass = "older"
		when = time.Unix(1600000000+int64(r.IntN(1000)), int64(s+1))
	case t < 8 && len(p.used) > 0:
		a.tsClass = "equal"
		when = p.used[r.IntN(len(p.used))]
	}
	p.used = append(p.used, when)
	if r.IntN(10) == 0 {
		a.snapshot = true
		a.snapDir = "snap"
		a.imageName = fmt.Sprintf("fw%d.fd", a.img)
	}
	return a, when
}

func subRand(r *rand.Rand) *rand.Rand { return rand.New(rand.NewPCG(r.Uint64(), r.Uint64())) }

func newSession(r *rand.Rand) *session {
	return &session{mode: []string{"struct", "ctx", "ctx+buf"}[r.IntN(3)]}
}

// ---- a store whose every call can be observed, delayed or failed ----

// fault fails the first n calls of one class during a run.
type fault struct {
	op        string // get, read-candidate, read-manifest, write-endorsement, write-manifest, chmod, commit
	retriable bool
	n         int
	fired     int
}

func (f *fault) String() string {
	k := "permanent"
	if f.retriable {
		k = "retriable"
	}
	return fmt.Sprintf("%s fails %dx, %s", f.op, f.n, k)
}

var (
	errHookIO        = errors.New("hooked store: injected i/o error")
	errHookRetriable = errors.New("hooked store: injected transient error, retry")
)

// hookState is what the wrapper of one store knows about the run in flight.
type hookState struct {
	pid      int
	co       *coop
	ls       *lockstep
	flt      *fault
	inCommit bool // between the first GetChangeOps of the run and the end of the run
	arrived  bool
	overlap  bool
	log      []string
	inside   *atomic.Int32 // goroutines inside a commit phase (barrier mode)
	maxIn    *atomic.Int32
}

func (h *hookState) logf(format string, a ...any) {
	if len(h.log) > 256 {
		h.log = append(h.log[:0], h.log[128:]...)
	}
	h.log = append(h.log, fmt.Sprintf(format, a...))
}

// begin and end bracket one endorse run on the hooked store.
func (h *hookState) begin(f *fault) {
	h.flt, h.inCommit, h.arrived, h.overlap = f, false, false, false
	h.logf("-- run begins")
	if h.co != nil {
		h.co.yield(h, false)
	}
	if h.ls != nil {
		h.ls.start.arrive()
	}
}

func (h *hookState) end() {
	if h.ls != nil {
		if h.arrived {
			h.inside.Add(-1)
		}
		h.ls.call.leave() // the runs still in flight no longer wait for this one
	}
	h.inCommit, h.flt = false, nil
	if h.co != nil {
		h.co.yield(h, false)
	}
}

func (h *hookState) before(op, p string) error {
	if h.co != nil {
		h.co.yield(h, true)
	}
	if h.ls != nil {
		h.ls.call.arrive()
	}
	if h.ls != nil && op == "get" && !h.arrived {
		h.arrived = true
		n := h.inside.Add(1)
		for {
			m := h.maxIn.Load()
			if n <= m || h.maxIn.CompareAndSwap(m, n) {
				break
			}
		}
	}
	if f := h.flt; f != nil && f.op == op && f.fired < f.n {
		f.fired++
		if f.retriable {
			h.logf("%s %s -> injected transient error", op, p)
			return fmt.Errorf("%s %s: %w", op, p, errHookRetriable)
		}
		h.logf("%s %s -> injected i/o error", op, p)
		return fmt.Errorf("%s %s: %w", op, p, errHookIO)
	}
	h.logf("%s %s", op, p)
	return nil
}

func (h *hookState) after(op string) {
	if op == "get" {
		h.inCommit = true
	}
	if h.co != nil {
		h.co.yield(h, false)
	}
	if h.ls != nil {
		h.ls.call.arrive()
	}
}

type hookedStore struct {
	store
	hk *hookState
}

func (h *hookedStore) VCS() endorse.VersionControl { return &hookVCS{inner: h.store.VCS(), hk: h.hk} }

func hookWorld(w *world) []*hookState {
	var out []*hookState
	for k, s := range w.stores {
		hk := &hookState{pid: k}
		w.stores[k] = &hookedStore{store: s, hk: hk}
		out = append(out, hk)
	}
	return out
}

type hookVCS struct {
	inner endorse.VersionControl
	hk    *hookState
}

func (v *hookVCS) GetChangeOps(ctx context.Context) (endorse.ChangeOps, error) {
	if err := v.hk.before("get", ""); err != nil {
		return nil, err
	}
	ops, err := v.inner.GetChangeOps(ctx)
	v.hk.after("get")
	if err != nil {
		return nil, err
	}
	return &hookOps{inner: ops, hk: v.hk}, nil
}

func (v *hookVCS) RetriableError(err error) bool {
	return errors.Is(err, errHookRetriable) || v.inner.RetriableError(err)
}
func (v *hookVCS) Result(commit any, p string) { v.inner.Result(commit, p) }
func (v *hookVCS) ReleasePath(ctx context.Context, p string) string {
	return v.inner.ReleasePath(ctx, p)
}

type hookOps struct {
	inner endorse.ChangeOps
	hk    *hookState
}

func readClass(p string) string {
	if path.Base(p) == manifestName {
		return "read-manifest"
	}
	return "read-candidate"
}

func (o *hookOps) WriteOrCreateFiles(ctx context.Context, files ...*endorse.File) error {
	op, names := "write-other", []string{}
	for _, f := range files {
		names = append(names, path.Base(f.Path))
		switch {
		case path.Base(f.Path) == manifestName:
			op = "write-manifest"
		case strings.HasSuffix(f.Path, ".binarypb"):
			op = "write-endorsement"
		}
	}
	if err := o.hk.before(op, strings.Join(names, ",")); err != nil {
		return err
	}
	err := o.inner.WriteOrCreateFiles(ctx, files...)
	o.hk.after(op)
	return err
}

func (o *hookOps) ReadFile(ctx context.Context, p string) ([]byte, error) {
	op := readClass(p)
	if err := o.hk.before(op, path.Base(p)); err != nil {
		return nil, err
	}
	b, err := o.inner.ReadFile(ctx, p)
	o.hk.after(op)
	return b, err
}

func (o *hookOps) SetBinaryWritable(ctx context.Context, p string) error {
	if err := o.hk.before("chmod", path.Base(p)); err != nil {
		return err
	}
	err := o.inner.SetBinaryWritable(ctx, p)
	o.hk.after("chmod")
	return err
}

func (o *hookOps) IsNotFound(err error) bool { return o.inner.IsNotFound(err) }

func (o *hookOps) Destroy() {
	o.hk.logf("destroy")
	o.inner.Destroy()
}

func (o *hookOps) TryCommit(ctx context.Context) (any, error) {
	if err := o.hk.before("commit", ""); err != nil {
		return nil, err
	}
	c, err := o.inner.TryCommit(ctx)
	o.hk.after("commit")
	return c, err
}

// coop lets exactly one of several goroutines run at a time and passes the turn at every call the
// library makes on a hooked store. Who goes on is drawn from a PRNG that only the goroutine holding
// the turn touches, so the interleaving of a case is the same in every execution.
type coop struct {
	mu       sync.Mutex
	cond     *sync.Cond
	r        *rand.Rand
	turn     int
	alive    []bool
	calls    int // calls on hooked stores made so far by all histories
	switches int
}

func newCoop(n int, r *rand.Rand) *coop {
	c := &coop{r: r, alive: make([]bool, n)}
	c.cond = sync.NewCond(&c.mu)
	for k := range c.alive {
		c.alive[k] = true
	}
	c.turn = c.pick()
	return c
}

func (c *coop) pick() int {
	var live []int
	for k, a := range c.alive {
		if a {
			live = append(live, k)
		}
	}
	if len(live) == 0 {
		return -1
	}
	return live[c.r.IntN(len(live))]
}

func (c *coop) acquire(pid int) {
	c.mu.Lock()
	for c.turn != pid {
		c.cond.Wait()
	}
	c.mu.Unlock()
}

// yield passes the turn (possibly to the caller itself) and returns when the caller has it again.
func (c *coop) yield(h *hookState, isCall bool) {
	c.mu.Lock()
	if isCall {
		c.calls++
	}
	seen := c.calls
	if next := c.pick(); next != h.pid {
		c.turn = next
		c.switches++
		c.cond.Broadcast()
		for c.turn != h.pid {
			c.cond.Wait()
		}
		if h.inCommit && c.calls != seen {
			h.overlap = true
		}
	}
	c.mu.Unlock()
}

func (c *coop) finish(pid int) {
	c.mu.Lock()
	c.alive[pid] = false
	c.turn = c.pick()
	c.cond.Broadcast()
	c.mu.Unlock()
}

// barrier releases its n members together when each of them has arrived once.
type barrier struct {
	mu        sync.Mutex
	cond      *sync.Cond
	n         int
	waiting   int
	gen       int
	together  int    // releases of >= 2 goroutines
	onRelease func() // runs before the members go on
}

// lockstep keeps the runs of parallel histories aligned without a clock: the goroutines start their
// k-th runs together, and while their runs are in flight they meet again before and after every
// call on the version-control abstraction, so that the stretches of library code between two calls
// execute at the same time on different cores. A run that ends leaves the meeting of its round.
type lockstep struct {
	start *barrier // all live goroutines, once per run
	call  *barrier // the goroutines whose run of this round is still in flight, twice per call
}

func newLockstep(n int) *lockstep {
	l := &lockstep{start: newBarrier(n), call: newBarrier(n)}
	l.start.onRelease = func() { // nobody is inside a run now
		l.call.mu.Lock()
		l.call.n, l.call.waiting = l.start.n, 0
		l.call.mu.Unlock()
	}
	return l
}

func newBarrier(n int) *barrier {
	b := &barrier{n: n}
	b.cond = sync.NewCond(&b.mu)
	return b
}

func (b *barrier) release() {
	if b.waiting >= 2 {
		b.together++
	}
	if b.onRelease != nil {
		b.onRelease()
	}
	b.waiting = 0
	b.gen++
	b.cond.Broadcast()
}

func (b *barrier) arrive() {
	b.mu.Lock()
	b.waiting++
	if b.waiting >= b.n {
		b.release()
	} else {
		for g := b.gen; g == b.gen; {
			b.cond.Wait()
		}
	}
	b.mu.Unlock()
}

func (b *barrier) leave() {
	b.mu.Lock()
	b.n--
	if b.n > 0 && b.waiting >= b.n {
		b.release()
	}
	b.mu.Unlock()
}

// ---- interleaved histories ----

func (e *env) interleaved(i int, parallel bool) {
	c := e.c
	r := c.Rand(i)
	n := 2 + r.IntN(3)
	length := 8 + r.IntN(9)
	mode := "switched-at-every-version-control-call"
	if parallel {
		mode = "parallel-in-lockstep-between-version-control-calls"
	}
	type part struct {
		sub   *env
		w     *world
		hk    *hookState
		r     *rand.Rand
		p     *plan
		ses   *session
		gname string
		hist  []string
	}
	parts := make([]*part, n)
	var kinds []string
	for k := range parts {
		p := &part{sub: e.fork(), r: subRand(r)}
		kind := auditKinds[p.r.IntN(len(auditKinds))]
		kinds = append(kinds, kind)
		p.p = newPlan(p.r)
		if p.r.IntN(2) == 0 {
			p.ses = newSession(p.r)
		}
		p.w = newWorld(kind)
		p.hk = hookWorld(p.w)[0]
		p.hk.pid = k
		parts[k] = p
	}
	gname := fmt.Sprintf("interleaved-histories mode=%s stores=%v runs-each=%d", mode, kinds, length)
	c.Begin(i, gname, entryPoint, nil)
	var co *coop
	var ls *lockstep
	var inside, maxIn atomic.Int32
	if parallel {
		ls = newLockstep(n)
	} else {
		co = newCoop(n, subRand(r))
	}
	var wg sync.WaitGroup
	for k, p := range parts {
		caller := "fresh-context-per-run"
		if p.ses != nil {
			caller = "one-reused-context(" + p.ses.mode + ")"
		}
		p.gname = fmt.Sprintf("%s [history %d of %d: store=%s %s caller=%s]", gname, k+1, n, kinds[k], p.p, caller)
		p.hk.co, p.hk.ls, p.hk.inside, p.hk.maxIn = co, ls, &inside, &maxIn
		wg.Add(1)
		go func(k int, p *part) {
			defer wg.Done()
			if co != nil {
				co.acquire(k)
				defer co.finish(k)
			} else {
				defer ls.start.leave()
			}
			for s := 0; s < length; s++ {
				a, when := p.p.next(p.r, s)
				hk := p.hk
				a.tag = "+other-histories-in-flight"
				a.tagAfter = func() string {
					hk.end()
					p.sub.au.interleavedRuns++
					if hk.overlap {
						p.sub.au.overlapped++
						return "+interleaved-inside-commit-phase"
					}
					return ""
				}
				hk.begin(nil)
				nf := p.sub.stepOn(i, p.gname, p.w, a, when, p.hist, p.ses)
				p.hist = append(p.hist, a.String())
				if nf > 0 {
					break
				}
			}
		}(k, p)
	}
	wg.Wait()
	for _, p := range parts {
		e.absorb(p.sub)
		p.w.close()
	}
	c.Count("audit/interleaved/batches/"+mode, 1)
	c.Count("audit/interleaved/histories", n)
	if co != nil {
		c.Count("audit/interleaved/turn-switches", co.switches)
	} else {
		e.au.togetherStarts += ls.call.together
		c.Max("audit/interleaved/goroutines-inside-a-commit-phase-at-once", int64(maxIn.Load()))
	}
	c.End(i)
}

// ---- mixed callers on one store ----

func (e *env) mixedCallers(i int, kind string) {
	c := e.c
	r := c.Rand(i)
	p := newPlan(r)
	length := 12 + r.IntN(25)
	sess := []*session{newSession(r), newSession(r)}
	gname := fmt.Sprintf("mixed-callers store=%s %s runs=%d callers={fresh contexts, kept context A(%s), kept context B(%s)}", kind, p, length, sess[0].mode, sess[1].mode)
	c.Begin(i, gname, entryPoint, nil)
	w := newWorld(kind)
	defer w.close()
	var hist []string
	changedSince := []bool{false, false} // another caller changed the store since this Context's previous run
	lastDry := []bool{false, false}
	lastBy := "nobody"
	for s := 0; s < length; s++ {
		a, when := p.next(r, s)
		var ses *session
		who, sk := "fresh", -1
		switch x := r.IntN(10); {
		case x < 4:
		case x < 7:
			ses, who, sk = sess[0], "kept-A", 0
		default:
			ses, who, sk = sess[1], "kept-B", 1
		}
		if r.IntN(8) == 0 {
			a.dry = true
		}
		if ses == nil {
			if !a.ow && r.IntN(3) == 0 {
				a.noOpts = true
			}
			if kind == "local" && r.IntN(2) == 0 {
				a.freshT = true
				e.au.freshTRuns++
			}
		}
		a.who, a.tag = who, "+mixed-callers"
		_, existed := w.stores[0].Snapshot()[path.Join(a.outDir, a.base())]
		nf := e.stepOn(i, gname, w, a, when, hist, ses)
		hist = append(hist, a.String())
		ok := e.lastErr == nil
		real := ok && !a.dry
		res := "failed"
		if ok {
			res = "ok"
		}
		kindOfRun := "real"
		if a.dry {
			kindOfRun = "dry"
		}
		c.Count("audit/mixed-callers/runs/"+who+"/"+kindOfRun+"/"+res, 1)
		c.Cell("mixed-callers|%s|%s|%s|store-last-changed-by=%s|%s", kind, who, kindOfRun, lastBy, res)
		if sk >= 0 {
			if real && !a.snapshot && changedSince[sk] {
				e.au.keptAfterOther++
			}
			if real && lastDry[sk] {
				e.au.dryThenReal++
			}
			changedSince[sk] = false
			lastDry[sk] = a.dry
		}
		if a.noOpts && !a.dry && !a.snapshot && existed && !ok {
			e.au.noOptsRefused++
		}
		if real {
			lastBy = who
			for k := range changedSince {
				if k != sk {
					changedSince[k] = true
				}
			}
		}
		if nf > 0 {
			break
		}
	}
	c.Count("audit/mixed-callers/histories/"+kind, 1)
	c.End(i)
}

// ---- two stores that do not hold the same files ----

func (e *env) storesDiffer(i int) {
	c := e.c
	r := c.Rand(i)
	p := newPlan(r)
	length := 12 + r.IntN(19)
	kinds := []string{auditKinds[r.IntN(3)], auditKinds[r.IntN(3)]}
	order := []int{0, 1}
	if r.IntN(2) == 0 {
		order = []int{1, 0}
	}
	var ses *session
	caller := "fresh-context-per-run"
	if r.IntN(2) == 0 {
		ses = &session{mode: "struct"}
		caller = "one-reused-context(struct, VCSs reassigned per run)"
	}
	gname := fmt.Sprintf("stores-differ stores=%v usual-VCSs-order=%v %s runs=%d caller=%s", kinds, order, p, length, caller)
	c.Begin(i, gname, entryPoint, nil)
	w := &world{kind: "multi"}
	for _, k := range kinds {
		w.stores = append(w.stores, newWorld(k).stores[0])
	}
	defer w.close()
	var hist []string
	for s := 0; s < length; s++ {
		a, when := p.next(r, s)
		switch x := r.IntN(20); {
		case s < length/3:
			a.sel = []int{0} // the second store joins later
		case x < 12:
			a.sel = order
		case x < 15:
			a.sel = []int{order[1], order[0]}
		case x < 18:
			a.sel = []int{0}
		default:
			a.sel = []int{1}
		}
		a.tag = "+one-of-two-stores"
		if len(a.sel) == 2 {
			a.tag = "+two-stores-in-the-same-state"
			first, second := w.stores[a.sel[0]].Snapshot(), w.stores[a.sel[1]].Snapshot()
			if abstractKey(first, e.names) != abstractKey(second, e.names) {
				a.tag = "+two-stores-in-different-states"
				e.au.storesDiffer++
				_, inFirst := first[path.Join(a.outDir, a.base())]
				_, inSecond := second[path.Join(a.outDir, a.base())]
				c.Cell("stores-differ|VCSs=%s,%s|file-exists=%v,%v|overwrite=%v|snapshot=%v", kinds[a.sel[0]], kinds[a.sel[1]], inFirst, inSecond, a.ow, a.snapshot)
				if !a.ow && !a.snapshot && !inFirst && inSecond {
					e.au.laterOnly++
				}
			}
		}
		nf := e.stepOn(i, gname, w, a, when, hist, ses)
		hist = append(hist, a.String())
		if nf > 0 {
			break
		}
	}
	c.Count("audit/stores-differ/histories", 1)
	c.End(i)
}

// ---- faults of single calls ----

// faultOps lists the calls whose failure leaves a judgeable state: on a transactional store every
// call of the workspace; on a store that writes through only those before the first write (a failed
// second write of a non-transactional store is outside the property, see the assumptions).
var faultOps = map[string][]string{
	"mem-tx": {"get", "read-candidate", "read-candidate", "read-manifest", "write-endorsement", "write-manifest", "chmod", "commit"},
	"mem-wt": {"get", "read-candidate", "read-candidate", "read-manifest", "write-endorsement"},
	"local":  {"get", "read-candidate", "read-candidate", "read-manifest", "write-endorsement"},
}

func (e *env) faulted(i int, kind string) {
	c := e.c
	r := c.Rand(i)
	p := newPlan(r)
	length := 12 + r.IntN(19)
	var ses *session
	caller := "fresh-context-per-run"
	if r.IntN(2) == 0 {
		ses = newSession(r)
		caller = "one-reused-context(" + ses.mode + ")"
	}
	gname := fmt.Sprintf("faulted-history store=%s %s runs=%d caller=%s", kind, p, length, caller)
	c.Begin(i, gname, entryPoint, nil)
	w := newWorld(kind)
	defer w.close()
	hk := hookWorld(w)[0]
	var hist []string
	for s := 0; s < length; s++ {
		a, when := p.next(r, s)
		a.tag = "+hooked"
		if r.IntN(5) < 2 {
			ops := faultOps[kind]
			a.flt = &fault{op: ops[r.IntN(len(ops))], retriable: r.IntN(2) == 0, n: 1 + r.IntN(4)/3}
			a.retries = r.IntN(3)
			a.tag = "+fault:" + a.flt.op
		}
		_, existed := w.stores[0].Snapshot()[path.Join(a.outDir, a.base())]
		a.tagAfter = func() string { hk.end(); return "" }
		hk.begin(a.flt)
		nf := e.stepOn(i, gname, w, a, when, hist, ses)
		hist = append(hist, a.String())
		if f := a.flt; f != nil {
			res := "failed"
			if e.lastErr == nil {
				res = "ok"
			}
			k := "permanent"
			if f.retriable {
				k = "retriable"
			}
			c.Count(fmt.Sprintf("audit/faults/%s/%s/fired=%v/%s", f.op, k, f.fired > 0, res), 1)
			if f.fired > 0 {
				e.au.faultsFired++
				c.Cell("fault|%s|%s|%s|file-existed=%v|overwrite=%v|retries=%d|%s", kind, f.op, k, existed, a.ow, a.retries, res)
				if f.op == "read-candidate" && existed && !a.ow && !a.snapshot {
					e.au.existFault++
				}
				if f.op != "commit" && e.lastErr == nil {
					e.au.retriedFault++
				}
			}
		}
		if nf > 0 {
			break
		}
	}
	c.Count("audit/faults/histories/"+kind, 1)
	c.End(i)
}

// ---- a kept Context pointed at another store (observed, not judged) ----

func (e *env) storeSwitch(i int) {
	c := e.c
	r := c.Rand(i)
	p := newPlan(r)
	gname := fmt.Sprintf("store-switch stores=[mem-tx mem-tx] %s caller=one-reused-context(struct) whose VCS field is assigned before each run", p)
	c.Begin(i, gname, entryPoint, nil)
	w := &world{kind: "multi", stores: []store{newWorld("mem-tx").stores[0], newWorld("mem-tx").stores[0]}}
	defer w.close()
	if !judgeStoreSwitch {
		e.observeOnly, e.observeWhat = true, "store-switch"
		defer func() { e.observeOnly, e.observeWhat = false, "" }()
	}
	ses := &session{mode: "struct"}
	var hist []string
	for s := 0; s < 10; s++ {
		a, when := p.next(r, s)
		a.viaVCS = 1 + r.IntN(2)
		nf := e.stepOn(i, gname, w, a, when, hist, ses)
		hist = append(hist, a.String())
		if nf > 0 {
			break
		}
	}
	c.Count("store-switch-observation/histories", 1)
	c.End(i)
}
