package c13

import (
	"bytes"
	"crypto"
	"crypto/rsa"
	"crypto/sha256"
	"crypto/x509"
	"encoding/hex"
	"fmt"
	"path"
	"sort"
	"strings"
	"time"

	epb "github.com/google/gce-tcb-verifier/proto/endorsement"
	rpb "github.com/google/gce-tcb-verifier/proto/releases"
	"google.golang.org/protobuf/encoding/prototext"
	"google.golang.org/protobuf/proto"
)

const manifestName = "manifest.textproto"

// finding is one refuting observation of the oracle.
type finding struct {
	rule   string
	detail string
}

// step is what the oracle knows about one endorse run: the request and its result. It does not
// know anything about how the repository merges entries.
type step struct {
	outDir    string
	base      string // file name the run is asked to write: <candidate or "endorsement">.binarypb
	digest    []byte // SHA-384 of the firmware image, computed by the harness
	overwrite bool
	snapshot  bool
	ts        time.Time
	err       error
}

// signedDoc is what an endorsement file says, decoded independently of the repository's readers.
type signedDoc struct {
	digest []byte
	ts     time.Time
	sigOK  bool
}

func decodeEndorsement(b []byte) (*signedDoc, error) {
	e := &epb.VMLaunchEndorsement{}
	if err := proto.Unmarshal(b, e); err != nil {
		return nil, fmt.Errorf("not a VMLaunchEndorsement: %v", err)
	}
	if len(e.SerializedUefiGolden) == 0 {
		return nil, fmt.Errorf("no signed golden measurement inside")
	}
	g := &epb.VMGoldenMeasurement{}
	if err := proto.Unmarshal(e.SerializedUefiGolden, g); err != nil {
		return nil, fmt.Errorf("golden measurement does not parse: %v", err)
	}
	d := &signedDoc{digest: g.Digest}
	if g.Timestamp != nil {
		d.ts = time.Unix(g.Timestamp.Seconds, int64(g.Timestamp.Nanos)).UTC()
	}
	if cert, err := x509.ParseCertificate(g.Cert); err == nil {
		if pub, ok := cert.PublicKey.(*rsa.PublicKey); ok {
			h := sha256.Sum256(e.SerializedUefiGolden)
			d.sigOK = rsa.VerifyPSS(pub, crypto.SHA256, h[:], e.Signature, &rsa.PSSOptions{SaltLength: rsa.PSSSaltLengthAuto}) == nil
		}
	}
	return d, nil
}

func manifestsOf(files map[string][]byte) []string {
	var out []string
	for k := range files {
		if path.Base(k) == manifestName {
			out = append(out, k)
		}
	}
	sort.Strings(out)
	return out
}

func parseManifest(b []byte) (*rpb.VMEndorsementMap, error) {
	m := &rpb.VMEndorsementMap{}
	if err := prototext.Unmarshal(b, m); err != nil {
		return nil, err
	}
	return m, nil
}

// stats are evidence counters filled by the oracle.
type stats struct {
	entriesChecked int
	sigValid       int
	sigInvalid     int
	maxEntries     int
}

// judge applies the C13 statement to the files visible through the version-control abstraction
// before (pre) and after (post) one endorse run.
func judge(pre, post map[string][]byte, s *step, st *stats) []finding {
	var out []finding
	add := func(rule, format string, a ...any) {
		out = append(out, finding{rule, fmt.Sprintf(format, a...)})
	}
	// (1)-(3): every manifest in the store parses, is duplicate-free and points at files that
	// sign the digest the entry claims.
	for _, mp := range manifestsOf(post) {
		dir := path.Dir(mp)
		m, err := parseManifest(post[mp])
		if err != nil {
			add("manifest-unparsable", "%s does not parse: %v", mp, err)
			continue
		}
		if len(m.Entries) > st.maxEntries {
			st.maxEntries = len(m.Entries)
		}
		paths, digs := map[string]int{}, map[string]int{}
		for i, en := range m.Entries {
			if j, dup := paths[en.Path]; dup {
				add("duplicate-path", "%s lists path %q in entries %d and %d", mp, en.Path, j, i)
			}
			paths[en.Path] = i
			dh := hex.EncodeToString(en.Digest)
			if j, dup := digs[dh]; dup {
				add("duplicate-digest", "%s lists digest %s… in entries %d (%q) and %d (%q)", mp, short(dh), j, m.Entries[j].Path, i, en.Path)
			}
			digs[dh] = i
			st.entriesChecked++
			fp := path.Join(dir, en.Path)
			fb, ok := post[fp]
			if !ok {
				add("entry-file-missing", "%s entry %d: path %q names no file (%s absent)", mp, i, en.Path, fp)
				continue
			}
			doc, err := decodeEndorsement(fb)
			if err != nil {
				add("entry-file-not-an-endorsement", "%s entry %d: %s: %v", mp, i, fp, err)
				continue
			}
			if doc.sigOK {
				st.sigValid++
			} else {
				st.sigInvalid++
			}
			if !bytes.Equal(doc.digest, en.Digest) {
				add("entry-digest-differs-from-signed-digest", "%s entry %d: digest %s… but %s signs firmware digest %s…",
					mp, i, short(dh), fp, short(hex.EncodeToString(doc.digest)))
			}
		}
	}
	// (4): the digest of a successful manifest-mode run maps to the file that run wrote.
	if s != nil && !s.snapshot && s.err == nil {
		mp := path.Join(s.outDir, manifestName)
		mb, ok := post[mp]
		if !ok {
			add("latest-run-not-indexed", "run succeeded but %s does not exist", mp)
		} else if m, err := parseManifest(mb); err == nil {
			var got []string
			for _, en := range m.Entries {
				if bytes.Equal(en.Digest, s.digest) {
					got = append(got, en.Path)
				}
			}
			want := path.Join(s.outDir, s.base)
			switch {
			case len(got) == 0:
				add("latest-run-not-indexed", "run succeeded but %s has no entry for the firmware digest %s…", mp, short(hex.EncodeToString(s.digest)))
			case len(got) == 1 && got[0] != s.base:
				add("latest-run-maps-to-other-file", "run wrote %q but the firmware digest maps to %q", s.base, got[0])
			case len(got) == 1:
				fb, ok := post[want]
				if !ok {
					add("latest-run-file-missing", "run succeeded but %s does not exist", want)
				} else if doc, err := decodeEndorsement(fb); err != nil {
					add("latest-run-file-not-an-endorsement", "%s: %v", want, err)
				} else if !bytes.Equal(doc.digest, s.digest) || !doc.ts.Equal(s.ts.UTC()) {
					add("latest-run-file-not-written-by-run", "%s signs digest %s… at %v; the run endorsed %s… at %v", want,
						short(hex.EncodeToString(doc.digest)), doc.ts, short(hex.EncodeToString(s.digest)), s.ts.UTC())
				}
			}
		}
	}
	// (5): without overwrite permission no existing endorsement file is replaced (or removed).
	if s != nil && !s.overwrite {
		var names []string
		for k := range pre {
			if strings.HasSuffix(k, ".binarypb") {
				names = append(names, k)
			}
		}
		sort.Strings(names)
		for _, k := range names {
			after, ok := post[k]
			if !ok {
				add("removed-without-overwrite", "%s existed before a run without overwrite and is gone", k)
			} else if !bytes.Equal(pre[k], after) {
				add("replaced-without-overwrite", "%s existed before a run without overwrite (asked to write %q, err=%v) and has different bytes afterwards",
					k, path.Join(s.outDir, s.base), s.err)
			}
		}
	}
	return out
}

func short(h string) string {
	if len(h) > 8 {
		return h[:8]
	}
	return h
}

// mergeClass names how the request relates to the manifest before the run (evidence only).
func mergeClass(pre map[string][]byte, s *step) string {
	mb, ok := pre[path.Join(s.outDir, manifestName)]
	if !ok {
		return "fresh"
	}
	m, err := parseManifest(mb)
	if err != nil {
		return "unparsable"
	}
	pi, di := -1, -1
	for i, en := range m.Entries {
		if en.Path == s.base {
			pi = i
		}
		if bytes.Equal(en.Digest, s.digest) {
			di = i
		}
	}
	switch {
	case pi < 0 && di < 0:
		return "fresh"
	case pi >= 0 && di < 0:
		return "path-held"
	case pi < 0 && di >= 0:
		return "digest-held"
	case pi == di:
		return "same-entry"
	default:
		return "path-and-digest-in-different-entries"
	}
}

// abstractKey is the abstract state of a store: per manifest the ordered (path, image) entries,
// plus which image every *.binarypb file signs. names maps digests to pool indices.
func abstractKey(files map[string][]byte, names map[string]string) string {
	nm := func(d []byte) string {
		h := hex.EncodeToString(d)
		if n, ok := names[h]; ok {
			return n
		}
		return short(h)
	}
	var sb strings.Builder
	for _, mp := range manifestsOf(files) {
		fmt.Fprintf(&sb, "%s[", mp)
		m, err := parseManifest(files[mp])
		if err != nil {
			sb.WriteString("UNPARSABLE")
		} else {
			for _, en := range m.Entries {
				fmt.Fprintf(&sb, "%s=%s,", en.Path, nm(en.Digest))
			}
		}
		sb.WriteString("] ")
	}
	var fs []string
	for k, b := range files {
		if strings.HasSuffix(k, ".binarypb") {
			d := "?"
			if doc, err := decodeEndorsement(b); err == nil {
				d = nm(doc.digest)
			}
			fs = append(fs, k+"="+d)
		}
	}
	sort.Strings(fs)
	sb.WriteString("files{" + strings.Join(fs, ",") + "}")
	return sb.String()
}
