package c13

// Round-4 cases: two more dimensions of "any sequence of endorse runs (any firmware images,
// candidate names, overwrite and snapshot settings)". They are numbered after the audit cases and
// judged by the same oracle (oracle.go) after every run.
//
//   names    candidate names as callers really hand them over: read from a file with its line end,
//            pasted with quotes, with the characters that mean something to the formats and tools a
//            name passes through (text protos, format strings, terminals, paths): line breaks, CR,
//            tabs, leading and trailing blanks, quotes, backslashes, '#', braces, '%' verbs, control
//            and invisible characters, non-ASCII, very long names, and names the store or the manifest
//            cannot carry at all (NUL, more than 255 bytes, invalid UTF-8; such runs must fail
//            cleanly). Several decorations of one stem share a pool, so "rc1" and "rc1\n" are
//            different files of one directory. The other caller-supplied strings of a run
//            (ReleaseBranch, Commit, sometimes the output directory) are drawn from the same
//            alphabet, and the run's timestamp is sometimes handed over in another zone or lies far
//            from the present.
//   options  every run draws its whole output.Options (overwrite x keep_going x quiet / normal /
//            verbose / use-logs) and some of the Context switches (dry run, measurement only,
//            snapshot mode, commit retries against scripted conflicts, a failing endorsement write),
//            from fresh Contexts or from one kept Context whose options value is changed in place.
//            Each option is harmless alone; the histories make every overwrite x keep_going pair meet
//            a candidate file that exists and signs another image, one that signs the same image, and
//            a free name.

import (
	"bytes"
	"fmt"
	"math/rand/v2"
	"path"
	"strings"
	"time"
	"unicode/utf8"
)

type r4Stats struct {
	lineBreakIndexed int // successful manifest-mode runs whose candidate name contains a line break
	afterUnusual     int // successful manifest-mode runs into a directory whose manifest already listed an unusual name
	unusualRefreshed int // successful manifest-mode runs that merged into an existing entry under an unusual name
	notStorable      int // runs that failed because the store or the manifest cannot carry the name
	kgExistingOther  int // runs with keep_going and without overwrite whose candidate file existed and signed another image
	kgInPlace        int // runs from a kept Context whose options value had keep_going flipped in place since its previous run
	combos           map[string]bool
}

type r4Counts struct{ names, opts int }

func (e *env) r4Counts() r4Counts { return r4Counts{names: e.c.N(36, 288), opts: e.c.N(48, 384)} }

func (e *env) round4Cases() int {
	n := e.r4Counts()
	return n.names + n.opts
}

func (e *env) round4Case(i, k int) {
	if e.r4.combos == nil {
		e.r4.combos = map[string]bool{}
	}
	n := e.r4Counts()
	switch {
	case k < n.names:
		e.unusualNames(i, auditKinds[k%3])
	default:
		e.optionMatrix(i, auditKinds[k%3])
	}
}

func (e *env) round4Evidence() {
	c, a := e.c, e.r4
	c.Count("round4/names/ok-runs-with-a-line-break-in-the-candidate-name", a.lineBreakIndexed)
	c.Count("round4/names/ok-runs-into-a-manifest-that-already-listed-an-unusual-name", a.afterUnusual)
	c.Count("round4/names/ok-merges-into-an-existing-entry-under-an-unusual-name", a.unusualRefreshed)
	c.Count("round4/names/runs-failed-on-a-name-the-store-or-manifest-cannot-carry", a.notStorable)
	c.Count("round4/options/keep_going-without-overwrite-met-an-existing-endorsement-of-another-image", a.kgExistingOther)
	c.Count("round4/options/kept-options-value-had-keep_going-flipped-in-place", a.kgInPlace)
	for _, ow := range []bool{false, true} {
		for _, kg := range []bool{false, true} {
			for _, t := range []string{"free", "same-image", "other-image"} {
				c.Floor(fmt.Sprintf("round4/run-with-overwrite=%v,keep_going=%v-met-candidate-file=%s", ow, kg, t), a.combos[fmt.Sprintf("%v|%v|%s", ow, kg, t)])
			}
		}
	}
	c.Floor("round4/run-with-a-line-break-in-the-candidate-name-succeeded", a.lineBreakIndexed > 0)
	c.Floor("round4/run-succeeded-into-a-manifest-that-already-listed-an-unusual-name", a.afterUnusual > 0)
	c.Floor("round4/merge-into-an-existing-entry-under-an-unusual-name-succeeded", a.unusualRefreshed > 0)
	c.Floor("round4/run-with-keep_going-and-without-overwrite-met-an-existing-endorsement-of-another-image", a.kgExistingOther > 0)
}

// ---- candidate names ----

var nameStems = []string{"rc1", "2024-05-01-RC01", "ovmf_x64_csm", "a", "b", "rel/rc2"}

// decorations turn a stem into a name of one of the kinds described at the top of the file.
var decorations = []func(s string) string{
	// line ends and other white space
	func(s string) string { return s + "\n" },
	func(s string) string { return s + "\n" },
	func(s string) string { return s + "\r\n" },
	func(s string) string { return "\n" + s },
	func(s string) string { return s[:len(s)/2] + "\n" + s[len(s)/2:] },
	func(s string) string { return s + "\n\n" },
	func(s string) string { return s + "\nentries { path: \"x.binarypb\" digest: \"00\" }\n# " },
	func(s string) string { return s + "\\\n" },
	func(s string) string { return s + "\r" },
	func(s string) string { return s + "\t" },
	func(s string) string { return " " + s },
	func(s string) string { return s + " " },
	func(s string) string { return s + "  v2" },
	// quoting
	func(s string) string { return `"` + s + `"` },
	func(s string) string { return s + `'` },
	func(s string) string { return s + `\` },
	func(s string) string { return s + `\n` },
	func(s string) string { return s + `\"` },
	func(s string) string { return s + "`" },
	// text proto syntax
	func(s string) string { return s + "#" },
	func(s string) string { return "#" + s },
	func(s string) string { return s + " # comment" },
	func(s string) string { return s + "{" },
	func(s string) string { return s + "}" },
	func(s string) string { return s + "<>" },
	func(s string) string { return s + ": x" },
	func(s string) string { return s + ";" },
	func(s string) string { return "[" + s + "]," },
	// format verbs
	func(s string) string { return s + "%s" },
	func(s string) string { return s + "%d" },
	func(s string) string { return s + "%" },
	func(s string) string { return "%!" + s },
	func(s string) string { return s + "%v%v" },
	func(s string) string { return s + "%[2]s" },
	func(s string) string { return s + "%%" },
	// control and invisible characters
	func(s string) string { return s + "\x01" },
	func(s string) string { return s + "\x1b[31m" },
	func(s string) string { return s + "\x7f" },
	func(s string) string { return s + "\v" },
	func(s string) string { return s + "\f" },
	func(s string) string { return s + "\b" },
	func(s string) string { return s + "\u2028" },
	func(s string) string { return s + "\u0085" },
	func(s string) string { return "\ufeff" + s },
	func(s string) string { return s + "\u200b" },
	// non-ASCII
	func(s string) string { return s + "é" },
	func(s string) string { return s + "\U0001F600" },
	func(s string) string { return s + "名前" },
	// length
	func(s string) string { return s + strings.Repeat("x", 200) },
	func(s string) string { return s + strings.Repeat("y", 260) },
	// names that cannot be carried
	func(s string) string { return s + "\x00" },
	func(s string) string { return s + "\xff" },
	func(s string) string { return s + "\xc3" },
	func(s string) string { return s + "\xed\xa0\x80" },
	// and the stem itself
	func(s string) string { return s },
	func(s string) string { return s },
}

// nameKindOf says what is unusual about a name, judged from its bytes.
func nameKindOf(n string) string {
	if !utf8.ValidString(n) {
		return "invalid-utf8"
	}
	if strings.ContainsRune(n, 0) {
		return "nul"
	}
	for _, seg := range strings.Split(n+".binarypb", "/") {
		if len(seg) > 255 {
			return "over-long"
		}
	}
	if strings.Contains(n, "\n") {
		return "line-break"
	}
	if strings.Contains(n, "\r") {
		return "carriage-return"
	}
	for _, r := range n {
		if (r < 0x20 && r != '\t') || r == 0x7f {
			return "control"
		}
	}
	if strings.ContainsAny(n, "\u2028\u0085\ufeff\u200b") {
		return "invisible"
	}
	if strings.ContainsAny(n, "\"'\\`") {
		return "quoting"
	}
	if strings.Contains(n, "%") {
		return "format-verb"
	}
	if strings.ContainsAny(n, "#{}<>:;,[]") {
		return "textproto-syntax"
	}
	if strings.Contains(n, "\t") || n != strings.TrimSpace(n) || strings.Contains(n, "  ") {
		return "blanks"
	}
	if len(n) > 100 {
		return "long"
	}
	for _, r := range n {
		if r > 0x7f {
			return "non-ascii"
		}
	}
	return "plain"
}

// nameNotStorable: the run's candidate name cannot be a file name of this store, or the manifest
// (a proto3 string field) cannot carry it. Such a run has to fail; nothing else is demanded of it.
func nameNotStorable(kind string, a action) bool {
	switch a.nameKind {
	case "invalid-utf8":
		return true
	case "nul", "over-long":
		return kind == "local"
	}
	return false
}

func unusualNamePool(r *rand.Rand, n int) []string {
	stems := pick(r, nameStems, 1+r.IntN(3))
	seen := map[string]bool{}
	var out []string
	for len(out) < n {
		name := decorations[r.IntN(len(decorations))](stems[r.IntN(len(stems))])
		if !seen[name] {
			seen[name] = true
			out = append(out, name)
		}
	}
	return out
}

var unusualOutDirs = []string{"out\n", "rel notes", "o\"ut#", "out%s", "größe", " out", "out\t"}

// farTimes are instants far from the present, inside and at the edges of what a protobuf Timestamp
// and time.Time.UnixNano can say.
var farPast = []time.Time{time.Date(1, 1, 1, 0, 0, 0, 0, time.UTC), time.Date(1677, 9, 21, 0, 12, 43, 0, time.UTC), time.Date(1969, 12, 31, 23, 59, 59, 999_999_999, time.UTC)}
var farFuture = []int64{time.Date(2262, 4, 12, 0, 0, 0, 0, time.UTC).Unix(), time.Date(9999, 12, 1, 0, 0, 0, 0, time.UTC).Unix()}

var zones = []*time.Location{time.FixedZone("UTC+14", 14*3600), time.FixedZone("UTC-12", -12*3600), time.FixedZone("UTC+5:45", 5*3600+45*60)}

// listsUnusual reports whether the manifest of dir lists a path whose name is not a plain one.
func listsUnusual(files map[string][]byte, dir string) bool {
	mb, ok := files[path.Join(dir, manifestName)]
	if !ok {
		return false
	}
	m, err := parseManifest(mb)
	if err != nil {
		return false
	}
	for _, en := range m.Entries {
		if k := nameKindOf(strings.TrimSuffix(en.Path, ".binarypb")); k != "plain" && k != "non-ascii" && k != "long" {
			return true
		}
	}
	return false
}

func (e *env) unusualNames(i int, kind string) {
	c := e.c
	r := c.Rand(i)
	p := newPlan(r)
	p.names = unusualNamePool(r, 2+r.IntN(4))
	if r.IntN(4) == 0 {
		p.outs = pick(r, unusualOutDirs, 1+r.IntN(2))
	}
	length := 12 + r.IntN(19)
	var ses *session
	caller := "fresh-context-per-run"
	if r.IntN(2) == 0 {
		ses = newSession(r)
		caller = "one-reused-context(" + ses.mode + ")"
	}
	gname := fmt.Sprintf("unusual-names store=%s %s runs=%d caller=%s", kind, p, length, caller)
	c.Begin(i, gname, entryPoint, nil)
	w := newWorld(kind)
	defer w.close()
	var hist []string
	epoch := int64(1700000000)
	for s := 0; s < length; s++ {
		a, when := p.next(r, s)
		a.nameKind = nameKindOf(a.name)
		a.tag = "+name:" + a.nameKind
		// the other strings a caller hands over come from the same alphabet
		if r.IntN(2) == 0 {
			a.branch = decorations[r.IntN(len(decorations))]("release-branch")
		}
		if r.IntN(2) == 0 {
			a.commit = []byte(decorations[r.IntN(len(decorations))]("0123abcd"))
		}
		if a.snapshot && r.IntN(2) == 0 {
			a.imageName = decorations[r.IntN(len(decorations)-6)]("fw") + ".fd" // not the names that cannot be carried
			if strings.Contains(a.imageName, "/") || len(a.imageName) > 200 {
				a.imageName = fmt.Sprintf("fw%d.fd", a.img)
			}
		}
		// timestamps: sometimes far from the present, sometimes handed over in another zone
		switch {
		case a.tsClass == "older" && r.IntN(4) == 0:
			when = farPast[r.IntN(len(farPast))].Add(time.Duration(s+1) * time.Nanosecond)
			a.zone = "far-past"
		case a.tsClass == "" && r.IntN(8) == 0:
			if f := farFuture[r.IntN(len(farFuture))]; f > epoch {
				epoch = f
			}
			when = time.Unix(epoch+int64(s), 0)
			a.zone = "far-future"
		case a.tsClass == "":
			when = time.Unix(epoch+int64(s), 0)
		}
		if r.IntN(3) == 0 {
			z := zones[r.IntN(len(zones))]
			when = when.In(z)
			a.zone = strings.TrimPrefix(a.zone+"+"+z.String(), "+")
		}
		p.used[len(p.used)-1] = when
		if kind == "mem-tx" && r.IntN(8) == 0 {
			a.conflicts, a.retries = 1, 1+r.IntN(2)
		}
		pre := w.stores[0].Snapshot()
		unusualBefore := listsUnusual(pre, a.outDir)
		class := mergeClass(pre, &step{outDir: a.outDir, base: a.base(), digest: e.digests[a.img]})
		nf := e.stepOn(i, gname, w, a, when, hist, ses)
		hist = append(hist, a.String())
		res := "failed"
		if e.lastErr == nil {
			res = "ok"
		}
		c.Count("round4/names/runs/"+a.nameKind+"/"+res, 1)
		if !a.snapshot {
			c.Cell("names|%s|%s|manifest-listed-unusual-name=%v|%s|overwrite=%v|%s", kind, a.nameKind, unusualBefore, class, a.ow, res)
			if e.lastErr == nil {
				if a.nameKind == "line-break" {
					e.r4.lineBreakIndexed++
				}
				if unusualBefore {
					e.r4.afterUnusual++
				}
				if class != "fresh" && a.nameKind != "plain" && a.nameKind != "non-ascii" && a.nameKind != "long" {
					e.r4.unusualRefreshed++
				}
			} else if nameNotStorable(kind, a) {
				e.r4.notStorable++
			}
		}
		if a.zone != "" {
			c.Count("round4/names/timestamps/"+a.zone+"/"+res, 1)
		}
		if nf > 0 {
			break
		}
	}
	c.Count("round4/names/histories/"+kind, 1)
	if i%7 == 0 {
		c.Sample(map[string]any{"case": i, "history": gname, "first_runs": hist[:min(3, len(hist))]})
	}
	c.End(i)
}

// ---- the whole of output.Options and the Context switches, drawn per run ----

func (e *env) optionMatrix(i int, kind string) {
	c := e.c
	r := c.Rand(i)
	p := newPlan(r)
	// small pools: the same names come round again for other images
	if len(p.names) > 4 {
		p.names = p.names[:4]
	}
	length := 16 + r.IntN(25)
	pKG := []float64{0.3, 0.5, 0.9}[r.IntN(3)]
	var ses *session
	caller := "fresh-context-per-run"
	if r.IntN(2) == 0 {
		ses = newSession(r)
		caller = "one-reused-context(" + ses.mode + ")"
	}
	gname := fmt.Sprintf("option-matrix store=%s %s p(keep_going)=%.1f runs=%d caller=%s", kind, p, pKG, length, caller)
	c.Begin(i, gname, entryPoint, nil)
	w := newWorld(kind)
	defer w.close()
	var hist []string
	lastKG, first := false, true
	for s := 0; s < length; s++ {
		a, when := p.next(r, s)
		a.keepGoing = r.Float64() < pKG
		switch x := r.IntN(20); {
		case x < 11:
		case x < 16:
			a.verb = "normal"
		case x < 19:
			a.verb = "verbose"
		default:
			a.verb = "use-logs"
		}
		switch x := r.IntN(16); {
		case x == 0:
			a.dry = true
		case x == 1:
			a.measureOnly = true
		}
		switch kind {
		case "mem-tx":
			if r.IntN(6) == 0 {
				a.conflicts, a.retries = 1+r.IntN(2), r.IntN(3)
				if r.IntN(2) == 0 {
					n := action{img: p.imgs[r.IntN(len(p.imgs))], name: p.names[r.IntN(len(p.names))], ow: r.IntN(2) == 0, keepGoing: r.IntN(2) == 0, outDir: a.outDir}
					a.concurrent, a.concTS = &n, time.Unix(1700000000+int64(s), 500_000_000)
				}
			}
		case "mem-wt":
			if !a.snapshot && !a.dry && !a.measureOnly && r.IntN(8) == 0 {
				a.failWrite = true
			}
		}
		if a.dry || a.measureOnly {
			a.conflicts, a.concurrent = 0, nil // nothing is submitted: a scripted conflict would wait for the next run
		}
		how := "real"
		switch {
		case a.dry:
			how = "dry"
		case a.measureOnly:
			how = "measurement-only"
		case a.snapshot:
			how = "snapshot"
		}
		a.tag = fmt.Sprintf("+opts:keep_going=%v,%s", a.keepGoing, a.verb)
		// what the candidate name points at before the run
		pre := w.stores[0].Snapshot()
		target := "free"
		if fb, ok := pre[path.Join(a.outDir, a.base())]; ok {
			target = "other-image"
			if doc, err := decodeEndorsement(fb); err == nil && bytes.Equal(doc.digest, e.digests[a.img]) {
				target = "same-image"
			}
		}
		nf := e.stepOn(i, gname, w, a, when, hist, ses)
		hist = append(hist, a.String())
		res := "failed"
		if e.lastErr == nil {
			res = "ok"
		}
		c.Count(fmt.Sprintf("round4/options/runs/overwrite=%v,keep_going=%v/%s/%s", a.ow, a.keepGoing, how, res), 1)
		c.Cell("options|%s|overwrite=%v|keep_going=%v|%s|%s|candidate-file=%s|%s", kind, a.ow, a.keepGoing, a.verb, how, target, res)
		if how == "real" && a.concurrent == nil {
			e.r4.combos[fmt.Sprintf("%v|%v|%s", a.ow, a.keepGoing, target)] = true
			if a.keepGoing && !a.ow && target == "other-image" {
				e.r4.kgExistingOther++
			}
		}
		if ses != nil && ses.mode != "struct" && !first && lastKG != a.keepGoing {
			e.r4.kgInPlace++
		}
		lastKG, first = a.keepGoing, false
		if nf > 0 {
			break
		}
	}
	c.Count("round4/options/histories/"+kind, 1)
	if i%11 == 0 {
		c.Sample(map[string]any{"case": i, "history": gname, "first_runs": hist[:min(3, len(hist))]})
	}
	c.End(i)
}
