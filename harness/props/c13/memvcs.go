package c13

import (
	"context"
	"errors"
	"fmt"
	"path"
	"sort"
	"strings"

	"github.com/google/gce-tcb-verifier/endorse"
)

// MemVCS is an in-memory model of a version-control system behind endorse.VersionControl:
// a committed head (path -> bytes) and workspaces (the head as it was when the workspace was opened
// plus staged writes, made visible only by TryCommit; a submit does not detect that the head moved
// on, which is the write-write race the repository's RetrySubmit comment is about). In WriteThrough mode every write lands in the head immediately, which is the
// behaviour of testing/nonprod/localnonvcs. It records a call log and can be scripted to fail.
type MemVCS struct {
	Root         string
	WriteThrough bool

	head map[string][]byte

	// FailCommits makes the next n TryCommit calls fail with a retriable error.
	FailCommits int
	// OnConflict, if set, runs once inside the next TryCommit that fails with a scripted conflict:
	// the place where another writer's change lands in the head while this one is in flight. The
	// remaining scripted conflicts are suspended while it runs.
	OnConflict func()
	// FailEndorsementWrite makes the next WriteOrCreateFiles call that carries a *.binarypb file
	// fail without writing anything.
	FailEndorsementWrite bool

	Log       []string
	Commits   int
	Destroyed int
	Results   []string
}

var (
	errMemNotFound  = errors.New("memvcs: no such file")
	errMemRetriable = errors.New("memvcs: commit conflict, sync and retry")
	errMemWrite     = errors.New("memvcs: injected write failure")
	errMemClosed    = errors.New("memvcs: workspace used after commit or destroy")
)

// NewMemVCS returns an empty store.
func NewMemVCS(root string, writeThrough bool) *MemVCS {
	return &MemVCS{Root: root, WriteThrough: writeThrough, head: map[string][]byte{}}
}

func (v *MemVCS) logf(format string, a ...any) { v.Log = append(v.Log, fmt.Sprintf(format, a...)) }

// GetChangeOps opens a workspace on the current head.
func (v *MemVCS) GetChangeOps(context.Context) (endorse.ChangeOps, error) {
	v.logf("GetChangeOps")
	o := &memOps{v: v, overlay: map[string][]byte{}}
	if !v.WriteThrough {
		// a workspace is synced when it is opened (file contents are never modified in place)
		o.base = make(map[string][]byte, len(v.head))
		for k, b := range v.head {
			o.base[k] = b
		}
	}
	return o, nil
}

// RetriableError reports whether err is the scripted commit conflict.
func (v *MemVCS) RetriableError(err error) bool { return errors.Is(err, errMemRetriable) }

// Result records the commit and the endorsement path.
func (v *MemVCS) Result(commit any, endorsementPath string) {
	v.Results = append(v.Results, fmt.Sprintf("%v:%s", commit, endorsementPath))
}

// ReleasePath maps a root-relative path into the store.
func (v *MemVCS) ReleasePath(_ context.Context, certPath string) string {
	return path.Join(v.Root, certPath)
}

// Snapshot returns the committed files keyed by root-relative path (contents are copies).
func (v *MemVCS) Snapshot() map[string][]byte {
	out := make(map[string][]byte, len(v.head))
	prefix := path.Clean(v.Root) + "/"
	for k, b := range v.head {
		out[strings.TrimPrefix(k, prefix)] = append([]byte(nil), b...)
	}
	return out
}

// Load replaces the committed files (keys are root-relative).
func (v *MemVCS) Load(files map[string][]byte) {
	v.Log = nil
	v.head = make(map[string][]byte, len(files))
	for k, b := range files {
		v.head[path.Join(v.Root, k)] = append([]byte(nil), b...)
	}
}

type memOps struct {
	v       *MemVCS
	base    map[string][]byte // nil in write-through mode: reads see the head
	overlay map[string][]byte
	closed  bool
}

func (o *memOps) synced() map[string][]byte {
	if o.base != nil {
		return o.base
	}
	return o.v.head
}

func (o *memOps) WriteOrCreateFiles(_ context.Context, files ...*endorse.File) error {
	if o.closed {
		return errMemClosed
	}
	var names []string
	carriesEndorsement := false
	for _, f := range files {
		names = append(names, f.Path)
		if strings.HasSuffix(f.Path, ".binarypb") {
			carriesEndorsement = true
		}
	}
	sort.Strings(names)
	if carriesEndorsement && o.v.FailEndorsementWrite {
		o.v.FailEndorsementWrite = false
		o.v.logf("Write %v -> injected failure", names)
		return errMemWrite
	}
	o.v.logf("Write %v", names)
	for _, f := range files {
		p := path.Clean(f.Path)
		b := append([]byte(nil), f.Contents...)
		if o.v.WriteThrough {
			o.v.head[p] = b
		} else {
			o.overlay[p] = b
		}
	}
	return nil
}

func (o *memOps) ReadFile(_ context.Context, p string) ([]byte, error) {
	if o.closed {
		return nil, errMemClosed
	}
	p = path.Clean(p)
	if b, ok := o.overlay[p]; ok {
		return append([]byte(nil), b...), nil
	}
	if b, ok := o.synced()[p]; ok {
		return append([]byte(nil), b...), nil
	}
	return nil, fmt.Errorf("%w: %s", errMemNotFound, p)
}

func (o *memOps) SetBinaryWritable(_ context.Context, p string) error {
	if o.closed {
		return errMemClosed
	}
	p = path.Clean(p)
	if _, ok := o.overlay[p]; ok {
		return nil
	}
	if _, ok := o.synced()[p]; ok {
		return nil
	}
	return fmt.Errorf("%w: %s", errMemNotFound, p)
}

func (o *memOps) IsNotFound(err error) bool { return errors.Is(err, errMemNotFound) }

func (o *memOps) Destroy() {
	o.v.Destroyed++
	o.v.logf("Destroy")
	o.closed = true
	o.overlay = nil
}

func (o *memOps) TryCommit(context.Context) (any, error) {
	if o.closed {
		return nil, errMemClosed
	}
	if o.v.FailCommits > 0 {
		o.v.FailCommits--
		if hook := o.v.OnConflict; hook != nil {
			o.v.OnConflict = nil
			o.v.logf("TryCommit -> conflict: another change lands first {")
			rest := o.v.FailCommits
			o.v.FailCommits = 0
			hook()
			o.v.FailCommits = rest
			o.v.logf("} the other change has landed")
			return nil, errMemRetriable
		}
		o.v.logf("TryCommit -> conflict")
		return nil, errMemRetriable
	}
	for p, b := range o.overlay {
		o.v.head[p] = b
	}
	o.v.Commits++
	o.v.logf("TryCommit -> %d", o.v.Commits)
	o.closed = true
	return o.v.Commits, nil
}
